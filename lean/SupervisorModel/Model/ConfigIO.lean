import SupervisorModel.Model.Config
/-
  Line protocol for the configuration model (shared by the C14 and C15 drivers).

  case config <token>*            tokens (all strings hex-encoded UTF-8, "-" = empty):
       H=<here> N=<host node name> X=<key>:<value> (environ_expansions entry, key includes "ENV_")
       D=<existing directory> U=<user name>:<uid> R=<resolvable result handler>
       S=<section name>  O=<option>:<value>  (options belong to the last S)
  ops: status | sup | group <i> | proc <i> <j>
-/
namespace Sv.Config

def hexS (s : String) : String := hexOfBytes (bytesOfString s)

def strOfHex (h : String) : Option String :=
  match bytesOfHex h with
  | some b => String.fromUTF8? (ByteArray.mk b.toArray)
  | none => none

def pairOfHex (p : String) : Option (String × String) :=
  match p.splitOn ":" with
  | [a, b] => match strOfHex a, strOfHex b with
    | some x, some y => some (x, y)
    | _, _ => none
  | _ => none

/-- parse the case tokens; `none` on any malformed token -/
def parseIni : List String → Ini → Option Ini
  | [], ini => some { ini with sections := ini.sections.reverse.map fun s => { s with opts := s.opts.reverse } }
  | t :: rest, ini =>
    match t.splitOn "=" with
    | ["H", v] => (strOfHex v).bind fun x => parseIni rest { ini with here := x }
    | ["N", v] => (strOfHex v).bind fun x => parseIni rest { ini with hostNode := x }
    | ["D", v] => (strOfHex v).bind fun x => parseIni rest { ini with dirs := ini.dirs ++ [x] }
    | ["R", v] => (strOfHex v).bind fun x => parseIni rest { ini with handlers := ini.handlers ++ [x] }
    | ["X", v] => (pairOfHex v).bind fun x => parseIni rest { ini with environ := ini.environ ++ [x] }
    | ["U", v] =>
      match v.splitOn ":" with
      | [a, b] => match strOfHex a, b.toInt? with
        | some x, some n => parseIni rest { ini with users := ini.users ++ [(x, n)] }
        | _, _ => none
      | _ => none
    | ["S", v] => (strOfHex v).bind fun x => parseIni rest { ini with sections := { name := x, opts := [] } :: ini.sections }
    | ["O", v] =>
      match ini.sections, pairOfHex v with
      | s :: ss, some kv => parseIni rest { ini with sections := { s with opts := kv :: s.opts } :: ss }
      | _, _ => none
    | _ => none

def emptyIni : Ini := { sections := [], environ := [], here := "", hostNode := "", dirs := [], users := [], handlers := [] }

def b01 (b : Bool) : String := if b then "1" else "0"
def optS (o : Option String) : String := match o with | some s => hexS s | none => "None"
def optI (o : Option Int) : String := match o with | some n => toString n | none => "None"
def lfS : LogFile → String
  | .none => "None" | .auto => "AUTO" | .syslog => "SYSLOG" | .path p => "P:" ++ hexS p | .resolved => "AUTO"
def restartS : AutoRestart → String
  | .never => "never" | .unexpected => "unexpected" | .always => "always"
def kvLt (a b : String × String) : Bool := decide (a.1 < b.1)
def envS (e : KV) : String :=
  if e.isEmpty then "-" else ",".intercalate ((sortBy kvLt e).map fun p => hexS p.1 ++ ":" ++ hexS p.2)
def intsS (l : List Int) : String := if l.isEmpty then "-" else ",".intercalate (l.map toString)
def pkindS : PKind → String
  | .process => "ProcessConfig" | .listener => "EventListenerConfig" | .fcgi => "FastCGIProcessConfig"
def gkindS : GKind → String
  | .group => "ProcessGroupConfig" | .pool => "EventListenerPoolConfig" | .fcgi => "FastCGIGroupConfig"

def procLine (p : PConfig) : String :=
  s!"p {hexS p.name} kind={pkindS p.kind} cmd={hexS p.command} dir={optS p.directory} umask={optI p.umask} " ++
  s!"prio={p.priority} autostart={b01 p.autostart} autorestart={restartS p.autorestart} startsecs={p.startsecs} " ++
  s!"startretries={p.startretries} uid={optI p.uid} out={lfS p.stdout_logfile} outcap={p.stdout_capture_maxbytes} " ++
  s!"outev={b01 p.stdout_events_enabled} outbk={p.stdout_logfile_backups} outmax={p.stdout_logfile_maxbytes} " ++
  s!"outsys={b01 p.stdout_syslog} err={lfS p.stderr_logfile} errcap={p.stderr_capture_maxbytes} " ++
  s!"errev={b01 p.stderr_events_enabled} errbk={p.stderr_logfile_backups} errmax={p.stderr_logfile_maxbytes} " ++
  s!"errsys={b01 p.stderr_syslog} stopsig={p.stopsignal} stopwait={p.stopwaitsecs} stopasgroup={b01 p.stopasgroup} " ++
  s!"killasgroup={b01 p.killasgroup} exitcodes={intsS p.exitcodes} redirect={b01 p.redirect_stderr} " ++
  s!"env={envS p.environment} url={optS p.serverurl}"

def groupLine (g : GConfig) : String :=
  s!"g {hexS g.name} kind={gkindS g.kind} prio={g.priority} nprocs={g.procs.length} " ++
  (match g.kind with
   | .pool => s!"buffer={g.buffer_size} events={",".intercalate g.pool_events} handler={hexS g.result_handler} socket=-"
   | .fcgi => s!"buffer=- events=- handler=- socket={hexS g.socket}"
   | .group => "buffer=- events=- handler=- socket=-")

def supLine (s : SupSettings) : String :=
  s!"sup minfds={s.minfds} minprocs={s.minprocs} umask={s.umask} maxbytes={s.logfile_maxbytes} " ++
  s!"backups={s.logfile_backups} ident={hexS s.identifier} nodaemon={b01 s.nodaemon} silent={b01 s.silent} " ++
  s!"nocleanup={b01 s.nocleanup} strip_ansi={b01 s.strip_ansi} env={envS s.environment}"

def errLine (e : String) : String :=
  if strStartsWith "exception:" e then "exc " ++ String.ofList (e.toList.drop 10)
  else if strStartsWith "model:" e then "unsupported " ++ e
  else "err"

def answer (r : Except String Result) (op : String) : String :=
  match words op, r with
  | ["status"], .ok res => s!"ok {res.groups.length}"
  | ["status"], .error e => errLine e
  | ["why"], .ok _ => "-"
  | ["why"], .error e => e
  | ["sup"], .ok res => supLine res.sup
  | ["sup"], .error _ => "none"
  | ["group", i], .ok res =>
    match i.toNat? with
    | some i => match res.groups[i]? with | some g => groupLine g | none => "none"
    | none => "bad-op"
  | ["group", _], .error _ => "none"
  | ["proc", i, j], .ok res =>
    match i.toNat?, j.toNat? with
    | some i, some j => match res.groups[i]? with
      | some g => match g.procs[j]? with | some p => procLine p | none => "none"
      | none => "none"
    | _, _ => "bad-op"
  | ["proc", _, _], .error _ => "none"
  | _, _ => "bad-op"

def runCase (cfg : List String) (ops : List String) : List String :=
  match parseIni cfg emptyIni with
  | none => ops.map fun _ => "bad-config"
  | some ini =>
    let r := readConfig ini
    ops.map (answer r)

/-! ## line protocol of the include model

  case include <token>*     H=<directory of the main file>, then S=/O= tokens of the main file's sections (raw values, as
                            ConfigParser tokenises that file alone), then per include pattern P=<abspath(dirname(pattern))>
                            and per matched file (in sorted order) F=<abspath(dirname(file))> followed by its S=/O= tokens
  op:  view                 the parser's sections after read_include_config: S=<name> O=<option>:<value> … -/

def hereMarker : String := "%(here)s"

/-- a raw value split around the occurrences of `%(here)s` -/
def hvalOf (v : String) : HVal :=
  match v.splitOn hereMarker with
  | [] => []
  | p :: ps => HTok.lit p :: ps.flatMap fun q => [HTok.here, HTok.lit q]

def hvalStr (v : HVal) : String :=
  String.join (v.map fun t => match t with | .lit s => s | .here => hereMarker)

structure IncParse where
  here : String := ""
  main : List HSection := []
  pats : List IncPattern := []
  inMain : Bool := true

def IncParse.addSection (st : IncParse) (name : String) : Option IncParse :=
  if st.inMain then some { st with main := st.main ++ [⟨name, []⟩] }
  else match st.pats.getLast?, st.pats.dropLast with
    | some p, ps => match p.files.getLast?, p.files.dropLast with
      | some f, fs => some { st with pats := ps ++ [{ p with files := fs ++ [{ f with sections := f.sections ++ [⟨name, []⟩] }] }] }
      | none, _ => none
    | none, _ => none

def addOptTo (secs : List HSection) (kv : String × String) : Option (List HSection) :=
  match secs.getLast?, secs.dropLast with
  | some s, ss => some (ss ++ [{ s with opts := s.opts ++ [(kv.1, hvalOf kv.2)] }])
  | none, _ => none

def IncParse.addOpt (st : IncParse) (kv : String × String) : Option IncParse :=
  if st.inMain then (addOptTo st.main kv).map fun m => { st with main := m }
  else match st.pats.getLast?, st.pats.dropLast with
    | some p, ps => match p.files.getLast?, p.files.dropLast with
      | some f, fs => (addOptTo f.sections kv).map fun ss => { st with pats := ps ++ [{ p with files := fs ++ [{ f with sections := ss }] }] }
      | none, _ => none
    | none, _ => none

def parseInclude : List String → IncParse → Option IncParse
  | [], st => some st
  | t :: rest, st =>
    match t.splitOn "=" with
    | ["H", v] => (strOfHex v).bind fun x => parseInclude rest { st with here := x }
    | ["P", v] => (strOfHex v).bind fun x => parseInclude rest { st with pats := st.pats ++ [⟨x, []⟩], inMain := false }
    | ["F", v] =>
      match strOfHex v, st.pats.getLast?, st.pats.dropLast with
      | some x, some p, ps => parseInclude rest { st with pats := ps ++ [{ p with files := p.files ++ [⟨x, []⟩] }] }
      | _, _, _ => none
    | ["S", v] => (strOfHex v).bind fun x => (st.addSection x).bind (parseInclude rest)
    | ["O", v] => (pairOfHex v).bind fun kv => (st.addOpt kv).bind (parseInclude rest)
    | _ => none

def viewLine (secs : List HSection) : String :=
  " ".intercalate (secs.flatMap fun s => ("S=" ++ hexS s.name) :: s.opts.map fun kv => "O=" ++ hexS kv.1 ++ ":" ++ hexS (hvalStr kv.2))

def runInclude (cfg : List String) (ops : List String) : List String :=
  match parseInclude cfg {} with
  | none => ops.map fun _ => "bad-config"
  | some st => ops.map fun op =>
    match words op with
    | ["view"] => viewLine (readInclude st.here st.main st.pats)
    | _ => "bad-op"

end Sv.Config
