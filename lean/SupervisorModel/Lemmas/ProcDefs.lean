import SupervisorModel.Model.ProcOps
import SupervisorModel.Lemmas.ProcSimpAttr
/-
  Tags every model definition and every generated guard/update definition with `procdefs`, so
  that property proofs can unfold "everything the code says" with `simp [procdefs]`.
  The list of generated names is refreshed by harness/extract.py users when sites change.
-/
namespace Sv.Proc
open Sv Sv.Gen.Proc

attribute [procdefs] guard emit setP raise assertIn changeState spawnError spawn rollback giveUp kill stop signal
  finishCore tooQuickly finish autoStart toRunning escalate transition stopReport answer rpcStart rpcStop rpcSignal
  groupStop step stepP

attribute [procdefs] stoppedStates runningStates signallableStates moodFATAL moodRUNNING moodRESTARTING
  moodSHUTDOWN faultUNKNOWN_METHOD faultBAD_NAME faultBAD_SIGNAL faultINCORRECT_PARAMETERS faultNO_FILE
  faultNOT_EXECUTABLE faultBAD_ARGUMENTS faultFAILED faultSIGNATURE_UNSUPPORTED faultABNORMAL_TERMINATION
  faultSPAWN_ERROR faultSHUTDOWN_STATE faultALREADY_STARTED faultNOT_RUNNING faultSUCCESS
  faultALREADY_ADDED faultSTILL_RUNNING faultCANT_REREAD sigKILL change_state_a0 change_state_g0
  change_state_a1 change_state_a2 change_state_g1 change_state_a3 change_state_a4 change_state_a5 spawn_g0
  spawn_a3 spawn_a6 spawn_a7 spawn_a8 spawn_c0 spawn_c1_0 spawn_c2 spawn_c3_0 spawn_c4 spawn_c5_0 spawn_c6
  spawn_c7_0 spawn_g3 spawn_as_parent_a0 spawn_as_parent_a3 spawn_as_parent_a5 rollback_g0 rollback_g1
  rollback_a0 rollback_g2 rollback_a1 rollback_g3 rollback_g4 rollback_a2 rollback_g5 rollback_g6
  rollback_a3 rollback_g7 rollback_a4 rollback_g8 rollback_g9 rollback_a5 stop_a0 stop_a1 stop_c0_0
  stop_report_g0 stop_report_a0 stop_report_g1 stop_report_a1 give_up_a0 give_up_a1 give_up_a2 give_up_c0
  give_up_c1_0 kill_a0 kill_g0 kill_c0_0 kill_g1 kill_g2 kill_a7 kill_a8 kill_g3 kill_a11 kill_a12 kill_c1
  kill_c2_0 kill_a13 kill_g4 kill_a14 kill_c3_0 kill_c3_1 kill_c4_0 kill_a19 kill_a20 signal_g0 signal_c0
  signal_c1_0 signal_c1_1 signal_c2_0 finish_a1 finish_a2 finish_g0 finish_a4 finish_a5 finish_a6
  finish_g1 finish_a7 finish_a8 finish_a9 finish_g2 finish_a11 finish_a12 finish_a13 finish_c0 finish_c1_0
  finish_g3 finish_g4 finish_c2 finish_c3_0 finish_a18 finish_a19 finish_a20 finish_g5 finish_c4_0
  finish_c5 finish_g6 finish_c6_0 finish_c6_1 finish_c7_0 finish_c7_1 finish_a24 transition_a0
  transition_a1 transition_g0 transition_g1 transition_g2 transition_g3 transition_g4 transition_g5
  transition_g6 transition_g7 transition_g8 transition_g9 transition_g10 transition_g11 transition_a4
  transition_a5 transition_c0 transition_c1_0 transition_g12 transition_g13 transition_g14 transition_a8
  transition_g15 transition_c2_0

/-- `Subprocess.event_map` (generated table) has a notification class for every state -/
@[simp, procdefs] theorem announces_all : ∀ s : PS, announces s = true := by
  intro s; cases s <;> decide

@[simp] theorem sub_le_zero_iff (a b : Int) : a - b ≤ 0 ↔ a ≤ b := by omega
@[simp] theorem zero_lt_sub_iff (a b : Int) : 0 < a - b ↔ b < a := by omega

end Sv.Proc
