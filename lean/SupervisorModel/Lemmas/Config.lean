/-  Helper lemmas for Props/C14.lean and Props/C15.lean: insertion sort (permutation, sortedness, stability),
    the (priority, name) order of Config.__lt__, Python-dict lookups.  Core Lean only. -/
import SupervisorModel.Model.Config
set_option linter.unusedSimpArgs false
namespace Sv.Config

theorem insertBy_perm {α : Type} (lt : α → α → Bool) (x : α) (l : List α) : (insertBy lt x l).Perm (x :: l) := by
  induction l with
  | nil => simp [insertBy]
  | cons y ys ih =>
    simp only [insertBy]
    split
    · exact (List.Perm.cons y ih).trans (List.Perm.swap x y ys)
    · exact List.Perm.refl _

theorem sortBy_perm {α : Type} (lt : α → α → Bool) (l : List α) : (sortBy lt l).Perm l := by
  induction l with
  | nil => simp [sortBy]
  | cons x xs ih =>
    simp only [sortBy, List.foldr_cons] at ih ⊢
    exact (insertBy_perm lt x _).trans (List.Perm.cons x ih)

/-- what sorting needs from `lt`: asymmetric and negatively transitive (a strict weak order) -/
structure StrictWeak {α : Type} (lt : α → α → Bool) : Prop where
  asymm : ∀ a b, lt a b = true → lt b a = false
  negTrans : ∀ a b c, lt b a = false → lt c b = false → lt c a = false

theorem insertBy_sorted {α : Type} (lt : α → α → Bool) (h : StrictWeak lt) (x : α) (l : List α)
    (hl : l.Pairwise (fun a b => lt b a = false)) : (insertBy lt x l).Pairwise (fun a b => lt b a = false) := by
  induction l with
  | nil => simp [insertBy]
  | cons y ys ih =>
    simp only [insertBy]
    rw [List.pairwise_cons] at hl
    split
    · rename_i hyx
      rw [List.pairwise_cons]
      refine ⟨?_, ih hl.2⟩
      intro z hz
      have := (insertBy_perm lt x ys).mem_iff.mp hz
      rcases List.mem_cons.mp this with rfl | hz'
      · exact h.asymm _ _ hyx
      · exact hl.1 z hz'
    · rename_i hyx
      have hyx' : lt y x = false := by simpa using hyx
      rw [List.pairwise_cons]
      refine ⟨?_, List.pairwise_cons.mpr hl⟩
      intro z hz
      rcases List.mem_cons.mp hz with rfl | hz'
      · exact hyx'
      · exact h.negTrans _ _ _ hyx' (hl.1 z hz')

theorem sortBy_sorted {α : Type} (lt : α → α → Bool) (h : StrictWeak lt) (l : List α) :
    (sortBy lt l).Pairwise (fun a b => lt b a = false) := by
  induction l with
  | nil => simp [sortBy]
  | cons x xs ih =>
    simp only [sortBy, List.foldr_cons] at ih ⊢
    exact insertBy_sorted lt h x _ ih

theorem insertBy_filter {α : Type} (lt : α → α → Bool) (P : α → Bool) (x : α) (l : List α)
    (h : ∀ y, P y = true → P x = true → lt y x = false) :
    (insertBy lt x l).filter P = if P x then x :: l.filter P else l.filter P := by
  induction l with
  | nil => simp [insertBy, List.filter]; split <;> simp_all
  | cons y ys ih =>
    simp only [insertBy]
    split
    · rename_i hyx
      by_cases hy : P y = true
      · have hx : ¬ P x = true := fun hx => by simp [h y hy hx] at hyx
        simp [List.filter_cons, hy, ih, hx]
      · simp [List.filter_cons, hy, ih]
    · simp [List.filter_cons]

/-- stability: elements that `lt` does not distinguish keep their relative order -/
theorem sortBy_stable {α : Type} (lt : α → α → Bool) (P : α → Bool)
    (h : ∀ x y, P x = true → P y = true → lt x y = false) (l : List α) :
    (sortBy lt l).filter P = l.filter P := by
  induction l with
  | nil => simp [sortBy]
  | cons x xs ih =>
    simp only [sortBy, List.foldr_cons] at ih ⊢
    rw [insertBy_filter lt P x _ (fun y hy hx => h y x hy hx), ih]
    by_cases hx : P x = true <;> simp [List.filter_cons, hx]

theorem cfgLt_iff (pa pb : Int) (na nb : String) :
    cfgLt pa na pb nb = true ↔ pa < pb ∨ (pa = pb ∧ na < nb) := by
  unfold cfgLt
  by_cases h : pa = pb
  · subst h; simp
  · have : (pa == pb) = false := by simp [h]
    simp [this, h]

theorem cfgLt_false_iff (pa pb : Int) (na nb : String) :
    cfgLt pa na pb nb = false ↔ pb < pa ∨ (pa = pb ∧ nb ≤ na) := by
  rw [← Bool.not_eq_true, cfgLt_iff]
  constructor
  · intro h
    rcases Int.lt_trichotomy pa pb with h1 | h1 | h1
    · exact absurd (Or.inl h1) h
    · right; refine ⟨h1, ?_⟩
      exact String.not_lt.mp (fun hlt => h (Or.inr ⟨h1, hlt⟩))
    · exact Or.inl h1
  · rintro (h | ⟨h1, h2⟩) (h' | ⟨h3, h4⟩)
    · omega
    · omega
    · omega
    · exact String.not_lt.mpr h2 h4

theorem cfgLt_asymm (pa pb : Int) (na nb : String) : cfgLt pa na pb nb = true → cfgLt pb nb pa na = false := by
  rw [cfgLt_iff, cfgLt_false_iff]
  rintro (h | ⟨h1, h2⟩)
  · exact Or.inl h
  · exact Or.inr ⟨h1.symm, String.not_lt.mp (String.lt_asymm h2)⟩

theorem cfgLt_negTrans (pa pb pc : Int) (na nb nc : String) :
    cfgLt pb nb pa na = false → cfgLt pc nc pb nb = false → cfgLt pc nc pa na = false := by
  rw [cfgLt_false_iff, cfgLt_false_iff, cfgLt_false_iff]
  rintro (h | ⟨h1, h2⟩) (h' | ⟨h3, h4⟩)
  · left; omega
  · left; omega
  · left; omega
  · right; exact ⟨by omega, String.le_trans h2 h4⟩

theorem cfgLt_strictWeak {α : Type} (prio : α → Int) (name : α → String) :
    StrictWeak (fun a b : α => cfgLt (prio a) (name a) (prio b) (name b)) :=
  ⟨fun _ _ => cfgLt_asymm _ _ _ _, fun _ _ _ => cfgLt_negTrans _ _ _ _ _ _⟩

/-! ### dictionaries, ranges, the process loop -/
open Sv.Gen.Config
set_option maxRecDepth 4000

theorem lookup_cons' {α : Type} (k a : String) (b : α) (es : List (String × α)) :
    List.lookup k ((a, b) :: es) = if k = a then some b else List.lookup k es := by
  rw [List.lookup_cons]
  by_cases h : k = a
  · subst h; simp
  · have : (k == a) = false := by simp [h]
    simp [this, h]

theorem lookup_dset {α : Type} (d : List (String × α)) (k k' : String) (v : α) :
    (dset d k' v).lookup k = if k = k' then some v else d.lookup k := by
  induction d with
  | nil => simp only [dset, lookup_cons', List.lookup_nil]
  | cons hd tl ih =>
    obtain ⟨a, b⟩ := hd
    simp only [dset]
    by_cases h : a = k'
    · subst h; simp only [beq_self_eq_true, if_true, lookup_cons']
      by_cases h2 : k = a <;> simp [h2]
    · have : (a == k') = false := by simp [h]
      simp only [this, lookup_cons', ih]
      by_cases h2 : k = a
      · subst h2; simp [h]
      · simp [h2, lookup_cons', ih]

theorem lookup_append' {α : Type} (l₁ l₂ : List (String × α)) (k : String) :
    (l₁ ++ l₂).lookup k = (l₁.lookup k <|> l₂.lookup k) := by
  induction l₁ with
  | nil => simp
  | cons hd tl ih =>
    obtain ⟨a, b⟩ := hd
    simp only [List.cons_append, lookup_cons', ih]
    by_cases h : k = a <;> simp [h]

theorem lookup_dupdate {α : Type} (e d : List (String × α)) (k : String) :
    (dupdate d e).lookup k = (e.reverse.lookup k <|> d.lookup k) := by
  induction e generalizing d with
  | nil => simp [dupdate]
  | cons hd tl ih =>
    obtain ⟨a, b⟩ := hd
    simp only [dupdate, List.foldl_cons] at ih ⊢
    rw [ih, lookup_dset]
    simp only [List.reverse_cons, lookup_append', lookup_cons', List.lookup_nil]
    cases List.lookup k tl.reverse <;> by_cases h : k = a <;> simp [h]

theorem rangeFrom_length (lo : Int) (n : Nat) : (rangeFrom lo n).length = n := by
  induction n generalizing lo with
  | zero => rfl
  | succ k ih => simp [rangeFrom, ih]

theorem rangeFrom_get (lo : Int) (n i : Nat) (h : i < (rangeFrom lo n).length) : (rangeFrom lo n)[i] = lo + i := by
  induction n generalizing lo i with
  | zero => simp [rangeFrom] at h
  | succ k ih =>
    cases i with
    | zero => simp [rangeFrom]
    | succ j =>
      simp only [rangeFrom, List.getElem_cons_succ]
      rw [ih]; omega

/-- the loop produces one process per number, in order, each by `mkProc` on that number -/
theorem procLoop_spec (cx : Ctx) (kind : PKind) (sec : Section) (pre : Pre) (s : XS) (nums : List Int) (ps : List PConfig)
    (h : procLoop cx kind sec pre s nums = .ok ps) :
    ps.length = nums.length ∧
    ∀ i (hi : i < ps.length) (hn : i < nums.length), ∃ si si', mkProc cx kind sec pre si nums[i] = .ok (ps[i], si') := by
  induction nums generalizing s ps with
  | nil => simp [procLoop] at h; subst h; simp
  | cons n rest ih =>
    simp only [procLoop] at h
    split at h
    · contradiction
    · rename_i p s' hmk
      split at h
      · contradiction
      · rename_i ps' hrest
        injection h with h; subst h
        obtain ⟨hl, hall⟩ := ih s' ps' hrest
        refine ⟨by simp [hl], ?_⟩
        intro i hi hn
        cases i with
        | zero => exact ⟨s, s', by simpa using hmk⟩
        | succ j =>
          simp only [List.getElem_cons_succ]
          exact hall j (by simpa using hi) (by simpa using hn)

theorem lookup_none_of_keys {α : Type} (l : List (String × α)) (k : String) (h : ∀ kv ∈ l, kv.1 ≠ k) : l.lookup k = none := by
  induction l with
  | nil => rfl
  | cons hd tl ih =>
    obtain ⟨a, b⟩ := hd
    rw [lookup_cons']
    have : ¬ k = a := fun e => h (a, b) (by simp) e.symm
    rw [if_neg this]
    exact ih (fun kv hkv => h kv (by simp [hkv]))

theorem env_key_ne (a k : String) (hk : k.toList.head? ≠ some 'E') : "ENV_" ++ a ≠ k := by
  intro h
  apply hk
  rw [← h]
  simp [String.toList_append]

theorem envExps_lookup (E : Exps) (env : KV) (k : String) (hk : k.toList.head? ≠ some 'E') :
    (envExps E env).lookup k = E.lookup k := by
  unfold envExps
  induction env generalizing E with
  | nil => rfl
  | cons hd tl ih =>
    simp only [List.foldl_cons]
    rw [ih, lookup_dset]
    have : ¬ k = "ENV_" ++ hd.1 := fun e => env_key_ne hd.1 k hk e.symm
    simp [this]

/-- what a successful `parsePre` says about each option: the typed read of that option succeeded with the
    value stored (so a malformed value of any of them makes `parsePre` fail) -/
theorem parsePre_fields (cx : Ctx) (sec : Section) (E : Exps) (pre : Pre) (h : parsePre cx sec E = .ok pre) :
    let g := fun (opt : String) (locals : List (String × Raw)) => getField cx.penv "program" sec opt locals E
    (g "priority" [] >>= asInt) = .ok pre.priority ∧
    (g "autostart" [] >>= asBool) = .ok pre.autostart ∧
    (g "autorestart" [] >>= asRestart) = .ok pre.autorestart ∧
    (g "startsecs" [] >>= asInt) = .ok pre.startsecs ∧
    (g "startretries" [] >>= asInt) = .ok pre.startretries ∧
    (g "stopsignal" [] >>= asInt) = .ok pre.stopsignal ∧
    (g "stopwaitsecs" [] >>= asInt) = .ok pre.stopwaitsecs ∧
    (g "stopasgroup" [] >>= asBool) = .ok pre.stopasgroup ∧
    (g "killasgroup" [("stopasgroup", .bool pre.stopasgroup)] >>= asBool) = .ok pre.killasgroup ∧
    (g "exitcodes" [] >>= asInts) = .ok pre.exitcodes ∧
    (g "redirect_stderr" [] >>= asBool) = .ok pre.redirect_stderr ∧
    (g "numprocs" [] >>= asInt) = .ok pre.numprocs ∧
    (g "numprocs_start" [] >>= asInt) = .ok pre.numprocs_start ∧
    (g "environment" [] >>= asStr) = .ok pre.environment_str ∧
    (g "stdout_capture_maxbytes" [] >>= asInt) = .ok pre.stdout_cmaxbytes ∧
    (g "stdout_events_enabled" [] >>= asBool) = .ok pre.stdout_events ∧
    (g "stderr_capture_maxbytes" [] >>= asInt) = .ok pre.stderr_cmaxbytes ∧
    (g "stderr_events_enabled" [] >>= asBool) = .ok pre.stderr_events ∧
    (g "process_name" [] >>= asStr) = .ok pre.process_name := by
  simp only [parsePre, bind, Except.bind, pure, Except.pure] at h
  repeat (split at h <;> try contradiction)
  injection h with h
  subst h
  simp only [bind, Except.bind]
  simp [*]

theorem processesUnsorted_ok (cx : Ctx) (kind : PKind) (sec : Section) (suffix g : String) (ps : List PConfig)
    (h : processesUnsorted cx kind sec suffix g = .ok ps) :
    ∃ pn pre, processOrGroupName suffix = .ok pn ∧ parsePre cx sec (commonExps cx pn g) = .ok pre ∧
      checkPre pre = .ok () ∧ procLoop cx kind sec pre (preLoopXS cx pre (commonExps cx pn g)) (procNums pre) = .ok ps := by
  simp only [processesUnsorted, bind, Except.bind] at h
  repeat (split at h <;> try contradiction)
  rename_i _ pn h1 _ pre h2 _ u h3
  exact ⟨pn, pre, h1, h2, by cases u; exact h3, h⟩

theorem procNums_eq (pre : Pre) : procNums pre = rangeFrom pre.numprocs_start pre.numprocs.toNat := by
  simp only [procNums, procNumLo, procNumHi]
  congr 1
  omega

theorem isError_of_not_ok {α : Type} (x : Except String α) (h : ∀ a, x ≠ .ok a) : ∃ e, x = .error e := by
  cases x with
  | error e => exact ⟨e, rfl⟩
  | ok a => exact absurd rfl (h a)

/-! ### the dictionaries of the numprocs loop: what the generated placement facts give -/

theorem bind_ok {α β : Type} (x : Except String α) (f : α → Except String β) (r : β) :
    (x >>= f) = .ok r ↔ ∃ a, x = .ok a ∧ f a = .ok r := by
  cases x <;> simp [bind, Except.bind]

/-- the state in front of the loop: `common_expansions` built, `expansions` not yet bound -/
def freshXS (C : Exps) : XS := { common := C, cur := [], aliased := false }

/-- GENERATED FACT USED: no statement binds `expansions` in front of the loop -/
theorem preLoopXS_eq (cx : Ctx) (pre : Pre) (C : Exps) : preLoopXS cx pre C = freshXS C := by
  simp only [preLoopXS, pfsPreLoop, List.foldl, freshXS]

/-- GENERATED FACT USED: the first statement of the loop body binds `expansions` to a fresh copy of
    `common_expansions`, so whatever the previous round left in `expansions` is gone -/
theorem loopHead_fresh (cx : Ctx) (pre : Pre) (s : XS) (num : Int) :
    loopHead cx pre s num = loopHead cx pre (freshXS s.common) num := by
  simp only [loopHead, pfsLoopHead, List.foldl, applyStep, freshXS]

theorem loopHead_common (cx : Ctx) (pre : Pre) (s : XS) (num : Int) :
    (loopHead cx pre s num).common = s.common ∧ (loopHead cx pre s num).aliased = false := by
  simp [loopHead, pfsLoopHead, List.foldl, applyStep, XS.mut]

/-- what the dictionary the loop body starts from binds: the ENV_ expansions first, then `numprocs` and
    `process_num` of this round, then `common_expansions` (stated on lookups, so that the order in which the
    source sets the two numbers does not matter) -/
theorem loopHead_lookup (cx : Ctx) (pre : Pre) (s : XS) (num : Int) (k : String) :
    (loopHead cx pre s num).cur.lookup k =
      (cx.senv.reverse.lookup k <|> if k = "numprocs" then some (.i pre.numprocs) else if k = "process_num" then some (.i num)
                                    else s.common.lookup k) := by
  simp only [loopHead, pfsLoopHead, List.foldl, applyStep, XS.mut, lookup_dupdate, lookup_dset] <;>
    (by_cases h1 : k = "numprocs" <;> by_cases h2 : k = "process_num" <;> simp [h1, h2])

theorem mut_common (s : XS) (f : Exps → Exps) (ha : s.aliased = false) :
    (s.mut f).common = s.common ∧ (s.mut f).aliased = false := by
  simp [XS.mut, ha]

theorem loopGet_common (cx : Ctx) (sec : Section) (opt : String) (s : XS) (r : CVal × XS)
    (h : loopGet cx sec opt s = .ok r) (ha : s.aliased = false) : r.2.common = s.common ∧ r.2.aliased = false := by
  simp only [loopGet, bind_ok] at h
  obtain ⟨row, _, passes, _, r, _, v', _, h⟩ := h
  simp only [pure, Except.pure] at h
  injection h with h
  subst h
  dsimp only
  split
  · exact mut_common s _ ha
  · exact ⟨rfl, ha⟩

theorem logSet_common (cx : Ctx) (sec : Section) (k : String) (s : XS) (r : LogSet × XS)
    (h : logSet cx sec s k = .ok r) (ha : s.aliased = false) : r.2.common = s.common ∧ r.2.aliased = false := by
  simp only [logSet, bind_ok] at h
  obtain ⟨a, h1, lf0, _, lf1, _, lf, _, b, h2, backups, _, m, h3, maxbytes, _, y, h4, syslog, _, h⟩ := h
  obtain ⟨c1, a1⟩ := loopGet_common cx sec _ s a h1 ha
  obtain ⟨c2, a2⟩ := loopGet_common cx sec _ a.2 b h2 a1
  obtain ⟨c3, a3⟩ := loopGet_common cx sec _ b.2 m h3 a2
  obtain ⟨c4, a4⟩ := loopGet_common cx sec _ m.2 y h4 a3
  simp only [pure, Except.pure] at h
  injection h with h
  subst h
  exact ⟨by dsimp only; rw [c4, c3, c2, c1], a4⟩

theorem procBody_common (cx : Ctx) (kind : PKind) (sec : Section) (pre : Pre) (s : XS) (r : PConfig × XS)
    (h : procBody cx kind sec pre s = .ok r) (ha : s.aliased = false) : r.2.common = s.common ∧ r.2.aliased = false := by
  simp only [procBody, bind_ok] at h
  obtain ⟨envStr, _, env, _, d, h1, dir, _, out, h2, err, h3, c, h4, co, _, cmd, _, nameX, _, name, _, h⟩ := h
  have h0 : (if pfsWriteBack = true then s.mut (fun e => envExps e env) else s).common = s.common ∧
            (if pfsWriteBack = true then s.mut (fun e => envExps e env) else s).aliased = false := by
    split
    · exact mut_common s _ ha
    · exact ⟨rfl, ha⟩
  obtain ⟨c1, a1⟩ := loopGet_common cx sec _ _ d h1 h0.2
  obtain ⟨c2, a2⟩ := logSet_common cx sec _ _ out h2 a1
  obtain ⟨c3, a3⟩ := logSet_common cx sec _ _ err h3 a2
  obtain ⟨c4, a4⟩ := loopGet_common cx sec _ _ c h4 a3
  simp only [pure, Except.pure] at h
  injection h with h
  subst h
  exact ⟨by dsimp only; rw [c4, c3, c2, c1, h0.1], a4⟩

/-- what the previous round left in `expansions` has no influence on this round -/
theorem mkProc_fresh (cx : Ctx) (kind : PKind) (sec : Section) (pre : Pre) (s : XS) (num : Int) :
    mkProc cx kind sec pre s num = mkProc cx kind sec pre (freshXS s.common) num := by
  simp only [mkProc]
  rw [loopHead_fresh]

/-- a round never changes `common_expansions` -/
theorem mkProc_common (cx : Ctx) (kind : PKind) (sec : Section) (pre : Pre) (s : XS) (num : Int) (r : PConfig × XS)
    (h : mkProc cx kind sec pre s num = .ok r) : r.2.common = s.common := by
  obtain ⟨hc, ha⟩ := loopHead_common cx pre s num
  rw [← hc]
  exact (procBody_common cx kind sec pre _ r h ha).1

theorem procLoop_fresh (cx : Ctx) (kind : PKind) (sec : Section) (pre : Pre) (s : XS) (nums : List Int) :
    procLoop cx kind sec pre s nums = procLoop cx kind sec pre (freshXS s.common) nums := by
  cases nums with
  | nil => rfl
  | cons n rest => simp only [procLoop]; rw [mkProc_fresh]

/-- every process of the loop is what the loop body yields when it runs FIRST for that number -/
theorem procLoop_independent (cx : Ctx) (kind : PKind) (sec : Section) (pre : Pre) (s : XS) (nums : List Int) (ps : List PConfig)
    (h : procLoop cx kind sec pre s nums = .ok ps) :
    ∀ i (hi : i < ps.length) (hn : i < nums.length), ∃ s', mkProc cx kind sec pre (freshXS s.common) nums[i] = .ok (ps[i], s') := by
  induction nums generalizing s ps with
  | nil => intro i hi hn; simp at hn
  | cons n rest ih =>
    simp only [procLoop] at h
    split at h
    · contradiction
    · rename_i p s' hmk
      split at h
      · contradiction
      · rename_i ps' hrest
        injection h with h; subst h
        have hc : s'.common = s.common := mkProc_common cx kind sec pre s n (p, s') hmk
        intro i hi hn
        cases i with
        | zero => exact ⟨s', by rw [← mkProc_fresh]; simpa using hmk⟩
        | succ j =>
          simp only [List.getElem_cons_succ]
          rw [← hc]
          exact ih s' ps' hrest j (by simpa using hi) (by simpa using hn)

/-- leaving out the first `k` rounds does not change the remaining processes -/
theorem procLoop_drop (cx : Ctx) (kind : PKind) (sec : Section) (pre : Pre) (s : XS) (nums : List Int) (ps : List PConfig)
    (h : procLoop cx kind sec pre s nums = .ok ps) (k : Nat) :
    procLoop cx kind sec pre (freshXS s.common) (nums.drop k) = .ok (ps.drop k) := by
  induction k generalizing s nums ps with
  | zero => simpa [← procLoop_fresh] using h
  | succ k ih =>
    cases nums with
    | nil => simp only [procLoop] at h; injection h with h; subst h; simp [procLoop]
    | cons n rest =>
      simp only [procLoop] at h
      split at h
      · contradiction
      · rename_i p s' hmk
        split at h
        · contradiction
        · rename_i ps' hrest
          injection h with h; subst h
          have hc : s'.common = s.common := mkProc_common cx kind sec pre s n (p, s') hmk
          simp only [List.drop_succ_cons]
          rw [← hc]
          exact ih s' rest ps' hrest
end Sv.Config
