"""
C09 -- events reach exactly the subscribed pools, in order, and are not lost.

Implementation: real EventListenerPool(s), real events.notify/subscribe, real Subprocess +
dispatchers per listener (props/listener_world.py).  Correspondence against Model/Pool.lean.
Monitors: an independent listener-side parser of every listener's stdin, the accounting law
(accepted = delivered-OK + overflow-discarded after a final drain), the same law step by step
(`Run.ledger`: every accepted event is in exactly one place -- buffered / held by one listener /
answered OK / discarded -- and the pool's queue order: sent and discarded events are the oldest),
serial uniqueness, poolserial order, per-pool FIFO order of first deliveries, reject isolation,
listener isolation.  "Subscribed" is decided from the documented type hierarchy (docs/events.rst, "*Subtype Of*";
sites/events.py `documented_hierarchy`), never from issubclass(): the classes are what is being checked.
"""
from props.listener_world import World, hexs, parse_stdin, DocTypes, exec_op, pools_spec

ID = 'C09'
LEAN_PROPS = 'SupervisorModel.Props.C09'
DRIVER = 'drv_c09'
GENERATED = ['Listener', 'Events', 'Pool']
TRUSTED = [
    "pools removed and added at run time are slots of the model world: a pool that is added again (supervisorctl update) is a new slot, possibly of the same name; "
    "the history theorems assume pairwise distinct names over all slots, same-name re-additions are covered by the correspondence runs and the monitors",
    "callbacks.remove((type, callback)) raising ValueError for a pair that is not subscribed is outside the model (a pool is unsubscribed once, by before_remove)",
    "docs/events.rst of the tree under verification is the reference for the event type hierarchy (its \"*Subtype Of*\" lines; parsed by harness/sites/events.py)",
    "event payloads are ASCII in this check (the len: header of non-ASCII payloads is C11 / finding F2)",
    "the listeners' own Subprocess.transition() (start/stop policy) is outside the Pool model; their process state is set by the harness",
    "overflow discards are observed as error-level entries of the pool's logger (pool name and the last integer in the entry)",
    "the serial wrap at sys.maxsize is modelled (generated constant) and accounted for exactly by the theorems (serial_unique holds for any two events fewer than 2^63 emissions apart); it is never reached in a run, so the monitors see no wrap",
]
ASSUMPTIONS = ["pool names are pairwise distinct (section names of the configuration file) and every listener is its own Subprocess object",
               "a closed anonymous pipe never gets a reader again (EPIPE is sticky)"]
RULE = ("pools leave and join at run time (the real Supervisor.remove_process_group / add_process_group: removals with a live "
        "listener -- refused -- and after a stop; additions of new pools and of pools under the name of a removed one) while the "
        "other pools keep receiving events of shared types and keep rejecting; "
        "cases = 1-3 pools with overlapping/disjoint subscriptions (concrete types, abstract supertypes, a type together "
        "with its supertype, siblings; hand-picked sets and sets drawn from the whole documented type table), 1-3 listeners each "
        "(names unique or shared across pools), buffer sizes 1-5; op lists of notify (every documented concrete type) / listener "
        "READY, OK, FAIL, garbage, fragmented answers (cut between result header and body or anywhere, with a death, a pool pass or "
        "a new event between the two reads) / pool transition / pipe capacity, EPIPE / process state / death (with or without "
        "unread answer bytes in the pipe) and respawn, followed by a drain phase; exhaustive: the subscription matrix (a pool per "
        "documented type x an event of every documented type) and every answer x every cut x {rest arrives, pool pass, death}; "
        "non-trivial = at least one event delivered; distinct = distinct canonical op lists")

TYPE_SETS = [['TICK_5'], ['TICK'], ['TICK', 'TICK_5'], ['EVENT'], ['PROCESS_STATE'], ['PROCESS_STATE', 'PROCESS_STATE_EXITED'],
             ['PROCESS_COMMUNICATION_STDOUT', 'TICK_60'], ['REMOTE_COMMUNICATION'], ['EVENT', 'TICK_5', 'TICK'],
             ['PROCESS_GROUP', 'SUPERVISOR_STATE_CHANGE'], ['TICK_60', 'TICK_5']]
EMIT = ['TICK_5', 'TICK_5', 'TICK_60', 'TICK_3600', 'REMOTE_COMMUNICATION', 'PROCESS_COMMUNICATION_STDOUT', 'PROCESS_STATE_RUNNING',
        'PROCESS_GROUP_ADDED', 'SUPERVISOR_STATE_CHANGE_RUNNING', 'PROCESS_LOG_STDERR', 'PROCESS_STATE_EXITED']
READY = b'READY\n'


def subscribed(types, clsname):
    """is a pool whose events= line lists `types` subscribed to events of the type named `clsname`?  Decided from the
    documented hierarchy (docs/events.rst, "*Subtype Of*"), not from the classes: the classes are what is checked."""
    return DocTypes.get().subscribed(types, clsname)


class Run:
    def __init__(self, ctx, handler, pools, script, names='unique'):
        # pools: one slot per configured pool, (name, buffer_size, listeners, types[, 'absent']); see listener_world.World
        self.ctx, self.handler, self.spec = ctx, handler, pools
        self.pools = pools = [tuple(p[:4]) for p in pools]
        self.w = World(self.spec, handler=handler, names=names)
        # which pools are in the daemon, kept from the answers of the remove / add calls (not read off the objects)
        self.live = [not (len(p) > 4 and p[4] == 'absent') for p in self.spec]
        self.ops, self.lines = [], []
        self.viol = []
        self.accepted = [dict() for _ in pools]      # pool -> {evid: count of notify matches (must be offered once)}
        self.ok = [dict() for _ in pools]            # evid -> times answered OK
        self.discarded = [dict() for _ in pools]     # serial -> times
        self.first_sent = [[] for _ in pools]        # poolserials in order of envelope starts
        self.nbuffered = [0 for _ in pools]          # undelivered events per pool after the previous operation
        # conservation, step by step (the Lean theorem `conservation` as a trace monitor over observables only):
        # where each accepted event of each pool is -- 'buf' | ('held', listener) | 'ok' | 'discarded'
        self.place = [dict() for _ in pools]
        self.queue = [[] for _ in pools]             # the pool's undelivered events, oldest first, as the statement orders them
        self.pid = 100
        self.aborted = False      # a remove / add call let an exception escape: the history ends there
        for op in script:
            self.do(op)

    def pool_view(self, qi):
        pool = self.w.pools[qi]
        if pool is None:
            return (None, None)
        buf = getattr(pool, 'event_buffer', None)
        return (tuple(self.w.evids.get(id(e)) for e in buf) if buf is not None else None, getattr(pool, 'serial', None))

    # -- one operation ----------------------------------------------------------------------
    def do(self, op):
        w = self.w
        if self.aborted:
            return
        t = op.split()
        before = [[w.lstate(pi, li) for li in range(len(ls))] for pi, ls in enumerate(w.listeners)]
        ev0 = w.next_ev
        before_pools = [self.pool_view(qi) for qi in range(len(w.pools))]
        op, outs, err = exec_op(w, self.pools, op)
        if op is None:
            return
        t = op.split()
        # pools removed / added: the call's own answer decides whether the pool is in the daemon from now on.  The
        # PROCESS_GROUP event of the call is emitted after the table changed: a pool that was just added (and subscribed)
        # is offered its own PROCESS_GROUP_ADDED, a pool that was just removed is not offered its PROCESS_GROUP_REMOVED
        if t[0] in ('remove', 'add'):
            self.group_call(op, t, outs, ev0)
            if err != '-':
                # remove_process_group / add_process_group of a pool raised: whether the pool is in the daemon and
                # subscribed is anybody's guess from here on (reported below as exception-escaped)
                self.aborted = True
        # every event emitted during this operation: which pools must be offered it (by its class alone): the pools
        # that are in the daemon and subscribed to its type or one of its documented supertypes
        for evid in range(ev0, w.next_ev):
            cname = w.events.getEventNameByType(type(w.evobjs[evid]))
            for qi, (name, bs, nl, types) in enumerate(self.pools):
                if cname is not None and self.live[qi] and subscribed(types, cname):
                    self.accepted[qi][evid] = 1
                    # observable at once: an accepted event carries the pool's poolserial (the header's poolserial:)
                    if name not in (getattr(w.evobjs[evid], 'pool_serials', None) or {}):
                        self.viol.append(('event-not-offered-to-subscribed-pool',
                                          'pool %s (events=%s, in the daemon) was not offered event %d (%s) emitted during %r' % (
                                              name, ','.join(types), evid, cname, op)))
            # ... and no pool that is not in the daemon (removed, or not added yet) takes it
            for pname in (getattr(w.evobjs[evid], 'pool_serials', None) or {}):
                if not any(self.live[qi] and p[0] == pname for qi, p in enumerate(self.pools)):
                    self.viol.append(('event-offered-to-pool-not-in-daemon',
                                      'event %d (%s) emitted during %r was accepted by pool %s, which is not in supervisord.process_groups' % (
                                          evid, cname, op, pname)))
        self.ops.append(op)
        self.lines.append('%s | %s' % (';'.join(outs) if outs else '-', err))
        self.ctx.count('op:' + t[0])
        if err != '-' and not err.startswith('OSError:11'):
            self.viol.append(('exception-escaped:' + err.split(':')[0], '%r raised %s' % (op, err)))
        for qi in range(len(self.pools)):
            for evid in range(ev0, w.next_ev):
                if evid in self.accepted[qi] and evid not in self.place[qi]:
                    self.place[qi][evid] = 'buf'
        # the observations of this operation in order, including where each new event was emitted ('ev:' markers):
        # a newly accepted event joins its pools' queues at the tail at that moment
        self.ledger(op, list(w.full_trace) if t[0] not in ('cap', 'breakpipe') else outs)
        for o in outs:
            f = o.split(':')
            self.ctx.count('out:' + f[0])
            if f[0] == 'ls' and f[2] == 'READY>BUSY':
                qi, qli = [int(x) for x in f[1].split('.')]
                held = w.proc(qi, qli).event
                ps = getattr(held, 'pool_serials', {}).get(self.pools[qi][0])
                if ps is not None:
                    self.first_sent[qi].append(ps)
            if f[0] == 'h' and f[3] == '4f4b' and f[2].isdigit():
                pi = int(f[1].split('.')[0])
                self.ok[pi][int(f[2])] = self.ok[pi].get(int(f[2]), 0) + 1
            if f[0] == 'discard':
                pi = int(f[1])
                self.discarded[pi][int(f[2])] = self.discarded[pi].get(int(f[2]), 0) + 1
        # buffer bound: events accepted by a pool and neither answered OK, discarded nor held by a listener are buffered
        by_serial = {getattr(ev, 'serial', None): i for i, ev in enumerate(w.evobjs)}
        for qi, (name, bs, nl, types) in enumerate(self.pools):
            gone = set(self.ok[qi]) | {by_serial.get(sn) for sn in self.discarded[qi]}
            held = {w.evids.get(id(p.event)) for p in w.listeners[qi] if p.event is not None}
            buffered = [e for e in self.accepted[qi] if e not in gone and e not in held]
            if len(buffered) > bs:
                self.viol.append(('buffer-bound-exceeded', 'pool %s (buffer_size %d) holds %d undelivered events %r after %r' % (name, bs, len(buffered), buffered, op)))
            # overflow discards only what does not fit: an event is discarded only to make room for one that enters the
            # buffer (a newly accepted event, or an event returned by a listener), and only when the buffer is full
            entered = sum(1 for evid in range(ev0, w.next_ev) if evid in self.accepted[qi]) + \
                sum(1 for o in outs if o.startswith('rej:%d.' % qi))
            ndisc = sum(1 for o in outs if o.startswith('discard:%d:' % qi))
            if ndisc > max(0, self.nbuffered[qi] + entered - bs):
                self.viol.append(('discarded-more-than-overflow',
                                  'pool %s (buffer_size %d) held %d undelivered events, %d entered the buffer during %r, but %d were discarded'
                                  % (name, bs, self.nbuffered[qi], entered, op, ndisc)))
            self.nbuffered[qi] = len(buffered)
        # reject isolation: whatever a listener writes (FAIL, garbage ...) leaves every other pool's queue and
        # poolserial counter alone (best-effort view of the pool objects, and in any case the accounting monitors)
        if t[0] == 'read':
            for qi, pool in enumerate(w.pools):
                if qi != int(t[1]) and self.pool_view(qi) != before_pools[qi]:
                    self.viol.append(('reject-not-isolated', 'output of listener %s.%s changed pool %s: %r -> %r' % (
                        t[1], t[2], self.pools[qi][0], before_pools[qi], self.pool_view(qi))))
        # listener isolation: bytes from one listener change nothing in any other listener
        if t[0] == 'read':
            pi0, li0 = int(t[1]), int(t[2])
            for pi, ls in enumerate(w.listeners):
                for li in range(len(ls)):
                    if (pi, li) != (pi0, li0) and w.lstate(pi, li) != before[pi][li]:
                        self.viol.append(('listener-disturbed', 'bytes from listener %d.%d changed listener %d.%d: %s -> %s' % (pi0, li0, pi, li, before[pi][li], w.lstate(pi, li))))

    def group_call(self, op, t, outs, ev0):
        """a remove_process_group / add_process_group call on a pool, judged in the property's terms"""
        w = self.w
        qi = int(t[1])
        name = self.pools[qi][0]
        res = next((o[4:] for o in outs if o.startswith('res:')), 'none')
        was = self.live[qi]
        alive = any(p.pid for p in w.listeners[qi]) if t[0] == 'remove' else False
        emitted = [w.events.getEventNameByType(type(w.evobjs[e])) for e in range(ev0, w.next_ev)]
        if t[0] == 'remove':
            # refused exactly when one of its listeners has a live child; a refused call changes nothing
            if (res == 'false') != alive or res not in ('true', 'false'):
                self.viol.append(('pool-removal-answer-wrong', '%r answered %s; the pool has %s live listener' % (op, res, 'a' if alive else 'no')))
            if res == 'true':
                self.live[qi] = False
                # the pool is gone, and what it had not delivered went with it: its account is closed
                for evid, where in list(self.place[qi].items()):
                    if where == 'buf' or isinstance(where, tuple):
                        self.place[qi][evid] = 'gone-with-pool'
                self.queue[qi] = []
            want = ['PROCESS_GROUP_REMOVED'] if res == 'true' else []
        else:
            if (res == 'true') != (not was) or res not in ('true', 'false'):
                self.viol.append(('pool-addition-answer-wrong', '%r answered %s; the pool was %sin the daemon' % (op, res, '' if was else 'not ')))
            if res == 'true':
                self.live[qi] = True
            want = ['PROCESS_GROUP_ADDED'] if res == 'true' else []
        if emitted != want:
            self.viol.append(('group-call-emitted-wrong-events', '%r answered %s and emitted %r' % (op, res, emitted)))
        self.ctx.count('group-call:%s:%s' % (t[0], res))

    def ledger(self, op, outs):
        """every accepted event of a pool is in exactly one place at every moment: it is handed to a listener only
        from the buffer (never while another listener of the pool holds it, never after it is gone), only the
        listener holding it answers for it or gives it back, and only a buffered event is discarded"""
        w = self.w
        by_serial = {getattr(ev, 'serial', None): i for i, ev in enumerate(w.evobjs)}
        pend = []        # an event given back by a listener goes to the head -- after the overflow rule has made room

        def settle():
            while pend:
                qi_, ev_ = pend.pop()
                self.queue[qi_].insert(0, ev_)

        def take(qi_, ev_, kind, what):
            q = self.queue[qi_]
            if not q or q[0] != ev_:
                self.viol.append((kind, 'pool %s %s event %r during %r, but its oldest undelivered event is %r (queue %r)' % (
                    self.pools[qi_][0], what, ev_, op, q[0] if q else None, q)))
            if ev_ in q:
                q.remove(ev_)

        for o in outs:
            f = o.split(':')
            if f[0] == 'ev':
                settle()
                for qi_ in range(len(self.pools)):
                    if int(f[1]) in self.accepted[qi_] and int(f[1]) not in self.queue[qi_]:
                        self.queue[qi_].append(int(f[1]))
                continue
            if f[0] == 'discard':
                qi = int(f[1])
                if 0 <= qi < len(self.pools):
                    if pend and pend[-1][0] != qi:
                        settle()
                    take(qi, by_serial.get(int(f[2])) if f[2].lstrip('-').isdigit() else None, 'discarded-not-oldest', 'discarded')
            settle()
            if f[0] == 'ls' and f[2] == 'READY>BUSY':
                qi, qli = [int(x) for x in f[1].split('.')]
                take(qi, w.evids.get(id(w.proc(qi, qli).event)), 'sent-not-oldest', 'sent')
            elif f[0] == 'rej' and f[2].isdigit():
                pend.append((int(f[1].split('.')[0]), int(f[2])))
        settle()
        for o in outs:
            f = o.split(':')
            if f[0] == 'ls' and f[2] == 'READY>BUSY':
                qi, qli = [int(x) for x in f[1].split('.')]
                evid = w.evids.get(id(w.proc(qi, qli).event))
                where = self.place[qi].get(evid)
                if where != 'buf':
                    kind = 'event-sent-to-unsubscribed-pool' if where is None else \
                        'event-sent-while-held' if isinstance(where, tuple) else 'event-sent-after-it-left-the-pool'
                    self.viol.append((kind, 'pool %s handed event %r to listener %d during %r while it was %r' % (
                        self.pools[qi][0], evid, qli, op, where)))
                self.place[qi][evid] = ('held', qli)
            elif f[0] in ('h', 'rej') and f[2] != '-':
                qi, qli = [int(x) for x in f[1].split('.')]
                evid = int(f[2]) if f[2].isdigit() else None
                where = self.place[qi].get(evid)
                if f[0] == 'rej':
                    if where != ('held', qli):
                        self.viol.append(('rejected-event-not-held', 'listener %d.%d gave back event %r during %r, which was %r' % (qi, qli, evid, op, where)))
                    self.place[qi][evid] = 'buf'
                elif f[3] == '4f4b':
                    if where != ('held', qli):
                        self.viol.append(('ok-for-event-not-held', 'listener %d.%d answered OK for event %r during %r, which was %r' % (qi, qli, evid, op, where)))
                    self.place[qi][evid] = 'ok'
            elif f[0] == 'discard':
                qi = int(f[1])
                evid = by_serial.get(int(f[2])) if f[2].lstrip('-').isdigit() else None
                where = self.place[qi].get(evid) if 0 <= qi < len(self.pools) else None
                if where != 'buf':
                    self.viol.append(('discarded-event-not-buffered', 'pool %d logged the discard of serial %s (event %r) during %r, which was %r' % (qi, f[2], evid, op, where)))
                if 0 <= qi < len(self.pools):
                    self.place[qi][evid] = 'discarded'

    # -- end of scenario: drain every pool through a fresh well-behaved listener -------------
    def drain(self):
        w = self.w
        for pi, ls in enumerate(w.listeners):
            if not w.active(pi):
                continue
            for li in range(len(ls)):
                if w.proc(pi, li).pid:
                    self.do('die %d %d - x' % (pi, li))
            self.pid += 1
            self.do('spawn %d 0 %d' % (pi, self.pid))
            self.do('pstate %d 0 running' % pi)
            for _ in range(60):
                self.do('read %d 0 %s' % (pi, READY.hex()))
                self.do('transition %d' % pi)
                if w.lstate(pi, 0)[0] != 'BUSY':
                    break
                self.do('read %d 0 %s' % (pi, b'RESULT 2\nOK'.hex()))
            # the drain listener of this pool leaves before the next pool is drained, so that the
            # PROCESS_STATE events of later drains are accounted for like any other event
        # a second pass: events emitted by the drain itself (listener deaths) may sit in earlier pools
        for pi, ls in enumerate(w.listeners):
            if not w.active(pi):
                continue
            for _ in range(60):
                if w.lstate(pi, 0)[0] == 'ACKNOWLEDGED':
                    self.do('read %d 0 %s' % (pi, READY.hex()))
                self.do('transition %d' % pi)
                if w.lstate(pi, 0)[0] != 'BUSY':
                    break
                self.do('read %d 0 %s' % (pi, b'RESULT 2\nOK'.hex()))

    def monitors(self):
        w = self.w
        serial_of = {}
        for i, ev in enumerate(w.evobjs):
            if hasattr(ev, 'serial'):
                serial_of[i] = ev.serial
        # serial uniqueness
        if len(set(serial_of.values())) != len(serial_of):
            self.viol.append(('serial-not-unique', 'two events share a serial: %r' % sorted(serial_of.items())))
        by_serial = {v: k for k, v in serial_of.items()}
        for pi, (name, bs, nl, types) in enumerate(self.pools):
            acc = set(self.accepted[pi])
            ok = self.ok[pi]
            disc = {by_serial.get(s, ('serial', s)): n for s, n in self.discarded[pi].items()}
            for e in acc:
                n = ok.get(e, 0) + disc.get(e, 0)
                if n == 0 and self.place[pi].get(e) == 'gone-with-pool':
                    continue        # undelivered when the operator removed the pool
                if n == 0:
                    self.viol.append(('event-lost', 'pool %s: event %d (%s) was neither answered OK nor discarded with a log entry' % (name, e, type(w.evobjs[e]).__name__)))
                elif n > 1:
                    self.viol.append(('event-duplicated', 'pool %s: event %d left the pool %d times (OK %d, discarded %d)' % (name, e, n, ok.get(e, 0), disc.get(e, 0))))
            for e in set(ok) | set(disc):
                if e not in acc:
                    self.viol.append(('event-to-unsubscribed-pool', 'pool %s handled event %r of a type it is not subscribed to' % (name, e)))
            # stdin of every listener of this pool: whole envelopes, FIFO by poolserial for first deliveries
            for li, p in enumerate(w.listeners[pi]):
                o = p.config.options
                for s in o.accepted_all + [o.accepted]:
                    envs, rest, good = parse_stdin(s)
                    if not good:
                        self.viol.append(('stdin-not-envelope-sequence', 'pool %s listener %d: cannot cut %r into envelopes' % (name, li, rest[:40])))
                    for (serial, pool, pserial, evname, body) in envs:
                        self.ctx.count('envelopes-received')
                        if pool != name:
                            self.viol.append(('envelope-of-other-pool', 'listener of %s received an envelope of pool %s' % (name, pool)))
                        e = by_serial.get(serial)
                        if e is None or e not in acc:
                            self.viol.append(('event-to-unsubscribed-pool', 'pool %s sent serial %d (%s) to a listener without being subscribed' % (name, serial, evname)))
                        elif getattr(w.evobjs[e], 'pool_serials', {}).get(name) != pserial:
                            self.viol.append(('poolserial-changed', 'pool %s: serial %d sent with poolserial %d, accepted as %r' % (name, serial, pserial, w.evobjs[e].pool_serials)))
            # poolserials increase in acceptance order = event id order for first acceptance
            ps = [(e, w.evobjs[e].pool_serials.get(name)) for e in sorted(acc) if hasattr(w.evobjs[e], 'pool_serials') and name in w.evobjs[e].pool_serials]
            if any(a[1] >= b[1] for a, b in zip(ps, ps[1:])):
                self.viol.append(('poolserial-not-increasing', 'pool %s: poolserials in acceptance order %r' % (name, ps)))
        return self.viol

    def fifo_monitor(self):
        """per pool, over time: an event handed to a listener for the first time has a poolserial larger than that of
        every event handed over before (oldest first; only rejected events are handed over again)"""
        for pi in range(len(self.pools)):
            seen, hi = set(), -1
            for pserial in self.first_sent[pi]:
                if pserial not in seen:
                    if pserial < hi:
                        self.viol.append(('fifo-violated', 'pool %s handed over poolserial %d for the first time after %d' % (self.pools[pi][0], pserial, hi)))
                    seen.add(pserial)
                    hi = max(hi, pserial)


def gen_types(rng):
    """an events= line: one of the hand-picked sets, or 1-3 types drawn from the whole documented table (abstract and
    concrete, siblings, a type together with one of its supertypes)"""
    if rng.random() < 0.5:
        return rng.choice(TYPE_SETS)
    doc = DocTypes.get()
    ts = [rng.choice(doc.names)]
    for _ in range(rng.choice([0, 0, 1, 2])):
        r = rng.random()
        if r < 0.3 and len(doc.chain[ts[0]]) > 1:
            ts.append(rng.choice(doc.chain[ts[0]][1:]))          # one of its supertypes
        elif r < 0.6:
            ts.append(rng.choice([n for n in doc.names if doc.chain[n][1:2] == doc.chain[ts[0]][1:2]]))   # a sibling
        else:
            ts.append(rng.choice(doc.names))
    return list(dict.fromkeys(ts))


def gen_emit(rng):
    """the type of an emitted event: the hand-picked mix, or any documented concrete type"""
    return rng.choice(EMIT) if rng.random() < 0.6 else rng.choice(DocTypes.get().concrete)


def gen_case(rng):
    npools = rng.choice([1, 2, 2, 3])
    pools = []
    for i in range(npools):
        pools.append(('p%d' % i, rng.randrange(1, 6), rng.randrange(1, 4), gen_types(rng)))
    if rng.random() < 0.35:
        # pools that join the daemon later (supervisorctl add / update): a new name, or the name of a pool of the start-up
        # configuration (which has to be removed first: `update` removes and re-adds a changed section)
        for k in range(rng.choice([1, 1, 2])):
            name = rng.choice(['q%d' % k, pools[rng.randrange(npools)][0]])
            pools.append((name, rng.randrange(1, 6), rng.randrange(1, 3), gen_types(rng), 'absent'))
    handler = rng.choice(['strict', 'default'])
    return handler, pools, rng.choice(['unique', 'shared', 'shared'])


def stop_all(pools, pi):
    """the operator stops a pool: every listener gets its stop request and is reaped"""
    ops = []
    for li in range(pools[pi][2]):
        ops += ['pstate %d %d stopping' % (pi, li), 'die %d %d - x' % (pi, li)]
    return ops


ANSWERS = [b'RESULT 2\nOK', b'RESULT 4\nFAIL', b'RESULT 1\nx', b'RESULT 0\n', b'RESULT 2\nOKREADY\n', b'RESULT 4\nFAILREADY\n']


def header_cut(data):
    """the position right after the first newline (between a result header and its body), or None"""
    k = data.find(b'\n')
    return k + 1 if 0 <= k < len(data) - 1 else None


def gen_script(rng, pools, n, world_state=None):
    ops = []
    pid = 200
    for pi, p in enumerate(pools):
        for li in range(p[2]):
            pid += 1
            ops.append('spawn %d %d %d' % (pi, li, pid))
            ops.append('pstate %d %d running' % (pi, li))
    k = 0
    for _ in range(n):
        r = rng.random()
        pi = rng.randrange(len(pools))
        li = rng.randrange(pools[pi][2])
        if r < 0.25:
            k += 1
            ops.append('notify %s %s' % (gen_emit(rng), ('n%d' % k).encode().hex()))
        elif r < 0.55:
            data = rng.choice([READY, READY, READY, b'RESULT 2\nOK', b'RESULT 2\nOK', b'RESULT 2\nOKREADY\n', b'RESULT 4\nFAIL', b'RESULT 4\nFAILREADY\n',
                               b'RESULT 1\nx', b'garbage\n', b'RESULT -1\n', b'RESULT 0\n', b'READY\nREADY\n', b'RESULT 2\n', b'OK'])
            if rng.random() < 0.25 and len(data) > 1:
                c = rng.randrange(1, len(data))
                if header_cut(data) and rng.random() < 0.5:
                    c = header_cut(data)       # the header of a result in one read, its body in the next
                ops.append('read %d %d %s' % (pi, li, data[:c].hex()))
                if rng.random() < 0.3:
                    # ... and something happens in between: the listener is reaped, the pool makes a pass, an event arrives
                    ops.append(rng.choice(['die %d %d - x' % (pi, li), 'transition %d' % pi,
                                           'notify %s %s' % (gen_emit(rng), b'mid'.hex())]))
                ops.append('read %d %d %s' % (pi, li, data[c:].hex()))
            else:
                ops.append('read %d %d %s' % (pi, li, data.hex()))
        elif r < 0.80:
            ops.append('transition %d' % pi)
        elif r < 0.85:
            ops.append('cap %d %d %s' % (pi, li, rng.choice(['0', '10', '50', 'inf', 'inf'])))
        elif r < 0.89:
            ops.append('wev %d %d' % (pi, li))
        elif r < 0.91:
            ops.append('breakpipe %d %d' % (pi, li))
        elif r < 0.94:
            ops.append('pstate %d %d %s' % (pi, li, rng.choice(['running', 'starting', 'stopping', 'running'])))
        elif r < 0.97:
            if rng.random() < 0.4:
                # a stop request: the listener is reaped while STOPPING (possibly BUSY)
                ops.append('pstate %d %d stopping' % (pi, li))
            ops.append('die %d %d %s x' % (pi, li, rng.choice(['-', '-', b'RESULT 2\nOK'.hex()])))
        elif r < 0.985 or len(pools) < 2:
            pid += 1
            ops.append('spawn %d %d %d' % (pi, li, pid))
            ops.append('pstate %d %d running' % (pi, li))
        elif r < 0.995:
            # a pool is removed while the others keep running: refused when a listener is alive, else after a stop
            if rng.random() < 0.6:
                ops += stop_all(pools, pi)
            ops.append('remove %d' % pi)
        else:
            ops.append('add %d' % pi)
            for lj in range(pools[pi][2]):
                pid += 1
                ops += ['spawn %d %d %d' % (pi, lj, pid), 'pstate %d %d running' % (pi, lj)]
    return ops


CHURN_SETS = [[['TICK_5', 'PROCESS_GROUP'], ['TICK_5'], ['TICK', 'EVENT']], [['PROCESS_STATE', 'TICK_5'], ['PROCESS_STATE', 'TICK_60'], ['TICK_60']],
              [['TICK'], ['TICK_5', 'TICK_60'], ['TICK_60', 'PROCESS_GROUP_REMOVED']], [['EVENT'], ['EVENT'], ['PROCESS_GROUP']],
              [['TICK_5'], ['TICK_60'], ['REMOTE_COMMUNICATION', 'TICK_5']]]


def gen_churn_case(rng):
    """pools leave and join while the others keep running: 2-3 pools of the start-up configuration (subscriptions shared
    with each other, with abstract types, disjoint), 1-2 pools added later (a new name, or the name of a pool that was
    removed).  Removals are attempted with listeners alive (refused: nothing may change) and after the pool was stopped;
    afterwards events of the types the removed pool shared with the others keep arriving and listeners of the remaining
    pools keep rejecting (FAIL, garbage, death while BUSY)."""
    npools = rng.choice([2, 2, 3])
    sets = rng.choice(CHURN_SETS)
    pools = [('p%d' % i, rng.randrange(2, 6), rng.randrange(1, 3), sets[i]) for i in range(npools)]
    for k in range(rng.choice([0, 1, 1, 2])):
        pools.append((rng.choice(['n%d' % k, 'p%d' % rng.randrange(npools)]), rng.randrange(2, 5), 1, rng.choice(sets + [gen_types(rng)]), 'absent'))
    ops, pid = [], 800
    for pi in range(npools):
        for li in range(pools[pi][2]):
            pid += 1
            ops += ['spawn %d %d %d' % (pi, li, pid), 'pstate %d %d running' % (pi, li), 'read %d %d %s' % (pi, li, READY.hex())]
    k = 0
    emit = ['TICK_5', 'TICK_5', 'TICK_60', 'REMOTE_COMMUNICATION', 'PROCESS_STATE_RUNNING', 'PROCESS_LOG_STDOUT']

    def traffic(n):
        nonlocal k, pid
        out = []
        for _ in range(n):
            for _ in range(rng.choice([1, 1, 2])):
                k += 1
                out.append('notify %s %s' % (rng.choice(emit), ('c%d' % k).encode().hex()))
            for pi in range(len(pools)):
                out.append('transition %d' % pi)
            pi = rng.randrange(len(pools))
            li = rng.randrange(pools[pi][2])
            r = rng.random()
            if r < 0.4:
                out.append('read %d %d %s' % (pi, li, b'RESULT 4\nFAILREADY\n'.hex()))
            elif r < 0.55:
                out.append('read %d %d %s' % (pi, li, rng.choice([b'garbage\n', b'RESULT x\n']).hex()))
            elif r < 0.7:
                pid += 1
                out += ['die %d %d - x' % (pi, li), 'spawn %d %d %d' % (pi, li, pid), 'pstate %d %d running' % (pi, li),
                        'read %d %d %s' % (pi, li, READY.hex())]
            else:
                out.append('read %d %d %s' % (pi, li, b'RESULT 2\nOKREADY\n'.hex()))
            for pi in range(len(pools)):
                out.append('transition %d' % pi)
        return out
    ops += traffic(rng.randrange(1, 4))
    for _ in range(rng.randrange(1, 4)):
        r = rng.random()
        pi = rng.randrange(len(pools))
        if r < 0.3:
            ops.append('remove %d' % pi)                          # refused if a listener is alive
        elif r < 0.75:
            ops += stop_all(pools, pi) + ['remove %d' % pi]
        else:
            later = [i for i, p in enumerate(pools) if len(p) > 4]
            if later and rng.random() < 0.8:
                pi = rng.choice(later)
                if pools[pi][0] in [p[0] for p in pools[:npools]] and rng.random() < 0.7:
                    # the pool of that name has to go first
                    old = [p[0] for p in pools[:npools]].index(pools[pi][0])
                    ops += stop_all(pools, old) + ['remove %d' % old]
            ops.append('add %d' % pi)
            for li in range(pools[pi][2]):
                pid += 1
                ops += ['spawn %d %d %d' % (pi, li, pid), 'pstate %d %d running' % (pi, li), 'read %d %d %s' % (pi, li, READY.hex())]
        ops += traffic(rng.randrange(1, 4))
    return rng.choice(['strict', 'default']), pools, ops, rng.choice(['unique', 'shared'])


def gen_reject_case(rng):
    """2-3 pools whose listeners have the same names (and priorities); one pool's listeners reject (FAIL, garbage,
    death while BUSY) events that the other pools are not subscribed to, or are subscribed to as well"""
    npools = rng.choice([2, 2, 3])
    nl = rng.randrange(1, 3)
    sets = rng.choice([[['TICK_5'], ['TICK_60'], ['REMOTE_COMMUNICATION']], [['TICK_5'], ['TICK'], ['TICK_60']],
                       [['TICK'], ['TICK_5', 'TICK_60'], ['EVENT']]])
    pools = [('p%d' % i, rng.randrange(1, 5), nl, sets[i]) for i in range(npools)]
    ops, pid = [], 300
    for pi in range(npools):
        for li in range(nl):
            pid += 1
            ops += ['spawn %d %d %d' % (pi, li, pid), 'pstate %d %d running' % (pi, li), 'read %d %d %s' % (pi, li, READY.hex())]
    k = 0
    for _ in range(rng.randrange(3, 10)):
        k += 1
        ops.append('notify %s %s' % (rng.choice(['TICK_5', 'TICK_5', 'TICK_60', 'REMOTE_COMMUNICATION']), ('r%d' % k).encode().hex()))
        for pi in range(npools):
            ops.append('transition %d' % pi)
        pi, li = rng.randrange(npools), rng.randrange(nl)
        r = rng.random()
        if r < 0.45:
            ops.append('read %d %d %s' % (pi, li, b'RESULT 4\nFAILREADY\n'.hex()))
        elif r < 0.65:
            ops.append('read %d %d %s' % (pi, li, rng.choice([b'garbage\n', b'RESULT x\n', b'RESULT -1\n']).hex()))
        elif r < 0.8:
            pid += 1
            ops += ['die %d %d - x' % (pi, li), 'spawn %d %d %d' % (pi, li, pid), 'pstate %d %d running' % (pi, li),
                    'read %d %d %s' % (pi, li, READY.hex())]
        else:
            ops.append('read %d %d %s' % (pi, li, b'RESULT 2\nOKREADY\n'.hex()))
        for pi in range(npools):
            ops.append('transition %d' % pi)
    return rng.choice(['strict', 'default']), pools, ops


def gen_split_case(rng):
    """every listener READY, events arrive, a listener is handed one and answers in two reads -- cut between the result
    header and its body (or anywhere else) -- and between the two reads the listener may be reaped, the pool may make a
    pass, more events may arrive; the body may be OK, FAIL, something else, or never come.  1-3 pools (the same event
    types in several of them, listener names shared or not)."""
    npools = rng.choice([1, 2, 2, 3])
    sets = rng.choice([[['TICK_5'], ['TICK'], ['EVENT']], [['TICK'], ['TICK_5', 'TICK_60'], ['TICK_60']],
                       [['EVENT'], ['PROCESS_STATE'], ['TICK']]])
    pools = [('p%d' % i, rng.randrange(1, 5), rng.randrange(1, 3), sets[i]) for i in range(npools)]
    ops, pid = [], 400
    for pi, (name, bs, nl, types) in enumerate(pools):
        for li in range(nl):
            pid += 1
            ops += ['spawn %d %d %d' % (pi, li, pid), 'pstate %d %d running' % (pi, li), 'read %d %d %s' % (pi, li, READY.hex())]
    k = 0
    for _ in range(rng.randrange(2, 7)):
        for _ in range(rng.choice([1, 1, 2])):
            k += 1
            ops.append('notify %s %s' % (rng.choice(['TICK_5', 'TICK_5', 'TICK_60']), ('s%d' % k).encode().hex()))
        for pi in range(npools):
            ops.append('transition %d' % pi)
        pi = rng.randrange(npools)
        li = rng.randrange(pools[pi][2])
        data = rng.choice(ANSWERS)
        c = header_cut(data) if rng.random() < 0.7 else rng.randrange(1, len(data))
        ops.append('read %d %d %s' % (pi, li, data[:c].hex()))
        r = rng.random()
        if r < 0.35:
            pid += 1
            if rng.random() < 0.3:
                ops.append('pstate %d %d stopping' % (pi, li))
            # reaped with the rest of the answer unread, or still in the pipe
            ops += ['die %d %d %s x' % (pi, li, rng.choice(['-', '-', data[c:].hex()])), 'spawn %d %d %d' % (pi, li, pid),
                    'pstate %d %d running' % (pi, li), 'read %d %d %s' % (pi, li, READY.hex())]
            continue
        if r < 0.6:
            ops.append(rng.choice(['transition %d' % pi, 'notify TICK_5 ' + b'mid'.hex(), 'wev %d %d' % (pi, li)]))
        ops.append('read %d %d %s' % (pi, li, data[c:].hex()))
        if not data.endswith(READY) and rng.random() < 0.7:
            ops.append('read %d %d %s' % (pi, li, READY.hex()))
        ops.append('transition %d' % pi)
    return rng.choice(['strict', 'default']), pools, ops, rng.choice(['unique', 'shared'])


def split_corpus():
    """every answer x every cut position x what happens before the rest arrives: one pool, one listener holding the only
    event, a second event behind it (small-scope exhaustive)"""
    tick = 'notify TICK_5 ' + b'when:5'.hex()
    up = ['spawn 0 0 11', 'pstate 0 0 running', 'read 0 0 ' + READY.hex(), tick, tick, 'transition 0']
    for data in ANSWERS[:4]:
        for c in range(1, len(data)):
            for mid in (None, 'die', 'transition 0'):
                ops = list(up) + ['read 0 0 ' + data[:c].hex()]
                if mid == 'die':
                    ops += ['die 0 0 - x', 'spawn 0 0 12', 'pstate 0 0 running']
                else:
                    if mid:
                        ops.append(mid)
                    ops.append('read 0 0 ' + data[c:].hex())
                ops += ['read 0 0 ' + READY.hex(), 'transition 0']
                yield 'strict', [('a', 3, 1, ['TICK'])], ops


def matrix_cases(ctx, cases, impls):
    """subscription matrix, exhaustive: for every documented type T a pool subscribed to T alone (one READY listener),
    and one event of every documented type: exactly the pools whose T is the event's type or one of its documented
    supertypes hand it to their listener"""
    doc = DocTypes.get()
    chunk = 9
    for c0 in range(0, len(doc.names), chunk):
        subs = doc.names[c0:c0 + chunk]
        pools = [('m%d' % i, 3, 1, [t]) for i, t in enumerate(subs)]
        r = Run(ctx, 'strict', pools, [])
        for pi in range(len(pools)):
            for op in ('spawn %d 0 %d' % (pi, 600 + pi), 'pstate %d 0 running' % pi, 'read %d 0 %s' % (pi, READY.hex())):
                r.do(op)
        for pi in range(len(pools)):       # the listeners' own PROCESS_STATE_STARTING events
            for _ in range(len(pools) + 1):
                r.do('transition %d' % pi)
                if r.w.lstate(pi, 0)[0] != 'BUSY':
                    break
                r.do('read %d 0 %s' % (pi, b'RESULT 2\nOKREADY\n'.hex()))
        for k, name in enumerate(doc.names):
            r.do('notify %s %s' % (name, ('m%d' % k).encode().hex()))
            for pi in range(len(pools)):
                r.do('transition %d' % pi)
            got = {pi for pi in range(len(pools)) if r.w.lstate(pi, 0)[0] == 'BUSY'}
            want = {pi for pi, t in enumerate(subs) if doc.is_a(name, t)}
            for pi in sorted(got - want):
                r.viol.append(('event-offered-to-unsubscribed-pool', 'an event of type %s was handed to the listener of a pool subscribed to %s only (documented supertypes of %s: %r)' % (
                    name, subs[pi], name, doc.chain[name][1:])))
            for pi in sorted(want - got):
                r.viol.append(('event-not-offered-to-subscribed-pool', 'an event of type %s was not handed to the READY listener of a pool subscribed to %s (documented supertypes of %s: %r)' % (
                    name, subs[pi], name, doc.chain[name][1:])))
            ctx.count('matrix-pairs', len(pools))
            for pi in sorted(got):
                r.do('read %d 0 %s' % (pi, b'RESULT 2\nOKREADY\n'.hex()))
        finish_case(ctx, r, 'strict', pools, 'unique', cases, impls, drain=True)


def corpus():
    up2 = ['spawn 0 0 11', 'pstate 0 0 running', 'spawn 1 0 12', 'pstate 1 0 running']
    tick = 'notify TICK_5 ' + b'when:5'.hex()
    return [
        # F16 (fixed): a pool subscribed to TICK and TICK_5 got the event twice
        ('strict', [('a', 3, 1, ['TICK', 'TICK_5'])], ['spawn 0 0 11', 'pstate 0 0 running', tick, 'read 0 0 ' + READY.hex(), 'transition 0',
                                                    'read 0 0 ' + b'RESULT 2\nOKREADY\n'.hex(), 'transition 0']),
        # F1 (fixed): an event rejected in pool a was also re-buffered in pool b (listeners of equal priority)
        ('strict', [('a', 3, 1, ['TICK_5']), ('b', 3, 1, ['TICK_60'])], up2 + [tick, 'read 0 0 ' + READY.hex(), 'read 1 0 ' + READY.hex(),
                                                                      'transition 0', 'read 0 0 ' + b'RESULT 4\nFAIL'.hex(), 'transition 1', 'transition 0']),
        # overflow: buffer of 1, three events
        ('strict', [('a', 1, 1, ['TICK'])], ['spawn 0 0 11', 'pstate 0 0 running', tick, tick, tick, 'read 0 0 ' + READY.hex(), 'transition 0']),
        # rejection while the buffer is full: the rejected event goes to the head, the oldest buffered one is discarded
        ('strict', [('a', 1, 1, ['TICK'])], ['spawn 0 0 11', 'pstate 0 0 running', tick, 'read 0 0 ' + READY.hex(), 'transition 0', tick,
                                           'read 0 0 ' + b'RESULT 4\nFAIL'.hex()]),
        # F13 (fixed): full stdin at dispatch time
        ('strict', [('a', 3, 1, ['TICK'])], ['spawn 0 0 11', 'pstate 0 0 running', 'cap 0 0 0', tick, 'read 0 0 ' + READY.hex(), 'transition 0',
                                           'cap 0 0 inf', 'wev 0 0', 'read 0 0 ' + b'RESULT 2\nOK'.hex()]),
        # death while BUSY of a listener that is being stopped (STOPPING -> STOPPED): the event goes back to the head
        ('strict', [('a', 3, 1, ['TICK'])], ['spawn 0 0 11', 'pstate 0 0 running', tick, tick, 'read 0 0 ' + READY.hex(), 'transition 0',
                                           'pstate 0 0 stopping', 'die 0 0 - x', 'spawn 0 0 12', 'pstate 0 0 running',
                                           'read 0 0 ' + READY.hex(), 'transition 0', 'read 0 0 ' + b'RESULT 2\nOKREADY\n'.hex(), 'transition 0']),
        # ... and with an answer still in the pipe when it is reaped
        ('default', [('a', 2, 2, ['TICK_5']), ('b', 2, 1, ['TICK'])], up2 + [tick, 'read 0 0 ' + READY.hex(), 'read 1 0 ' + READY.hex(),
                                                                         'transition 0', 'transition 1', 'pstate 1 0 stopping',
                                                                         'die 1 0 - x', 'pstate 0 0 stopping', 'die 0 0 ' + b'RESULT 4\nFAIL'.hex() + ' x']),
        # seed C09-5: a communication event must not reach a pool subscribed to the abstract PROCESS_LOG type (and v.v.)
        ('strict', [('logpool', 3, 1, ['PROCESS_LOG']), ('commpool', 3, 1, ['PROCESS_COMMUNICATION']), ('all', 3, 1, ['EVENT'])],
         ['spawn 0 0 11', 'pstate 0 0 running', 'spawn 1 0 12', 'pstate 1 0 running', 'spawn 2 0 13', 'pstate 2 0 running',
          'notify PROCESS_LOG_STDOUT ' + b'processname:p groupname:g pid:7 channel:stdout\nx'.hex(),
          'notify PROCESS_COMMUNICATION_STDOUT ' + b'processname:p groupname:g pid:7\ny'.hex(),
          'read 0 0 ' + READY.hex(), 'transition 0', 'read 0 0 ' + b'RESULT 2\nOKREADY\n'.hex(), 'transition 0']),
        # seed C09-6: the header of a result in one read; then the listener is reaped / the body FAIL arrives
        ('strict', [('a', 3, 1, ['TICK']), ('b', 3, 1, ['TICK'])], up2 + [tick, 'read 0 0 ' + READY.hex(), 'read 1 0 ' + READY.hex(),
                                                                      'transition 0', 'transition 1', 'read 1 0 ' + b'RESULT 2\nOK'.hex(),
                                                                      'read 0 0 ' + b'RESULT 4\n'.hex(), tick, 'die 0 0 - x']),
        ('strict', [('a', 3, 1, ['TICK']), ('b', 3, 1, ['TICK'])], up2 + [tick, 'read 0 0 ' + READY.hex(), 'read 1 0 ' + READY.hex(),
                                                                      'transition 0', 'transition 1', 'read 1 0 ' + b'RESULT 2\nOK'.hex(),
                                                                      'read 0 0 ' + b'RESULT 4\n'.hex(), tick, 'read 0 0 ' + b'FAIL'.hex()]),
        # seed C09-7: pool alpha is removed while beta keeps running; beta shares PROCESS_STATE with it.  Afterwards beta
        # must still be offered a PROCESS_STATE event, and an event its listener answers FAIL to must come back and be sent again
        ('strict', [('alpha', 3, 1, ['PROCESS_STATE', 'TICK_5']), ('beta', 3, 1, ['PROCESS_STATE', 'TICK_60'])],
         ['spawn 1 0 12', 'pstate 1 0 running', 'read 1 0 ' + READY.hex(), 'transition 1', 'read 1 0 ' + b'RESULT 2\nOKREADY\n'.hex(),
          'remove 0', 'notify PROCESS_STATE_RUNNING ' + b'processname:x groupname:x from_state:STARTING pid:7'.hex(),
          'notify TICK_60 ' + b'when:1200'.hex(), 'notify TICK_60 ' + b'when:1260'.hex(), 'transition 1',
          'read 1 0 ' + b'RESULT 4\nFAIL'.hex(), 'read 1 0 ' + READY.hex(), 'transition 1']),
        # ... the same with a third pool that joins afterwards under the removed pool's name, and is removed again
        ('strict', [('alpha', 2, 1, ['TICK', 'PROCESS_GROUP']), ('beta', 2, 2, ['TICK_5', 'EVENT']), ('alpha', 2, 1, ['TICK_5'], 'absent')],
         up2 + ['read 0 0 ' + READY.hex(), 'read 1 0 ' + READY.hex(), tick, 'transition 0', 'transition 1', 'pstate 0 0 stopping', 'die 0 0 - x',
                'remove 0', tick, 'transition 1', 'read 1 0 ' + b'RESULT 4\nFAILREADY\n'.hex(), 'transition 1', 'add 2', 'spawn 2 0 13',
                'pstate 2 0 running', 'read 2 0 ' + READY.hex(), tick, 'transition 2', 'transition 1', 'remove 2', 'pstate 2 0 stopping',
                'die 2 0 - x', 'remove 2', tick, 'transition 1']),
        # seed C11-8's story seen from the pools: a removal is refused (the listener is alive); the pool stays in the daemon
        # and must be offered every later event of its types, and get its rejected events back
        ('strict', [('a', 3, 1, ['TICK']), ('b', 3, 1, ['TICK_5'])], up2 + ['read 0 0 ' + READY.hex(), 'read 1 0 ' + READY.hex(), 'remove 0', tick,
                                                                      'transition 0', 'transition 1', 'read 0 0 ' + b'RESULT 4\nFAILREADY\n'.hex(),
                                                                      'transition 0', 'remove 1', tick]),
        # death while BUSY
        ('strict', [('a', 3, 2, ['EVENT'])], ['spawn 0 0 11', 'pstate 0 0 running', 'spawn 0 1 12', 'pstate 0 1 running', tick,
                                            'read 0 0 ' + READY.hex(), 'transition 0', 'die 0 0 - x', 'read 0 1 ' + READY.hex(), 'transition 0']),
    ]


def run_case(ctx, handler, pools, script, cases, impls, drain=True, names='unique'):
    r = Run(ctx, handler, pools, script, names=names)
    return finish_case(ctx, r, handler, pools, names, cases, impls, drain)


def finish_case(ctx, r, handler, pools, names, cases, impls, drain=True):
    if drain and not r.aborted:
        r.drain()
    viol = r.monitors() if drain and not r.aborted else r.viol
    r.fifo_monitor()
    cases.append(('case pool handler=%s names=%s pools=%s' % (handler, names, pools_spec(pools)), r.ops))
    ctx.count('names:' + names)
    impls.append(r.lines)
    delivered = sum(sum(d.values()) for d in r.ok)
    ctx.case_done(tuple(r.ops), delivered > 0)
    ctx.count('events-delivered-ok', delivered)
    ctx.count('events-discarded', sum(sum(d.values()) for d in r.discarded))
    ctx.count('pools:%d' % len(pools))
    for p in pools:
        for t in p[3]:
            ctx.count('subscribed:' + t)
    seen = set()
    for kind, what in r.viol:
        if kind in seen:
            continue
        seen.add(kind)
        ctx.violation(kind, what, {'handler': handler, 'names': names, 'pools': [list(p) for p in pools], 'ops': r.ops})
    return r


def run(ctx):
    rng = ctx.rng
    cases, impls = [], []
    for handler, pools, script in corpus():
        for names in ('unique', 'shared'):
            run_case(ctx, handler, pools, script, cases, impls, names=names)
    matrix_cases(ctx, cases, impls)
    for handler, pools, script in split_corpus():
        run_case(ctx, handler, pools, script, cases, impls)
    for _ in range(ctx.n(150, 1200)):
        handler, pools, script, names = gen_split_case(rng)
        run_case(ctx, handler, pools, script, cases, impls, names=names)
    # pools removed (also refused) and added while the others keep running
    for _ in range(ctx.n(150, 1500)):
        handler, pools, script, names = gen_churn_case(rng)
        run_case(ctx, handler, pools, script, cases, impls, names=names)
    for _ in range(ctx.n(300, 3000)):
        handler, pools, names = gen_case(rng)
        script = gen_script(rng, pools, rng.randrange(5, 60))
        run_case(ctx, handler, pools, script, cases, impls, names=names)
    # rejections in one pool while other pools have listeners of the same names and priorities
    for _ in range(ctx.n(120, 1000)):
        handler, pools, script = gen_reject_case(rng)
        run_case(ctx, handler, pools, script, cases, impls, names='shared')
    ctx.sample({'case': cases[1][0], 'ops': cases[1][1][:12], 'impl': impls[1][:12]})
    ctx.sample({'case': cases[-1][0], 'ops': cases[-1][1][:8], 'impl': impls[-1][:8]})
    ctx.correspond('pool', cases, impls)


def replay(ctx, data):
    inp = data['input']
    cases, impls = [], []
    pools = [tuple(p[:3]) + (p[3],) + tuple(p[4:5]) for p in inp['pools']]
    ops = [' '.join(o.split()[:4]) + ' x' if o.startswith('die') else ' '.join(o.split()[:4]) if o.startswith('spawn') else o for o in inp['ops']]
    run_case(ctx, inp['handler'], pools, ops, cases, impls, drain=False, names=inp.get('names', 'unique'))
    ctx.correspond('pool', cases, impls)


TECHNIQUE = ("Lean 4 theorems (invariants by induction over operation lists, finite-table decision over the generated event "
             "class tree) over a model whose guards/constants/class table are regenerated from process.py and events.py; "
             "differential correspondence against the real pools, notify and dispatchers")
LEVEL_TEXT = ("subscription semantics is decided over the whole generated EventTypes table and tied, type by type, to the hierarchy "
              "documented in docs/events.rst (registered types = documented types, ancestor chains = documented supertype chains, "
              "offered_to_documented_subscribers); the owner test of handle_rejected is regenerated from the source and interpreted "
              "by the model (reject isolation for pools with listeners of the same names); buffer bound, overflow rule and head "
              "re-insertion are proved for every state; serial/poolserial numbering (with the wrap new_serial performs), "
              "conservation (every accepted event is in exactly one of: buffer, one listener, answered OK, discarded), "
              "gone-stays-gone and acceptance-at-emission are proved for every history by an inductive invariant; the model "
              "is run against the real objects on random multi-pool histories with step-wise and final accounting monitors")
LEVEL_NOTE = "trusts Lean's kernel, extract.py, the simulated stdin pipes, the harness' identification of discards from error-level log entries; see DESIGN.md C09"
DESIGN_REF = "DESIGN.md section 6, C09"
