"""
C17 -- with authentication configured, no request is served without valid credentials.

Implementation side, two levels:
  A. the real `supervisor_auth_handler` (auth_handler.handle_request + encrypted_dictionary_authorizer)
     wrapping a recording inner handler, driven with fake request objects;
  B. the real `make_http_servers` handler chains (inet and unix configurations, dummy supervisord) with
     every inner handler replaced by a recorder that keeps the original `match`, and the real
     `deferring_http_channel.found_terminator` over a socketpair: raw HTTP responses are read back.
  A-seq / B-seq / C-seq: several requests on ONE connection (one shared channel object for A; HTTP/1.1 keep-alive,
     HTTP/1.0 + Connection: keep-alive, one at a time and pipelined for B; the real inner handlers -- probe RPC namespace,
     static file, log tails -- for C): every request is judged on its own header, whatever the connection carried before.
  F. configuration FILE TEXT -> real ServerOptions (os.environ entries set/restored around the parse) -> options.server_configs -> real
     make_http_servers -> requests: credentials written literally or as %(ENV_X)s, X in the process environment, in [supervisord]
     environment=, or in both (the file's value is the credential).
Correspondence against Model/Auth.lean; base64 / UTF-8 / SHA-1 results are passed to the model as
tables (they are parameters of the model).  Monitors: inner handler invoked <=> credentials right.
"""
import base64, hashlib, os, re, socket

ID = 'C17'
LEAN_PROPS = 'SupervisorModel.Props.C17'
DRIVER = 'drv_c17'
GENERATED = ['Auth']
TRUSTED = [
    "parameters of the model, not verified: base64.decodebytes (lenient decoding, which inputs raise), UTF-8 decoding, hashlib.sha1; their results are handed to the model as tables",
    "Python's `re` semantics for 'Authorization: ([^ ]+) (.*)' with IGNORECASE (modelled as a function; the pattern text is regenerated and compared), str.lower() (no non-ASCII character lower-cases to a letter of 'basic')",
    "the individual handlers behind the wrapper (XML-RPC, log tails, web UI, static files), percent-decoding, real TCP/unix sockets and request framing are outside the model; the wrapper chain and the dispatch loop are exercised through the real channel object on a socketpair",
    "text is modelled by its UTF-8 bytes",
]
ASSUMPTIONS = [
    "the request header block is valid UTF-8 (otherwise the channel raises before any handler is consulted)",
    "one configured user per server section, as make_http_servers builds it",
    "F18 (fixed, `if username is not None:`): a section with `username=` (empty value) and a password is accepted by _parse_username_and_password and is now authenticated like any other (credentials ':<password>'; theorem f18_empty_username_is_authenticated; monitor kind empty-username-disables-auth reports the defect if it returns). A section with neither option is unauthenticated by design (no_credentials_configured_is_open). An empty PASSWORD with a non-empty username is authenticated normally (credentials 'user:').",
    "a configured username containing ':' can never authenticate (the decoded cookie is split at the first colon): fails closed",
    "configuration files (level F): `%(ENV_X)s` in a server section means the last X= of `[supervisord] environment=` if there is one, otherwise the value of X in the "
    "environment supervisord was started from (read_config: 'extend expansions for global from [supervisord] environment definition', as the suite checks for "
    "[program:x] sections); a file using a name defined nowhere is rejected "
    "(supervisord does not start: nothing is served); only the first read of a file by a fresh ServerOptions is considered (no reload)",
    "connection reuse: handle_unauthorized calls request.channel.set_terminator(None), so after a 401 the channel dispatches nothing more "
    "on that connection (theorem after_401_nothing_runs; the response says `Connection: close` for HTTP/1.1, but `Connection: Keep-Alive` "
    "for an HTTP/1.0 keep-alive request, and the socket stays open). 'Requests with the right credentials are served' is therefore demanded of "
    "request k only if no earlier request of the same connection was answered 401 (right_credentials_served_on_live_connection); the security "
    "direction (no handler runs, no byte returned without the request's own valid credentials) is demanded of every request unconditionally. "
    "Right credentials left unanswered after a 401 are counted in the evidence (Bseq:observation:...), not reported as a violation",
]
RULE = ("level A cases = (stored user, stored password plain|{SHA}) x Authorization header class: absent, other scheme, "
        "case variants of the name and scheme, bad base64, non-UTF-8, missing colon, empty user / password, every prefix "
        "and several extensions of the right credentials, extra colons, non-ASCII, oversized (64 KiB), doubled headers, "
        "leading/trailing spaces, the stored {SHA} string itself as password; level B = those header classes x method x "
        "path (every handler prefix, odd-case, percent-encoded, unmatched) x HTTP version x (inet, unix) x (auth on, "
        "empty username, no auth); level B-multi = 8 configurations of two or three server sections (different users, same "
        "user / different passwords, authenticated + open, {SHA} entries, empty username) parsed by the real parser, every "
        "server queried with its own and with every other section's credentials and their cross combinations; "
        "connection reuse = sequences of 2-4 requests on one channel: every ordered pair of (right, absent, wrong user, undecodable, no colon, "
        "other scheme, extended password) x (HTTP/1.1, HTTP/1.0 keep-alive) with the second request on every handler, every header class after "
        "an authenticated request, random longer histories with mixed versions, delivered one at a time and pipelined, through the recorders (B-seq) "
        "and through the real handlers with a probe RPC namespace, a static file and followed logs (C-seq); "
        "level F = configuration FILES: 1-3 [unix_http_server] / [inet_http_server] sections whose username, password (plain, {SHA} entry, '{SHA}' + digest) and "
        "socket path / port are written literally, as %(ENV_X)s or as a mixture, X defined only in the process environment, only in [supervisord] environment=, in both "
        "with different values (the file's must win), in both with the same value, by an environment= value that itself refers to the process environment, repeated "
        "in environment=, or nowhere (file rejected); small-scope exhaustive over (kind x way of defining X x slot) plus random files and a corpus "
        "(corpus/C17/file_cases.json, first entry = the seeded C17-7 demo); each file is written to disk, read by the real ServerOptions with the os.environ entries "
        "set around its construction, its server_configs given to the real make_http_servers, and every server is asked with the credentials the file configures "
        "(computed by the generator), the ones the same text would mean in the inherited environment alone, every other section's, the written text itself, "
        "the stored string, prefixes/extensions and malformed headers -- through recorders (correspondence with the model's servefile) and through the real handlers. "
        "Non-trivial = an Authorization line is present; distinct by (config, request)")
TECHNIQUE = ("Lean 4 theorems over a model whose guards, status codes, wrapper table and dispatch order are regenerated "
             "from auth_handler.py / http.py / http_server.py; differential correspondence against the real handler "
             "objects and the real channel dispatch")
LEVEL_TEXT = ("file_server_serves_exactly_the_configured_credentials: for every accepted configuration file, process environment and [supervisord] environment=, a server section whose "
              "username/password texts stand for (user, stored) as the FILE defines %(ENV_X)s serves a request iff it carries exactly those (over the regenerated facts that the server "
              "sections are parsed after the environment merge and from the very dictionary the merge fills: server_sections_parsed_after_environment_merge); "
              "every_request_decided_alone / no_request_served_on_earlier_credentials: on a connection carrying any sequence of requests the "
              "k-th answer depends on the k-th header only (from decision_keeps_no_state, decided over the regenerated lists of persistent writes, "
              "channel references and dynamic attribute access of the decision path); served_iff_authorized is proved for every header list, every parameter functions (base64, UTF-8, SHA-1), "
              "every path-matching function and every non-empty configured username; all_handlers_wrapped is decided "
              "over the table regenerated from make_http_servers; refusal_status and refused_has_no_effect for all inputs")
LEVEL_NOTE = ("trusts Lean's kernel, the extractor, Python's re/base64/hashlib; the handlers behind the wrapper and "
              "the socket layer are exercised by correspondence only")
DESIGN_REF = "DESIGN.md section 6, C17"

MARK = b'INNER-HANDLER-BODY'
VAR_OF_CLASS = {'supervisor_xmlrpc_handler': 'xmlrpchandler', 'logtail_handler': 'tailhandler',
                'mainlogtail_handler': 'maintailhandler', 'supervisor_ui_handler': 'uihandler',
                'default_handler': 'defaulthandler'}


def hs(s):
    if isinstance(s, str):
        s = s.encode('utf-8')
    return 's' + s.hex()


def opt(s):
    return 'N' if s is None else hs(s)


def ai_field(ai):
    """request.auth_info as the inner handler saw it"""
    if ai is None:
        return '-'
    if isinstance(ai, (list, tuple)) and len(ai) == 2 and all(isinstance(x, str) for x in ai):
        return '%s:%s' % (hs(ai[0]), hs(ai[1]))
    return '?%r' % (ai,)


def sha_entry(pw):
    return '{SHA}' + hashlib.sha1(pw.encode('utf-8')).hexdigest()


# ---------------------------------------------------------------------------------------------
# tables for the model's parameters
def tables_for(header_lines):
    from supervisor.compat import as_bytes, as_string, decodestring
    items, seen = [], set()
    for line in header_lines:
        for m in re.finditer(' ', line):
            cookie = line[m.end():]
            if ('b', cookie) in seen:
                continue
            seen.add(('b', cookie))
            try:
                raw = decodestring(as_bytes(cookie))
            except Exception:
                items.append('b:%s:E' % hs(cookie))
                continue
            items.append('b:%s:%s' % (hs(cookie), hs(raw)))
            if ('u', raw) in seen:
                continue
            seen.add(('u', raw))
            try:
                text = as_string(raw)
            except Exception:
                items.append('u:%s:0' % hs(raw))
                continue
            items.append('u:%s:1' % hs(raw))
            for k in [i for i, ch in enumerate(text) if ch == ':']:
                pw = text[k + 1:]
                if ('h', pw) not in seen:
                    seen.add(('h', pw))
                    items.append('h:%s:%s' % (hs(pw), hs(hashlib.sha1(pw.encode('utf-8')).hexdigest())))
    return ';'.join(items) or '-'


def hdr_field(header_lines):
    return ','.join(hs(l) for l in header_lines) or '-'


# ---------------------------------------------------------------------------------------------
# the property's own notion of "carries the right credentials" (deliberately generous about the
# header's format, strict about the credentials): used for the security direction of the monitor
def pw_right(pw, stored):
    if stored.startswith('{SHA}'):
        return hashlib.sha1(pw.encode('utf-8')).hexdigest() == stored[5:]
    return pw == stored


def carries_right_credentials(header_lines, user, stored):
    for line in header_lines:
        for m in re.finditer(' ', line):
            cookie = line[m.end():]
            try:
                text = base64.decodebytes(cookie.encode('utf-8')).decode('utf-8')
            except Exception:
                continue
            u, sep, pw = text.partition(':')
            if sep and u == user and pw_right(pw, stored):
                return True
    return False


# ---------------------------------------------------------------------------------------------
# level A: the auth handler alone
class FakeChannel:
    def __init__(self): self.terminator = 'unset'
    def set_terminator(self, t): self.terminator = t


class FakeRequest:
    def __init__(self, header, channel=None):
        self.header = list(header)
        self.channel = channel if channel is not None else FakeChannel()
        self.out_headers = {}
        self.errors = []
        self.uri = '/x'
        self.command = 'GET'
    def __setitem__(self, k, v): self.out_headers[k] = v
    def __getitem__(self, k): return self.out_headers[k]
    def error(self, code): self.errors.append(code)


class Inner:
    def __init__(self): self.calls = []
    def match(self, request): return True
    def handle_request(self, request): self.calls.append(getattr(request, 'auth_info', None))


def level_a_one(user, stored, header_lines):
    """returns (canonical line, observables dict)"""
    from supervisor.http import supervisor_auth_handler
    import io, sys
    inner = Inner()
    h = supervisor_auth_handler({user: stored}, inner)
    req = FakeRequest(header_lines)
    raised = None
    saved = sys.stderr
    sys.stderr = io.StringIO()
    try:
        try:
            h.handle_request(req)
        except Exception as ex:
            raised = ex
    finally:
        sys.stderr = saved
    obs = {'inner': inner.calls, 'errors': req.errors, 'headers': req.out_headers, 'raised': raised}
    if inner.calls:
        ai = inner.calls[0]
        line = 'inner %s:%s' % (hs(ai[0]), hs(ai[1])) if isinstance(ai, list) and len(ai) == 2 else 'inner ?%r' % (ai,)
        if len(inner.calls) > 1 or req.errors or raised:
            line += ' +extra'
    elif raised is not None:
        line = 'raised'
    elif req.errors == [401]:
        line = 'unauthorized 401'
    elif len(req.errors) == 1:
        line = 'error %d' % req.errors[0]
    else:
        line = 'nothing %r' % (req.errors,)
    return line, obs


def b64(s):
    if isinstance(s, str):
        s = s.encode('utf-8')
    return base64.b64encode(s).decode('ascii')


def header_classes(rng, user, pw, stored, thorough):
    """[(label, [header lines], right_by_construction)]"""
    good = 'Authorization: Basic ' + b64('%s:%s' % (user, pw))
    out = [
        ('absent', [], False),
        ('other-headers-only', ['Host: x', 'Accept: */*'], False),
        ('right', [good], True),
        ('right-after-others', ['Host: x', good, 'X: y'], True),
        ('right-lowercase-name', ['authorization: basic ' + b64('%s:%s' % (user, pw))], True),
        ('right-uppercase', ['AUTHORIZATION: BASIC ' + b64('%s:%s' % (user, pw))], True),
        ('right-mixed-scheme', ['Authorization: bAsIc ' + b64('%s:%s' % (user, pw))], True),
        ('dotless-i-name', ['Authorızatİon: Basic ' + b64('%s:%s' % (user, pw))], None),
        ('two-spaces', ['Authorization:  Basic ' + b64('%s:%s' % (user, pw))], False),
        ('no-space-after-colon', ['Authorization:Basic ' + b64('%s:%s' % (user, pw))], False),
        ('tab-separator', ['Authorization:\tBasic ' + b64('%s:%s' % (user, pw))], False),
        ('prefix-name', ['X-Authorization: Basic ' + b64('%s:%s' % (user, pw))], False),
        ('proxy-authorization', ['Proxy-Authorization: Basic ' + b64('%s:%s' % (user, pw))], False),
        ('scheme-only', ['Authorization: Basic'], False),
        ('empty-cookie', ['Authorization: Basic '], False),
        ('digest', ['Authorization: Digest username="%s"' % user], False),
        ('bearer-with-right-cookie', ['Authorization: Bearer ' + b64('%s:%s' % (user, pw))], False),
        ('basic-dotted-I', ['Authorization: BASİC ' + b64('%s:%s' % (user, pw))], False),
        ('basicx', ['Authorization: Basicx ' + b64('%s:%s' % (user, pw))], False),
        ('newline-in-scheme', ['Authorization: Ba\nsic ' + b64('%s:%s' % (user, pw))], False),
        ('newline-in-cookie', ['Authorization: Basic ' + b64('%s:%s' % (user, pw)) + '\nx'], False),
        ('first-line-wins-wrong', ['Authorization: Basic ' + b64('%s:%s' % (user, pw + 'x')), good], False),
        ('first-line-wins-right', [good, 'Authorization: Basic ' + b64('nobody:no')], True),
        ('unmatched-first-then-right', ['Authorization:Basic zzz', good], True),
        ('bad-base64-padding', ['Authorization: Basic ' + b64('%s:%s' % (user, pw)).rstrip('=') + 'A'], None),
        ('bad-base64-chars', ['Authorization: Basic !!!!'], False),
        ('bad-base64-single', ['Authorization: Basic A'], False),
        ('base64-with-spaces', ['Authorization: Basic ' + ' '.join(b64('%s:%s' % (user, pw)))], None),
        ('base64-with-garbage', ['Authorization: Basic ' + '*'.join(b64('%s:%s' % (user, pw)))], None),
        ('cookie-leading-space', ['Authorization: Basic  ' + b64('%s:%s' % (user, pw))], None),
        ('cookie-trailing', [good + ' trailing'], None),
        ('non-utf8', ['Authorization: Basic ' + b64(b'\xff\xfe:' + pw.encode('utf-8'))], False),
        ('truncated-utf8', ['Authorization: Basic ' + b64((user + ':').encode('utf-8') + b'\xc3')], False),
        ('missing-colon', ['Authorization: Basic ' + b64(user + pw)], False),
        ('missing-colon-user-only', ['Authorization: Basic ' + b64(user)], False),
        ('empty-decoded', ['Authorization: Basic ' + b64('')], False),
        ('only-colon', ['Authorization: Basic ' + b64(':')], user == '' and pw_right('', stored)),
        ('empty-user', ['Authorization: Basic ' + b64(':' + pw)], user == ''),
        ('empty-password', ['Authorization: Basic ' + b64(user + ':')], pw_right('', stored)),
        ('wrong-user', ['Authorization: Basic ' + b64('%sx:%s' % (user, pw))], False),
        ('user-case', ['Authorization: Basic ' + b64('%s:%s' % (user.swapcase(), pw))], user.swapcase() == user),
        ('password-case', ['Authorization: Basic ' + b64('%s:%s' % (user, pw.swapcase()))], pw_right(pw.swapcase(), stored)),
        ('password-extension', ['Authorization: Basic ' + b64('%s:%sx' % (user, pw))], False),
        ('password-trailing-space', ['Authorization: Basic ' + b64('%s:%s ' % (user, pw))], False),
        ('password-trailing-newline', ['Authorization: Basic ' + b64('%s:%s\n' % (user, pw))], False),
        ('password-nul', ['Authorization: Basic ' + b64('%s:%s\x00' % (user, pw))], False),
        ('extra-colon', ['Authorization: Basic ' + b64('%s::%s' % (user, pw))], pw_right(':' + pw, stored)),
        ('colon-suffix', ['Authorization: Basic ' + b64('%s:%s:' % (user, pw))], pw_right(pw + ':', stored)),
        ('stored-string-as-password', ['Authorization: Basic ' + b64('%s:%s' % (user, stored))], pw_right(stored, stored)),
        ('sha-of-password-as-password', ['Authorization: Basic ' + b64('%s:%s' % (user, hashlib.sha1(pw.encode()).hexdigest()))],
         pw_right(hashlib.sha1(pw.encode()).hexdigest(), stored)),
        ('non-ascii-wrong', ['Authorization: Basic ' + b64('%s:%s' % (user, 'päss€'))], pw_right('päss€', stored)),
        ('oversized', ['Authorization: Basic ' + b64('%s:%s' % (user, pw + 'A' * 65536))], False),
        ('oversized-junk', ['Authorization: Basic ' + 'A' * 65537], False),
    ]
    for k in range(len(pw)):
        out.append(('password-prefix-%d' % k, ['Authorization: Basic ' + b64('%s:%s' % (user, pw[:k]))], pw_right(pw[:k], stored)))
    for k in range(len(user)):
        out.append(('user-prefix-%d' % k, ['Authorization: Basic ' + b64('%s:%s' % (user[:k], pw))], False))
    full = b64('%s:%s' % (user, pw))
    for k in sorted(set([1, 2, 3, len(full) // 2, len(full) - 2, len(full) - 1])):
        if 0 < k < len(full):
            out.append(('cookie-truncated-%d' % k, ['Authorization: Basic ' + full[:k]], None))
    for _ in range(30 if thorough else 6):
        # random byte strings through base64, random text cookies
        n = rng.randrange(0, 12)
        raw = bytes(rng.choice(b':ab\xc3\xa9\xff \n' + user.encode()[:2] + pw.encode()[:2]) for _ in range(n))
        out.append(('random-bytes', ['Authorization: Basic ' + b64(raw)], None))
        txt = ''.join(rng.choice('AQ=:+/ ab*') for _ in range(rng.randrange(0, 10)))
        out.append(('random-cookie', ['Authorization: Basic ' + txt], None))
    if not pw_right(pw, stored):
        # the stored entry is not satisfied by `pw` (e.g. a plain password that itself starts with {SHA})
        out = [(l, h, False if r is True else r) for l, h, r in out]
    if ':' in user:
        # RFC 7617: a user-id cannot contain ':'; the split on the first colon makes every request a mismatch
        # (fails closed).  Boundary of "requests with the right credentials are served", not a defect.
        out = [(l, h, False if r is not None else None) for l, h, r in out]
    return out


STORES = [('user', 'secret', False), ('user', 'secret', True), ('admin', 'p:w', False), ('admin', 'p:w', True),
          ('üser', 'päss€', False), ('üser', 'päss€', True), ('u', '', False), ('u', '', True),
          ('a:b', 'pw', False), ('User', 'Se{SHA}t', False), ('user', '{SHA}', False),
          ('user', '{SHA}' + 'A94A8FE5CCB19BA61C4C0873D391E987982FBBD3', False)]


def stored_of(pw, sha):
    return sha_entry(pw) if sha else pw


def run_level_a(ctx):
    cases, impls = [], []
    thorough = ctx.tier == 'thorough'
    for user, pw, sha in STORES:
        stored = stored_of(pw, sha)
        ops, lines = [], []
        for label, header, right in header_classes(ctx.rng, user, pw, stored, thorough):
            line, obs = level_a_one(user, stored, header)
            inp = {'level': 'A', 'user': user, 'stored': stored, 'header': header, 'class': label}
            invoked = bool(obs['inner'])
            ctx.count('A:class:' + label.split('-')[0])
            ctx.count('A:answer:' + line.split()[0] + (':' + line.split()[1] if line.split()[0] in ('error',) else ''))
            ctx.case_done(('A', user, stored, tuple(header)), nontrivial=any(l.lower().startswith('auth') for l in header))
            # -- monitors
            if invoked and not carries_right_credentials(header, user, stored):
                ctx.violation('served-without-valid-credentials', 'inner handler invoked for header class %s: %r' % (label, [h[:80] for h in header]), inp)
            if right is True and not invoked:
                ctx.violation('valid-credentials-refused', 'right credentials (%s) not served: %s' % (label, line), inp)
            if right is False and invoked:
                ctx.violation('served-without-valid-credentials', 'class %s must be refused, inner handler invoked' % label, inp)
            if invoked and obs['inner'][0] != [user, obs['inner'][0][1] if isinstance(obs['inner'][0], list) and len(obs['inner'][0]) == 2 else None]:
                ctx.violation('wrong-auth-info', 'auth_info %r for configured user %r' % (obs['inner'][0], user), inp)
            if not invoked:
                if obs['raised'] is None and obs['errors'] not in ([400], [401]):
                    ctx.violation('refusal-without-error-status', 'refused with %r' % (obs['errors'],), inp)
                if obs['errors'] == [401]:
                    ch = obs['headers'].get('WWW-Authenticate', '')
                    if not ch.startswith('Basic realm='):
                        ctx.violation('no-basic-challenge', '401 without a Basic challenge: %r' % obs['headers'], inp)
                if obs['raised'] is not None and not isinstance(obs['raised'], ValueError):
                    ctx.violation('unexpected-exception-class', repr(obs['raised']), inp)
            ops.append('handle h=%s t=%s' % (hdr_field(header), tables_for(header)))
            lines.append(line)
        cases.append(('case auth user=%s pass=%s' % (hs(user), hs(stored)), ops))
        impls.append(lines)
    ctx.sample({'case': cases[1][0], 'ops': [o[:200] for o in cases[1][1][2:5]], 'impl': impls[1][2:5]})
    ctx.correspond('auth-handler', cases, impls)


# ---------------------------------------------------------------------------------------------
# level B: the real handler chains and the real channel dispatch
class Rec:
    def __init__(self, inner, name, log):
        self.inner, self.name, self.log = inner, name, log
    def match(self, request):
        r = bool(self.inner.match(request))
        seq = next((l.split(':', 1)[1].strip() for l in request.header if l.lower().startswith('x-seq:')), None)
        self.log.append(('match', self.name, r, seq))
        return r
    def handle_request(self, request):
        ai = getattr(request, 'auth_info', None)
        seq = next((l.split(':', 1)[1].strip() for l in request.header if l.lower().startswith('x-seq:')), None)
        self.log.append(('handle', self.name, ai, seq))
        request['Content-Length'] = len(MARK)
        request.push(MARK)
        request.done()


def parse_server_configs(ctx, username, password, sock):
    from supervisor.options import ServerOptions
    import io
    cred = ''
    if username is not None:
        cred += 'username=%s\n' % username
    if password is not None:
        cred += 'password=%s\n' % password
    probe = socket.socket(); probe.bind(('127.0.0.1', 0)); port = probe.getsockname()[1]; probe.close()
    text = ('[supervisord]\n[inet_http_server]\nport=127.0.0.1:%d\n' % port + cred +
            '[unix_http_server]\nfile=%s\nchmod=0700\n' % sock + cred)
    o = ServerOptions()
    o.configfile = io.StringIO(text)
    try:
        o.realize(args=[])
    except SystemExit:
        from framework import Infra
        raise Infra('the parser rejected the generated server sections: %r' % text)
    configs = list(o.server_configs)
    fams = sorted(c['family'] for c in configs)
    if fams != sorted([socket.AF_INET, socket.AF_UNIX]):
        ctx.violation('server-section-lost', 'parsed server families %r' % fams, {'level': 'B', 'config': text})
    for c in configs:
        ctx.count('parse:%s:username=%s' % ('inet' if c['family'] == socket.AF_INET else 'unix',
                                            'None' if c['username'] is None else ('empty' if c['username'] == '' else 'set')))
        if (c['username'], c['password']) != (username, password):
            ctx.violation('credentials-altered-by-parser',
                          'section %s: configured (%r, %r), make_http_servers receives (%r, %r)'
                          % (c['section'], username, password, c['username'], c['password']),
                          {'level': 'B', 'config': text})
    return configs


def build_servers(ctx, username, password):
    """real make_http_servers for one inet and one unix configuration; inner handlers -> recorders"""
    from supervisor.tests.base import DummyOptions, DummySupervisor, DummyRPCInterfaceFactory
    from supervisor.http import make_http_servers, supervisor_auth_handler
    options = DummyOptions()
    sock = os.path.join(ctx.scratch, 'sv-%d.sock' % len(os.listdir(ctx.scratch)))
    # the server configurations come out of the real parser ([inet_http_server] / [unix_http_server] sections ->
    # ServerOptions.server_configs_from_parser), so that a change in how username/password reach
    # make_http_servers is seen here
    options.server_configs = parse_server_configs(ctx, username, password, sock)
    options.rpcinterface_factories = [('dummy', DummyRPCInterfaceFactory, {})]
    servers = make_http_servers(options, DummySupervisor())
    out = []
    for cfg, hsrv in servers:
        log, wrapped = [], {}
        for i, h in enumerate(hsrv.handlers):
            if isinstance(h, supervisor_auth_handler):
                name = VAR_OF_CLASS.get(h.handler.__class__.__name__, h.handler.__class__.__name__)
                h.handler = Rec(h.handler, name, log)
                wrapped[name] = True
            else:
                name = VAR_OF_CLASS.get(h.__class__.__name__, h.__class__.__name__)
                hsrv.handlers[i] = Rec(h, name, log)
                wrapped[name] = False
        out.append(('inet' if cfg['family'] == socket.AF_INET else 'unix', hsrv, log, wrapped))
    return out


def close_servers(servers):
    import supervisor.medusa.asyncore_25 as asyncore
    for _, hsrv, _, _ in servers:
        try:
            hsrv.close()
        except Exception:
            pass
    asyncore.socket_map.clear()


def channel_request(hsrv, log, raw_header):
    """one request through the real channel; returns (status or None, response bytes)"""
    from supervisor.http import deferring_http_channel
    import supervisor.medusa.asyncore_25 as asyncore
    import io, sys
    a, b = socket.socketpair()
    del log[:]
    saved = sys.stderr
    sys.stderr = io.StringIO()
    try:
        ch = deferring_http_channel(hsrv, a, ('test', 0))
        ch.in_buffer = raw_header
        ch.found_terminator()
        data = b''
        b.setblocking(False)
        for _ in range(6):
            asyncore.poll(0.0, asyncore.socket_map)
            try:
                chunk = b.recv(1 << 20)
                if chunk:
                    data += chunk
            except (BlockingIOError, OSError):
                pass
    finally:
        sys.stderr = saved
        for s in (a, b):
            try:
                s.close()
            except OSError:
                pass
        try:
            ch.del_channel()
        except Exception:
            pass
    m = re.match(rb'HTTP/1\.[01] (\d+)', data)
    return (int(m.group(1)) if m else None), data


PATHS = ['/RPC2', '/RPC2/extra', '/rpc2', '/RPC', '/logtail/proc', '/logtail', '/LOGTAIL/proc', '/mainlogtail', '/mainlogtail/x',
         '/', '/index.html', '/index.html?action=stopall', '/tail.html?processname=p', '/INDEX.HTML', '/stylesheets/supervisor.css',
         '/images/icon.png', '/nothing/here', '/%52PC2', '/logtail%2Fproc', '/%6cogtail/p', '/RPC2%00', '//RPC2', '/./index.html',
         '/../etc/passwd', '*', 'http://host/RPC2']
METHODS = ['GET', 'POST', 'HEAD', 'PUT', 'DELETE', 'OPTIONS']
VERSIONS = [' HTTP/1.0', ' HTTP/1.1', '']


def run_level_b(ctx):
    rng = ctx.rng
    thorough = ctx.tier == 'thorough'
    configs = [('user', 'secret', False, 'auth'), ('Admin User', 'Sec ret=;#x', True, 'auth'), ('üser', 'p:w', False, 'auth'),
               ('u', '', False, 'auth'),
               ('', 'secret', False, 'empty-username'), (None, None, False, 'no-auth')]
    cases, impls = [], []
    for username, pw, sha, mode in configs:
        stored = None if pw is None else stored_of(pw, sha)
        servers = build_servers(ctx, username, stored)
        try:
            for fam, hsrv, log, wrapped in servers:
                ctx.count('B:chain:%s:%s:wrapped=%d/%d' % (fam, mode, sum(wrapped.values()), len(wrapped)))
                if mode == 'auth' and not all(wrapped.values()):
                    ctx.violation('handler-not-wrapped', '%s server: handlers not behind supervisor_auth_handler: %s'
                                  % (fam, sorted(k for k, v in wrapped.items() if not v)),
                                  {'level': 'B', 'username': username, 'stored': stored, 'family': fam})
                hcs = header_classes(rng, username or 'user', 'secret' if pw is None else pw, 'secret' if stored is None else stored, False)
                # every path with the main header classes; every header class on a few paths
                main = [h for h in hcs if h[0] in ('absent', 'right', 'wrong-user', 'password-extension', 'missing-colon',
                                                   'bad-base64-chars', 'digest', 'empty-password', 'non-utf8', 'oversized')]
                reqs = []
                for p in PATHS:
                    for h in main:
                        reqs.append((rng.choice(METHODS[:2]) if p != '*' else 'OPTIONS', p, rng.choice(VERSIONS[:2]), h))
                for h in hcs:
                    for p in ('/RPC2', '/logtail/proc', '/index.html', '/images/icon.png'):
                        reqs.append(('GET' if p != '/RPC2' else 'POST', p, ' HTTP/1.1', h))
                for m in METHODS:
                    for v in VERSIONS:
                        for h in main[:3]:
                            reqs.append((m, rng.choice(PATHS), v, h))
                if not thorough:
                    keep = [r for r in reqs if r[3][0] in ('absent', 'right')]
                    rest = [r for r in reqs if r[3][0] not in ('absent', 'right')]
                    rng.shuffle(rest)
                    reqs = keep[:60] + rest[:150]
                ops, lines = [], []
                for method, path, version, (label, header, right) in reqs:
                    if any('\n' in l or '\r' in l for l in header):
                        continue      # cannot be framed as one header line on the wire
                    raw = '\r\n'.join(['%s %s%s' % (method, path, version)] + list(header)).encode('utf-8')
                    status, data = channel_request(hsrv, log, raw)
                    handled = [e for e in log if e[0] == 'handle']
                    matched = [e[1] for e in log if e[0] == 'match' and e[2]]
                    inp = {'level': 'B', 'family': fam, 'username': username, 'stored': stored, 'request': raw.decode('utf-8')[:300],
                           'class': label}
                    ctx.count('B:%s:status:%s' % (mode, status))
                    ctx.count('B:first-match:' + (matched[0] if matched else 'none'))
                    ctx.case_done(('B', fam, username, stored, raw), nontrivial=bool(header))
                    if version == '' and status is None and not handled:
                        # HTTP/0.9-style request: the reply has no status line; look at the body instead
                        pass
                    # -- monitors
                    if mode in ('auth', 'empty-username'):
                        ok = carries_right_credentials(header, username, stored)
                        if handled and not ok:
                            kind = 'empty-username-disables-auth' if mode == 'empty-username' else 'served-without-valid-credentials'
                            ctx.violation(kind, '%s %s on the %s server reached handler %s without valid credentials (status %s)'
                                          % (method, path, fam, handled[0][1], status), inp)
                        if MARK in data and not ok:
                            kind = 'empty-username-disables-auth' if mode == 'empty-username' else 'handler-bytes-returned-without-credentials'
                            ctx.violation(kind, 'the handler\'s body was returned without valid credentials', inp)
                        if mode == 'auth':
                            if right is True and matched and not handled:
                                ctx.violation('valid-credentials-refused', '%s %s: right credentials answered %s' % (method, path, status), inp)
                            if not handled and matched and status is not None and status not in (400, 401, 500):
                                ctx.violation('refusal-without-error-status', 'refused with status %s' % status, inp)
                            if not handled and status == 401 and b'WWW-Authenticate: Basic realm=' not in data:
                                ctx.violation('no-basic-challenge', '401 without a Basic challenge', inp)
                    if len(handled) > 1:
                        ctx.violation('handled-twice', 'two handlers ran for one request: %r' % handled, inp)
                    # -- canonical line (same format as Model/Auth.showAnswer)
                    if handled:
                        ai = handled[0][2]
                        line = 'status=- invoked=%s auth=%s' % (handled[0][1], ai_field(ai))
                    else:
                        line = 'status=%s%s invoked=-' % (status if status is not None else '?', ' challenge' if b'WWW-Authenticate: Basic realm=' in data else '')
                        if status is None:
                            continue    # no status line (HTTP/0.9-style request line or closed channel): not comparable
                    # a wrapper only sees the header if some handler matched: tables are needed then
                    ops.append('serve m=%s h=%s t=%s' % (','.join(matched[:1]) or '-', hdr_field(header), tables_for(header)))
                    lines.append(line)
                cases.append(('case auth user=%s pass=%s' % (opt(username), opt(stored)), ops))
                impls.append(lines)
        finally:
            close_servers(servers)
    ctx.sample({'case': cases[0][0], 'ops': [o[:160] for o in cases[0][1][:3]], 'impl': impls[0][:3]})
    ctx.correspond('auth-dispatch', cases, impls)


# ---------------------------------------------------------------------------------------------
# several requests on ONE connection (HTTP/1.1 keep-alive, HTTP/1.0 + Connection: keep-alive, pipelining):
# the statement is about *every request*; whatever the connection carried before, request k is served iff
# request k itself carries the credentials.
SEQ_CLASSES = ['right', 'right-lowercase-name', 'absent', 'other-headers-only', 'wrong-user', 'password-extension', 'password-prefix-1',
               'empty-password', 'digest', 'bearer-with-right-cookie', 'scheme-only', 'bad-base64-chars', 'bad-base64-single',
               'non-utf8', 'missing-colon', 'empty-decoded', 'user-case', 'stored-string-as-password', 'two-spaces', 'prefix-name']
SEQ_MAIN = ['right', 'absent', 'wrong-user', 'bad-base64-single', 'missing-colon', 'digest', 'password-extension']


def level_a_seq(user, stored, seq):
    """seq = [(wrapper index, header lines)]: the requests of one connection.  The two wrappers share the users
    dictionary (as the five wrappers of one server do), all requests share ONE channel object.
    -> [(canonical line, invoked?, observables)]"""
    from supervisor.http import supervisor_auth_handler
    import io, sys
    users = {user: stored}
    inners = [Inner(), Inner()]
    wrappers = [supervisor_auth_handler(users, i) for i in inners]
    chan = FakeChannel()
    out = []
    saved = sys.stderr
    sys.stderr = io.StringIO()
    try:
        for wi, header in seq:
            req = FakeRequest(header, chan)
            before = [len(i.calls) for i in inners]
            raised = None
            try:
                wrappers[wi].handle_request(req)
            except Exception as ex:
                raised = ex
            new = [i.calls[b:] for i, b in zip(inners, before)]
            calls = new[wi]
            stray = new[1 - wi]
            if calls:
                ai = calls[0]
                line = 'inner %s:%s' % (hs(ai[0]), hs(ai[1])) if isinstance(ai, list) and len(ai) == 2 else 'inner ?%r' % (ai,)
                if len(calls) > 1 or req.errors or raised or stray:
                    line += ' +extra'
            elif stray:
                line = 'other-wrapper-invoked'
            elif raised is not None:
                line = 'raised'
            elif req.errors == [401]:
                line = 'unauthorized 401'
            elif len(req.errors) == 1:
                line = 'error %d' % req.errors[0]
            else:
                line = 'nothing %r' % (req.errors,)
            out.append((line, bool(calls or stray), {'errors': req.errors, 'headers': req.out_headers, 'raised': raised, 'calls': calls}))
    finally:
        sys.stderr = saved
    return out


def a_seq_monitors(ctx, user, stored, labelled, res, inp):
    """labelled = [(wrapper index, label, header, right)]"""
    for k, ((wi, label, header, right), (line, invoked, obs)) in enumerate(zip(labelled, res)):
        ok = carries_right_credentials(header, user, stored)
        what = 'request %d of the connection (class %s, after %s)' % (k + 1, label, [l[1] for l in labelled[:k]])
        if invoked and not ok:
            ctx.violation('served-without-valid-credentials', 'inner handler invoked for %s: %r' % (what, [h[:80] for h in header]), dict(inp, k=k))
        if right is False and invoked:
            ctx.violation('served-without-valid-credentials', '%s must be refused, inner handler invoked' % what, dict(inp, k=k))
        if right is True and not invoked:
            ctx.violation('valid-credentials-refused', 'right credentials not served for %s: %s' % (what, line), dict(inp, k=k))
        if not invoked and obs['raised'] is None and obs['errors'] not in ([400], [401]):
            ctx.violation('refusal-without-error-status', '%s refused with %r' % (what, obs['errors']), dict(inp, k=k))
        if obs['calls'] and not (isinstance(obs['calls'][0], list) and obs['calls'][0][:1] == [user]):
            ctx.violation('wrong-auth-info', 'auth_info %r for configured user %r (%s)' % (obs['calls'][0], user, what), dict(inp, k=k))


def run_level_a_seq(ctx):
    rng = ctx.rng
    thorough = ctx.tier == 'thorough'
    cases, impls = [], []
    for user, pw, sha in STORES:
        stored = stored_of(pw, sha)
        hcs = dict((l, (h, r)) for l, h, r in header_classes(rng, user, pw, stored, False))
        names = [n for n in hcs if not n.startswith('oversized') and not n.startswith('random')]
        seqs = []
        for first in ('right', 'right-lowercase-name'):            # every class after an authenticated request
            for second in names:
                seqs.append([first, second])
        for first in ('absent', 'wrong-user', 'bad-base64-chars', 'missing-colon', 'digest'):   # and after each kind of refusal
            for second in ('right', 'absent', 'wrong-user', 'missing-colon'):
                seqs.append([first, second])
        for _ in range(ctx.n(25, 250)):
            seqs.append([rng.choice(SEQ_MAIN if rng.random() < 0.6 else names) for _ in range(rng.choice([3, 3, 4]))])
        if thorough:
            seqs.append(['right', 'oversized-junk', 'absent'])
        for labels in seqs:
            labelled = [(rng.randrange(2), l, hcs[l][0], hcs[l][1]) for l in labels]
            res = level_a_seq(user, stored, [(wi, h) for wi, _, h, _ in labelled])
            inp = {'level': 'A-seq', 'user': user, 'stored': stored, 'seq': [[wi, l, h, r] for wi, l, h, r in labelled]}
            a_seq_monitors(ctx, user, stored, labelled, res, inp)
            ctx.count('Aseq:len:%d' % len(labels))
            for (wi, l, h, r), (line, invoked, _) in zip(labelled, res):
                ctx.count('Aseq:answer:' + line.split()[0] + (':' + line.split()[1] if line.startswith('error') else ''))
            for k in range(1, len(labels)):
                ctx.count('Aseq:after-%s:%s' % ('right' if labelled[k - 1][3] is True else 'refusal', 'right' if labelled[k][3] is True else 'not-right'))
            ctx.case_done(('Aseq', user, stored, tuple((wi, tuple(h)) for wi, _, h, _ in labelled)), nontrivial=True)
            cases.append(('case authconn user=%s pass=%s' % (hs(user), hs(stored)),
                          ['handle h=%s t=%s' % (hdr_field(h), tables_for(h)) for _, _, h, _ in labelled]))
            impls.append([line for line, _, _ in res])
    ctx.sample({'case': cases[2][0], 'ops': [o[:160] for o in cases[2][1]], 'impl': impls[2]})
    ctx.correspond('auth-handler-connection', cases, impls)


class Conn:
    """One client connection into a REAL deferring_http_channel of a real server object.  Requests are written to the
    socket -- one at a time or several at once (pipelined) -- and reach the channel through asyncore's own read
    dispatch (handle_read -> found_terminator), the responses are read back from the socket."""
    def __init__(self, hsrv):
        from supervisor.http import deferring_http_channel
        self.a, self.b = socket.socketpair()
        self.ch = deferring_http_channel(hsrv, self.a, ('test', 0))
        self.b.setblocking(False)
        self.buf = b''
        self.eof = False

    def send(self, data):
        """-> False if the server has hung up"""
        try:
            self.b.sendall(data)
            return True
        except OSError:
            return False

    def pump(self, rounds=6):
        import supervisor.medusa.asyncore_25 as asyncore
        for _ in range(rounds):
            asyncore.poll(0.0, asyncore.socket_map)
            try:
                while True:
                    d = self.b.recv(1 << 20)
                    if not d:
                        self.eof = True
                        break
                    self.buf += d
            except (BlockingIOError, OSError):
                pass

    def take_response(self):
        """the next complete response on the connection: (status, header bytes, body) or None"""
        m = re.match(rb'HTTP/1\.[01] (\d+)[^\r\n]*\r\n', self.buf)
        end = self.buf.find(b'\r\n\r\n')
        if not m or end < 0:
            return None
        head = self.buf[:end]
        cl = re.search(rb'(?im)^content-length: *(\d+)', head)
        if cl is None:
            body, rest = self.buf[end + 4:], b''
        else:
            n = int(cl.group(1))
            if len(self.buf) < end + 4 + n:
                return None
            body, rest = self.buf[end + 4:end + 4 + n], self.buf[end + 4 + n:]
        self.buf = rest
        return int(m.group(1)), head, body

    def close(self):
        for s in (self.a, self.b):
            try:
                s.close()
            except OSError:
                pass
        try:
            self.ch.del_channel()
        except Exception:
            pass


def framed(method, path, version, header, k):
    """version: '1.1' | '1.0ka' (HTTP/1.0 + Connection: keep-alive) | '1.0'"""
    lines = ['%s %s HTTP/%s' % (method, path, '1.1' if version == '1.1' else '1.0'), 'X-Seq: %d' % k]
    if version == '1.0ka':
        lines.append('Connection: keep-alive')
    return ('\r\n'.join(lines + list(header)) + '\r\n\r\n').encode('utf-8')


def connection_exchange(hsrv, log, reqs, pipelined):
    """reqs = [(method, path, version, header lines)] on ONE connection.
    -> [dict(delivered, status, head, body, handled, matched)] per request"""
    import io, sys
    saved = sys.stderr
    sys.stderr = io.StringIO()
    del log[:]
    conn = Conn(hsrv)
    res = [{'delivered': False, 'status': None, 'head': b'', 'body': b'', 'handled': [], 'matched': []} for _ in reqs]
    try:
        if pipelined:
            ok = conn.send(b''.join(framed(m, p, v, h, k) for k, (m, p, v, h) in enumerate(reqs)))
            for r in res:
                r['delivered'] = ok
            conn.pump(8)
            answers = []
            while True:
                t = conn.take_response()
                if t is None:
                    break
                answers.append(t)
            # responses come in request order; a request that ran a handler is identified by its X-Seq tag
            for r, t in zip(res, answers):
                r['status'], r['head'], r['body'] = t
        else:
            for k, (m, p, v, h) in enumerate(reqs):
                if conn.eof or not conn.send(framed(m, p, v, h, k)):
                    break
                res[k]['delivered'] = True
                conn.pump()
                t = conn.take_response()
                if t is not None:
                    res[k]['status'], res[k]['head'], res[k]['body'] = t
        for e in log:
            if e[3] is not None and e[3].isdigit() and int(e[3]) < len(res):
                if e[0] == 'handle':
                    res[int(e[3])]['handled'].append(e)
                elif e[2]:
                    res[int(e[3])]['matched'].append(e[1])
        leftover = conn.buf
    finally:
        sys.stderr = saved
        conn.close()
    return res, leftover


SEQ_PATHS = [('POST', '/RPC2'), ('GET', '/logtail/proc'), ('GET', '/mainlogtail'), ('GET', '/index.html'), ('GET', '/stylesheets/supervisor.css'),
             ('GET', '/'), ('GET', '/nothing/here')]
# counted, reported to the integrator, not a violation of the (security) statement: see ASSUMPTIONS
OBSERVE_UNANSWERED_AFTER_401 = 'right-credentials-unanswered-after-401-on-kept-alive-connection'


def b_seq_one(ctx, fam, hsrv, log, username, stored, labelled, version, pipelined, cases, impls, mode='auth'):
    """labelled = [(method, path, label, header, right)]"""
    reqs = [(m, p, version if isinstance(version, str) else version[k], h) for k, (m, p, l, h, r) in enumerate(labelled)]
    res, leftover = connection_exchange(hsrv, log, reqs, pipelined)
    inp = {'level': 'B-seq', 'family': fam, 'username': username, 'stored': stored, 'pipelined': pipelined,
           'requests': [[m, p, v, l, h, r] for (m, p, v, h), (_, _, l, _, r) in zip(reqs, labelled)]}
    ops, lines = [], []
    refused_401 = False          # an earlier request of this connection was answered 401
    closing = False              # an earlier response announced `Connection: close` (or the request was plain HTTP/1.0)
    for k, ((m, p, l, h, right), (_, _, v, _), r) in enumerate(zip(labelled, reqs, res)):
        ok = carries_right_credentials(h, username, stored)
        handled, matched, status = r['handled'], r['matched'], r['status']
        before = [x[2] for x in labelled[:k]]
        what = 'request %d on the connection (%s %s HTTP/%s, class %s, after %s%s) on the %s server' % (
            k + 1, m, p, v, l, before, ', pipelined' if pipelined else '', fam)
        ctx.count('Bseq:pos%d:%s' % (k + 1, 'served' if handled else ('status:%s' % status)))
        if k:
            ctx.count('Bseq:after-%s:%s' % ('right' if labelled[k - 1][4] is True else 'refusal', 'right' if right is True else 'not-right'))
        # ---- the statement, per request
        if mode == 'auth':
            if handled and not ok:
                ctx.violation('served-without-valid-credentials', '%s reached handler %s without valid credentials (status %s)'
                              % (what, handled[0][1], status), dict(inp, k=k))
            if MARK in r['body'] and not ok:
                ctx.violation('handler-bytes-returned-without-credentials', 'the handler\'s body was returned for %s' % what, dict(inp, k=k))
            if len(handled) > 1:
                ctx.violation('handled-twice', 'two handlers ran for %s: %r' % (what, handled), dict(inp, k=k))
            if handled and handled[0][2] is not None and list(handled[0][2][:1]) != [username]:
                ctx.violation('wrong-auth-info', 'auth_info %r for configured user %r (%s)' % (handled[0][2], username, what), dict(inp, k=k))
            if right is True and matched and not handled:
                ctx.violation('valid-credentials-refused', '%s: right credentials answered %s' % (what, status), dict(inp, k=k))
            if right is True and r['delivered'] and not handled and not matched:
                if refused_401 or closing:
                    # the channel stopped reading after an earlier 401 of this connection (set_terminator(None))
                    ctx.count('Bseq:observation:' + OBSERVE_UNANSWERED_AFTER_401 + (':announced-close' if closing else ':announced-keep-alive'))
                    if not closing:
                        # the 401 announced `Connection: Keep-Alive` (HTTP/1.0 keep-alive: done() overwrites the handler's
                        # 'close'), yet the channel never reads again: a request with the right credentials is not served
                        ctx.violation('right-credentials-unanswered-after-401:kept-alive-announced',
                                      '%s: the earlier 401 announced keep-alive, the request with the right credentials on the same connection got no answer' % what,
                                      dict(inp, k=k))
                elif p != '/nothing/here':
                    ctx.violation('valid-credentials-refused', '%s: right credentials got no answer (status %s)' % (what, status), dict(inp, k=k))
            if not handled and matched and status is not None and status not in (400, 401, 500):
                ctx.violation('refusal-without-error-status', '%s refused with status %s' % (what, status), dict(inp, k=k))
            if not handled and status == 401 and b'WWW-Authenticate: Basic realm=' not in r['head']:
                ctx.violation('no-basic-challenge', '%s: 401 without a Basic challenge' % what, dict(inp, k=k))
        if not r['delivered']:
            break
        # ---- canonical line
        if handled:
            ai = handled[0][2]
            line = 'status=- invoked=%s auth=%s' % (handled[0][1], ai_field(ai))
        elif status is None:
            line = 'noanswer'
        else:
            line = 'status=%s%s invoked=-' % (status, ' challenge' if b'WWW-Authenticate: Basic realm=' in r['head'] else '')
        # the model is told which handler matches; a request the channel never dispatched has no match record: the
        # handler that *would* match is the one its path matched on a live connection
        m_field = ','.join(matched[:1]) or WOULD_MATCH.get(p, '-')
        ops.append('serve m=%s h=%s t=%s' % (m_field, hdr_field(h), tables_for(h)))
        lines.append(line)
        if status == 401:
            refused_401 = True
        if re.search(rb'(?im)^connection: *close', r['head']) or v == '1.0':
            closing = True
        if v == '1.0' or (status is not None and re.search(rb'(?im)^connection: *close', r['head']) and status != 401):
            break      # the server closes after this response: nothing more can be sent on the connection
    ctx.case_done(('Bseq', fam, username, stored, pipelined, tuple((m, p, v, tuple(h)) for m, p, v, h in reqs)), nontrivial=True)
    cases.append(('case authconn user=%s pass=%s' % (opt(username), opt(stored)), ops))
    impls.append(lines)


WOULD_MATCH = {'/RPC2': 'xmlrpchandler', '/logtail/proc': 'tailhandler', '/mainlogtail': 'maintailhandler', '/index.html': 'uihandler',
               '/': 'uihandler', '/stylesheets/supervisor.css': 'defaulthandler', '/nothing/here': 'defaulthandler'}


def run_level_b_seq(ctx):
    rng = ctx.rng
    thorough = ctx.tier == 'thorough'
    configs = [('user', 'secret', False), ('Admin User', 'Sec ret=;#x', True), ('üser', 'p:w', False), ('u', '', False), ('', 'secret', False)]
    cases, impls = [], []
    for ci, (username, pw, sha) in enumerate(configs):
        stored = stored_of(pw, sha)
        servers = build_servers(ctx, username, stored)
        try:
            for fam, hsrv, log, wrapped in servers:
                hcs = dict((l, (h, r)) for l, h, r in header_classes(rng, username, pw, stored, False))
                def lab(label, path=None):
                    m, p = path or rng.choice(SEQ_PATHS[:5])
                    return (m, p, label, hcs[label][0], hcs[label][1])
                seqs = []
                # regression corpus: seeded change C17-6 (credentials remembered on the channel) -- its two demo histories
                seqs.append(([lab('right', ('POST', '/RPC2')), lab('absent', ('POST', '/RPC2'))], '1.1', False))
                seqs.append(([lab('right', ('POST', '/RPC2')), lab('wrong-user', ('GET', '/stylesheets/supervisor.css'))], '1.1', False))
                # small scope, exhaustive: every ordered pair of main classes x version, the second request on every handler
                full = (ci == 0) or thorough
                for v in ('1.1', '1.0ka'):
                    for first in SEQ_MAIN:
                        for second in SEQ_MAIN:
                            paths = SEQ_PATHS[:5] if (first == 'right' and full) else [rng.choice(SEQ_PATHS[:5])]
                            for path in paths:
                                if full or first == 'right' or rng.random() < 0.3:
                                    seqs.append(([lab(first), lab(second, path)], v, False))
                # after an authenticated request: every other class
                for second in SEQ_CLASSES:
                    if second in hcs and (full or rng.random() < 0.4):
                        seqs.append(([lab('right'), lab(second)], rng.choice(['1.1', '1.0ka']), rng.random() < 0.3))
                # longer histories, mixed versions, pipelined delivery
                for _ in range(ctx.n(12, 120)):
                    n = rng.choice([3, 3, 4])
                    labels = ['right'] * rng.choice([1, 1, 2]) + [rng.choice(SEQ_MAIN if rng.random() < 0.7 else [c for c in SEQ_CLASSES if c in hcs])
                                                                   for _ in range(n)]
                    labels = labels[:n] if rng.random() < 0.8 else [rng.choice(SEQ_MAIN) for _ in range(n)]
                    version = rng.choice(['1.1', '1.0ka', [rng.choice(['1.1', '1.0ka']) for _ in range(n)]])
                    seqs.append(([lab(l, rng.choice(SEQ_PATHS)) for l in labels], version, rng.random() < 0.5))
                # plain HTTP/1.0 closes after the first response: the second request goes nowhere
                seqs.append(([lab('right'), lab('absent')], ['1.0', '1.1'], False))
                for labelled, version, pipelined in seqs:
                    if any('\n' in l or '\r' in l for x in labelled for l in x[3]):
                        continue
                    ctx.count('Bseq:%s:%s' % ('pipelined' if pipelined else 'one-at-a-time', version if isinstance(version, str) else 'mixed'))
                    ctx.count('Bseq:len:%d' % len(labelled))
                    b_seq_one(ctx, fam, hsrv, log, username, stored, labelled, version, pipelined, cases, impls)
        finally:
            close_servers(servers)
    ctx.sample({'case': cases[0][0], 'ops': [o[:160] for o in cases[0][1]], 'impl': impls[0]})
    ctx.correspond('auth-dispatch-connection', cases, impls)


# ---------------------------------------------------------------------------------------------
# level C: the REAL handlers behind the wrappers (no recorders), several requests on one connection.
# Observed: the probe RPC namespace's call log, the bytes of the static file / the followed log in the response.
RPC_BODY = (b"<?xml version='1.0'?><methodCall><methodName>probe.ping</methodName><params></params></methodCall>")
LOG_SECRET = b'LOG-LINE-ONLY-FOR-AUTHENTICATED-READERS\n'


class _Probe(object):
    calls = []
    def ping(self):
        _Probe.calls.append('ping')
        return 'pong'


def _probe_factory(supervisord, **config):
    return _Probe()


def build_real_server(ctx, username, stored):
    from supervisor.tests.base import DummyOptions, DummyPConfig, PopulatedDummySupervisor
    from supervisor.http import make_http_servers
    options = DummyOptions()
    n = len(os.listdir(ctx.scratch))
    sock = os.path.join(ctx.scratch, 'real-%d.sock' % n)
    logpath = os.path.join(ctx.scratch, 'real-%d.log' % n)
    with open(logpath, 'wb') as f:
        f.write(LOG_SECRET)
    options.server_configs = [c for c in parse_server_configs(ctx, username, stored, sock) if c['family'] == socket.AF_UNIX]
    options.rpcinterface_factories = [('probe', _probe_factory, {})]
    options.logfile = logpath
    sup = PopulatedDummySupervisor(options, 'grp', DummyPConfig(options, 'proc', '/bin/true', stdout_logfile=logpath))
    servers = make_http_servers(options, sup)
    return servers[0][1]


def real_request(kind, version, header, k):
    method, path, body = {'rpc': ('POST', '/RPC2', RPC_BODY), 'css': ('GET', '/stylesheets/supervisor.css', b''),
                          'tail': ('GET', '/logtail/grp:proc', b''), 'main': ('GET', '/mainlogtail', b'')}[kind]
    lines = ['%s %s HTTP/%s' % (method, path, '1.1' if version == '1.1' else '1.0'), 'Host: localhost', 'X-Seq: %d' % k]
    if version == '1.0ka':
        lines.append('Connection: keep-alive')
    if body:
        lines += ['Content-Type: text/xml', 'Content-Length: %d' % len(body)]
    return ('\r\n'.join(lines + list(header)) + '\r\n\r\n').encode('utf-8') + body


def c_seq_one(ctx, hsrv, css, username, stored, seq, version):
    """seq = [(kind, label, header, right)]; every request but the last carries the right credentials"""
    import io, sys
    saved = sys.stderr
    sys.stderr = io.StringIO()
    conn = Conn(hsrv)
    inp = {'level': 'C-seq', 'username': username, 'stored': stored, 'version': version, 'seq': [[kd, l, h, r] for kd, l, h, r in seq]}
    try:
        for k, (kind, label, header, right) in enumerate(seq):
            del _Probe.calls[:]
            if conn.eof or not conn.send(real_request(kind, version, header, k)):
                break
            conn.pump(8)
            t = conn.take_response()
            status, head, body = t if t is not None else (None, b'', conn.buf)
            ok = carries_right_credentials(header, username, stored)
            ran = list(_Probe.calls)
            leaked = [w for w, b in (('the static file', css), ('the log', LOG_SECRET.strip())) if b in body or b in conn.buf]
            what = 'request %d on the connection (%s HTTP/%s, class %s, after %s)' % (k + 1, kind, version, label, [x[1] for x in seq[:k]])
            ctx.count('Cseq:%s:%s:%s' % (kind, 'right' if ok else 'not-right', status))
            if not ok:
                if ran:
                    ctx.violation('rpc-method-ran-without-credentials', '%s: RPC method ran: %r (status %s)' % (what, ran, status), dict(inp, k=k))
                if leaked:
                    ctx.violation('handler-bytes-returned-without-credentials', '%s: bytes of %s were returned (status %s)' % (what, ' and '.join(leaked), status), dict(inp, k=k))
                if status == 200:
                    ctx.violation('served-without-valid-credentials', '%s answered 200' % what, dict(inp, k=k))
            elif right is True:
                served = (kind == 'rpc' and ran == ['ping'] and status == 200) or (kind == 'css' and css in body and status == 200) or \
                         (kind in ('tail', 'main') and status == 200 and LOG_SECRET.strip() in body)
                if not served:
                    ctx.violation('valid-credentials-refused', '%s: right credentials, status %s, rpc calls %r, %d body bytes' % (what, status, ran, len(body)), dict(inp, k=k))
            if kind in ('tail', 'main') and status == 200:
                break            # the stream stays open: nothing else can be asked on this connection
    finally:
        sys.stderr = saved
        conn.close()
    ctx.case_done(('Cseq', username, stored, version, tuple((kd, tuple(h)) for kd, _, h, _ in seq)), nontrivial=True)


def run_level_c_seq(ctx):
    import supervisor.medusa.asyncore_25 as asyncore
    import supervisor
    rng = ctx.rng
    css = open(os.path.join(os.path.dirname(supervisor.__file__), 'ui', 'stylesheets', 'supervisor.css'), 'rb').read()
    for username, pw, sha in [('user', 'secret', False), ('admin', 's3:cret', True)]:
        stored = stored_of(pw, sha)
        hsrv = build_real_server(ctx, username, stored)
        try:
            hcs = dict((l, (h, r)) for l, h, r in header_classes(rng, username, pw, stored, False))
            lasts = ['right', 'absent', 'wrong-user', 'password-extension', 'bad-base64-single', 'missing-colon', 'digest', 'empty-password']
            seqs = []
            for version in ('1.1', '1.0ka'):
                for last in lasts:
                    for firsts, kind in ((['rpc'], 'rpc'), (['rpc'], 'css'), (['css'], 'rpc'), (['css', 'rpc'], 'tail'), (['rpc', 'css'], 'main'),
                                         ([], 'rpc'), ([], 'tail')):
                        if kind in ('tail', 'main') and version != '1.1':
                            continue      # an HTTP/1.0 tail is not chunked and sits in the 64 KiB globbing buffer: nothing to observe
                        if ctx.tier == 'thorough' or last in ('right', 'absent', 'wrong-user') or rng.random() < 0.35:
                            seqs.append((version, [(f, 'right') for f in firsts] + [(kind, last)]))
            for version, items in seqs:
                c_seq_one(ctx, hsrv, css, username, stored, [(kd, l, hcs[l][0], hcs[l][1]) for kd, l in items], version)
        finally:
            try:
                hsrv.close()
            except Exception:
                pass
            asyncore.socket_map.clear()


MULTI = [
    # (kind, username, password, sha) per section; first of a kind is unnamed, later ones get a :name
    [('inet', 'alice', 'pwA', False), ('unix', 'bob', 'pwB', False)],
    [('inet', 'user', 'one', False), ('unix', 'user', 'two', False)],
    [('inet', 'user', 'one', True), ('unix', 'user', 'two', True)],
    [('inet', 'user', 'secret', False), ('unix', None, None, False)],
    [('inet', None, None, False), ('unix', 'user', 'secret', True)],
    [('inet', 'a', '1', False), ('inet', 'b', '2', True), ('unix', 'c', '3', False)],
    [('inet', None, None, False), ('unix', 'u1', 'same', False), ('unix', 'u2', 'same', False)],
    [('inet', 'user', 'secret', False), ('unix', '', 'x', False)],
]


def build_multi(ctx, sections):
    """several server sections through the real parser and the real make_http_servers.
    returns [(index in options.server_configs, kind, (username, stored, plain password), hsrv, log, wrapped)]"""
    from supervisor.options import ServerOptions
    from supervisor.tests.base import DummyOptions, DummySupervisor, DummyRPCInterfaceFactory
    from supervisor.http import make_http_servers, supervisor_auth_handler
    import io
    text, by_name, seen = '[supervisord]\n', {}, {}
    for kind, user, pw, sha in sections:
        k = seen.get(kind, 0); seen[kind] = k + 1
        name = '%s_http_server' % kind + ('' if k == 0 else ':s%d' % k)
        stored = None if pw is None else stored_of(pw, sha)
        by_name[name] = (user, stored, pw)
        text += '[%s]\n' % name
        if kind == 'inet':
            probe = socket.socket(); probe.bind(('127.0.0.1', 0)); port = probe.getsockname()[1]; probe.close()
            text += 'port=127.0.0.1:%d\n' % port
        else:
            text += 'file=%s\n' % os.path.join(ctx.scratch, 'm-%d.sock' % len(os.listdir(ctx.scratch)))
            open(os.path.join(ctx.scratch, 'm-%d.mark' % len(os.listdir(ctx.scratch))), 'w').close()
        if user is not None:
            text += 'username=%s\n' % user
        if stored is not None:
            text += 'password=%s\n' % stored
    o = ServerOptions()
    o.configfile = io.StringIO(text)
    try:
        o.realize(args=[])
    except SystemExit:
        from framework import Infra
        raise Infra('the parser rejected the generated server sections: %r' % text)
    configs = list(o.server_configs)
    if sorted(c['section'] for c in configs) != sorted(by_name):
        ctx.violation('server-section-lost', 'parsed sections %r, configured %r' % ([c['section'] for c in configs], sorted(by_name)),
                      {'level': 'B', 'config': text})
    for c in configs:
        want = by_name.get(c['section'])
        if want is not None and (c['username'], c['password']) != want[:2]:
            ctx.violation('credentials-altered-by-parser', 'section %s: configured %r, make_http_servers receives %r'
                          % (c['section'], want[:2], (c['username'], c['password'])), {'level': 'B', 'config': text})
    options = DummyOptions()
    options.server_configs = configs
    options.rpcinterface_factories = [('dummy', DummyRPCInterfaceFactory, {})]
    servers = make_http_servers(options, DummySupervisor())
    out = []
    for i, (cfg, hsrv) in enumerate(servers):
        log, wrapped = [], {}
        for k, h in enumerate(hsrv.handlers):
            if isinstance(h, supervisor_auth_handler):
                name = VAR_OF_CLASS.get(h.handler.__class__.__name__, h.handler.__class__.__name__)
                h.handler = Rec(h.handler, name, log)
                wrapped[name] = True
            else:
                name = VAR_OF_CLASS.get(h.__class__.__name__, h.__class__.__name__)
                hsrv.handlers[k] = Rec(h, name, log)
                wrapped[name] = False
        out.append((i, cfg['section'], by_name.get(cfg['section'], (cfg['username'], cfg['password'], None)), hsrv, log, wrapped))
    return out, text


def run_level_b_multi(ctx):
    """several sections with different credentials: each server must honour its own section only"""
    cases, impls = [], []
    paths = [('POST', '/RPC2'), ('GET', '/logtail/proc'), ('GET', '/index.html'), ('GET', '/images/icon.png')]
    for sections in MULTI:
        servers, text = build_multi(ctx, sections)
        try:
            creds = [s[2] for s in servers]                      # in options.server_configs order
            secs_field = ';'.join('%s/%s' % (opt(u), opt(st)) for u, st, _ in creds)
            ops, lines = [], []
            for i, section, (user, stored, pw), hsrv, log, wrapped in servers:
                auth_on = user is not None       # `username=` (empty) is a configured username too (F18, fixed)
                ctx.count('Bm:section:%s:%s' % (section.split('_')[0], 'auth' if auth_on else ('empty-username' if user == '' else 'open')))
                if auth_on and not all(wrapped.values()):
                    ctx.violation('handler-not-wrapped', 'section %s: not wrapped: %s' % (section, sorted(k for k, v in wrapped.items() if not v)),
                                  {'level': 'B', 'config': text})
                headers = [('absent', [])]
                for j, (uj, stj, pwj) in enumerate(creds):
                    if uj is None:
                        continue
                    headers.append(('section-%d-credentials' % j, ['Authorization: Basic ' + b64('%s:%s' % (uj, pwj))]))
                    if user is not None and j != i:
                        headers.append(('own-user-section-%d-password' % j, ['Authorization: Basic ' + b64('%s:%s' % (user, pwj))]))
                        headers.append(('section-%d-user-own-password' % j, ['Authorization: Basic ' + b64('%s:%s' % (uj, pw))]))
                        if stj is not None and stj.startswith('{SHA}'):
                            headers.append(('section-%d-stored-string' % j, ['Authorization: Basic ' + b64('%s:%s' % (uj, stj))]))
                headers.append(('wrong', ['Authorization: Basic ' + b64('nobody:nothing')]))
                for method, path in paths:
                    for label, header in headers:
                        raw = '\r\n'.join(['%s %s HTTP/1.0' % (method, path)] + header).encode('utf-8')
                        status, data = channel_request(hsrv, log, raw)
                        handled = [e for e in log if e[0] == 'handle']
                        matched = [e[1] for e in log if e[0] == 'match' and e[2]]
                        inp = {'level': 'B', 'config': text, 'server': section, 'request': raw.decode('utf-8'), 'class': label}
                        ctx.count('Bm:class:' + label.split('-')[0])
                        ctx.count('Bm:status:%s' % status)
                        ctx.case_done(('Bm', text, i, raw), True)
                        if auth_on:
                            own = carries_right_credentials(header, user, stored)
                            if (handled or MARK in data) and not own:
                                others = [creds[j][0] for j in range(len(creds)) if j != i and creds[j][0]
                                          and carries_right_credentials(header, creds[j][0], creds[j][1])]
                                if others:
                                    ctx.violation('served-with-other-sections-credentials',
                                                  '%s %s on [%s] (user %r) was served with the credentials of another section (user %r)'
                                                  % (method, path, section, user, others[0]), inp)
                                elif user == '':
                                    ctx.violation('empty-username-disables-auth', '[%s] with an empty username serves %s %s without credentials' % (section, method, path), inp)
                                else:
                                    ctx.violation('served-without-valid-credentials', '%s %s on [%s] reached %s with header class %s'
                                                  % (method, path, section, handled and handled[0][1], label), inp)
                            if label == 'section-%d-credentials' % i and matched and not handled:
                                ctx.violation('valid-credentials-refused', '[%s]: its own credentials answered %s (another section\'s entry replaced them?)'
                                              % (section, status), inp)
                        if handled:
                            ai = handled[0][2]
                            line = 'status=- invoked=%s auth=%s' % (handled[0][1], ai_field(ai))
                        else:
                            if status is None:
                                continue
                            line = 'status=%s%s invoked=-' % (status, ' challenge' if b'WWW-Authenticate: Basic realm=' in data else '')
                        ops.append('serveat i=%d secs=%s m=%s h=%s t=%s' % (i, secs_field, ','.join(matched[:1]) or '-', hdr_field(header), tables_for(header)))
                        lines.append(line)
            cases.append(('case auth user=N pass=N', ops))
            impls.append(lines)
        finally:
            close_servers([(None, s[3], None, None) for s in servers])
    ctx.sample({'case': 'multi-section', 'ops': [o[:200] for o in cases[0][1][1:3]], 'impl': impls[0][1:3]})
    ctx.correspond('auth-dispatch-multi', cases, impls)


# ---------------------------------------------------------------------------------------------
# level F: from the configuration FILE TEXT to the requests.  A file case is
#   {'vars': {NAME: {'os': value|None, 'sup': written|None}},       the process environment / [supervisord] environment=
#    'sup_order': [NAME, ...],                                      order (and repetitions) of the environment= entries
#    'sup_dups': {NAME: written},                                   an earlier entry for the same name (a later one replaces it)
#    'sections': [{'kind': 'unix'|'inet', 'username': written|None, 'password': written|None, 'addr': written,
#                  'plain': password a client must send for the CONFIGURED entry, 'inherited_plain': ... for the inherited one}]}
# written = [['l', literal text] | ['e', NAME]  (= %(ENV_NAME)s) | ['h'] (= %(here)s, addresses only)].
# Literal texts are templates: '{scratch}' and '{port0}'.. are replaced when the case is run (replayable anywhere).
# The file is written to disk and read by the real ServerOptions (os.environ entries set before its construction and
# restored afterwards); options.server_configs go to the real make_http_servers; requests go through the real channel.
FILE_KINDS_DOC = ("configured-credentials-refused:file, inherited-environment-credentials-served:file, other-sections-credentials-served:file, "
                  "other-credentials-served:file, handler-bytes-returned-without-credentials:file, rpc-method-ran-without-credentials:file, "
                  "refusal-without-401:file, credentials-altered-by-parser:file, server-address-not-as-configured:file, "
                  "handler-not-wrapped:file, server-section-lost:file, configured-file-rejected:file")


def w_text(w):
    """the option value as it is written in the file"""
    out = []
    for piece in w:
        if piece[0] == 'l':
            out.append(piece[1].replace('%', '%%'))
        elif piece[0] == 'e':
            out.append('%%(ENV_%s)s' % piece[1])
        else:
            out.append('%(here)s')
    return ''.join(out)


def w_enc(w):
    if w is None:
        return 'N'
    if not w:
        return 'E'
    return '+'.join(('L' if k == 'l' else 'V') + t.encode('utf-8').hex() for k, t in w)


def w_value(w, look, here=None):
    """what the written text stands for when %(ENV_X)s is `look(X)`; None = some name has no value"""
    out = []
    for piece in w:
        if piece[0] == 'l':
            out.append(piece[1])
        elif piece[0] == 'h':
            out.append(here)
        else:
            v = look(piece[1])
            if v is None:
                return None
            out.append(v)
    return ''.join(out)


def w_names(w):
    return [piece[1] for piece in (w or []) if piece[0] == 'e']


def fc_resolve(fc, scratch, ports):
    """fill the '{scratch}' / '{portK}' templates of the literal texts"""
    def lit(t):
        t = t.replace('{scratch}', scratch)
        for k, port in enumerate(ports):
            t = t.replace('{port%d}' % k, str(port))
        return t
    def wr(w):
        return None if w is None else [[p[0], lit(p[1])] if p[0] == 'l' else list(p) for p in w]
    return {'vars': dict((n, {'os': None if v['os'] is None else lit(v['os']), 'sup': wr(v['sup'])}) for n, v in fc['vars'].items()),
            'sup_order': list(fc.get('sup_order') or [n for n, v in fc['vars'].items() if v['sup'] is not None]),
            'sup_dups': dict((n, wr(w)) for n, w in (fc.get('sup_dups') or {}).items()),
            'sections': [dict(sec, username=wr(sec['username']), password=wr(sec['password']), addr=wr(sec['addr'])) for sec in fc['sections']]}


def fc_file_text(fc, names):
    sup = []
    for n in fc['sup_order']:
        if n in fc['sup_dups'] and not any(k == n for k, _ in sup):
            sup.append((n, fc['sup_dups'][n]))
        sup.append((n, fc['vars'][n]['sup']))
    text = '[supervisord]\n'
    if sup:
        text += 'environment=' + ','.join('%s="%s"' % (n, w_text(w)) for n, w in sup) + '\n'
    for sec, name in zip(fc['sections'], names):
        text += '\n[%s]\n' % name
        text += ('port=%s\n' if sec['kind'] == 'inet' else 'file=%s\n') % w_text(sec['addr'])
        if sec['username'] is not None:
            text += 'username=%s\n' % w_text(sec['username'])
        if sec['password'] is not None:
            text += 'password=%s\n' % w_text(sec['password'])
    return text, sup


def fc_section_names(fc):
    seen, names = {}, []
    for sec in fc['sections']:
        k = seen.get(sec['kind'], 0); seen[sec['kind']] = k + 1
        names.append('%s_http_server' % sec['kind'] + ('' if k == 0 else ':s%d' % k))
    return names


class _Quiet:
    def __enter__(self):
        import io, sys
        self.saved = sys.stderr
        sys.stderr = io.StringIO()
    def __exit__(self, *a):
        import sys
        sys.stderr = self.saved


def parse_file(path, environ):
    """the real ServerOptions on the file, constructed and realized with `environ` laid over os.environ (restored afterwards).
    -> (options | None when the file is rejected, message, {name: value the process environment had})"""
    from supervisor.options import ServerOptions
    from supervisor.tests.base import DummyLogger
    import io
    saved = dict((k, os.environ.get(k)) for k in environ)
    try:
        for k, v in environ.items():
            if v is None:
                os.environ.pop(k, None)
            else:
                os.environ[k] = v
        o = ServerOptions()
        o.stderr = io.StringIO()
        o.stdout = io.StringIO()
        o.configfile = path
        try:
            o.realize(args=[])
        except SystemExit:
            return None, o.stderr.getvalue()
        o.logger = DummyLogger()
        return o, ''
    finally:
        for k, v in saved.items():
            if v is None:
                os.environ.pop(k, None)
            else:
                os.environ[k] = v


def file_spec(fc, here):
    """What the FILE configures, computed without the implementation: `%(ENV_X)s` in a server section is the last X= of the
    [supervisord] environment= if there is one (its own %(ENV_Y)s taken from the process environment), otherwise the value
    inherited from the process environment.  -> (lookup for the file, lookup for the inherited environment alone, file acceptable?)"""
    osenv = dict((n, v['os']) for n, v in fc['vars'].items() if v['os'] is not None)
    supenv, ok = {}, True
    for n in fc['sup_order']:
        val = w_value(fc['vars'][n]['sup'], osenv.get)
        if val is None:
            ok = False
        supenv[n] = val
    for n, w in fc['sup_dups'].items():
        if w_value(w, osenv.get) is None:
            ok = False
    look = lambda n: supenv[n] if n in supenv else osenv.get(n)
    return look, osenv.get, ok


def file_case(ctx, fc0, cases, impls, real=False, attempt=0):
    """one configuration file -> servers -> requests.  real=False: inner handlers replaced by recorders (correspondence
    with the model's `servefile`); real=True: the real handlers with the probe RPC namespace (side effects observed)"""
    from supervisor.tests.base import DummyOptions, DummySupervisor, DummyRPCInterfaceFactory, DummyPConfig, PopulatedDummySupervisor
    from supervisor.http import make_http_servers, supervisor_auth_handler
    import supervisor
    import supervisor.medusa.asyncore_25 as asyncore
    rng = ctx.rng
    n = len(os.listdir(ctx.scratch))
    here = os.path.join(ctx.scratch, 'f%d' % n)
    os.makedirs(os.path.join(here, 'inh'))
    ports = []
    for _ in range(6):
        probe = socket.socket(); probe.bind(('127.0.0.1', 0)); ports.append(probe.getsockname()[1]); probe.close()
    fc = fc_resolve(fc0, here, ports)
    names = fc_section_names(fc)
    text, sup = fc_file_text(fc, names)
    path = os.path.join(here, 'supervisord.conf')
    with open(path, 'w', encoding='utf-8') as f:
        f.write(text)
    inp = {'level': 'F', 'file_case': fc0, 'real': real, 'config': text,
           'environ': dict((nm, v['os']) for nm, v in fc['vars'].items())}
    look, look_inh, sup_ok = file_spec(fc, here)
    # ---- what the file promises, per section
    want = []
    acceptable = sup_ok
    for sec in fc['sections']:
        if (sec['username'] is None) != (sec['password'] is None):
            acceptable = False
        user = None if sec['username'] is None else w_value(sec['username'], look)
        stored = None if sec['password'] is None else w_value(sec['password'], look)
        addr = w_value(sec['addr'], look, here)
        if addr is None or (sec['username'] is not None and user is None) or (sec['password'] is not None and stored is None):
            acceptable = False
        want.append((user, stored, addr))
    options, msg = parse_file(path, dict((nm, v['os']) for nm, v in fc['vars'].items()))
    ctx.count('F:file:%s' % ('accepted' if options is not None else 'rejected'))
    referenced = sorted(set(nm for sec in fc['sections'] for w in (sec['username'], sec['password']) for nm in w_names(w))
                        | set(nm for _, w in sup for nm in w_names(w)))
    os_field = ','.join('%s:%s' % (hs(nm), hs(fc['vars'][nm]['os'])) for nm in referenced
                        if nm in fc['vars'] and fc['vars'][nm]['os'] is not None) or '-'
    sup_field = ','.join('%s:%s' % (hs(nm), w_enc(w)) for nm, w in sup) or '-'
    def op(i, order, m, header):
        secs = ';'.join('%s/%s' % (w_enc(fc['sections'][j]['username']), w_enc(fc['sections'][j]['password'])) for j in order)
        return 'servefile i=%d os=%s sup=%s secs=%s m=%s h=%s t=%s' % (i, os_field, sup_field, secs, m, hdr_field(header), tables_for(header))
    ctx.case_done(('F', text, tuple(sorted(inp['environ'].items(), key=repr)), real), True)
    if options is None:
        if acceptable:
            ctx.violation('configured-file-rejected:file',
                          'every name the file uses is defined by the file or the environment, yet the file is rejected (%s): nothing is served to the configured credentials'
                          % msg.strip().split('\n')[0][:200], inp)
        elif not real:
            cases.append(('case auth user=N pass=N', [op(0, range(len(fc['sections'])), '-', [])]))
            impls.append(['rejected'])
        return
    if not acceptable:
        ctx.count('F:unacceptable-file-accepted')
    configs = list(options.server_configs)
    by_section = dict((c['section'], k) for k, c in enumerate(configs))
    if sorted(by_section) != sorted(names):
        ctx.violation('server-section-lost:file', 'sections in the file %r, server configurations %r' % (names, [c['section'] for c in configs]), inp)
        return
    order = [names.index(c['section']) for c in configs]            # model: sections in options.server_configs order
    for j, (sec, name) in enumerate(zip(fc['sections'], names)):
        c = configs[by_section[name]]
        user, stored, addr = want[j]
        ctx.count('F:section:%s:%s' % (sec['kind'], 'open' if sec['username'] is None else 'auth'))
        if acceptable and (c['username'], c['password']) != (user, stored):
            ctx.violation('credentials-altered-by-parser:file', 'section [%s]: the file configures (%r, %r), make_http_servers receives (%r, %r)'
                          % (name, user, stored, c['username'], c['password']), inp)
        got = c['file'] if sec['kind'] == 'unix' else '%s:%s' % (c['host'], c['port'])
        if acceptable and got != addr:
            ctx.violation('server-address-not-as-configured:file', 'section [%s]: the file configures %r, the server is made for %r' % (name, addr, got), inp)
    # ---- the servers
    if real:
        dopts = DummyOptions()
        logpath = os.path.join(here, 'proc.log')
        with open(logpath, 'wb') as f:
            f.write(LOG_SECRET)
        dopts.logfile = logpath
        sup_obj = PopulatedDummySupervisor(dopts, 'grp', DummyPConfig(dopts, 'proc', '/bin/true', stdout_logfile=logpath))
        options.rpcinterface_factories = [('probe', _probe_factory, {})]
    else:
        sup_obj = DummySupervisor()
        options.rpcinterface_factories = [('dummy', DummyRPCInterfaceFactory, {})]
    try:
        with _Quiet():
            servers = make_http_servers(options, sup_obj)
    except OSError as ex:
        import errno
        asyncore.socket_map.clear()
        if ex.errno != errno.EADDRINUSE:
            raise
        if attempt < 3:
            return file_case(ctx, fc0, cases, impls, real, attempt + 1)      # a probed port was taken meanwhile: other ports
        if any(v['kind'] == 'server-address-not-as-configured:file' and v['input'].get('file_case') is fc0 for v in ctx.violations):
            return           # two servers were made for one address, neither the configured one (reported above)
        from framework import Infra
        raise Infra('could not open the servers of a generated file: %r' % ex)
    css = open(os.path.join(os.path.dirname(supervisor.__file__), 'ui', 'stylesheets', 'supervisor.css'), 'rb').read()
    try:
        ops, lines = [], []
        for i, (cfg, hsrv) in enumerate(servers):
            j = names.index(cfg['section'])
            sec = fc['sections'][j]
            user, stored, addr = want[j]
            log, wrapped = [], {}
            for k, h in enumerate(hsrv.handlers):
                w = isinstance(h, supervisor_auth_handler)
                inner = h.handler if w else h
                name = VAR_OF_CLASS.get(inner.__class__.__name__, inner.__class__.__name__)
                wrapped[name] = w
                if not real:
                    if w:
                        h.handler = Rec(inner, name, log)
                    else:
                        hsrv.handlers[k] = Rec(inner, name, log)
            auth_on = sec['username'] is not None and acceptable
            if auth_on and not all(wrapped.values()):
                ctx.violation('handler-not-wrapped:file', 'section [%s]: not behind supervisor_auth_handler: %s'
                              % (cfg['section'], sorted(k for k, v in wrapped.items() if not v)), inp)
            # -- the requests: (label, header lines)
            headers = [('absent', [])]
            if auth_on:
                plain = stored if not stored.startswith('{SHA}') else sec.get('plain')
                if plain is not None and pw_right(plain, stored):
                    headers.append(('configured', ['Authorization: Basic ' + b64('%s:%s' % (user, plain))]))
                    headers.append(('configured-lowercase', ['authorization: basic ' + b64('%s:%s' % (user, plain))]))
                    headers.append(('wrong-user', ['Authorization: Basic ' + b64('%sx:%s' % (user, plain))]))
                    headers.append(('password-extension', ['Authorization: Basic ' + b64('%s:%sx' % (user, plain))]))
                    if plain:
                        headers.append(('password-prefix', ['Authorization: Basic ' + b64('%s:%s' % (user, plain[:-1]))]))
                # the credentials the same text would stand for in the inherited process environment alone
                iu, ist = w_value(sec['username'], look_inh), w_value(sec['password'], look_inh)
                if iu is not None and ist is not None and (iu, ist) != (user, stored):
                    ipl = ist if not ist.startswith('{SHA}') else sec.get('inherited_plain')
                    if ipl is not None:
                        headers.append(('inherited-environment', ['Authorization: Basic ' + b64('%s:%s' % (iu, ipl))]))
                    if ist.startswith('{SHA}'):
                        headers.append(('inherited-environment-stored-string', ['Authorization: Basic ' + b64('%s:%s' % (iu, ist))]))
                # the text as written (an unexpanded %(ENV_X)s), the stored string of a {SHA} entry
                headers.append(('written-text', ['Authorization: Basic ' + b64('%s:%s' % (w_text(sec['username']), w_text(sec['password'])))]))
                headers.append(('stored-string', ['Authorization: Basic ' + b64('%s:%s' % (user, stored))]))
                headers.append(('empty-password', ['Authorization: Basic ' + b64('%s:' % user)]))
                for j2, (u2, st2, _) in enumerate(want):
                    if j2 != j and u2 is not None and st2 is not None:
                        pl2 = st2 if not st2.startswith('{SHA}') else fc['sections'][j2].get('plain')
                        if pl2 is not None:
                            headers.append(('section-%d-credentials' % j2, ['Authorization: Basic ' + b64('%s:%s' % (u2, pl2))]))
                hcs = [h for h in header_classes(rng, user, plain if plain is not None else 'x', stored, False)
                       if not any('\n' in l or '\r' in l for l in h[1]) and not h[0].startswith('oversized')]
                for lab, hd, _ in rng.sample(hcs, 3):
                    headers.append(('class-' + lab, hd))
            for label, header in headers:
                if any('\n' in l or '\r' in l for l in header):
                    continue
                ok = auth_on and carries_right_credentials(header, user, stored)
                must_refuse_401 = label in ('absent', 'wrong-user', 'password-extension', 'password-prefix', 'inherited-environment',
                                            'inherited-environment-stored-string') or label.startswith('section-')
                kind_served = ('inherited-environment-credentials-served:file' if label.startswith('inherited-environment') else
                               'other-sections-credentials-served:file' if label.startswith('section-') else 'other-credentials-served:file')
                ctx.count('F:class:' + label.split('-')[0] + (':right' if ok else ':not-right'))
                if real:
                    for kind in ('rpc', 'css'):
                        del _Probe.calls[:]
                        with _Quiet():
                            conn = Conn(hsrv)
                            try:
                                conn.send(real_request(kind, '1.0', header, 0))
                                conn.pump(8)
                                t = conn.take_response()
                                status, head, body = t if t is not None else (None, b'', conn.buf)
                            finally:
                                conn.close()
                        ran = list(_Probe.calls)
                        rinp = dict(inp, server=cfg['section'], request=[kind, label, header])
                        what = '%s request (%s) to [%s] of the file' % (kind, label, cfg['section'])
                        ctx.count('F:real:%s:%s:%s' % (kind, 'right' if ok else 'not-right', status))
                        if auth_on and not ok:
                            if ran:
                                ctx.violation('rpc-method-ran-without-credentials:file', '%s: the RPC method ran (status %s)' % (what, status), rinp)
                            if css in body:
                                ctx.violation('handler-bytes-returned-without-credentials:file', '%s: the static file was returned (status %s)' % (what, status), rinp)
                            if status == 200:
                                ctx.violation(kind_served, '%s answered 200' % what, rinp)
                            if must_refuse_401 and (status != 401 or b'WWW-Authenticate: Basic realm=' not in head):
                                ctx.violation('refusal-without-401:file', '%s answered %s' % (what, status), rinp)
                        if auth_on and ok and label.startswith('configured'):
                            served = status == 200 and ((kind == 'rpc' and ran == ['ping']) or (kind == 'css' and css in body))
                            if not served:
                                ctx.violation('configured-credentials-refused:file',
                                              '%s: the credentials the file configures (%r, password %r) answered %s' % (what, user, sec.get('plain', stored), status), rinp)
                    continue
                for method, path_ in [('POST', '/RPC2'), rng.choice(SEQ_PATHS[1:6])]:
                    raw = '\r\n'.join(['%s %s HTTP/1.0' % (method, path_)] + header).encode('utf-8')
                    status, data = channel_request(hsrv, log, raw)
                    handled = [e for e in log if e[0] == 'handle']
                    matched = [e[1] for e in log if e[0] == 'match' and e[2]]
                    rinp = dict(inp, server=cfg['section'], request=raw.decode('utf-8')[:300], label=label)
                    what = '%s %s (%s) to [%s] of the file' % (method, path_, label, cfg['section'])
                    ctx.count('F:status:%s' % status)
                    if auth_on:
                        if handled and not ok:
                            ctx.violation(kind_served, '%s reached handler %s (status %s); the file configures user %r' % (what, handled[0][1], status, user), rinp)
                        if MARK in data and not ok:
                            ctx.violation('handler-bytes-returned-without-credentials:file', '%s: the handler\'s body was returned' % what, rinp)
                        if ok and label.startswith('configured') and matched and not handled:
                            ctx.violation('configured-credentials-refused:file', '%s: the credentials the file configures (%r, password %r) answered %s'
                                          % (what, user, sec.get('plain', stored), status), rinp)
                        if not ok and matched and not handled and status is not None and status not in (400, 401, 500):
                            ctx.violation('refusal-without-error-status:file', '%s refused with status %s' % (what, status), rinp)
                        if not ok and must_refuse_401 and matched and not handled and \
                                (status != 401 or b'WWW-Authenticate: Basic realm=' not in data):
                            ctx.violation('refusal-without-401:file', '%s answered %s' % (what, status), rinp)
                    if len(handled) > 1:
                        ctx.violation('handled-twice', 'two handlers ran for %s: %r' % (what, handled), rinp)
                    if handled:
                        line = 'status=- invoked=%s auth=%s' % (handled[0][1], ai_field(handled[0][2]))
                    else:
                        if status is None:
                            continue
                        line = 'status=%s%s invoked=-' % (status, ' challenge' if b'WWW-Authenticate: Basic realm=' in data else '')
                    ops.append(op(i, order, ','.join(matched[:1]) or '-', header))
                    lines.append(line)
        if not real and acceptable:
            cases.append(('case auth user=N pass=N', ops))
            impls.append(lines)
    finally:
        for _, hsrv in servers:
            try:
                hsrv.close()
            except Exception:
                pass
        asyncore.socket_map.clear()


# ---- generator
FC_PW = ['from-config-file', 'inherited-from-shell', 'secret', 'p:w', 'päss€', 'Sec ret=;#x', 'x', '100%s', 's3,cr3t', 'a b', '{SHA}', '%(ENV_X)s', 'tr4il ']
FC_USER = ['admin', 'user', 'Admin User', 'üser', 'u', 'root%d', 'inherited-user', 'x y']
FC_NAMES = ['HTPASS', 'HTUSER', 'SUP_SECRET', 'X', 'c17_lower', 'PW2', 'HASH', 'HOME_C17']
FC_WHERE = ['os', 'sup', 'both', 'both-same', 'sup-from-os', 'sup-from-os-both']


def fc_file_safe(v):
    """can stand literally in the file (ConfigParser strips values and cuts ' ;' / ' #' comments; environment= values are quoted)"""
    return v == v.strip() and ' ;' not in v and ' #' not in v and '"' not in v and "'" not in v and '\\' not in v and '\n' not in v


def fc_bind(fc, name, where, cfg, inh, split=None):
    """define NAME so that the file gives it the value `cfg` (`inh` = what the process environment holds, where it differs)"""
    if where == 'os':
        fc['vars'][name] = {'os': cfg, 'sup': None}
    elif where == 'sup':
        fc['vars'][name] = {'os': None, 'sup': [['l', cfg]]}
    elif where == 'both':
        fc['vars'][name] = {'os': inh, 'sup': [['l', cfg]]}
    elif where == 'both-same':
        fc['vars'][name] = {'os': cfg, 'sup': [['l', cfg]]}
    elif where in ('sup-from-os', 'sup-from-os-both'):
        # environment=NAME="%(ENV_NAME_BASE)s<tail>": the value refers to the process environment
        k = max(1, len(cfg) // 2) if split is None else split
        fc['vars'][name + '_BASE'] = {'os': cfg[:k], 'sup': None}
        fc['vars'][name] = {'os': inh if where.endswith('both') else None,
                            'sup': [['e', name + '_BASE']] + ([['l', cfg[k:]]] if cfg[k:] else [])}
    else:
        fc['vars'][name] = {'os': None, 'sup': None}          # 'nowhere'


def fc_slot(rng, fc, pool, where, name, mixed=False, sha=None):
    """one username / password: -> (written, plain the client sends for the configured value, plain for the inherited value)"""
    literal_ok = [v for v in pool if fc_file_safe(v)]
    cfg = rng.choice(pool if where == 'os' else literal_ok)
    inh = rng.choice([v for v in pool if v != cfg])
    if where in ('sup-from-os', 'sup-from-os-both') and not fc_file_safe(cfg[max(1, len(cfg) // 2):]):
        cfg = 'from-config-file'
    plain, iplain = cfg, inh
    if sha == 'var':
        cfg, inh = sha_entry(plain), sha_entry(iplain)
    elif sha == 'hex':
        cfg, inh = sha_entry(plain)[5:], sha_entry(iplain)[5:]
    if where == 'lit':
        if not fc_file_safe(cfg):
            cfg = plain = 'secret'
            if sha:
                cfg = sha_entry(plain)[5:] if sha == 'hex' else sha_entry(plain)
        w = [['l', cfg]]
    else:
        fc_bind(fc, name, where, cfg, inh)
        w = [['e', name]]
    if sha == 'hex':
        w = [['l', '{SHA}']] + w
    elif mixed and not sha:
        pre, post = rng.choice(['', 'pre-', 'P']), rng.choice(['', '-post', '9'])
        w = ([['l', pre]] if pre else []) + w + ([['l', post]] if post else [])
        plain, iplain = pre + plain + post, pre + iplain + post
    return w, plain, iplain


def fc_addr(rng, fc, kind, k, how):
    if kind == 'unix':
        if how == 'lit':
            return [['l', '{scratch}/s%d.sock' % k]]
        if how == 'here':
            return [['h'], ['l', '/s%d.sock' % k]]
        fc_bind(fc, 'SOCKDIR%d' % k, how, '{scratch}', '{scratch}/inh', split=9)
        return [['e', 'SOCKDIR%d' % k], ['l', '/s%d.sock' % k]]
    if how in ('lit', 'here'):
        return [['l', '127.0.0.1:{port%d}' % k]]
    fc_bind(fc, 'PORT%d' % k, how, '{port%d}' % k, '{port%d}' % (k + 3), split=7)
    return [['l', '127.0.0.1:'], ['e', 'PORT%d' % k]]


def fc_make(rng, kinds, plan):
    """plan = per section (username where, password where, sha, mixed, address how); where 'open' = no credentials"""
    fc = {'vars': {}, 'sup_dups': {}, 'sections': []}
    for k, (kind, (uw, pw, sha, mixed, how)) in enumerate(zip(kinds, plan)):
        sec = {'kind': kind, 'username': None, 'password': None, 'addr': fc_addr(rng, fc, kind, k, how)}
        if uw != 'open':
            sec['username'], _, _ = fc_slot(rng, fc, FC_USER, uw, 'HTUSER%d' % k if k else 'HTUSER', mixed and rng.random() < 0.5)
            sec['password'], sec['plain'], sec['inherited_plain'] = fc_slot(rng, fc, FC_PW, pw, rng.choice(['HTPASS', 'SUP_SECRET', 'c17_lower']) + ('%d' % k if k else ''),
                                                                             mixed, sha)
        fc['sections'].append(sec)
    fc['sup_order'] = [n for n, v in fc['vars'].items() if v['sup'] is not None]
    rng.shuffle(fc['sup_order'])
    return fc


def fc_small_scope():
    """every way a name can be defined x the slot that uses it x the kind of server (x {SHA} for the password)"""
    import random
    out = []
    for kind in ('unix', 'inet'):
        for where in FC_WHERE:
            for slot in ('username', 'password', 'password-sha', 'password-sha-hex', 'both-slots', 'address'):
                rng = random.Random('%s/%s/%s' % (kind, where, slot))
                uw = where if slot in ('username', 'both-slots') else 'lit'
                pw = where if slot.startswith('password') or slot == 'both-slots' else 'lit'
                sha = 'var' if slot == 'password-sha' else 'hex' if slot == 'password-sha-hex' else None
                how = where if slot == 'address' else 'lit'
                out.append(fc_make(rng, [kind], [(uw, pw, sha, False, how)]))
    return out


def fc_random(rng):
    kinds = rng.choice([['unix'], ['inet'], ['unix', 'inet'], ['inet', 'unix'], ['unix', 'unix'], ['inet', 'unix', 'inet']])
    plan = []
    for _ in kinds:
        if rng.random() < 0.1:
            plan.append(('open', 'open', None, False, rng.choice(['lit', 'here'])))
            continue
        wheres = ['lit'] + FC_WHERE + ['both', 'both']
        uw, pw = rng.choice(wheres), rng.choice(wheres[1:] if rng.random() < 0.8 else wheres)
        if rng.random() < 0.04:
            pw = 'nowhere'
        plan.append((uw, pw, rng.choice([None, None, 'var', 'hex']), rng.random() < 0.3,
                     rng.choice(['lit', 'lit', 'here', 'os', 'sup', 'both'])))
    fc = fc_make(rng, kinds, plan)
    if fc['sup_order'] and rng.random() < 0.15:
        nm = rng.choice(fc['sup_order'])
        fc['sup_dups'][nm] = [['l', 'replaced-by-the-later-entry']]
    return fc


def run_file_cases(ctx):
    import json
    rng = ctx.rng
    cases, impls = [], []
    corpus = json.load(open(os.path.join(os.path.dirname(os.path.abspath(__file__)), '..', '..', 'corpus', 'C17', 'file_cases.json')))
    for entry in corpus['file_cases']:
        ctx.count('F:corpus')
        file_case(ctx, entry['case'], cases, impls, real=False)
        file_case(ctx, entry['case'], cases, impls, real=True)
    small = fc_small_scope()
    for k, fc in enumerate(small):
        file_case(ctx, fc, cases, impls, real=False)
        if ctx.tier == 'thorough' or k % 6 == ctx.seed % 6:
            file_case(ctx, fc, cases, impls, real=True)
    for k in range(ctx.n(150, 1500)):
        fc = fc_random(rng)
        file_case(ctx, fc, cases, impls, real=(k % 5 == 4))
    if cases:
        ctx.sample({'case': 'file', 'ops': [o[:300] for o in cases[0][1][1:3]], 'impl': impls[0][1:3]})
    ctx.correspond('auth-from-config-file', cases, impls)


def run_config_parse(ctx):
    """what `username=` (empty) with a password becomes (F18), through the real parser"""
    from supervisor.options import ServerOptions
    import io
    for sect in ('[inet_http_server]\nport=127.0.0.1:9001\n', '[unix_http_server]\nfile=/tmp/verif-x.sock\n'):
        o = ServerOptions()
        o.configfile = io.StringIO('[supervisord]\n' + sect + 'username=\npassword=secret\n')
        try:
            o.realize(args=[])
            got = [(c['username'], c['password']) for c in o.server_configs]
        except SystemExit:
            got = 'rejected'
        ctx.count('parse:empty-username:' + ('rejected' if got == 'rejected' else 'accepted'))
        ctx.case_done(('parse', sect), True)


def run(ctx):
    run_level_a(ctx)
    run_level_a_seq(ctx)
    run_level_b(ctx)
    run_level_b_seq(ctx)
    run_level_c_seq(ctx)
    run_level_b_multi(ctx)
    run_file_cases(ctx)
    run_config_parse(ctx)


def replay(ctx, data):
    inp = data['input']
    if inp.get('level') == 'F':
        cases, impls = [], []
        file_case(ctx, inp['file_case'], cases, impls, real=bool(inp.get('real')))
        ctx.correspond('auth-from-config-file', cases, impls)
    elif inp.get('level') == 'A':
        line, obs = level_a_one(inp['user'], inp['stored'], inp['header'])
        if obs['inner'] and not carries_right_credentials(inp['header'], inp['user'], inp['stored']):
            ctx.violation('served-without-valid-credentials', 'replayed: ' + line, inp)
        if not obs['inner'] and data.get('violation_kind') == 'valid-credentials-refused':
            ctx.violation('valid-credentials-refused', 'replayed: ' + line, inp)
    elif inp.get('level') == 'A-seq':
        labelled = [(wi, l, h, r) for wi, l, h, r in inp['seq']]
        res = level_a_seq(inp['user'], inp['stored'], [(wi, h) for wi, _, h, _ in labelled])
        a_seq_monitors(ctx, inp['user'], inp['stored'], labelled, res, dict((k, v) for k, v in inp.items() if k != 'k'))
    elif inp.get('level') == 'C-seq':
        import supervisor
        import supervisor.medusa.asyncore_25 as asyncore
        css = open(os.path.join(os.path.dirname(supervisor.__file__), 'ui', 'stylesheets', 'supervisor.css'), 'rb').read()
        hsrv = build_real_server(ctx, inp['username'], inp['stored'])
        try:
            c_seq_one(ctx, hsrv, css, inp['username'], inp['stored'], [tuple(x) for x in inp['seq']], inp['version'])
        finally:
            hsrv.close(); asyncore.socket_map.clear()
    elif inp.get('level') == 'B-seq':
        servers = build_servers(ctx, inp['username'], inp['stored'])
        try:
            for fam, hsrv, log, wrapped in servers:
                if fam == inp['family']:
                    b_seq_one(ctx, fam, hsrv, log, inp['username'], inp['stored'], [(m, p, l, h, r) for m, p, v, l, h, r in inp['requests']],
                              [r[2] for r in inp['requests']], inp['pipelined'], [], [])
        finally:
            close_servers(servers)
    else:
        run_level_b(ctx)
