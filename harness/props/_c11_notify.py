"""
C11, second half: *what* is announced and *when*.

L1   group histories: the real Supervisor.add_process_group / remove_process_group (directly and through the real
     addProcessGroup / removeProcessGroup RPC methods) over real ProcessGroupConfig / EventListenerPoolConfig /
     FastCGIGroupConfig objects, with a fault at every point where an addition or removal can fail (after_setuid,
     make_group, before_remove raising; a FastCGI socket that cannot be bound; processes still running), retries included.
     Correspondence with Model/Notify.lean (`case groups`), monitors: notifications vs the table, one to one.
L1   reaping: the real Subprocess.finish over a real POutputDispatcher (every dispatcher configuration of C07/C08, streams
     with capture tokens, a last read that returns data, nothing or end of file).  Correspondence (`case finish`), monitors:
     every output notification names the child's pid and precedes the state notification; nothing read is left unannounced.
L1   Subprocess.change_state: the values of the notification are those at the change (`case change`).
L2   the unmodified Supervisor.run()/runforever() over harness/simkernel.py (subclassed here only to record more: the payload
     rendered at notification time, the keys of supervisord.process_groups and the mood at every record; and to create /
     remove the directory of a FastCGI socket on script request).  Monitors over the kernel's own log: group notifications
     vs the table, PROCESS_LOG / PROCESS_COMMUNICATION vs the bytes each child pid wrote (pid, process, group, channel,
     order with respect to the exit notification, completeness), PROCESS_STATE chain / pid / expected / tries vs the kernel's
     child table, SUPERVISOR_STATE_CHANGE vs the mood, TICK vs the clock of successive passes, REMOTE_COMMUNICATION vs the
     sendRemoteCommEvent calls, and "rendered again later, every payload is unchanged".
"""
import errno, os, random, re, shutil, signal, types

from props import _outdisp as od
from props._outdisp import hexs

ADDED, REMOVED = 'ProcessGroupAddedEvent', 'ProcessGroupRemovedEvent'
ST = {0: 'STOPPED', 10: 'STARTING', 20: 'RUNNING', 30: 'BACKOFF', 40: 'STOPPING', 100: 'EXITED', 200: 'FATAL', 1000: 'UNKNOWN'}
CODE = {v: k for k, v in ST.items()}


# =============================================================================================== L1: group histories

class Injected(Exception):
    pass


def _faulty(cls):
    """a group configuration whose after_setuid / make_group / (group's) before_remove can be made to fail"""
    class Faulty(cls):
        fault = None

        def after_setuid(self):
            if self.fault == 'after_setuid':
                raise Injected('after_setuid')
            return cls.after_setuid(self)

        def make_group(self):
            if self.fault == 'make_group':
                raise Injected('make_group')
            g = cls.make_group(self)
            orig, cfg = g.before_remove, self

            def before_remove():
                if cfg.fault == 'before_remove':
                    raise Injected('before_remove')
                return orig()
            g.before_remove = before_remove
            return g
    Faulty.__name__ = 'Faulty' + cls.__name__
    return Faulty


class GroupWorld:
    """one real Supervisor with three configured groups: a (plain), b (event listener pool), f (FastCGI on a unix socket
    whose directory may be missing)"""
    def __init__(self, scratch):
        from supervisor import events, supervisord, dispatchers
        from supervisor.options import ProcessGroupConfig, EventListenerPoolConfig, FastCGIGroupConfig
        from supervisor.datatypes import UnixStreamSocketConfig
        from supervisor.rpcinterface import SupervisorNamespaceRPCInterface
        from supervisor.tests.base import DummyOptions, DummyPConfig
        from supervisor.states import ProcessStates
        self.events, self.PS = events, ProcessStates
        events.clear()
        self.options = o = DummyOptions()
        self.sockdir = os.path.join(scratch, 'fcgi-sock')
        shutil.rmtree(self.sockdir, ignore_errors=True)
        pc = lambda n: [DummyPConfig(o, n + '1', '/bin/' + n), DummyPConfig(o, n + '2', '/bin/' + n)]
        self.cfgs = {
            'a': _faulty(ProcessGroupConfig)(o, 'a', 999, pc('a')),
            'b': _faulty(EventListenerPoolConfig)(o, 'b', 999, pc('b'), 10, [events.EventTypes.TICK_5], dispatchers.default_handler),
            'f': _faulty(FastCGIGroupConfig)(o, 'f', 999, pc('f'), UnixStreamSocketConfig(os.path.join(self.sockdir, 's'))),
        }
        o.process_group_configs = list(self.cfgs.values())
        self.sup = supervisord.Supervisor(o)
        self.iface = SupervisorNamespaceRPCInterface(self.sup)
        self.notes = []
        events.subscribe(events.ProcessGroupEvent, self._see)

    def _see(self, e):
        self.notes.append((type(e).__name__, e.group, e.group in self.sup.process_groups, e.payload()))

    def close(self):
        for g in list(self.sup.process_groups.values()):
            try:
                g.before_remove()
            except Exception:
                pass
        self.events.clear()
        shutil.rmtree(self.sockdir, ignore_errors=True)

    def groups(self):
        return list(self.sup.process_groups)

    def op(self, op):
        """op = ['add', name, fault, via] | ['remove', name, unstopped, fault, via] | ['sockdir', 0|1]
        returns (result text, env_fault) ; result: true | false | raised:<what> | badname"""
        from supervisor.xmlrpc import RPCError, Faults
        if op[0] == 'sockdir':
            if op[1]:
                os.makedirs(self.sockdir, exist_ok=True)
            else:
                shutil.rmtree(self.sockdir, ignore_errors=True)
            return None
        name = op[1]
        cfg = self.cfgs.get(name)
        try:
            if op[0] == 'add':
                fault, via = op[2], op[3]
                if cfg is not None:
                    cfg.fault = fault
                if via == 'rpc' or cfg is None:
                    r = self.iface.addProcessGroup(name)
                else:
                    r = self.sup.add_process_group(cfg)
            else:
                unstopped, fault, via = op[2], op[3], op[4]
                if cfg is not None:
                    cfg.fault = fault
                g = self.sup.process_groups.get(name)
                if g is not None:
                    for p in g.processes.values():
                        p.state = self.PS.STOPPED
                    if unstopped:
                        list(g.processes.values())[-1].state = self.PS.RUNNING
                if via == 'rpc':
                    r = self.iface.removeProcessGroup(name)
                else:
                    r = self.sup.remove_process_group(name)
            return 'true' if r is True else 'false' if r is False else 'value:%r' % (r,)
        except RPCError as e:
            if e.code in (Faults.ALREADY_ADDED, Faults.STILL_RUNNING):
                return 'false'
            if e.code == Faults.BAD_NAME:
                return 'badname'
            return 'fault:%d' % e.code
        except Injected as e:
            return 'raised:' + str(e)
        except KeyError:
            return 'raised:KeyError'
        except ValueError as e:          # FastCGIProcessGroup: 'Could not create FastCGI socket ...'
            return 'raised:make_group' if 'FastCGI socket' in str(e) else 'raised:ValueError'
        finally:
            if cfg is not None:
                cfg.fault = None


def group_history(ctx, hist, tag=''):
    """run one history on a fresh world; returns (op lines, impl lines)"""
    w = GroupWorld(ctx.scratch)
    inp = {'what': 'group-history', 'history': hist}
    ops, lines = [], []
    view = []
    try:
        for k, op in enumerate(hist):
            if op[0] == 'sockdir':
                w.op(op)
                continue
            before = w.groups()
            del w.notes[:]
            name = op[1]
            env_missing = name == 'f' and op[0] == 'add' and not os.path.isdir(w.sockdir)
            res = w.op(op)
            after = w.groups()
            notes = list(w.notes)
            where = 'op %d %r' % (k, op)
            # ---- monitors: the property in its own terms -------------------------------------------------------
            for cls, g, present, payload in notes:
                if payload != 'groupname:%s\n' % g:
                    ctx.violation('group-payload-wrong', '%s: payload %r for group %r' % (where, payload, g), inp)
                if g != name:
                    ctx.violation('group-notification-names-other-group', '%s: %s names %r' % (where, cls, g), inp)
                if cls == ADDED:
                    if g in view:
                        ctx.violation('group-added-announced-twice', '%s: PROCESS_GROUP_ADDED for %r, already announced and not removed since' % (where, g), inp)
                    if not present:
                        ctx.violation('group-added-announced-but-absent', '%s: at the PROCESS_GROUP_ADDED notification %r is not in supervisord.process_groups' % (where, g), inp)
                    if g not in view:
                        view.append(g)
                else:
                    if g not in view:
                        ctx.violation('group-removed-announced-but-not-active', '%s: PROCESS_GROUP_REMOVED for %r which was not announced as added' % (where, g), inp)
                    if present:
                        ctx.violation('group-removed-announced-but-present', '%s: at the PROCESS_GROUP_REMOVED notification %r is still in supervisord.process_groups' % (where, g), inp)
                    if g in view:
                        view.remove(g)
            if sorted(view) != sorted(after):
                kind = 'group-announced-but-not-in-table' if set(view) - set(after) else 'group-in-table-but-not-announced'
                ctx.violation(kind, '%s answered %s: notifications say the active groups are %r, supervisord.process_groups has %r' % (where, res, sorted(view), sorted(after)), inp)
                view = list(after)
            changed = (set(after) - set(before)) if op[0] == 'add' else (set(before) - set(after))
            if (res == 'true') != (name in changed):
                ctx.violation('group-call-answer-wrong', '%s answered %s, table before %r after %r' % (where, res, before, after), inp)
            ctx.count('group-op:%s:%s' % (op[0], res.split(':')[0] if res else res))
            # ---- model line ------------------------------------------------------------------------------------
            if res == 'badname':
                continue            # refused by the RPC layer before the Supervisor method is called
            if op[0] == 'add':
                fault = 'make_group' if env_missing and op[2] in (None, 'make_group') else op[2]
                ops.append('add %s %s' % (name, fault or '-'))
            else:
                ops.append('remove %s %d %s' % (name, 1 if op[2] else 0, op[3] or '-'))
            lines.append('res=%s | notes=%s | groups=%s' % (res, ','.join('%s:%s:%d' % (c, g, p) for c, g, p, _ in notes) or '-', ','.join(after) or '-'))
    finally:
        w.close()
    ctx.case_done(('groups', repr(hist)), nontrivial=any(l.split(' | ')[1] != 'notes=-' for l in lines))
    ctx.count('group-histories' + tag)
    return ops, lines


GROUP_OPS = [['add', n, f, None] for n in 'ab' for f in (None, 'after_setuid', 'make_group')] + \
            [['remove', n, u, f, None] for n in 'ab' for (u, f) in ((False, None), (True, None), (False, 'before_remove'))]

GROUP_CORPUS = [
    # C11-3's story on the FastCGI group: the socket cannot be bound, the addition fails; the operator retries
    [['add', 'f', None, 'rpc'], ['sockdir', 1], ['add', 'f', None, 'rpc'], ['add', 'f', None, 'rpc'], ['remove', 'f', False, None, 'rpc'], ['sockdir', 0], ['add', 'f', None, 'direct']],
    [['add', 'a', 'make_group', 'rpc'], ['add', 'a', None, 'rpc'], ['remove', 'a', True, None, 'rpc'], ['remove', 'a', False, 'before_remove', 'direct'], ['remove', 'a', False, None, 'rpc'], ['add', 'a', None, 'direct']],
    [['add', 'b', 'after_setuid', 'direct'], ['add', 'b', None, 'direct'], ['add', 'b', None, 'direct'], ['remove', 'b', False, None, 'direct'], ['remove', 'b', False, None, 'direct']],
    [['add', 'nosuch', None, 'rpc'], ['remove', 'a', False, None, 'rpc'], ['remove', 'a', False, None, 'direct']],
]


def gen_group_history(rng):
    h = []
    for _ in range(rng.randrange(3, 14)):
        r = rng.random()
        n = rng.choice('abf')
        via = rng.choice(['direct', 'rpc'])
        if r < 0.1:
            h.append(['sockdir', rng.randrange(2)])
        elif r < 0.55:
            h.append(['add', n, rng.choice([None, None, None, 'after_setuid', 'make_group']), via])
        else:
            h.append(['remove', n, rng.random() < 0.3, rng.choice([None, None, None, 'before_remove']), via])
    return h


def group_histories(ctx):
    import itertools
    rng = ctx.rng
    cases, impls = [], []
    def one(h, tag):
        o, l = group_history(ctx, h, tag)
        cases.append(('case groups', o)); impls.append(l)
    for h in GROUP_CORPUS:
        one(h, ':corpus')
    # every history of up to 3 (thorough: 4) operations over two groups, every fault point; the way in (direct / RPC) drawn
    depth = 3 if ctx.tier == 'quick' else 4
    for L in range(1, depth + 1):
        for combo in itertools.product(range(len(GROUP_OPS)), repeat=L):
            h = [list(GROUP_OPS[i]) for i in combo]
            for op in h:
                op[-1] = 'rpc' if rng.random() < 0.5 else 'direct'
            one(h, ':exhaustive')
    for _ in range(ctx.n(150, 2500)):
        one(gen_group_history(rng), ':random')
    ctx.sample({'case': 'groups', 'ops': cases[0][1], 'impl': impls[0]})
    ctx.correspond('groups', cases, impls)


# =============================================================================================== L1: reaping (finish)

FIN_PID = 4242
EXITS = ['exited', 'stopped', 'backoff', 'unknown']      # which branch of finish(): what the state was


class Seen(list):
    """event subscription that also records, at notification time, the rendered payload and the process's pid"""
    def __init__(self):
        list.__init__(self)
        self.meta = []

    def append(self, e):
        list.append(self, e)
        proc = getattr(e, 'process', None)
        self.meta.append((e.payload() if hasattr(e, 'payload') else None, getattr(proc, 'pid', None), getattr(proc, 'backoff', None)))


def head_of(payload):
    first = payload.split('\n', 1)[0]
    return dict(t.split(':', 1) for t in first.split(' ') if ':' in t)


def finish_case(ctx, cfg, chunks, pending, how, tag=''):
    """chunks: main-loop reads while the child lives (b'' = end of file seen); pending: what the read made by finish()'s drain
    returns (b'' = nothing / end of file); how: one of EXITS.  returns (case line, ops, impl lines)"""
    from supervisor import events
    from supervisor.states import ProcessStates as PS
    events.clear()
    seen = Seen()
    events.subscribe(events.Event, seen.append)
    run = od.Run(cfg, ctx.scratch, shared_seen=seen, pid=FIN_PID, name='w')
    proc = run.proc
    run.opt.close_parent_pipes = lambda pipes: None
    proc.group = types.SimpleNamespace(config=types.SimpleNamespace(name='grp'))
    proc.dispatchers = {run.fd: run.disp}
    proc.pipes = {}
    proc.laststart = 1
    if how == 'exited':
        proc.state = PS.RUNNING
    elif how == 'stopped':
        proc.state, proc.killing = PS.STOPPING, True
    elif how == 'backoff':
        import time
        proc.state, proc.laststart = PS.STARTING, time.time() - 0.001
        proc.config.startsecs = 10 ** 9
    else:
        proc.state = PS.UNKNOWN
    inp = {'what': 'finish', 'cfg': cfg.json(), 'chunks': [hexs(c) for c in chunks], 'pending': hexs(pending), 'how': how}
    ops, lines = [], []

    def notes_since(n0):
        out = []
        for e, (payload, pid_now, _) in list(zip(seen, seen.meta))[n0:]:
            if isinstance(e, events.ProcessLogEvent):
                out.append(('plog', 'o' if isinstance(e, events.ProcessLogStdoutEvent) else 'e', head_of(payload).get('pid'), bytes(e.data), payload, e))
            elif isinstance(e, events.ProcessCommunicationEvent):
                out.append(('comm', None, head_of(payload).get('pid'), bytes(e.data), payload, e))
            elif isinstance(e, events.ProcessStateEvent):
                out.append(('state', None, head_of(payload).get('pid', str(pid_now)), b'', payload, e))
        return out

    def show(notes):
        return ','.join('plog:%s:%s:%s' % (c, p, hexs(d)) if k == 'plog' else 'comm:%s:%s' % (p, hexs(d)) if k == 'comm' else 'state:%s' % p
                        for k, c, p, d, _, _ in notes) or '-'
    try:
        for c in chunks:
            n0 = len(seen)
            if run.was_readable:
                run.step(c)
            ops.append('read ' + hexs(c))
            lines.append('%s | pid=%d disp=%d' % (show(notes_since(n0)), proc.pid, 1 if proc.dispatchers else 0))
        n0 = len(seen)
        run.opt.pending[run.fd] = [pending]
        proc.finish(FIN_PID, 0)
        fin = notes_since(n0)
        ops.append('finish %s %d' % (hexs(pending), 0 if how == 'unknown' else 1))
        lines.append('%s | pid=%d disp=%d' % (show(fin), proc.pid, 1 if proc.dispatchers else 0))
        # ---- monitors ------------------------------------------------------------------------------------------
        allnotes = notes_since(0)
        state_at = [i for i, n in enumerate(allnotes) if n[0] == 'state']
        for i, (k, c, p, d, payload, e) in enumerate(allnotes):
            if k == 'state':
                continue
            h = head_of(payload)
            if p != str(FIN_PID):
                ctx.violation('output-event-wrong-pid', '%s announces %r as written by pid:%s; the child that wrote it had pid %d' % (
                    events.getEventNameByType(type(e)), d[:40], p, FIN_PID), inp)
            if h.get('processname') != 'w' or h.get('groupname') != 'grp' or (k == 'plog' and h.get('channel') != cfg.channel):
                ctx.violation('output-event-wrong-process', 'payload header %r for output of w/grp on %s' % (payload.split('\n', 1)[0], cfg.channel), inp)
            if state_at and i > state_at[0]:
                ctx.violation('output-announced-after-exit-notification', '%s for %r is notified after the PROCESS_STATE notification of the exit' % (
                    events.getEventNameByType(type(e)), d[:40]), inp)
        if how != 'unknown' and len(state_at) != 1:
            ctx.violation('exit-not-announced-once', '%d PROCESS_STATE notifications for one exit (%s)' % (len(state_at), how), inp)
        for i in state_at:
            h = head_of(allnotes[i][4])
            if 'pid' in h and h['pid'] != str(FIN_PID):
                ctx.violation('state-event-wrong-pid', 'exit notification carries pid:%s, the child had pid %d' % (h['pid'], FIN_PID), inp)
        if proc.pid != 0:
            ctx.violation('pid-kept-after-reap', 'pid %r after finish()' % proc.pid, inp)
        # what was read is announced by the time the exit is: nothing stays behind in a discarded dispatcher
        eof_seen = b'' in chunks          # after end of file the dispatcher is closed: nothing more is read
        stream = b''.join(chunks[:chunks.index(b'')]) if eof_seen else b''.join(chunks) + pending
        got_plog = b''.join(d for k, _, _, d, _, _ in allnotes if k == 'plog')
        got_comm = [d for k, _, _, d, _, _ in allnotes if k == 'comm']
        if not cfg.strip:
            plain, sections, open_ = od.ref_split(stream) if cfg.capture else (stream, [], None)
            if cfg.events_on() and got_plog != plain:
                ctx.violation('output-read-but-not-announced-at-reap' if plain.startswith(got_plog) else 'output-announcement-differs',
                              'read outside capture sections %r, PROCESS_LOG data %r' % (plain[-60:], got_plog[-60:]), inp)
            if cfg.capture and (len(got_comm) != len(sections) or any(not s.endswith(g) or (len(s) <= cfg.capture and g != s) for g, s in zip(got_comm, sections))):
                ctx.violation('comm-events-differ-from-sections', 'sections %r, PROCESS_COMMUNICATION data %r' % ([s[:30] for s in sections], [g[:30] for g in got_comm]), inp)
        if not cfg.events_on() and got_plog:
            ctx.violation('plog-while-disabled', 'PROCESS_LOG although events are disabled for %s' % cfg.channel, inp)
        # rendered again now (as a listener pool does, later), every payload is what it was at notification time
        for e, (payload, _, _) in zip(seen, seen.meta):
            if payload is not None and e.payload() != payload:
                ctx.violation('payload-changed-after-notification', '%s: %r at notification, %r afterwards' % (type(e).__name__, payload[:80], e.payload()[:80]), inp)
                break
    finally:
        run.keep_events = False
        run.finish()
    ctx.count('finish-cases' + tag)
    ctx.count('finish:' + how)
    if fin and fin[0][0] != 'state':
        ctx.count('finish-with-output-at-reap')
    ctx.case_done(('finish', cfg.line(), tuple(ops), how), nontrivial=len(fin) > 1)
    return cfg.line().replace('case outdisp', 'case finish') + ' pid=%d' % FIN_PID, ops, lines


B, E = od.DOC_BEGIN, od.DOC_END
FINISH_CORPUS = [
    # C11-4's two children: the END token / a short line arrive with the reaping read
    (dict(capture=4096, oev=1), [b'starting up ' + b'.' * 40 + b'\n' + B + b'result=' + b'42' * 20], E, 'exited'),
    (dict(capture=4096, oev=1), [b'working ' + b'.' * 40 + b'\n'], b'bye\n', 'exited'),
    (dict(capture=40, oev=1), [b'x' * 30], B[:7], 'stopped'),
    (dict(capture=40, oev=1), [b'held'], b'', 'backoff'),
    (dict(capture=40, oev=1), [B + b'abc'], E[:5], 'exited'),
    (dict(capture=0, oev=1), [b'one', b'two'], b'three', 'exited'),
    (dict(capture=0, channel='stderr', eev=1), [b'err'], b'last words', 'stopped'),
    (dict(capture=40, oev=1), [b'abc', b''], b'', 'exited'),
    (dict(capture=40, oev=1), [b'abc'], b'def', 'unknown'),
]


def finish_cases(ctx):
    rng = ctx.rng
    cases, impls = [], []
    def one(kw, chunks, pending, how, tag):
        c, o, l = finish_case(ctx, od.Cfg(**kw), chunks, pending, how, tag)
        cases.append((c, o)); impls.append(l)
    for kw, chunks, pending, how in FINISH_CORPUS:
        one(kw, chunks, pending, how, ':corpus')
    # every way a short stream over {BEGIN, END, token prefix, x} can be cut into "read before" / "read by the reaping"
    for w in od.symbol_streams(3, 'BEPx'):
        stream = [od.SYMBOLS[s] for s in w]
        for cut in range(len(stream) + 1):
            one(dict(capture=30, oev=1), [b''.join(stream[:cut])] if cut else [], b''.join(stream[cut:]), EXITS[(len(w) + cut) % 3], ':symbolic')
    for _ in range(ctx.n(300, 6000)):
        stream = od.gen_stream(rng, tokens_weight=0.35)
        chunks = od.fragment(stream, od.gen_cuts(rng, len(stream), stream))
        pending = b''
        if chunks and rng.random() < 0.7:
            pending = chunks.pop()
            if rng.random() < 0.3:
                pending = pending[-rng.randrange(1, 30):]
        if rng.random() < 0.1:
            chunks.append(b'')
            pending = b''
        kw = dict(capture=rng.choice([0, 5, 30, 30, 1000]), log=rng.choice([1, 1, 0]), channel=rng.choice(['stdout', 'stdout', 'stderr']),
                  oev=rng.choice([1, 1, 0]), eev=rng.choice([1, 1, 0]), strip=1 if rng.random() < 0.1 else 0)
        one(kw, chunks, pending, rng.choice(EXITS + ['exited', 'exited']), ':random')
    ctx.sample({'case': cases[1][0], 'ops': cases[1][1], 'impl': impls[1]})
    ctx.correspond('finish', cases, impls)


# =============================================================================================== L1: change_state

def change_cases(ctx):
    from supervisor import events
    from supervisor.process import Subprocess
    from supervisor.states import ProcessStates as PS
    from supervisor.tests.base import DummyOptions, DummyPConfig
    rng = ctx.rng
    codes = sorted(v for k, v in vars(PS).items() if isinstance(v, int))
    ops, lines = [], []
    events.clear()
    seen = Seen()
    events.subscribe(events.ProcessStateEvent, seen.append)
    todo = [(a, b, 2, 77, True) for a in codes for b in codes]
    for _ in range(ctx.n(200, 3000)):
        todo.append((rng.choice(codes), rng.choice(codes), rng.randrange(0, 9), rng.choice([0, 1, 77, 32768]), rng.random() < 0.5))
    try:
        for st, new, backoff, pid, expected in todo:
            p = Subprocess(DummyPConfig(DummyOptions(), 'c', '/bin/c'))
            p.group = types.SimpleNamespace(config=types.SimpleNamespace(name='grp'))
            p.state, p.backoff, p.pid = st, backoff, pid
            n0 = len(seen)
            p.change_state(new, expected)
            got = list(zip(seen, seen.meta))[n0:]
            inp = {'what': 'change', 'state': st, 'new': new, 'backoff': backoff, 'pid': pid, 'expected': expected}
            notes = []
            for e, (payload, pid_now, backoff_now) in got:
                to = [s for s, c in Subprocess.event_map.items() if c is type(e)][0]
                notes.append('%d:%d:%d:%d:%d' % (e.from_state, to, backoff_now, pid_now, int(bool(e.expected))))
                h = head_of(payload)
                want = {'processname': 'c', 'groupname': 'grp', 'from_state': ST[st]}
                if 'tries' in h: want['tries'] = str(backoff + (1 if new == PS.BACKOFF else 0))
                if 'pid' in h: want['pid'] = str(pid)
                if 'expected' in h: want['expected'] = str(int(expected))
                if h != want:
                    ctx.violation('state-payload-not-the-values-at-the-change', 'payload %r, values at the change %r' % (payload, want), inp)
                # later (at delivery) the process has moved on: the payload must not
                p.pid, p.backoff = pid + 1000, p.backoff + 5
                if e.payload() != payload:
                    ctx.violation('payload-changed-after-notification', '%r at notification, %r afterwards' % (payload, e.payload()), inp)
                p.pid, p.backoff = pid, p.backoff - 5
            if (st != new) != (len(got) == 1):
                ctx.violation('state-change-not-announced-once', 'change %s -> %s raised %d notifications' % (ST[st], ST[new], len(got)), inp)
            ops.append('change state=%d backoff=%d pid=%d new=%d expected=%d hasclass=%d' % (st, backoff, pid, new, int(expected), 1 if new in Subprocess.event_map else 0))
            lines.append('notes=%s | state=%d backoff=%d' % (','.join(notes) or '-', p.state, p.backoff))
            ctx.count('change-cases')
            ctx.case_done(('change', st, new, backoff, pid, expected), nontrivial=st != new)
    finally:
        events.clear()
    ctx.correspond('change', [('case change backoffcode=%d' % PS.BACKOFF, ops)], [lines])
