import SupervisorModel.Model.AllFunc
/-
  Lemmas on the make_allfunc model (Model/AllFunc.lean).  Core Lean only.

  Specification vocabulary (`eligIds`, `Reports`, `EntryFor`, `callsOf`, `pollsOf`, `testsOf`), the invariant `Inv`
  ("every eligible position is either pending or has exactly one entry, and that entry is what its single call
  reported"), its preservation by the walk, by one poll, by the poll loop over the snapshot and by one invocation, and
  the run-level invariant `RunInv` for the deferred-response protocol.
-/
set_option linter.unusedSimpArgs false
set_option linter.unusedVariables false
namespace Sv.AllFunc
open Sv.Gen.AllFunc Sv.Gen.Proc

/-! ## specification vocabulary -/

/-- positions of the list whose process satisfies the predicate, in list order -/
def eligIds (env : Env) : List Nat := (List.range env.n).filter env.eligible

/-- **What the single call for the process at position `i` reported**: the code and text of the RPCError `func`
    raised; SUCCESS/"OK" when `func` returned a plain value; and when `func` returned a callback, the outcome of the
    first poll that did not say NOT_DONE_YET (all earlier polls having said NOT_DONE_YET): the RPCError it raised, or
    SUCCESS/"OK" when it returned a value. -/
def Reports (env : Env) (i : Nat) (st : Int) (txt : String) : Prop :=
  match env.imm i with
  | .raises c t => st = c ∧ txt = t
  | .value => st = faultSUCCESS ∧ txt = "OK"
  | .deferred => ∃ k, (∀ j, j < k → env.polls i j = .notDone) ∧
      (env.polls i k = .raises st txt ∨ (env.polls i k = .value ∧ st = faultSUCCESS ∧ txt = "OK"))

/-- entry `e` is the status entry of the process at position `i` -/
def EntryFor (env : Env) (i : Nat) (e : Entry) : Prop :=
  e.name = env.name i ∧ e.group = env.group i ∧ Reports env i e.status e.description

def callsOf (log : List Ev) : List (Nat × String) := log.filterMap fun e => match e with | .call i ns => some (i, ns) | _ => none
def pollsOf (log : List Ev) : List Nat := log.filterMap fun e => match e with | .poll i => some i | _ => none
def testsOf (log : List Ev) : List Nat := log.filterMap fun e => match e with | .test i => some i | _ => none

theorem structureOk_true : structureOk = true := by decide

/-- `Reports` determines status and text -/
theorem Reports.unique {env : Env} {i : Nat} {st st' : Int} {txt txt' : String}
    (h : Reports env i st txt) (h' : Reports env i st' txt') : st = st' ∧ txt = txt' := by
  cases himm : env.imm i with
  | raises c t => simp only [Reports, himm] at h h'; exact ⟨h.1.trans h'.1.symm, h.2.trans h'.2.symm⟩
  | value => simp only [Reports, himm] at h h'; exact ⟨h.1.trans h'.1.symm, h.2.trans h'.2.symm⟩
  | deferred =>
    simp only [Reports, himm] at h h'
    obtain ⟨k, hk, hk'⟩ := h
    obtain ⟨k', hk2, hk2'⟩ := h'
    have hkk : k = k' := by
      rcases Nat.lt_trichotomy k k' with hlt | heq | hgt
      · have := hk2 k hlt; rcases hk' with h1 | h1 <;> simp_all
      · exact heq
      · have := hk k' hgt; rcases hk2' with h1 | h1 <;> simp_all
    subst hkk
    rcases hk' with h1 | ⟨h1, h2, h3⟩ <;> rcases hk2' with h4 | ⟨h4, h5, h6⟩ <;> simp_all

/-! ## the invariant -/

/-- over the positions `ids` handled so far: every eligible one of them is pending or recorded, exactly once -/
structure InvOn (env : Env) (ids : List Nat) (s : State) (done : List (Nat × Entry)) : Prop where
  perm : (s.callbacks ++ done.map Prod.fst).Perm (ids.filter env.eligible)
  res : s.results = done.map Prod.snd
  entries : ∀ p, p ∈ done → EntryFor env p.1 p.2
  pending : ∀ i, i ∈ s.callbacks → env.imm i = .deferred ∧ ∀ j, j < s.polled i → env.polls i j = .notDone

abbrev Inv (env : Env) (s : State) (done : List (Nat × Entry)) : Prop := InvOn env (List.range env.n) s done

theorem eligIds_nodup (env : Env) : (eligIds env).Nodup :=
  List.Nodup.sublist List.filter_sublist List.nodup_range

theorem Inv.nodup {env : Env} {s : State} {done} (h : Inv env s done) : s.callbacks.Nodup := by
  have := (h.perm.nodup_iff).2 (eligIds_nodup env)
  exact (List.nodup_append.1 this).1

/-! ## the walk -/

theorem walkOne_polled (env : Env) (s : State) (i : Nat) : (walkOne env s i).polled = s.polled := by
  unfold walkOne keepOrRecord
  simp only
  split
  · split <;> (try split) <;> rfl
  · rfl

theorem walkOne_inv {env : Env} {pre : List Nat} {s : State} {done} (i : Nat)
    (h : InvOn env pre s done) (h0 : ∀ j, s.polled j = 0) :
    ∃ done', InvOn env (pre ++ [i]) (walkOne env s i) done' := by
  obtain ⟨hperm, hres, hent, hpend⟩ := h
  by_cases he : env.eligible i = true
  · cases himm : env.imm i with
    | raises c t =>
      refine ⟨done ++ [(i, entryWalkErr env i c t)], ?_, ?_, ?_, ?_⟩
      · simp only [walkOne, allfunc_g1, he, himm, if_true, List.map_append, List.map_cons, List.map_nil, List.filter_append,
          List.filter_cons, List.filter_nil]
        rw [← List.append_assoc]
        exact hperm.append_right _
      · simp [walkOne, allfunc_g1, he, himm, hres]
      · intro p hp
        rcases List.mem_append.1 hp with hp | hp
        · exact hent p hp
        · simp only [List.mem_singleton] at hp
          subst hp
          simp [EntryFor, Reports, himm, entryWalkErr, walkErr_name, walkErr_group, walkErr_status, walkErr_description]
      · simpa [walkOne, allfunc_g1, he, himm] using hpend
    | deferred =>
      refine ⟨done, ?_, ?_, ?_, ?_⟩
      · simp only [walkOne, keepOrRecord, allfunc_g1, allfunc_g2, he, himm, if_true, List.filter_append,
          List.filter_cons, List.filter_nil]
        rw [List.append_assoc]
        refine List.Perm.trans (List.Perm.append_left _ List.perm_append_comm) ?_
        rw [← List.append_assoc]
        exact hperm.append_right _
      · simp [walkOne, keepOrRecord, allfunc_g1, allfunc_g2, he, himm, hres]
      · exact hent
      · intro x hx
        simp only [walkOne, keepOrRecord, allfunc_g1, allfunc_g2, he, himm, if_true, List.mem_append, List.mem_singleton] at hx ⊢
        rcases hx with hx | hx
        · exact hpend x hx
        · subst hx
          refine ⟨himm, ?_⟩
          intro j hj
          rw [h0 x] at hj
          exact absurd hj (Nat.not_lt_zero _)
    | value =>
      refine ⟨done ++ [(i, entryWalkOk env i)], ?_, ?_, ?_, ?_⟩
      · simp only [walkOne, keepOrRecord, allfunc_g1, allfunc_g2, he, himm, if_true, List.map_append, List.map_cons, List.map_nil,
          List.filter_append, List.filter_cons, List.filter_nil, Bool.false_eq_true, if_false]
        rw [← List.append_assoc]
        exact hperm.append_right _
      · simp [walkOne, keepOrRecord, allfunc_g1, allfunc_g2, he, himm, hres]
      · intro p hp
        rcases List.mem_append.1 hp with hp | hp
        · exact hent p hp
        · simp only [List.mem_singleton] at hp
          subst hp
          simp [EntryFor, Reports, himm, entryWalkOk, walkOk_name, walkOk_group, walkOk_status, walkOk_description, faultSUCCESS]
      · simpa [walkOne, keepOrRecord, allfunc_g1, allfunc_g2, he, himm] using hpend
  · refine ⟨done, ?_, ?_, hent, ?_⟩
    · simpa [walkOne, allfunc_g1, he, List.filter_append] using hperm
    · simp [walkOne, allfunc_g1, he, hres]
    · simpa [walkOne, allfunc_g1, he] using hpend

theorem walkFold_inv (env : Env) : ∀ (l pre : List Nat) (s : State) (done : List (Nat × Entry)),
    InvOn env pre s done → (∀ j, s.polled j = 0) →
    (∃ done', InvOn env (pre ++ l) (l.foldl (walkOne env) s) done') ∧ ∀ j, (l.foldl (walkOne env) s).polled j = 0 := by
  intro l
  induction l with
  | nil => intro pre s done h h0; exact ⟨⟨done, by simpa using h⟩, h0⟩
  | cons i l ih =>
    intro pre s done h h0
    obtain ⟨done1, h1⟩ := walkOne_inv i h h0
    have h01 : ∀ j, (walkOne env s i).polled j = 0 := by intro j; rw [walkOne_polled]; exact h0 j
    have := ih (pre ++ [i]) (walkOne env s i) done1 h1 h01
    simpa [List.append_assoc] using this

theorem init_inv (env : Env) : InvOn env [] State.init [] :=
  ⟨by simp [State.init], by simp [State.init], by simp, by simp [State.init]⟩

theorem walk_init_inv (env : Env) : (∃ done, Inv env (walk env State.init) done) ∧ ∀ j, (walk env State.init).polled j = 0 := by
  have := walkFold_inv env (List.range env.n) [] State.init [] (init_inv env) (by simp [State.init])
  simpa [walk] using this

/-! ## one poll -/

theorem afterValue_notDone (env : Env) (s : State) (i : Nat) : afterValue env s i .notDoneYet = s := by
  simp [afterValue, allfunc_g4]

theorem afterValue_plain (env : Env) (s : State) (i : Nat) :
    afterValue env s i .plain = { s with results := s.results ++ [entryPollOk env i], callbacks := s.callbacks.erase i } := by
  simp [afterValue, allfunc_g4]

theorem perm_erase_done {cbs dfst ids : List Nat} {i : Nat} (hi : i ∈ cbs) (h : (cbs ++ dfst).Perm ids) :
    (cbs.erase i ++ (dfst ++ [i])).Perm ids := by
  refine List.Perm.trans ?_ h
  have h1 : cbs.Perm (i :: cbs.erase i) := List.perm_cons_erase hi
  have h2 : (cbs ++ dfst).Perm ((i :: cbs.erase i) ++ dfst) := h1.append_right _
  refine List.Perm.trans ?_ h2.symm
  rw [← List.append_assoc]
  exact List.perm_append_singleton i (cbs.erase i ++ dfst)

theorem pollOne_inv {env : Env} {s : State} {done} {i : Nat} (h : Inv env s done) (hi : i ∈ s.callbacks) :
    (∃ done', Inv env (pollOne env s i) done') ∧
    ((pollOne env s i).callbacks = s.callbacks ∨ (pollOne env s i).callbacks = s.callbacks.erase i) := by
  have hnd := h.nodup
  obtain ⟨hperm, hres, hent, hpend⟩ := h
  obtain ⟨himm, hprev⟩ := hpend i hi
  have hrest : ∀ x, x ∈ s.callbacks.erase i → env.imm x = .deferred ∧
      ∀ j, j < (if x = i then s.polled i + 1 else s.polled x) → env.polls x j = .notDone := by
    intro x hx
    have := (List.Nodup.mem_erase_iff hnd).1 hx
    simp only [this.1, if_false]
    exact hpend x this.2
  cases hp : env.polls i (s.polled i) with
  | notDone =>
    refine ⟨⟨done, ?_, ?_, hent, ?_⟩, Or.inl ?_⟩
    · simpa [pollOne, hp, afterValue_notDone] using hperm
    · simp [pollOne, hp, afterValue_notDone, hres]
    · intro x hx
      simp only [pollOne, hp, afterValue_notDone] at hx ⊢
      refine ⟨(hpend x hx).1, ?_⟩
      by_cases hxi : x = i
      · subst hxi
        intro j hj
        simp only [if_true] at hj
        rcases Nat.lt_succ_iff_lt_or_eq.1 hj with hlt | heq
        · exact hprev j hlt
        · rw [heq]; exact hp
      · simp only [hxi, if_false]
        exact (hpend x hx).2
    · simp [pollOne, hp, afterValue_notDone]
  | raises c t =>
    refine ⟨⟨done ++ [(i, entryPollErr env i c t)], ?_, ?_, ?_, ?_⟩, Or.inr ?_⟩
    · simp only [pollOne, hp, List.map_append, List.map_cons, List.map_nil]
      exact perm_erase_done hi hperm
    · simp [pollOne, hp, hres]
    · intro p hp'
      rcases List.mem_append.1 hp' with hp' | hp'
      · exact hent p hp'
      · simp only [List.mem_singleton] at hp'
        subst hp'
        refine ⟨by simp [entryPollErr, pollErr_name], by simp [entryPollErr, pollErr_group], ?_⟩
        simp only [Reports, himm]
        exact ⟨s.polled i, hprev, Or.inl (by simpa [entryPollErr, pollErr_status, pollErr_description] using hp)⟩
    · intro x hx
      simp only [pollOne, hp] at hx ⊢
      exact hrest x hx
    · simp [pollOne, hp]
  | value =>
    refine ⟨⟨done ++ [(i, entryPollOk env i)], ?_, ?_, ?_, ?_⟩, Or.inr ?_⟩
    · simp only [pollOne, hp, afterValue_plain, List.map_append, List.map_cons, List.map_nil]
      exact perm_erase_done hi hperm
    · simp [pollOne, hp, afterValue_plain, hres]
    · intro p hp'
      rcases List.mem_append.1 hp' with hp' | hp'
      · exact hent p hp'
      · simp only [List.mem_singleton] at hp'
        subst hp'
        refine ⟨by simp [entryPollOk, pollOk_name], by simp [entryPollOk, pollOk_group], ?_⟩
        simp only [Reports, himm]
        exact ⟨s.polled i, hprev, Or.inr ⟨hp, by simp [entryPollOk, pollOk_status, faultSUCCESS], by simp [entryPollOk, pollOk_description]⟩⟩
    · intro x hx
      simp only [pollOne, hp, afterValue_plain] at hx ⊢
      exact hrest x hx
    · simp [pollOne, hp, afterValue_plain]

/-- the poll loop over a snapshot `rest` of distinct pending positions -/
theorem pollFold_inv (env : Env) : ∀ (rest : List Nat) (s : State) (done : List (Nat × Entry)),
    Inv env s done → rest.Nodup → (∀ x, x ∈ rest → x ∈ s.callbacks) →
    ∃ done', Inv env (rest.foldl (pollOne env) s) done' := by
  intro rest
  induction rest with
  | nil => intro s done h _ _; exact ⟨done, h⟩
  | cons i rest ih =>
    intro s done h hnd hsub
    have hi : i ∈ s.callbacks := hsub i (by simp)
    obtain ⟨⟨done1, h1⟩, hcb⟩ := pollOne_inv h hi
    have hnd' := List.nodup_cons.1 hnd
    refine ih (pollOne env s i) done1 h1 hnd'.2 ?_
    intro x hx
    have hxs : x ∈ s.callbacks := hsub x (by simp [hx])
    have hne : x ≠ i := by intro heq; subst heq; exact hnd'.1 hx
    rcases hcb with hcb | hcb
    · rw [hcb]; exact hxs
    · rw [hcb]; exact (List.mem_erase_of_ne hne).2 hxs

theorem pollAll_inv {env : Env} {s : State} {done} (h : Inv env s done) : ∃ done', Inv env (pollAll env s) done' :=
  pollFold_inv env s.callbacks s done h h.nodup (fun _ hx => hx)

/-! ## results only grow; the log of one invocation -/

theorem walkOne_results (env : Env) (s : State) (i : Nat) : ∃ ex, (walkOne env s i).results = s.results ++ ex := by
  unfold walkOne keepOrRecord
  simp only
  split
  · split
    · exact ⟨_, rfl⟩
    · split
      · exact ⟨[], by simp⟩
      · exact ⟨_, rfl⟩
    · split
      · exact ⟨[], by simp⟩
      · exact ⟨_, rfl⟩
  · exact ⟨[], by simp⟩

theorem pollOne_results (env : Env) (s : State) (i : Nat) : ∃ ex, (pollOne env s i).results = s.results ++ ex := by
  unfold pollOne afterValue
  simp only
  split
  · exact ⟨_, rfl⟩
  · split
    · exact ⟨_, rfl⟩
    · exact ⟨[], by simp⟩
  · split
    · exact ⟨_, rfl⟩
    · exact ⟨[], by simp⟩

theorem foldl_results {f : State → Nat → State} (hf : ∀ s i, ∃ ex, (f s i).results = s.results ++ ex) :
    ∀ (l : List Nat) (s : State), ∃ ex, (l.foldl f s).results = s.results ++ ex := by
  intro l
  induction l with
  | nil => intro s; exact ⟨[], by simp⟩
  | cons i l ih =>
    intro s
    obtain ⟨e1, h1⟩ := hf s i
    obtain ⟨e2, h2⟩ := ih (f s i)
    exact ⟨e1 ++ e2, by simp [List.foldl_cons, h2, h1, List.append_assoc]⟩

theorem invoke_results (env : Env) (s : State) : ∃ ex, (invoke env s).1.results = s.results ++ ex := by
  have hw : ∃ ex, (phase1 env s).results = s.results ++ ex := by
    unfold phase1
    split
    · exact foldl_results (walkOne_results env) _ s
    · exact ⟨[], by simp⟩
  obtain ⟨e1, h1⟩ := hw
  have hp : ∃ ex, (phase2 env (phase1 env s)).1.results = (phase1 env s).results ++ ex := by
    unfold phase2
    split
    · exact ⟨[], by simp⟩
    · simp only
      split <;> exact foldl_results (pollOne_results env) _ _
  obtain ⟨e2, h2⟩ := hp
  refine ⟨e1 ++ e2, ?_⟩
  simp [invoke, structureOk_true, h2, h1, List.append_assoc]

theorem pollOne_log (env : Env) (s : State) (i : Nat) : (pollOne env s i).log = s.log ++ [.poll i] := by
  unfold pollOne afterValue
  simp only
  split
  · rfl
  · split <;> rfl
  · split <;> rfl

theorem pollFold_log (env : Env) : ∀ (l : List Nat) (s : State), (l.foldl (pollOne env) s).log = s.log ++ l.map Ev.poll := by
  intro l
  induction l with
  | nil => intro s; simp
  | cons i l ih => intro s; simp [List.foldl_cons, ih, pollOne_log, List.append_assoc]

theorem walkOne_log (env : Env) (s : State) (i : Nat) :
    (walkOne env s i).log = s.log ++ (.test i :: if env.eligible i then [.call i (makeNamespec (env.group i) (env.name i))] else []) := by
  unfold walkOne keepOrRecord
  simp only [allfunc_g1]
  by_cases he : env.eligible i = true
  · simp only [he, if_true]
    split
    · simp
    · split <;> simp
    · split <;> simp
  · simp [he]

theorem walkFold_log (env : Env) : ∀ (l : List Nat) (s : State),
    callsOf (l.foldl (walkOne env) s).log = callsOf s.log ++ (l.filter env.eligible).map (fun i => (i, makeNamespec (env.group i) (env.name i)))
    ∧ testsOf (l.foldl (walkOne env) s).log = testsOf s.log ++ l
    ∧ pollsOf (l.foldl (walkOne env) s).log = pollsOf s.log := by
  intro l
  induction l with
  | nil => intro s; simp
  | cons i l ih =>
    intro s
    obtain ⟨h1, h2, h3⟩ := ih (walkOne env s i)
    simp only [List.foldl_cons, h1, h2, h3, walkOne_log]
    by_cases he : env.eligible i = true <;>
      simp [he, callsOf, testsOf, pollsOf, List.filterMap_append, List.filter_cons]

/-! ## one invocation -/

/-- what an invocation answers, in terms of the state it leaves -/
theorem invoke_answer (env : Env) (s : State) :
    (invoke env s).2 = if (invoke env s).1.callbacks.isEmpty then .results (invoke env s).1.results else .notDoneYet := by
  simp only [invoke, structureOk_true, if_true, phase2, allfunc_g3, allfunc_g5, allfunc_a2, allfunc_a5, allfunc_a6, answerOf]
  by_cases h1 : (phase1 env s).callbacks.isEmpty = true
  · simp [h1]
  · simp only [h1, Bool.not_false, Bool.not_true, Bool.false_eq_true, if_false]
    by_cases h2 : (pollAll env (phase1 env s)).callbacks.isEmpty = true <;> simp [h2]

theorem ite_pair_fst {α β : Type} (c : Bool) (a : α) (x y : β) : (if c = true then (a, x) else (a, y)).1 = a := by
  cases c <;> rfl

/-- the state an invocation leaves: the walk (first invocation only), then, if anything is pending, one poll loop -/
theorem invoke_fst (env : Env) (s : State) :
    (invoke env s).1 = if (phase1 env s).callbacks.isEmpty then phase1 env s else pollAll env (phase1 env s) := by
  simp only [invoke, structureOk_true, if_true, phase2, allfunc_g3]
  by_cases h : (phase1 env s).callbacks.isEmpty = true
  · simp [h]
  · simp only [h, Bool.not_false, Bool.not_true, Bool.false_eq_true, if_false]
    exact ite_pair_fst _ _ _ _

theorem phase1_init (env : Env) : phase1 env State.init = walk env State.init := by simp [phase1, allfunc_g0, State.init]

theorem phase1_pending (env : Env) (s : State) (hne : s.callbacks.isEmpty = false) : phase1 env s = s := by
  simp [phase1, allfunc_g0, hne]

theorem invoke_init_inv (env : Env) : ∃ done, Inv env (invoke env State.init).1 done := by
  obtain ⟨⟨done, h⟩, _⟩ := walk_init_inv env
  rw [invoke_fst, phase1_init]
  split
  · exact ⟨done, h⟩
  · exact pollAll_inv h

theorem invoke_next_inv {env : Env} {s : State} {done} (h : Inv env s done) (hne : s.callbacks.isEmpty = false) :
    ∃ done', Inv env (invoke env s).1 done' := by
  rw [invoke_fst, phase1_pending env s hne]
  simp only [hne, Bool.false_eq_true, if_false]
  exact pollAll_inv h

theorem logParts_append (a b : List Ev) : callsOf (a ++ b) = callsOf a ++ callsOf b ∧ testsOf (a ++ b) = testsOf a ++ testsOf b
    ∧ pollsOf (a ++ b) = pollsOf a ++ pollsOf b := by
  simp [callsOf, testsOf, pollsOf, List.filterMap_append]

theorem logParts_polls (l : List Nat) : callsOf (l.map Ev.poll) = [] ∧ testsOf (l.map Ev.poll) = [] ∧ pollsOf (l.map Ev.poll) = l := by
  induction l with
  | nil => exact ⟨rfl, rfl, rfl⟩
  | cons a l ih =>
    obtain ⟨h1, h2, h3⟩ := ih
    simp only [callsOf, testsOf, pollsOf] at h1 h2 h3 ⊢
    simp [h1, h2, h3]

/-- the seam calls of the first invocation: every position tested once in list order, `func` called once for each
    eligible position in list order with its namespec; then one poll of each callback pending after the walk -/
theorem invoke_init_log (env : Env) :
    callsOf (invoke env State.init).1.log = (eligIds env).map (fun i => (i, makeNamespec (env.group i) (env.name i)))
    ∧ testsOf (invoke env State.init).1.log = List.range env.n
    ∧ pollsOf (invoke env State.init).1.log = (walk env State.init).callbacks := by
  obtain ⟨h1, h2, h3⟩ := walkFold_log env (List.range env.n) State.init
  have hc : callsOf (walk env State.init).log = (eligIds env).map (fun i => (i, makeNamespec (env.group i) (env.name i))) := by
    simpa [walk, State.init, callsOf, eligIds] using h1
  have ht : testsOf (walk env State.init).log = List.range env.n := by simpa [walk, State.init, testsOf] using h2
  have hpo : pollsOf (walk env State.init).log = [] := by simpa [walk, State.init, pollsOf] using h3
  rw [invoke_fst, phase1_init]
  by_cases he : (walk env State.init).callbacks.isEmpty = true
  · simp only [he, if_true]
    exact ⟨hc, ht, by rw [hpo]; exact (List.isEmpty_iff.1 he).symm⟩
  · simp only [he, Bool.false_eq_true, if_false]
    have hlog : (pollAll env (walk env State.init)).log = (walk env State.init).log ++ (walk env State.init).callbacks.map Ev.poll :=
      pollFold_log env _ _
    obtain ⟨q1, q2, q3⟩ := logParts_polls (walk env State.init).callbacks
    obtain ⟨a1, a2, a3⟩ := logParts_append (walk env State.init).log ((walk env State.init).callbacks.map Ev.poll)
    rw [hlog, a1, a2, a3, q1, q2, q3, hc, ht, hpo]
    simp

/-- the seam calls of a later invocation (something pending): one poll of every pending callback, in list order,
    and nothing else — in particular no call of `func` -/
theorem invoke_next_log (env : Env) (s : State) (hne : s.callbacks.isEmpty = false) :
    (invoke env s).1.log = s.log ++ s.callbacks.map Ev.poll := by
  rw [invoke_fst, phase1_pending env s hne]
  simp only [hne, Bool.false_eq_true, if_false]
  exact pollFold_log env _ _

/-! ## the protocol -/

/-- the run-level invariant: before the first invocation nothing has happened; afterwards the state satisfies `Inv`,
    the last answer is NOT_DONE_YET exactly while something is pending and otherwise the recorded results, and `func`
    has been called exactly once for each eligible position -/
def RunInv (env : Env) (r : State × Option Answer) : Prop :=
  match r.2 with
  | none => r.1 = State.init
  | some a => (∃ done, Inv env r.1 done)
      ∧ a = (if r.1.callbacks.isEmpty then .results r.1.results else .notDoneYet)
      ∧ callsOf r.1.log = (eligIds env).map (fun i => (i, makeNamespec (env.group i) (env.name i)))
      ∧ testsOf r.1.log = List.range env.n

theorem callsOf_poll_append (l : List Ev) (c : List Nat) : callsOf (l ++ c.map Ev.poll) = callsOf l ∧ testsOf (l ++ c.map Ev.poll) = testsOf l := by
  obtain ⟨a1, a2, _⟩ := logParts_append l (c.map Ev.poll)
  obtain ⟨q1, q2, _⟩ := logParts_polls c
  rw [a1, a2, q1, q2]
  simp

theorem tick_inv (env : Env) (r : State × Option Answer) (h : RunInv env r) : RunInv env (tick env r) := by
  obtain ⟨s, a⟩ := r
  cases a with
  | none =>
    simp only [RunInv] at h
    subst h
    simp only [tick, RunInv]
    exact ⟨invoke_init_inv env, invoke_answer env _, (invoke_init_log env).1, (invoke_init_log env).2.1⟩
  | some a =>
    simp only [RunInv] at h
    obtain ⟨⟨done, hinv⟩, ha, hc, ht⟩ := h
    cases a with
    | notDoneYet =>
      have hne : s.callbacks.isEmpty = false := by
        cases hem : s.callbacks.isEmpty
        · rfl
        · simp [hem] at ha
      simp only [tick, RunInv]
      refine ⟨invoke_next_inv hinv hne, invoke_answer env _, ?_, ?_⟩
      · rw [invoke_next_log env s hne, (callsOf_poll_append _ _).1]; exact hc
      · rw [invoke_next_log env s hne, (callsOf_poll_append _ _).2]; exact ht
    | results rs => simp only [tick, RunInv]; exact ⟨⟨done, hinv⟩, ha, hc, ht⟩
    | unmodelled => simp only [tick, RunInv]; exact ⟨⟨done, hinv⟩, ha, hc, ht⟩

theorem run_inv (env : Env) (n : Nat) : RunInv env (run env n) := by
  induction n with
  | zero => simp [run, RunInv]
  | succ n ih => exact tick_inv env _ ih


/-! ## every pending callback is polled exactly once per invocation; the call answers -/

/-- all pending callbacks have been polled `t` times -/
def Sync (t : Nat) (s : State) : Prop := ∀ i, i ∈ s.callbacks → s.polled i = t

theorem pollOne_polled (env : Env) (s : State) (i : Nat) :
    (pollOne env s i).polled = fun j => if j = i then s.polled i + 1 else s.polled j := by
  unfold pollOne afterValue
  simp only
  split
  · rfl
  · split <;> rfl
  · split <;> rfl

theorem pollOne_callbacks_sub (env : Env) (s : State) (i x : Nat) (hx : x ∈ (pollOne env s i).callbacks) : x ∈ s.callbacks := by
  unfold pollOne afterValue at hx
  simp only at hx
  split at hx
  · exact List.mem_of_mem_erase hx
  · split at hx
    · exact List.mem_of_mem_erase hx
    · exact hx
  · split at hx
    · exact List.mem_of_mem_erase hx
    · exact hx

theorem pollFold_sync (env : Env) (t : Nat) : ∀ (rest : List Nat) (s : State), rest.Nodup →
    (∀ x, x ∈ s.callbacks → x ∈ rest → s.polled x = t) → (∀ x, x ∈ s.callbacks → x ∉ rest → s.polled x = t + 1) →
    Sync (t + 1) (rest.foldl (pollOne env) s) := by
  intro rest
  induction rest with
  | nil => intro s _ _ hB x hx; exact hB x hx (by simp)
  | cons i rest ih =>
    intro s hnd hA hB
    have hnd' := List.nodup_cons.1 hnd
    refine ih (pollOne env s i) hnd'.2 ?_ ?_
    · intro x hx hxr
      have hxs := pollOne_callbacks_sub env s i x hx
      have hne : x ≠ i := by intro heq; subst heq; exact hnd'.1 hxr
      rw [pollOne_polled]
      simp only [hne, if_false]
      exact hA x hxs (by simp [hxr])
    · intro x hx hxr
      have hxs := pollOne_callbacks_sub env s i x hx
      rw [pollOne_polled]
      by_cases hxi : x = i
      · subst hxi
        simp only [if_true]
        rw [hA x hxs (by simp)]
      · simp only [hxi, if_false]
        exact hB x hxs (by simp [hxi, hxr])

theorem pollAll_sync (env : Env) (t : Nat) (s : State) (hnd : s.callbacks.Nodup) (h : Sync t s) : Sync (t + 1) (pollAll env s) :=
  pollFold_sync env t s.callbacks s hnd (fun x hx _ => h x hx) (fun x hx hnx => absurd hx hnx)

theorem run_none (env : Env) (n : Nat) (h : (run env n).2 = none) : n = 0 := by
  cases n with
  | zero => rfl
  | succ n =>
    exfalso
    simp only [run, tick] at h
    split at h <;> simp_all

/-- run-level: while the answer is NOT_DONE_YET after `n` opportunities, the closure has been invoked `n` times and every pending
    callback has been polled exactly `n` times -/
theorem run_sync (env : Env) (n : Nat) : (run env n).2 = some .notDoneYet → Sync n (run env n).1 := by
  induction n with
  | zero => intro h; simp [run] at h
  | succ n ih =>
    intro h
    have hinv := run_inv env n
    cases ha : (run env n).2 with
    | none =>
      have hn0 := run_none env n ha
      subst hn0
      simp only [RunInv, ha] at hinv
      simp only [run, tick, ha, hinv]
      rw [invoke_fst, phase1_init]
      obtain ⟨⟨done, hw⟩, h0⟩ := walk_init_inv env
      split
      · rename_i he
        intro i hi
        rw [List.isEmpty_iff.1 he] at hi
        exact absurd hi (by simp)
      · have := pollAll_sync env 0 (walk env State.init) hw.nodup (fun i _ => h0 i)
        simpa using this
    | some a =>
      cases a with
      | notDoneYet =>
        simp only [RunInv, ha] at hinv
        obtain ⟨⟨done, hi⟩, hans, _⟩ := hinv
        have hne : (run env n).1.callbacks.isEmpty = false := by
          cases hem : (run env n).1.callbacks.isEmpty
          · rfl
          · simp [hem] at hans
        simp only [run, tick, ha]
        rw [invoke_fst, phase1_pending env _ hne]
        simp only [hne, Bool.false_eq_true, if_false]
        exact pollAll_sync env n _ hi.nodup (ih ha)
      | results rs => simp [run, tick, ha] at h
      | unmodelled => simp [run, tick, ha] at h

/-! ## lists -/

theorem range_map_getD {α : Type} (ps : List α) (d : α) : (List.range ps.length).map (fun i => ps.getD i d) = ps := by
  apply List.ext_getElem
  · simp
  · intro i h1 h2
    simp at h1
    simp [List.getD, h1]

theorem eligIds_ofList_map {β : Type} (ps : List PSpec) (f : PSpec → β) :
    (eligIds (Env.ofList ps)).map (fun i => f (ps.getD i PSpec.dflt)) = (ps.filter (·.eligible)).map f := by
  have h := range_map_getD ps PSpec.dflt
  calc (eligIds (Env.ofList ps)).map (fun i => f (ps.getD i PSpec.dflt))
      = (((List.range ps.length).map (fun i => ps.getD i PSpec.dflt)).filter (·.eligible)).map f := by
        simp [eligIds, Env.ofList, List.filter_map, Function.comp_def]
    _ = (ps.filter (·.eligible)).map f := by rw [h]

end Sv.AllFunc
