-- stub: replaced by the property author
namespace Sv.Props.C13
end Sv.Props.C13
