import SupervisorModel.Basic.DriverKit
import SupervisorModel.Model.Auth
def main : IO Unit := Sv.driverMain [("auth", Sv.Auth.runCase), ("authconn", Sv.Auth.runConn)]
