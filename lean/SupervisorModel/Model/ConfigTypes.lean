/-
  Types shared by the generated configuration tables (Generated/Config.lean, Generated/Reread.lean)
  and the hand-written models Model/Config.lean, Model/Reread.lean.  No Mathlib.
-/
namespace Sv.Config

/-- the default argument of a `get(section, 'opt', default)` call as written in options.py -/
inductive Dflt
  | none                 -- `None`
  | str (s : String)     -- a string literal (expanded like a configured value)
  | int (n : Int)        -- an integer literal (passed to the converter unexpanded)
  | bool (b : Bool)      -- `True` / `False`
  | auto                 -- the `Automatic` sentinel
  | ref (name : String)  -- another local variable (e.g. `stopasgroup`, `tempdir`)
  | required             -- no default argument
deriving DecidableEq, Repr

/-- one `get(...)` call site of options.py -/
structure OptRow where
  scope : String         -- "program" (= _processes_from_section), "group", "homogeneous", "eventlistener", "fcgi", "supervisord"
  opt : String
  conv : String          -- name of the converter wrapped directly around the call ("" when none)
  dflt : Dflt
  doExpand : Bool        -- false when the call passes do_expand=False
deriving DecidableEq, Repr

/-- one "*Default*:" line of docs/configuration.rst, normalised by the extractor -/
structure DocRow where
  scope : String
  opt : String
  text : String          -- the documented default ("" unless kind = "value")
  kind : String          -- "value": a comparable literal; "unset": the wording says there is no default / nothing is
                         -- set; "opaque": the wording describes a computed value (a path under $CWD, tempfile.gettempdir …)
deriving DecidableEq, Repr

/-- a statement of `_processes_from_section` that binds or updates the dictionary `expansions` of the
    numprocs loop (harness/sites/config.py `loop_placement` says which of them stand in front of the loop
    and which at the head of its body) -/
inductive ExpStep
  | alias           -- `expansions = common_expansions`        (one dictionary under two names)
  | copy            -- `expansions = dict(common_expansions)`  (a fresh dictionary)
  | setProcessNum   -- `expansions['process_num'] = process_num`
  | setNumprocs     -- `expansions['numprocs'] = numprocs`
  | resetEnviron    -- `expansions.update(self.environ_expansions)`
deriving DecidableEq, Repr

/-- what `Options.read_include_config` hands to `parser.expand_here()` after reading one file matched by an include
    pattern (harness/sites/config.py `include_here`) -/
inductive HereSrc
  | matchedFile     -- `os.path.abspath(os.path.dirname(filename))`: the directory of the file just read
  | pattern         -- the directory part of the include pattern (computed once per pattern)
  | mainFile        -- `self.here`: the directory of the main configuration file
deriving DecidableEq, Repr

end Sv.Config
