-- stub: replaced by the property author
namespace Sv.Props.C10
end Sv.Props.C10
