import SupervisorModel.Basic.St
import SupervisorModel.Generated.OutDisp
import SupervisorModel.Model.Strip
/-
  Model of `POutputDispatcher` (supervisor/dispatchers.py): `handle_read_event`,
  `record_output` (with the `eof` flush), `toggle_capturemode`, `_log`; of `find_prefix_at_end`
  (supervisor/medusa/asynchat_25.py) and of `BoundIO.write` (supervisor/loggers.py).

  `record_output` is modelled twice: `recordDirect` follows the method statement by statement
  (this is what the driver executes), and, for the proofs, in two layers that mirror the two
  things the method does (Lemmas/OutDispDirect.lean proves the two models equal):
  * `scanGo` — the scanner: which `_log(data)` / `toggle_capturemode()` calls are made, in
    order, and what is left in `output_buffer` (pure; every test and slice is the regenerated
    definition `Sv.Gen.OutDisp.record_output_*`);
  * `perform` — what each of those calls does to the logs, the capture buffer and the event
    stream (`_log`, `toggle_capturemode`, with the regenerated `log_*`, `toggle_*`,
    `bound_write_*`).
  The real method interleaves them; no information flows from the second into the first
  except `capturemode`, which both track identically (theorem `recordDirect_eq`).

  The copy of child output into supervisord's own log at debug level (`log_to_mainlog`, i.e.
  `options.loglevel <= DEBG`) is modelled as far as it can disturb the property: the chunk is
  decoded (`data.decode('utf-8')`, `Sv.Py.utf8Valid`) inside the `try` statements whose handler
  classes are regenerated as `logDecodeSites`; a UnicodeDecodeError that no handler covers
  leaves `_log` after the chunk was handed to the child log and before the PROCESS_LOG event
  (`mainCopy`, error `decode`).  The wording written to the main log is not an observable.
  Not modelled: log rotation (C19), syslog.
-/
namespace Sv.OutDisp
open Sv.Gen.OutDisp

/-! ### `data.split(token, 1)` -/

def splitFirstGo (tok : Bytes) : Bytes → Option (Bytes × Bytes)
  | [] => none
  | x :: xs =>
    if tok.isPrefixOf (x :: xs) then some ([], (x :: xs).drop tok.length)
    else (splitFirstGo tok xs).map fun ba => (x :: ba.1, ba.2)

/-- `before, after = data.split(token, 1)`; `none` = the `ValueError` branch (token absent;
    Python also raises ValueError for an empty separator) -/
def splitFirst (tok data : Bytes) : Option (Bytes × Bytes) :=
  if tok.isEmpty then none else splitFirstGo tok data

/-! ### `find_prefix_at_end` (medusa), loop for loop -/

def fpaeLoop (hay needle : Bytes) : Nat → Int → Int
  | 0, l => l
  | n + 1, l =>
    if fpae_g0 hay needle l then fpaeLoop hay needle n (fpae_a1 hay needle l)
    else fpae_a2 hay needle l

def findPrefixAtEnd (hay needle : Bytes) : Int :=
  fpaeLoop hay needle needle.length (fpae_a0 hay needle 0)

/-! ### `BoundIO.write` -/

def boundWrite (buf b : Bytes) (maxbytes : Int) : Bytes :=
  let buf1 := if bound_write_g0 buf b maxbytes then bound_write_a1 buf b maxbytes else buf
  let buf2 := bound_write_a2 buf1 b maxbytes
  if bound_write_g1 buf2 b maxbytes then bound_write_a3 buf2 b maxbytes else buf2

/-! ### the dispatcher -/

structure Cfg where
  capMax : Int          -- <channel>_capture_maxbytes; 0 = no capture logger
  hasLog : Bool         -- a log file is configured for the channel (normallog exists)
  strip : Bool          -- options.strip_ansi
  isStdout : Bool       -- the dispatcher's channel
  outEv : Bool          -- config.stdout_events_enabled
  errEv : Bool          -- config.stderr_events_enabled
  btok : Bytes          -- event_type.BEGIN_TOKEN
  etok : Bytes          -- event_type.END_TOKEN
  mainlog : Bool := false   -- log_to_mainlog: options.loglevel <= DEBG when the dispatcher was made
deriving Repr

/-- the calls `record_output` makes -/
inductive Act
  | data (d : Bytes)    -- `self._log(d)`
  | toggle              -- `self.toggle_capturemode()`
deriving DecidableEq, Repr

structure Scan where
  acts : List Act
  mode : Bool
  buf : Bytes
  fuelOut : Bool
deriving DecidableEq, Repr

/-- `record_output(eof)` as a scanner over (`capturemode`, `output_buffer`); the recursion
    `if after: self.record_output(eof)` consumes at least one byte per call -/
def scanGo (c : Cfg) (eof : Bool) : Nat → Bool → Bytes → Scan
  | 0, m, buf => ⟨[], m, buf, true⟩
  | n + 1, m, buf =>
    if record_output_g0 c.capMax m eof buf c.btok c.etok [] [] 0 then           -- self.capturelog is None
      ⟨[.data (record_output_a0 c.capMax m eof buf c.btok c.etok [] [] 0)], m,
        record_output_a1 c.capMax m eof buf c.btok c.etok [] [] 0, false⟩
    else
      let tok := if record_output_g1 c.capMax m eof buf c.btok c.etok [] [] 0
                 then record_output_a2 c.capMax m eof buf c.btok c.etok [] [] 0
                 else record_output_a3 c.capMax m eof buf c.btok c.etok [] [] 0
      if record_output_g2 c.capMax m eof buf c.btok c.etok [] [] 0 then          -- not enough data
        ⟨[], m, buf, false⟩
      else
        let data := record_output_a4 c.capMax m eof buf c.btok c.etok [] [] 0
        let empty := record_output_a5 c.capMax m eof buf c.btok c.etok [] [] 0
        match splitFirst tok data with
        | none =>
          let index := findPrefixAtEnd data tok
          if record_output_g3 c.capMax m eof empty c.btok c.etok data [] index then   -- index and not eof
            ⟨[.data (record_output_a10 c.capMax m eof empty c.btok c.etok data [] index)], m,
              record_output_a9 c.capMax m eof empty c.btok c.etok data [] index, false⟩
          else
            ⟨[.data data], m, empty, false⟩
        | some (before, after) =>
          let m' := toggle_a0 c.capMax m
          let rest := record_output_a11 c.capMax m' eof empty c.btok c.etok data after 0
          if record_output_g4 c.capMax m' eof rest c.btok c.etok data after 0 then     -- if after:
            let r := scanGo c eof n m' rest
            ⟨.data before :: .toggle :: r.acts, r.mode, r.buf, r.fuelOut⟩
          else
            ⟨[.data before, .toggle], m', rest, false⟩

/-- observable effects -/
inductive Out
  | log (d : Bytes)                     -- bytes handed to the channel's log file
  | plog (stdoutClass : Bool) (d : Bytes)   -- PROCESS_LOG_STDOUT / _STDERR event with this data
  | comm (d : Bytes)                    -- PROCESS_COMMUNICATION event with this data
  | closed                              -- the dispatcher stopped being readable
deriving DecidableEq, Repr

inductive Err
  | fuel
  | decode      -- a UnicodeDecodeError left `_log` (and `handle_read_event`)
deriving DecidableEq, Repr

structure D where
  mode : Bool := false      -- capturemode
  buf : Bytes := []         -- output_buffer
  cap : Bytes := []         -- the capture logger's BoundIO content
  closed : Bool := false
deriving DecidableEq, Repr

abbrev S := St D Out Err

/-- the debug-level copy of a chunk with the decode sites `sites` (source text, handler classes):
    every strict decode either succeeds or raises UnicodeDecodeError, which the handlers around
    it catch or not -/
def mainCopyWith (sites : List (String × List String)) (c : Cfg) (m : Bool) (d : Bytes) : S → S := guard fun s =>
  if log_g3 d c.strip false c.mainlog m c.isStdout c.outEv c.errEv then
    if sites.all (fun site => Py.utf8Valid d || Py.catchesDecodeError site.2) then s else raise .decode s
  else s

/-- `if self.log_to_mainlog: … data.decode('utf-8') … logger.log(…)` of `_log`, as written in /repo -/
def mainCopy (c : Cfg) (m : Bool) (d : Bytes) : S → S := mainCopyWith logDecodeSites c m d

/-- `_log(data)` -/
def logData (c : Cfg) (data : Bytes) : S → S := guard fun s =>
  let m := s.p.mode
  if log_g0 data c.strip false false m c.isStdout c.outEv c.errEv then
    let d := if log_g1 data c.strip false false m c.isStdout c.outEv c.errEv
             then Strip.stripEscapes data else data
    let toCap := m && toggle_g0 c.capMax m                 -- childlog is the capture logger
    let childlog := if toCap then true else c.hasLog
    let s0 := if log_g2 d c.strip childlog false m c.isStdout c.outEv c.errEv then
                (if toCap then setP (fun p => { p with cap := boundWrite p.cap d c.capMax }) s
                 else emit (.log d) s)
              else s
    let s1 := mainCopy c m d s0
    if log_g5 d c.strip childlog false m c.isStdout c.outEv c.errEv then s1    -- capture mode: no PROCESS_LOG
    else if log_g6 d c.strip childlog false m c.isStdout c.outEv c.errEv then
      (if log_g7 d c.strip childlog false m c.isStdout c.outEv c.errEv then emit (.plog true d) s1 else s1)
    else
      (if log_g8 d c.strip childlog false m c.isStdout c.outEv c.errEv then emit (.plog false d) s1 else s1)
  else s

/-- `toggle_capturemode()` -/
def toggle (c : Cfg) : S → S := guard fun s =>
  let m' := toggle_a0 c.capMax s.p.mode
  let s1 := setP (fun p => { p with mode := m' }) s
  if toggle_g0 c.capMax m' then
    if toggle_g1 c.capMax m' then s1
    else s1 |> emit (.comm s.p.cap) |> setP (fun p => { p with cap := [] })
  else s1

def perform (c : Cfg) (s : S) : Act → S
  | .data d => logData c d s
  | .toggle => toggle c s

def performAll (c : Cfg) (acts : List Act) (s : S) : S := acts.foldl (perform c) s

/-- `record_output(eof)` -/
def recordOutput (c : Cfg) (eof : Bool) : S → S := guard fun s =>
  let r := scanGo c eof (s.p.buf.length + 1) s.p.mode s.p.buf
  if r.fuelOut then raise .fuel s
  else performAll c r.acts (setP (fun p => { p with buf := r.buf }) s)

/-- `close()` -/
def close : S → S := guard fun s =>
  if s.p.closed then s else s |> emit .closed |> setP (fun p => { p with closed := true })

/-- `handle_read_event()` with `readfd` returning `data` (empty = end of file) -/
def readEvent (c : Cfg) (data : Bytes) : S → S := guard fun s =>
  let s1 := setP (fun p => { p with buf := hre_a1 p.buf data }) s
  let s2 := recordOutput c (hre_c0_0 s.p.buf data) s1
  if hre_g0 s.p.buf data then close s2 else s2

/-- `self.output_buffer = b` -/
def setBuf (b : Bytes) : S → S := setP fun p => { p with buf := b }

/-- `record_output(eof)` statement by statement, as the method is written (the effects interleaved
    with the scan; the recursion `if after: self.record_output(eof)` takes fuel).
    `Props.C07.recordDirect_eq` proves it equal to the two-layer `recordOutput`. -/
def recordDirect (c : Cfg) (eof : Bool) : Nat → S → S
  | 0, s => raise .fuel s
  | n + 1, s =>
    if s.err.isSome then s else
    let m := s.p.mode
    let buf := s.p.buf
    if record_output_g0 c.capMax m eof buf c.btok c.etok [] [] 0 then
      s |> setBuf (record_output_a1 c.capMax m eof buf c.btok c.etok [] [] 0)
        |> logData c (record_output_a0 c.capMax m eof buf c.btok c.etok [] [] 0)
    else
      let tok := if record_output_g1 c.capMax m eof buf c.btok c.etok [] [] 0
                 then record_output_a2 c.capMax m eof buf c.btok c.etok [] [] 0
                 else record_output_a3 c.capMax m eof buf c.btok c.etok [] [] 0
      if record_output_g2 c.capMax m eof buf c.btok c.etok [] [] 0 then s
      else
        let data := record_output_a4 c.capMax m eof buf c.btok c.etok [] [] 0
        let empty := record_output_a5 c.capMax m eof buf c.btok c.etok [] [] 0
        let s1 := setBuf empty s
        match splitFirst tok data with
        | none =>
          let index := findPrefixAtEnd data tok
          if record_output_g3 c.capMax m eof empty c.btok c.etok data [] index then
            s1 |> setBuf (record_output_a9 c.capMax m eof empty c.btok c.etok data [] index)
               |> logData c (record_output_a10 c.capMax m eof empty c.btok c.etok data [] index)
          else s1 |> logData c data
        | some (before, after) =>
          let m' := toggle_a0 c.capMax m
          let rest := record_output_a11 c.capMax m' eof empty c.btok c.etok data after 0
          let s2 := s1 |> logData c before |> toggle c |> setBuf rest
          if record_output_g4 c.capMax m' eof rest c.btok c.etok data after 0 then recordDirect c eof n s2 else s2

/-- `handle_read_event()` over the statement-by-statement `record_output` (what the driver runs) -/
def readEventDirect (c : Cfg) (data : Bytes) : S → S := guard fun s =>
  let s1 := setP (fun p => { p with buf := hre_a1 p.buf data }) s
  let s2 := recordDirect c (hre_c0_0 s.p.buf data) (s1.p.buf.length + 1) s1
  if hre_g0 s.p.buf data then close s2 else s2

def init : S := { p := {} }

def feedAll (c : Cfg) (chunks : List Bytes) (s : S) : S := chunks.foldl (fun s x => readEvent c x s) s


/-! ### wiring of the output channels (`make_pipes`, `make_dispatchers`, `_prepare_child_fds`) -/

/-- the descriptors `make_pipes` returns; `fresh` are the numbers the kernel hands out, in call order -/
structure Pipes where
  childStdin : Nat
  stdin : Nat
  stdout : Nat
  childStdout : Nat
  stderr : Option Nat
  childStderr : Option Nat
deriving DecidableEq, Repr

/-- `options.make_pipes(stderr)` given the six numbers three `os.pipe()` calls would return -/
def makePipes (useStderr : Bool) (a b c d e f : Nat) : Pipes :=
  if mkpipes_g0 useStderr then ⟨a, b, c, d, some e, some f⟩ else ⟨a, b, c, d, none, none⟩

/-- `config.make_dispatchers(proc)`: the output dispatchers created, as (descriptor, is the stdout channel) -/
def outputDispatchers (redirect : Bool) (a b c d e f : Nat) : List (Nat × Bool) :=
  let p := makePipes (mkdisp_a0 redirect none none none) a b c d e f
  (if mkdisp_g0 redirect (some p.stdout) p.stderr (some p.stdin) then [(p.stdout, true)] else []) ++
  (match p.stderr with
   | some fd => if mkdisp_g1 redirect (some p.stdout) p.stderr (some p.stdin) then [(fd, false)] else []
   | none => [])

/-- `_prepare_child_fds`: the `dup2(src, dst)` calls made in the child for descriptors 1 and 2 -/
def childDups (redirect : Bool) (childStdin childStdout childStderr : Int) : List (Int × Int) :=
  [(childfds_c0_0 redirect childStdin childStdout childStderr, childfds_c0_1 redirect childStdin childStdout childStderr),
   (childfds_c1_0 redirect childStdin childStdout childStderr, childfds_c1_1 redirect childStdin childStdout childStderr),
   if childfds_g0 redirect childStdin childStdout childStderr
   then (childfds_c2_0 redirect childStdin childStdout childStderr, childfds_c2_1 redirect childStdin childStdout childStderr)
   else (childfds_c3_0 redirect childStdin childStdout childStderr, childfds_c3_1 redirect childStdin childStdout childStderr)]

/-! ### projections of the observable effects -/

/-- all bytes handed to the log file, in order -/
def loggedOf : List Out → Bytes
  | [] => []
  | .log d :: r => d ++ loggedOf r
  | _ :: r => loggedOf r

/-- the data of all PROCESS_LOG events, concatenated in order -/
def plogOf : List Out → Bytes
  | [] => []
  | .plog _ d :: r => d ++ plogOf r
  | _ :: r => plogOf r

/-- the data of the PROCESS_COMMUNICATION events, in order -/
def commOf : List Out → List Bytes
  | [] => []
  | .comm d :: r => d :: commOf r
  | _ :: r => commOf r

/-- PROCESS_LOG events are enabled for this dispatcher's channel -/
def evOn (c : Cfg) : Bool := if c.isStdout then c.outEv else c.errEv

/-! ### line protocol -/

def showOuts (outs : List Out) : String :=
  let logs := outs.foldl (fun acc o => match o with | .log d => acc ++ d | _ => acc) ([] : Bytes)
  let plogs := outs.filterMap fun o => match o with
    | .plog ch d => some ((if ch then "o:" else "e:") ++ hexOfBytes d) | _ => none
  let comms := outs.filterMap fun o => match o with | .comm d => some (hexOfBytes d) | _ => none
  let closed := outs.any fun o => match o with | .closed => true | _ => false
  s!"log:{hexOfBytes logs} | plog:{",".intercalate plogs} | comm:{",".intercalate comms} | closed:{if closed then 1 else 0}"

def parseCfg (cfg : List String) : Option Cfg := do
  let capMax ← kvInt cfg "capture"
  let hasLog ← kvBool cfg "log"
  let strip ← kvBool cfg "strip"
  let ch ← kvGet cfg "channel"
  let isStdout ← (if ch = "stdout" then some true else if ch = "stderr" then some false else none)
  let outEv ← kvBool cfg "oev"
  let errEv ← kvBool cfg "eev"
  -- `mainlog=` (log_to_mainlog) is optional in the case line: absent = not copied
  let mainlog ← (match kvGet cfg "mainlog" with | none => some false | some _ => kvBool cfg "mainlog")
  if capMax < 0 then none else
  pure { capMax, hasLog, strip, isStdout, outEv, errEv, mainlog,
         btok := if isStdout then stdout_BEGIN else stderr_BEGIN,
         etok := if isStdout then stdout_END else stderr_END }

def stepLine (c : Cfg) (s : S) (l : String) : S × String :=
  match words l with
  | ["read", h] =>
    match bytesOfHex h with
    | some b =>
      let s' := readEventDirect c b { s with outs := [] }
      (s', match s'.err with
           | some .fuel => "err fuel"
           | some .decode => showOuts s'.outs ++ " | raised:UnicodeDecodeError"
           | none => showOuts s'.outs)
    | none => (s, "bad-op")
  | _ => (s, "bad-op")

def runOps (c : Cfg) : S → List String → List String
  | _, [] => []
  | s, l :: ls => let r := stepLine c s l; r.2 :: runOps c r.1 ls

def runCase (cfg : List String) (ops : List String) : List String :=
  match parseCfg cfg with
  | none => ops.map fun _ => "bad-config"
  | some c => runOps c init ops

/-- `case boundio max=<n>`: op `write <hex>` → BoundIO content afterwards -/
def runBound (cfg : List String) (ops : List String) : List String :=
  match kvInt cfg "max" with
  | none => ops.map fun _ => "bad-config"
  | some mx =>
    let rec go : Bytes → List String → List String
      | _, [] => []
      | buf, l :: ls =>
        match words l with
        | ["write", h] =>
          match bytesOfHex h with
          | some b => let buf' := boundWrite buf b mx; hexOfBytes buf' :: go buf' ls
          | none => "bad-op" :: go buf ls
        | _ => "bad-op" :: go buf ls
    go [] ops

/-- `case fpae`: op `fpae <hay hex> <needle hex>` → integer -/
def runFpae (_cfg : List String) (ops : List String) : List String :=
  ops.map fun l =>
    match words l with
    | ["fpae", h, n] =>
      match bytesOfHex h, bytesOfHex n with
      | some h, some n => toString (findPrefixAtEnd h n)
      | _, _ => "bad-op"
    | _ => "bad-op"

/-- `case wiring redirect=<0|1>`: op `make a b c d e f` (the numbers three `os.pipe()` calls return) →
    the output dispatchers and the child's dup2 calls -/
def runWiring (cfg : List String) (ops : List String) : List String :=
  match kvBool cfg "redirect" with
  | none => ops.map fun _ => "bad-config"
  | some r => ops.map fun l =>
    match (words l).map String.toNat? with
    | [none, some a, some b, some c, some d, some e, some f] =>
      if (words l).head? != some "make" then "bad-op" else
      let p := makePipes (mkdisp_a0 r none none none) a b c d e f
      let ds := (outputDispatchers r a b c d e f).map fun x => s!"{x.1}:{if x.2 then "o" else "e"}"
      let cerr : Int := match p.childStderr with | some x => x | none => -1
      let dups := (childDups r p.childStdin p.childStdout cerr).map fun x => s!"{x.1}>{x.2}"
      s!"disp:{",".intercalate ds} | stderr:{match p.stderr with | some x => toString x | none => "none"} | dups:{",".intercalate dups}"
    | _ => "bad-op"

end Sv.OutDisp
