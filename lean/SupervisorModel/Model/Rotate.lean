import SupervisorModel.Basic.Bytes
import SupervisorModel.Generated.Rotate
/-
  Model of supervisor/loggers.py `FileHandler` / `RotatingFileHandler` over an abstract file
  system.

  * The directory maps a *name index* (0 = the configured path, k = "<path>.k") to a file.
  * The handler's stream is bound to a file, not to a name: it is `attached n` while the file
    it writes to is still linked at name n, and `detached f` once that name was removed or
    replaced behind the handler's back (the handler then keeps writing into a file nobody can
    see, exactly as a POSIX descriptor does).  `closed` exists only between `remove()` and
    `reopen()`.
  * `File.start`, `File.own` and `S.hist` are ghost fields (the offset in the write history at
    which the file was created / whether the handler created it / the number of bytes ever
    handed to `emit`).  No control flow reads them.
  * Every comparison, the range() bounds and the "%s.%d" index arithmetic of doRollover, the
    errno tests of removeAndRename/remove and the open() modes are the regenerated definitions
    of `Sv.Gen.Rotate`.
  Sticky error: once `err` is set every handler method is the identity (an escaped exception).
-/
namespace Sv.Rotate
open Sv.Gen.Rotate

structure File where
  start : Nat
  own : Bool      -- ghost: created by the handler (false: put there from outside)
  data : Bytes
deriving DecidableEq, Repr

/-- name index ↦ file.  (A structure around the function, so that the compiled driver evaluates
    each update once instead of re-evaluating it on every lookup.) -/
structure Dir where
  get : Int → Option File

inductive Stream
  | closed
  | attached (n : Int)
  | detached (f : File)
deriving DecidableEq, Repr

inductive Err
  | closedStream   -- ValueError: I/O operation on closed file (escapes emit through doRollover)
  | osError        -- an OSError other than ENOENT re-raised
  | unmodelled     -- the source left the modelled fragment (e.g. range step ≠ -1)
deriving DecidableEq, Repr

structure Cfg where
  rotating : Bool      -- handle_file(rotating=…): RotatingFileHandler vs plain FileHandler
  maxBytes : Int
  backupCount : Int
deriving DecidableEq, Repr

structure S where
  dir : Dir
  stream : Stream
  hist : Nat
  err : Option Err

def okThen (f : S → S) (s : S) : S := if s.err.isSome then s else f s
def raise (e : Err) (s : S) : S := { s with err := some e }

/-! abstract file system -/
def fexists (d : Dir) (n : Int) : Bool := (d.get n).isSome
def dirRemove (d : Dir) (n : Int) : Dir := ⟨fun m => if m = n then none else d.get m⟩
def dirSet (d : Dir) (n : Int) (f : File) : Dir := ⟨fun m => if m = n then some f else d.get m⟩
def dirRename (d : Dir) (src dst : Int) : Dir :=
  match d.get src with
  | some f => ⟨fun m => if m = dst then some f else if m = src then none else d.get m⟩
  | none => d
/-- errno of `os.remove(n)` / `os.rename(n, _)`: the only failure of the abstract file system -/
def missingErrno (d : Dir) (n : Int) : Int := if fexists d n then 0 else ENOENT

/-! RotatingFileHandler.removeAndRename -/
def rrRemove (dfn : Int) (s : S) : S :=
  if removeAndRename_g0 (fexists s.dir dfn) 0 then
    if missingErrno s.dir dfn != 0 && removeAndRename_g1 true (missingErrno s.dir dfn) then raise .osError s
    else { s with dir := dirRemove s.dir dfn }
  else s

def rrRename (sfn dfn : Int) (s : S) : S :=
  if missingErrno s.dir sfn != 0 then
    (if removeAndRename_g2 false (missingErrno s.dir sfn) then raise .osError s else s)
  else { s with dir := dirRename s.dir sfn dfn }

def removeAndRename (sfn dfn : Int) : S → S := okThen fun s =>
  okThen (rrRename sfn dfn) (rrRemove dfn s)

/-! the stream -/
def streamTell (s : S) : Option Int :=
  match s.stream with
  | .closed => none
  | .attached n => (s.dir.get n).map fun f => (f.data.length : Int)
  | .detached f => some (f.data.length : Int)

/-- `Handler.emit`: `stream.write(msg); flush()` inside `try … except: handleError()` -/
def streamWrite (b : Bytes) (s : S) : S :=
  match s.stream with
  | .closed => s
  | .attached n =>
    match s.dir.get n with
    | some f => { s with dir := dirSet s.dir n { f with data := f.data ++ b } }
    | none => raise .unmodelled s
  | .detached f => { s with stream := .detached { f with data := f.data ++ b } }

def closeStream (s : S) : S := { s with stream := .closed }

/-- `open(name n, mode)`: 'wb' truncates or creates, 'ab' creates when missing -/
def openFile (n : Int) (trunc : Bool) (s : S) : S :=
  if trunc || !(fexists s.dir n) then
    { s with dir := dirSet s.dir n ⟨s.hist, true, []⟩, stream := .attached n }
  else { s with stream := .attached n }

/-! RotatingFileHandler.doRollover -/
def shiftStep (c : Cfg) (i : Int) (s : S) : S :=
  if doRollover_g3 c.maxBytes c.backupCount 0 i
      (fexists s.dir (doRollover_sfnIdx c.maxBytes c.backupCount 0 i false)) then
    removeAndRename (doRollover_sfnIdx c.maxBytes c.backupCount 0 i false)
      (doRollover_dfnIdx c.maxBytes c.backupCount 0 i false) s
  else s

/-- `for i in range(start, stop, -1)`: i = stop+k, …, stop+1 -/
def shiftLoop (c : Cfg) (stop : Int) : Nat → S → S
  | 0, s => s
  | k + 1, s => shiftLoop c stop k (shiftStep c (stop + ((k + 1 : Nat) : Int)) s)

def backupShift (c : Cfg) (s : S) : S :=
  if doRollover_rangeStep c.maxBytes c.backupCount 0 0 false != -1 then raise .unmodelled s
  else
    removeAndRename doRollover_liveSrcIdx doRollover_liveDstIdx
      (shiftLoop c (doRollover_rangeStop c.maxBytes c.backupCount 0 0 false)
        (doRollover_rangeStart c.maxBytes c.backupCount 0 0 false
          - doRollover_rangeStop c.maxBytes c.backupCount 0 0 false).toNat s)

def rolloverBody (c : Cfg) (s : S) : S :=
  okThen (openFile doRollover_openIdx doRollover_openTruncates)
    (if doRollover_g2 c.maxBytes c.backupCount 0 0 false then backupShift c (closeStream s)
     else closeStream s)

def doRollover (c : Cfg) : S → S := okThen fun s =>
  if doRollover_g0 c.maxBytes c.backupCount 0 0 false then s
  else
    match streamTell s with
    | none => raise (if s.stream = .closed then .closedStream else .unmodelled) s
    | some tell =>
      if doRollover_g1 c.maxBytes c.backupCount tell 0 false then s else rolloverBody c s

/-- `RotatingFileHandler.emit` = `FileHandler.emit(record); self.doRollover()`;
    plain `FileHandler.emit` = `Handler.emit` -/
def emit (c : Cfg) (b : Bytes) : S → S := okThen fun s =>
  if c.rotating then doRollover c { streamWrite b s with hist := s.hist + b.length }
  else { streamWrite b s with hist := s.hist + b.length }

/-! FileHandler.remove / reopen -/
def fhRemove : S → S := okThen fun s =>
  if missingErrno s.dir fhRemove_idx != 0 then
    (if fhRemove_g0 false (missingErrno s.dir fhRemove_idx) then raise .osError (closeStream s)
     else closeStream s)
  else { closeStream s with dir := dirRemove s.dir fhRemove_idx }

/-- the mode `reopen()` uses: what the constructor stored in `self.mode` -/
def modeTruncates (c : Cfg) : Bool :=
  if c.rotating && decide (0 < c.maxBytes) then rotatingHandler_modeTruncates
  else fileHandler_modeTruncates

def fhReopen (c : Cfg) : S → S := okThen fun s =>
  openFile fhReopen_idx (modeTruncates c) (closeStream s)

/-! things that happen behind the handler's back -/
def detachAt (n : Int) (s : S) : S :=
  match s.stream with
  | .attached m =>
    if m = n then
      match s.dir.get n with
      | some f => { s with stream := .detached f }
      | none => raise .unmodelled s
    else s
  | _ => s

def extRemove (n : Int) : S → S := okThen fun s =>
  okThen (fun s1 => { s1 with dir := dirRemove s1.dir n }) (detachAt n s)

def extReplace (n : Int) (d : Bytes) : S → S := okThen fun s =>
  okThen (fun s1 => { s1 with dir := dirSet s1.dir n ⟨0, false, d⟩ }) (detachAt n s)

/-! operations -/
inductive Op
  | write (b : Bytes)
  | clear                       -- handler.remove(); handler.reopen()  (removelogs)
  | reopen                      -- handler.reopen()                    (reopenlogs, SIGUSR2)
  | extRemove (n : Int)
  | extReplace (n : Int) (d : Bytes)
deriving DecidableEq, Repr

def step (c : Cfg) (s : S) : Op → S
  | .write b => emit c b s
  | .clear => fhReopen c (fhRemove s)
  | .reopen => fhReopen c s
  | .extRemove n => extRemove n s
  | .extReplace n d => extReplace n d s

/-- the constructor in an empty directory: `open(filename, mode)` -/
def init (c : Cfg) : S :=
  openFile 0 (modeTruncates c) { dir := ⟨fun _ => none⟩, stream := .closed, hist := 0, err := none }

def runFrom (c : Cfg) (s : S) (ops : List Op) : S := ops.foldl (step c) s
def run (c : Cfg) (ops : List Op) : S := runFrom c (init c) ops

/-! ### the dispatcher level (supervisor/dispatchers.py POutputDispatcher.removelogs / reopenlogs)

  A dispatcher has a normal log (the file handler modelled above) and, with capture enabled, a
  capture log (a BoundIO in memory, not a file); `childlog` is the normal log outside a capture
  section and the capture log inside one.  Which loggers removelogs()/reopenlogs() walk and which
  handler methods they call are the regenerated tables `removelogs_targets/_calls`,
  `reopenlogs_targets/_calls`. -/

/-- does a walk over the handlers of `targets` reach the normal log's file handler? -/
def reachesNormalLog (targets : List String) (capturemode : Bool) : Bool :=
  targets.contains "self.normallog" || (targets.contains "self.childlog" && !capturemode)

/-- `handler.<m>()` for each method name, on the normal log's handler -/
def handlerCalls (c : Cfg) : List String → S → S
  | [], s => s
  | m :: r, s =>
    if m = "remove" then handlerCalls c r (fhRemove s)
    else if m = "reopen" then handlerCalls c r (fhReopen c s)
    else okThen (raise .unmodelled) s

/-- `POutputDispatcher.removelogs()` (clearProcessLogs) as seen by the normal log -/
def dispRemovelogs (c : Cfg) (capturemode : Bool) (s : S) : S :=
  if reachesNormalLog removelogs_targets capturemode then handlerCalls c removelogs_calls s else s

/-- `POutputDispatcher.reopenlogs()` (SIGUSR2) as seen by the normal log -/
def dispReopenlogs (c : Cfg) (capturemode : Bool) (s : S) : S :=
  if reachesNormalLog reopenlogs_targets capturemode then handlerCalls c reopenlogs_calls s else s

/-- everything handed to `emit`, in order -/
def written : List Op → Bytes
  | [] => []
  | .write b :: r => b ++ written r
  | _ :: r => written r

/-! line protocol -/
def showErr : Err → String
  | .closedStream => "closedStream"
  | .osError => "osError"
  | .unmodelled => "unmodelled"

def showState (top : Nat) (s : S) : String :=
  let names := (List.range (top + 1)).filterMap fun (k : Nat) =>
    (s.dir.get (Int.ofNat k)).map fun f => s!"{k}={hexOfBytes f.data}"
  " ".intercalate names ++ " | " ++ (match s.err with | none => "ok" | some e => "err " ++ showErr e)

def parseOp (l : String) : Option Op :=
  match words l with
  | ["write", h] => (bytesOfHex h).map .write
  | ["clear"] => some .clear
  | ["reopen"] => some .reopen
  | ["extremove", n] => n.toInt?.map .extRemove
  | ["extreplace", n, h] =>
    match n.toInt?, bytesOfHex h with
    | some n, some d => some (.extReplace n d)
    | _, _ => none
  | _ => none

/-- dispatcher-level lines: `dclear <capturemode>` / `dreopen <capturemode>` -/
def parseDisp (c : Cfg) (l : String) : Option (S → S) :=
  match words l with
  | ["dclear", "0"] => some (dispRemovelogs c false)
  | ["dclear", "1"] => some (dispRemovelogs c true)
  | ["dreopen", "0"] => some (dispReopenlogs c false)
  | ["dreopen", "1"] => some (dispReopenlogs c true)
  | _ => none

def runOps (c : Cfg) (top : Nat) : S → List String → List String
  | _, [] => []
  | s, l :: r =>
    match parseDisp c l with
    | some f => showState top (f s) :: runOps c top (f s) r
    | none =>
      match parseOp l with
      | none => "bad-op" :: runOps c top s r
      | some op => showState top (step c s op) :: runOps c top (step c s op) r

def runCase (cfg : List String) (ops : List String) : List String :=
  match kvBool cfg "rotating", kvInt cfg "maxbytes", kvInt cfg "backups", kvNat cfg "show" with
  | some r, some m, some b, some top => runOps ⟨r, m, b⟩ top (init ⟨r, m, b⟩) ops
  | _, _, _, _ => ops.map fun _ => "bad-config"

end Sv.Rotate
