import SupervisorModel.Lemmas.Pool
import SupervisorModel.Lemmas.PoolReg
import SupervisorModel.Lemmas.ListenerLedger
import SupervisorModel.Lemmas.PoolSerial
/-
  The history invariant behind Props.C09.serial_unique, poolserial_increasing and conservation:

  * `SInv`   -- serial bookkeeping: the serials (pool serials) carried by the events are, in event order, exactly
                the successive draws of `GlobalSerial` (of the pool's counter), and the counter stands where the
                last draw left it;
  * `Ledger` -- for every pool and every event: copies in the buffer + listeners holding it + OK answers +
                overflow discards (+ what is in transit inside the running operation) = 1 if the pool accepted
                the event, 0 otherwise;
  * `Static` -- pool names are distinct, every listener has its own process object, owned by its pool only;
  * `LAll`   -- every listener satisfies the per-listener invariant `Listener.LOK`.

  `J` bundles them; `j_exec` proves it for every history.
-/
set_option linter.unusedSimpArgs false
set_option linter.unusedVariables false
namespace Sv.Pool
open Sv.Gen.Pool Sv.Gen.Events Sv.Events Sv.Listener

/-! ### the quantities of the ledger -/

/-- copies of event `e` in pool `pi`'s `event_buffer` -/
def inBuffer (w : W) (pi e : Nat) : Nat := ((w.pools[pi]?).map fun p => p.buffer.count e).getD 0

/-- listeners of pool `pi` whose `Subprocess.event` is `e` (sent, not yet answered) -/
def heldBy (w : W) (pi e : Nat) : Nat :=
  ((w.pools[pi]?).map fun p => p.procs.countP fun l => l.event == some e).getD 0

/-- trace entry: a listener of pool `pi` answered event `e` and the pool's result handler accepted the answer -/
def isOkP (h : Bytes → HRes) (pi e : Nat) : POut → Bool
  | .lis p _ o => p == pi && isOkOut h e o
  | _ => false

/-- trace entry: pool `pi` discarded event `e` through the overflow rule (error-level log entry) -/
def isDiscP (pi e : Nat) : POut → Bool
  | .discard p d _ => p == pi && d == e
  | _ => false

def okCount (h : Bytes → HRes) (pi e : Nat) (outs : List POut) : Nat := outs.countP (isOkP h pi e)
def discardCount (pi e : Nat) (outs : List POut) : Nat := outs.countP (isDiscP pi e)

/-- pool `i` has accepted event `e`: the event carries the pool's name in `pool_serials`
    (this is `_acceptEvent`'s own test `self.config.name not in event.pool_serials`) -/
def accepted (w : W) (i e : Nat) : Bool :=
  match w.pools[i]?, w.events[e]? with
  | some p, some ev => (ev.poolSerials.lookup p.name).isSome
  | _, _ => false

/-- the ledger, with `d e` copies of event `e` of pool `pi` in transit inside the running operation -/
def Ledger (h : Bytes → HRes) (w : W) (pi : Nat) (d : Nat → Nat) : Prop :=
  ∀ pj e, inBuffer w pj e + heldBy w pj e + okCount h pj e w.outs + discardCount pj e w.outs +
      (if pj = pi then d e else 0) = (accepted w pj e).toNat

/-! ### the static part -/

def shape (p : PoolSt) : String × List Nat × Nat := (p.name, p.ids, p.procs.length)

structure Static (w : W) : Prop where
  names : ∀ (i j : Nat) (p q : PoolSt), w.pools[i]? = some p → w.pools[j]? = some q → p.name = q.name → i = j
  idsLen : ∀ (i : Nat) (p : PoolSt), w.pools[i]? = some p → p.ids.length = p.procs.length
  idsOwn : ∀ (i j : Nat) (p q : PoolSt) (x : Nat), w.pools[i]? = some p → w.pools[j]? = some q → x ∈ p.ids → x ∈ q.ids → i = j

theorem map_getElem? {β : Type} {f : PoolSt → β} {l l' : List PoolSt} (h : l'.map f = l.map f) (i : Nat) :
    (l'[i]?).map f = (l[i]?).map f := by
  have := congrArg (·[i]?) h
  simpa using this

theorem shape_back {w w' : W} (h : w'.pools.map shape = w.pools.map shape) (i : Nat) (p' : PoolSt)
    (hp : w'.pools[i]? = some p') : ∃ p, w.pools[i]? = some p ∧ shape p = shape p' := by
  have := map_getElem? h i
  rw [hp] at this
  cases hq : w.pools[i]? with
  | none => simp [hq] at this
  | some p => simp [hq] at this; exact ⟨p, rfl, this.symm⟩

theorem Static.of_shapes {w w' : W} (h : w'.pools.map shape = w.pools.map shape) (hs : Static w) : Static w' := by
  refine ⟨?_, ?_, ?_⟩
  · intro i j p q hp hq hn
    obtain ⟨p0, hp0, e1⟩ := shape_back h i p hp
    obtain ⟨q0, hq0, e2⟩ := shape_back h j q hq
    simp only [shape, Prod.mk.injEq] at e1 e2
    exact hs.names i j p0 q0 hp0 hq0 (by rw [e1.1, e2.1]; exact hn)
  · intro i p hp
    obtain ⟨p0, hp0, e1⟩ := shape_back h i p hp
    simp only [shape, Prod.mk.injEq] at e1
    rw [← e1.2.1, ← e1.2.2]; exact hs.idsLen i p0 hp0
  · intro i j p q x hp hq hx hy
    obtain ⟨p0, hp0, e1⟩ := shape_back h i p hp
    obtain ⟨q0, hq0, e2⟩ := shape_back h j q hq
    simp only [shape, Prod.mk.injEq] at e1 e2
    exact hs.idsOwn i j p0 q0 x hp0 hq0 (by rw [e1.2.1]; exact hx) (by rw [e2.2.1]; exact hy)

/-- listener `li` of pool `pi` is owned by pool `pi` and by no other pool -/
theorem Static.owner {w : W} (hs : Static w) (pi li : Nat) (p : PoolSt) (hp : w.pools[pi]? = some p) (hli : li < p.procs.length) :
    owns p (whoOf w pi li) = true ∧ ∀ i, i ≠ pi → ∀ q, w.pools[i]? = some q → owns q (whoOf w pi li) = false := by
  have hlen := hs.idsLen pi p hp
  have hli' : li < p.ids.length := by omega
  have hwho : whoOf w pi li = some p.ids[li] := by simp [whoOf, hp, List.getElem?_eq_getElem hli']
  rw [hwho]
  refine ⟨by simp [owns, ownerTest, rejectedOwnerTest], fun i hi q hq => ?_⟩
  simp only [owns, ownerTest, rejectedOwnerTest]
  cases hc : q.ids.contains p.ids[li]
  · rfl
  · exact absurd (hs.idsOwn pi i p q p.ids[li] hp hq (List.getElem_mem _) (by simpa using hc)).symm hi

/-! ### serial bookkeeping -/

def sers (w : W) : List (Option Int) := w.events.map (·.serial)
def pss (nm : String) (w : W) : List (Option Int) := w.events.map fun ev => ev.poolSerials.lookup nm

structure SInv (w : W) : Prop where
  g : Chain (sers w) w.gserial
  p : ∀ (i : Nat) (q : PoolSt), w.pools[i]? = some q → Chain (pss q.name w) q.serial
  accSer : ∀ (e : Nat) (ev : Ev), w.events[e]? = some ev → ev.serial = none → ev.poolSerials = []

def LAll (w : W) : Prop := ∀ (i : Nat) (p : PoolSt) (l : Lst), w.pools[i]? = some p → l ∈ p.procs → LOK l

structure J (h : Bytes → HRes) (w : W) (pi : Nat) (d : Nat → Nat) : Prop where
  st : Static w
  ls : LAll w
  sv : SInv w
  led : Ledger h w pi d
  rg : RegOK w

/-! ### operations that touch neither the event records nor the counters -/

def kview (p : PoolSt) : String × Int × List Nat × Nat := (p.name, p.serial, p.ids, p.procs.length)

def Quiet (w w' : W) : Prop :=
  w'.events = w.events ∧ w'.gserial = w.gserial ∧ w'.pools.map kview = w.pools.map kview

theorem Quiet.refl (w : W) : Quiet w w := ⟨rfl, rfl, rfl⟩
theorem Quiet.trans {a b c : W} (h1 : Quiet a b) (h2 : Quiet b c) : Quiet a c :=
  ⟨h2.1.trans h1.1, h2.2.1.trans h1.2.1, h2.2.2.trans h1.2.2⟩

theorem Quiet.shapes {w w' : W} (h : Quiet w w') : w'.pools.map shape = w.pools.map shape := by
  have : ∀ l : List PoolSt, l.map shape = (l.map kview).map (fun k => (k.1, k.2.2.1, k.2.2.2)) := by
    intro l; simp [shape, kview]
  rw [this, this, h.2.2]

theorem kview_back {w w' : W} (h : Quiet w w') (i : Nat) (p' : PoolSt)
    (hp : w'.pools[i]? = some p') : ∃ p, w.pools[i]? = some p ∧ kview p = kview p' := by
  have := map_getElem? h.2.2 i
  rw [hp] at this
  cases hq : w.pools[i]? with
  | none => simp [hq] at this
  | some p => simp [hq] at this; exact ⟨p, rfl, this.symm⟩

theorem kview_fwd {w w' : W} (h : Quiet w w') (i : Nat) (p : PoolSt)
    (hp : w.pools[i]? = some p) : ∃ p', w'.pools[i]? = some p' ∧ kview p' = kview p := by
  have := map_getElem? h.2.2 i
  rw [hp] at this
  cases hq : w'.pools[i]? with
  | none => simp [hq] at this
  | some p' => simp [hq] at this; exact ⟨p', rfl, this⟩

theorem Quiet.sinv {w w' : W} (h : Quiet w w') (hs : SInv w) : SInv w' := by
  refine ⟨?_, ?_, ?_⟩
  · have := hs.g; unfold sers at *; rw [h.1, h.2.1]; exact this
  · intro i q hq
    obtain ⟨p, hp, hk⟩ := kview_back h i q hq
    simp only [kview, Prod.mk.injEq] at hk
    have := hs.p i p hp
    unfold pss at *; rw [h.1, ← hk.1, ← hk.2.1]; exact this
  · intro e ev hev hn; rw [h.1] at hev; exact hs.accSer e ev hev hn

theorem Quiet.acc_eq {w w' : W} (h : Quiet w w') (i e : Nat) : accepted w' i e = accepted w i e := by
  unfold accepted
  rw [h.1]
  cases hq : w'.pools[i]? with
  | none =>
    cases hp : w.pools[i]? with
    | none => rfl
    | some p => obtain ⟨p', hp', _⟩ := kview_fwd h i p hp; rw [hq] at hp'; cases hp'
  | some q =>
    obtain ⟨p, hp, hk⟩ := kview_back h i q hq
    simp only [kview, Prod.mk.injEq] at hk
    rw [hp]
    cases w.events[e]? <;> simp [hk.1]

theorem quiet_setPool (w : W) (i : Nat) (f : PoolSt → PoolSt) (hf : ∀ p, kview (f p) = kview p) : Quiet w (setPool w i f) := by
  refine ⟨rfl, rfl, ?_⟩
  apply List.ext_getElem?
  intro j
  simp only [List.getElem?_map, getElem?_setPool]
  split
  · cases w.pools[j]? <;> simp [hf]
  · rfl

theorem quiet_of_pools_eq {w w' : W} (h1 : w'.events = w.events) (h2 : w'.gserial = w.gserial) (h3 : w'.pools = w.pools) :
    Quiet w w' := ⟨h1, h2, by rw [h3]⟩

theorem insBuf_kview (e : Nat) (head : Bool) (p : PoolSt) : kview (insBuf e head p) = kview p := by
  obtain ⟨_, h2, h3, h4, _, _⟩ := insBuf_fields e head p
  have := insBuf_fixed e head p
  simp only [fixedPart, Prod.mk.injEq] at this
  simp [kview, h2, h3, h4, this.2.1]

theorem quiet_insertEv (i e : Nat) (head : Bool) (w : W) : Quiet w (insertEv i e head w) := by
  unfold insertEv
  split
  · exact Quiet.refl w
  · refine Quiet.trans (b := _) ?_ (quiet_setPool _ i _ (insBuf_kview e head))
    split
    · split <;> first | exact Quiet.refl w | exact quiet_of_pools_eq rfl rfl rfl
    · exact Quiet.refl w

/-! ### how the primitives move the counts -/

theorem inBuffer_of {w : W} {pi : Nat} {p : PoolSt} (hp : w.pools[pi]? = some p) (e : Nat) :
    inBuffer w pi e = p.buffer.count e := by simp [inBuffer, hp]
theorem heldBy_of {w : W} {pi : Nat} {p : PoolSt} (hp : w.pools[pi]? = some p) (e : Nat) :
    heldBy w pi e = p.procs.countP (fun l => l.event == some e) := by simp [heldBy, hp]
theorem inBuffer_congr {w w' : W} {pj : Nat} (h : w'.pools[pj]? = w.pools[pj]?) (e : Nat) :
    inBuffer w' pj e = inBuffer w pj e := by simp [inBuffer, h]
theorem heldBy_congr {w w' : W} {pj : Nat} (h : w'.pools[pj]? = w.pools[pj]?) (e : Nat) :
    heldBy w' pj e = heldBy w pj e := by simp [heldBy, h]

theorem okCount_append (h : Bytes → HRes) (pi e : Nat) (a b : List POut) :
    okCount h pi e (a ++ b) = okCount h pi e a + okCount h pi e b := by simp [okCount, List.countP_append]
theorem discardCount_append (pi e : Nat) (a b : List POut) :
    discardCount pi e (a ++ b) = discardCount pi e a + discardCount pi e b := by simp [discardCount, List.countP_append]

theorem okCount_discardOuts (h : Bytes → HRes) (pj x : Nat) (w : W) (i : Nat) (p : PoolSt) :
    okCount h pj x (discardOuts w i p) = 0 := by
  unfold discardOuts okCount
  split
  · split <;> simp [isOkP]
  · simp

theorem discardCount_discardOuts (pj x : Nat) (w : W) (i : Nat) (p : PoolSt) :
    discardCount pj x (discardOuts w i p) =
      if pj = i ∧ overflowed p = true then (p.buffer.take 1).count x else 0 := by
  unfold discardOuts discardCount
  by_cases hov : overflowed p = true
  · simp only [hov, if_true, and_true]
    cases hb : p.buffer with
    | nil => simp
    | cons d r =>
      by_cases hpj : pj = i
      · subst hpj; simp [isDiscP, List.count_cons]
      · have : (i == pj) = false := by simpa using fun hh => hpj hh.symm
        simp [isDiscP, hpj, this]
  · simp [hov]

theorem insBuf_count (e x : Nat) (head : Bool) (p : PoolSt) :
    (insBuf e head p).buffer.count x + (if overflowed p = true then (p.buffer.take 1).count x else 0) =
      p.buffer.count x + (if x = e then 1 else 0) := by
  rw [(insBuf_fields e head p).2.2.2.2.2]
  have hsplit : (p.buffer.take 1).count x + (p.buffer.drop 1).count x = p.buffer.count x := by
    rw [← List.count_append, List.take_append_drop]
  have hex : (if (e == x) = true then 1 else 0) = (if x = e then 1 else (0 : Nat)) := by
    by_cases hxe : x = e
    · subst hxe; simp
    · have : ¬ e = x := fun hh => hxe hh.symm
      simp [hxe, this]
  cases head <;> by_cases hov : overflowed p = true <;>
    simp only [hov, if_true, if_false, Bool.false_eq_true, List.count_append, List.count_cons, List.count_nil, hex] <;> omega

/-- the overflow rule and the insertion move one copy of `e` from "in transit" into the buffer and, on overflow,
    the oldest buffered event from the buffer to the discard log -/
theorem ledger_insertEv (h : Bytes → HRes) (i e : Nat) (head : Bool) (w : W) (p : PoolSt) (hp : w.pools[i]? = some p)
    (d : Nat → Nat) (hl : Ledger h w i (fun x => (if x = e then 1 else 0) + d x)) :
    Ledger h (insertEv i e head w) i d := by
  intro pj x
  obtain ⟨h1, h2, _, _, _⟩ := insertEv_spec i e head w p hp
  have hacc := (quiet_insertEv i e head w).acc_eq pj x
  have hw := hl pj x
  rw [hacc, h2, okCount_append, discardCount_append, okCount_discardOuts, discardCount_discardOuts]
  by_cases hpj : pj = i
  · subst hpj
    rw [inBuffer_of h1, heldBy_of h1, (insBuf_fields e head p).2.2.2.1]
    rw [inBuffer_of hp, heldBy_of hp] at hw
    have hc := insBuf_count e x head p
    simp only [if_true, true_and] at hw ⊢
    omega
  · rw [inBuffer_congr (insertEv_other i e head w pj hpj), heldBy_congr (insertEv_other i e head w pj hpj)]
    simp only [hpj, if_false, false_and] at hw ⊢
    omega

/-! ### `_acceptEvent` for an event the pool has not accepted yet -/

/-- `event.serial = new_serial(GlobalSerial)` -/
def serialStep (e : Nat) (w : W) : W :=
  { setEv w e (fun x => { x with serial := some (newSerial w.gserial) }) with gserial := newSerial w.gserial }

/-- `event.pool_serials[self.config.name] = new_serial(self)` -/
def stamp (i e : Nat) (p : PoolSt) (w : W) : W :=
  setPool (setEv w e (fun x => { x with poolSerials := x.poolSerials ++ [(p.name, newSerial p.serial)] })) i
    (fun q => { q with serial := newSerial q.serial })

theorem acceptEvent_new (i e : Nat) (head : Bool) (w : W) (p : PoolSt) (ev : Ev) (hp : w.pools[i]? = some p)
    (hev : w.events[e]? = some ev) (hl : ev.poolSerials.lookup p.name = none) :
    acceptEvent i e head w = insertEv i e head (stamp i e p (if ev.serial.isNone then serialStep e w else w)) := by
  -- this is where the counters `_acceptEvent` hands to `new_serial` (generated `acceptSer_c0_0`, `acceptSer_c1_0`) are
  -- unfolded: the event serial is drawn from `GlobalSerial`, the pool serial from the pool's own counter
  unfold acceptEvent stamp serialStep
  simp only [hp, hev, hl, Option.isSome_none, accept_g2, Bool.not_false, if_true, evSerial, poolSerial,
    acceptSer_c0_0, acceptSer_c1_0]

theorem getElem?_map_setEv {β : Type} (g : Ev → β) (w : W) (e k : Nat) (f : Ev → Ev) :
    ((setEv w e f).events.map g)[k]? = if e = k then (w.events[k]?).map (fun x => g (f x)) else (w.events.map g)[k]? := by
  rw [List.getElem?_map, getElem?_setEv]
  split
  · cases w.events[k]? <;> rfl
  · rw [List.getElem?_map]

theorem accepted_congr {w w' : W} {pj x : Nat} (hp : (w'.pools[pj]?).map (·.name) = (w.pools[pj]?).map (·.name))
    (he : (w'.events[x]?).map (·.poolSerials) = (w.events[x]?).map (·.poolSerials)) : accepted w' pj x = accepted w pj x := by
  unfold accepted
  cases h1 : w'.pools[pj]? <;> cases h2 : w.pools[pj]? <;> cases h3 : w'.events[x]? <;> cases h4 : w.events[x]? <;>
    simp_all

theorem ledger_same (h : Bytes → HRes) (w w' : W) (i : Nat) (d : Nat → Nat) (hp : w'.pools = w.pools) (ho : w'.outs = w.outs)
    (ha : ∀ pj x, accepted w' pj x = accepted w pj x) (hl : Ledger h w i d) : Ledger h w' i d := by
  intro pj x
  have := hl pj x
  rw [ha, ho, inBuffer_congr (w := w) (w' := w') (by rw [hp]), heldBy_congr (w := w) (w' := w') (by rw [hp])]
  exact this

theorem j_serialStep (h : Bytes → HRes) (w : W) (i e : Nat) (d : Nat → Nat) (ev : Ev) (hev : w.events[e]? = some ev)
    (hn : ev.serial = none) (hlast : e + 1 = w.events.length) (hj : J h w i d) : J h (serialStep e w) i d := by
  have hpools : (serialStep e w).pools = w.pools := rfl
  refine ⟨Static.of_shapes (by rw [hpools]) hj.st, fun j p l hp hl => hj.ls j p l hp hl, ⟨?_, ?_, ?_⟩, ?_, hj.rg.congr rfl⟩
  · refine chain_draw (sers w) _ w.gserial e hj.sv.g (by simp [sers, serialStep, setEv]) (by simpa [sers] using hlast)
      (by simp [sers, hev, hn]) ?_ ?_
    · show ((setEv w e _).events.map _)[e]? = _
      rw [getElem?_map_setEv]; simp [hev]
    · intro k hk
      show ((setEv w e _).events.map _)[k]? = _
      rw [getElem?_map_setEv, if_neg (Ne.symm hk)]; rfl
  · intro j q hq
    refine chain_eq _ _ _ _ (hj.sv.p j q hq) ?_ rfl
    apply List.ext_getElem?
    intro k
    show ((setEv w e _).events.map _)[k]? = _
    rw [getElem?_map_setEv]
    split
    · unfold pss; rw [List.getElem?_map]
    · rfl
  · intro k evk hk hnk
    have : (setEv w e (fun x => { x with serial := some (newSerial w.gserial) })).events[k]? = some evk := hk
    rw [getElem?_setEv] at this
    split at this
    · cases hw : w.events[k]? with
      | none => simp [hw] at this
      | some e0 => simp [hw] at this; subst this; simp at hnk
    · exact hj.sv.accSer k evk this hnk
  · refine ledger_same h w _ i d rfl rfl ?_ hj.led
    intro pj x
    refine accepted_congr (by rw [hpools]) ?_
    have : (serialStep e w).events[x]? = (setEv w e (fun x => { x with serial := some (newSerial w.gserial) })).events[x]? := rfl
    rw [this, getElem?_setEv]
    split
    · cases w.events[x]? <;> rfl
    · rfl

theorem lookup_snoc_none (l : List (String × Int)) (k : String) (v : Int) (h : l.lookup k = none) :
    (l ++ [(k, v)]).lookup k = some v := by
  induction l with
  | nil => simp [List.lookup]
  | cons a l ih =>
    obtain ⟨k', v'⟩ := a
    simp only [List.cons_append, List.lookup_cons] at h ⊢
    split
    · rename_i hk; simp [hk] at h
    · rename_i hk; simp only [hk] at h; exact ih h

theorem lookup_snoc_ne (l : List (String × Int)) (k k' : String) (v : Int) (h : k ≠ k') :
    (l ++ [(k', v)]).lookup k = l.lookup k := by
  induction l with
  | nil =>
    have : (k == k') = false := by simpa using h
    simp [List.lookup, this]
  | cons a l ih =>
    obtain ⟨k2, v2⟩ := a
    simp only [List.cons_append, List.lookup_cons]
    split
    · rfl
    · exact ih

theorem stamp_pools (i e : Nat) (p : PoolSt) (w : W) (j : Nat) :
    (stamp i e p w).pools[j]? =
      if i = j then (w.pools[j]?).map (fun q => { q with serial := newSerial q.serial }) else w.pools[j]? := by
  unfold stamp
  rw [getElem?_setPool]; rfl

theorem inBuffer_setPool (w : W) (i : Nat) (f : PoolSt → PoolSt) (hf : ∀ q, (f q).buffer = q.buffer) (pj x : Nat) :
    inBuffer (setPool w i f) pj x = inBuffer w pj x := by
  unfold inBuffer
  rw [getElem?_setPool]
  split
  · cases w.pools[pj]? <;> simp [hf]
  · rfl

theorem heldBy_setPool (w : W) (i : Nat) (f : PoolSt → PoolSt) (hf : ∀ q, (f q).procs = q.procs) (pj x : Nat) :
    heldBy (setPool w i f) pj x = heldBy w pj x := by
  unfold heldBy
  rw [getElem?_setPool]
  split
  · cases w.pools[pj]? <;> simp [hf]
  · rfl

theorem j_stamp (h : Bytes → HRes) (w : W) (i e : Nat) (d : Nat → Nat) (p : PoolSt) (ev : Ev) (hp : w.pools[i]? = some p)
    (hev : w.events[e]? = some ev) (hs : ev.serial.isSome = true) (hl : ev.poolSerials.lookup p.name = none)
    (hlast : e + 1 = w.events.length) (hj : J h w i d) :
    J h (stamp i e p w) i (fun x => (if x = e then 1 else 0) + d x) := by
  have hevs : ∀ {β : Type} (g : Ev → β) (k : Nat), ((stamp i e p w).events.map g)[k]? =
      if e = k then (w.events[k]?).map (fun x => g { x with poolSerials := x.poolSerials ++ [(p.name, newSerial p.serial)] })
      else (w.events.map g)[k]? := by
    intro β g k
    exact getElem?_map_setEv g w e k _
  have hshape : (stamp i e p w).pools.map shape = w.pools.map shape := by
    apply List.ext_getElem?
    intro j
    simp only [List.getElem?_map, stamp_pools]
    split
    · cases w.pools[j]? <;> rfl
    · rfl
  refine ⟨Static.of_shapes hshape hj.st, ?_, ⟨?_, ?_, ?_⟩, ?_, hj.rg.congr (rview_setSerial _ i _)⟩
  · intro j q l hq hl'
    rw [stamp_pools] at hq
    split at hq
    · cases hw : w.pools[j]? with
      | none => simp [hw] at hq
      | some q0 => simp [hw] at hq; subst hq; exact hj.ls j q0 l hw hl'
    · exact hj.ls j q l hq hl'
  · refine chain_eq _ _ _ _ hj.sv.g ?_ rfl
    apply List.ext_getElem?
    intro k
    unfold sers
    rw [hevs]
    split
    · rw [List.getElem?_map]
    · rfl
  · intro j q hq
    rw [stamp_pools] at hq
    by_cases hij : i = j
    · subst hij
      simp only [if_true, hp, Option.map_some, Option.some.injEq] at hq
      subst hq
      refine chain_draw (pss p.name w) _ p.serial e (hj.sv.p i p hp) (by simp [pss, stamp, setEv])
        (by simpa [pss] using hlast) (by simp [pss, hev, hl]) ?_ ?_
      · unfold pss; rw [hevs]; simp [hev, lookup_snoc_none _ _ _ hl]
      · intro k hk
        unfold pss; rw [hevs, if_neg (Ne.symm hk)]
    · simp only [hij, if_false] at hq
      have hne : q.name ≠ p.name := fun hh => hij (hj.st.names j i q p hq hp hh).symm
      refine chain_eq _ _ _ _ (hj.sv.p j q hq) ?_ rfl
      apply List.ext_getElem?
      intro k
      unfold pss
      rw [hevs]
      split
      · rw [List.getElem?_map]
        cases w.events[k]? <;> simp [lookup_snoc_ne _ _ _ _ hne]
      · rfl
  · intro k evk hk hnk
    have h2 : (stamp i e p w).events[k]? = if e = k then
        (w.events[k]?).map (fun x => { x with poolSerials := x.poolSerials ++ [(p.name, newSerial p.serial)] })
        else w.events[k]? := getElem?_setEv w e k _
    rw [hk] at h2
    split at h2
    · rename_i hek
      subst hek
      simp [hev] at h2
      subst h2
      simp only [] at hnk
      rw [hnk] at hs; cases hs
    · exact hj.sv.accSer k evk h2.symm hnk
  · intro pj x
    have hw := hj.led pj x
    have hb : inBuffer (stamp i e p w) pj x = inBuffer w pj x := by
      exact (inBuffer_setPool _ i (fun q => { q with serial := newSerial q.serial }) (fun q => rfl) pj x).trans
        (inBuffer_congr rfl x)
    have hh : heldBy (stamp i e p w) pj x = heldBy w pj x := by
      exact (heldBy_setPool _ i (fun q => { q with serial := newSerial q.serial }) (fun q => rfl) pj x).trans
        (heldBy_congr rfl x)
    have ho : (stamp i e p w).outs = w.outs := rfl
    have hacc : (accepted (stamp i e p w) pj x).toNat = (accepted w pj x).toNat + (if pj = i ∧ x = e then 1 else 0) := by
      have hname : ((stamp i e p w).pools[pj]?).map (·.name) = (w.pools[pj]?).map (·.name) := by
        rw [stamp_pools]; split
        · cases w.pools[pj]? <;> rfl
        · rfl
      by_cases hx : x = e
      · subst hx
        have hevx : (stamp i x p w).events[x]? = some { ev with poolSerials := ev.poolSerials ++ [(p.name, newSerial p.serial)] } := by
          have : (stamp i x p w).events[x]? = _ := getElem?_setEv w x x _
          simpa [hev] using this
        by_cases hpj : pj = i
        · subst hpj
          have h1 : accepted (stamp pj x p w) pj x = true := by
            unfold accepted
            rw [stamp_pools, hevx]; simp [hp, lookup_snoc_none _ _ _ hl]
          have h2 : accepted w pj x = false := by
            unfold accepted; simp [hp, hev, hl]
          simp [h1, h2]
        · have : accepted (stamp i x p w) pj x = accepted w pj x := by
            unfold accepted
            rw [stamp_pools, if_neg (Ne.symm hpj), hevx, hev]
            cases hq : w.pools[pj]? with
            | none => rfl
            | some q =>
              have hne : q.name ≠ p.name := fun hh => hpj (hj.st.names pj i q p hq hp hh)
              simp [lookup_snoc_ne _ _ _ _ hne]
          simp [this, hpj]
      · have : accepted (stamp i e p w) pj x = accepted w pj x := by
          refine accepted_congr hname ?_
          have := hevs (fun y => y.poolSerials) x
          rw [if_neg (fun hh => hx hh.symm)] at this
          simpa [List.getElem?_map] using this
        simp [this, hx]
    rw [hb, hh, ho, hacc]
    by_cases hpj : pj = i
    · simp only [hpj, if_true, true_and] at hw ⊢; omega
    · simp only [hpj, if_false, false_and] at hw ⊢; omega

theorem LAll.of_fixed {w w' : W} (h : ∀ j : Nat, (w'.pools[j]?).map fixedPart = (w.pools[j]?).map fixedPart) (hl : LAll w) :
    LAll w' := by
  intro j q l hq hm
  have := h j
  rw [hq] at this
  cases hw : w.pools[j]? with
  | none => simp [hw] at this
  | some q0 =>
    simp only [hw, Option.map_some, Option.some.injEq, fixedPart, Prod.mk.injEq] at this
    exact hl j q0 l hw (by rw [← this.1]; exact hm)

theorem j_insertEv (h : Bytes → HRes) (i e : Nat) (head : Bool) (w : W) (p : PoolSt) (hp : w.pools[i]? = some p)
    (d : Nat → Nat) (hj : J h w i (fun x => (if x = e then 1 else 0) + d x)) : J h (insertEv i e head w) i d :=
  ⟨Static.of_shapes (quiet_insertEv i e head w).shapes hj.st, LAll.of_fixed (insertEv_fixed i e head w) hj.ls,
   (quiet_insertEv i e head w).sinv hj.sv, ledger_insertEv h i e head w p hp d hj.led, hj.rg.congr (rview_insertEv i e head w)⟩

theorem j_accept_new (h : Bytes → HRes) (i e : Nat) (head : Bool) (w : W) (p : PoolSt) (ev : Ev) (d : Nat → Nat)
    (hp : w.pools[i]? = some p) (hev : w.events[e]? = some ev) (hl : ev.poolSerials.lookup p.name = none)
    (hlast : e + 1 = w.events.length) (hj : J h w i d) : J h (acceptEvent i e head w) i d := by
  rw [acceptEvent_new i e head w p ev hp hev hl]
  have hbump : ∀ w1 : W, w1.pools[i]? = some p → (stamp i e p w1).pools[i]? = some { p with serial := newSerial p.serial } := by
    intro w1 h1; rw [stamp_pools]; simp [h1]
  cases hs : ev.serial with
  | none =>
    simp only [Option.isNone_none, if_true]
    have h1 := j_serialStep h w i e d ev hev hs hlast hj
    have hev1 : (serialStep e w).events[e]? = some { ev with serial := some (newSerial w.gserial) } := by
      have : (serialStep e w).events[e]? = _ := getElem?_setEv w e e _
      simpa [hev] using this
    have h2 := j_stamp h (serialStep e w) i e d p _ hp hev1 rfl hl (by simpa [serialStep, setEv] using hlast) h1
    exact j_insertEv h i e head _ _ (hbump (serialStep e w) hp) d h2
  | some sv =>
    simp only [Option.isNone_some, Bool.false_eq_true, if_false]
    have h2 := j_stamp h w i e d p ev hp hev (by simp [hs]) hl hlast hj
    exact j_insertEv h i e head _ _ (hbump _ hp) d h2

theorem acc_of_accepted {w : W} (hs : SInv w) (i e : Nat) (h : accepted w i e = true) : Acc w i e := by
  unfold accepted at h
  cases hp : w.pools[i]? with
  | none => simp [hp] at h
  | some p =>
    cases hev : w.events[e]? with
    | none => simp [hp, hev] at h
    | some ev =>
      simp only [hp, hev] at h
      refine ⟨p, ev, hp, hev, h, ?_⟩
      cases hser : ev.serial with
      | none => rw [hs.accSer e ev hev hser] at h; simp at h
      | some _ => rfl

theorem ledger_zero (h : Bytes → HRes) (w : W) (i k : Nat) (hl : Ledger h w i (fun _ => 0)) : Ledger h w k (fun _ => 0) := by
  intro pj x
  have := hl pj x
  simpa using this

/-- `notify`'s call of `_acceptEvent` for the event being emitted -/
theorem j_accept_false (h : Bytes → HRes) (i e k : Nat) (w : W) (hlast : e + 1 = w.events.length)
    (hj : J h w k (fun _ => 0)) : J h (acceptEvent i e false w) k (fun _ => 0) := by
  cases hp : w.pools[i]? with
  | none => rw [acceptEvent_skip_id i e w (Or.inr (Or.inl hp))]; exact hj
  | some p =>
    cases hev : w.events[e]? with
    | none => rw [acceptEvent_skip_id i e w (Or.inr (Or.inr hev))]; exact hj
    | some ev =>
      cases hl : ev.poolSerials.lookup p.name with
      | some v =>
        have hacc : accepted w i e = true := by simp [accepted, hp, hev, hl]
        rw [acceptEvent_skip_id i e w (Or.inl (acc_of_accepted hj.sv i e hacc))]; exact hj
      | none =>
        have h1 := j_accept_new h i e false w p ev (fun _ => 0) hp hev hl hlast
          ⟨hj.st, hj.ls, hj.sv, ledger_zero h w k i hj.led, hj.rg⟩
        exact ⟨h1.st, h1.ls, h1.sv, ledger_zero h _ i k h1.led, h1.rg⟩

/-- `_acceptEvent(event, head=True)` for an event of this pool that is in transit (popped from the buffer, or
    given back by a listener): it goes to the head of the buffer, nothing else changes -/
theorem j_rebuffer (h : Bytes → HRes) (i e : Nat) (w : W) (d : Nat → Nat)
    (hj : J h w i (fun x => (if x = e then 1 else 0) + d x)) : J h (acceptEvent i e true w) i d := by
  have hacc : accepted w i e = true := by
    have := hj.led i e
    simp only [if_true] at this
    cases ha : accepted w i e
    · rw [ha] at this; simp at this
    · rfl
  have hA := acc_of_accepted hj.sv i e hacc
  rw [rebuffer_eq_insertEv i e w hA]
  obtain ⟨p, _, hp, _⟩ := hA
  exact j_insertEv h i e true w p hp d hj

/-- ... and it touches neither the event records nor the counters: in particular it accepts nothing -/
theorem q_rebuffer (h : Bytes → HRes) (i e : Nat) (w : W) (d : Nat → Nat)
    (hj : J h w i (fun x => (if x = e then 1 else 0) + d x)) : Quiet w (acceptEvent i e true w) := by
  have hacc : accepted w i e = true := by
    have := hj.led i e
    simp only [if_true] at this
    cases ha : accepted w i e
    · rw [ha] at this; simp at this
    · rfl
  rw [rebuffer_eq_insertEv i e w (acc_of_accepted hj.sv i e hacc)]
  exact quiet_insertEv i e true w

/-! ### `notify` -/

theorem j_newEvent (h : Bytes → HRes) (w : W) (k : Nat) (d : Nat → Nat) (c : Cls) (payload : Bytes) (hj : J h w k d) :
    J h { w with events := w.events ++ [{ cls := c, payload := payload }] } k d := by
  refine ⟨Static.of_shapes (w := w) rfl hj.st, fun j p l hp hl => hj.ls j p l hp hl, ⟨?_, ?_, ?_⟩, ?_, hj.rg.congr rfl⟩
  · have := chain_snoc _ _ hj.sv.g
    simpa [sers] using this
  · intro j q hq
    have := chain_snoc _ _ (hj.sv.p j q hq)
    simpa [pss, List.lookup] using this
  · intro e ev hev hn
    by_cases he : e < w.events.length
    · rw [List.getElem?_append_left he] at hev
      exact hj.sv.accSer e ev hev hn
    · by_cases he2 : e = w.events.length
      · subst he2; simp at hev; subst hev; rfl
      · rw [List.getElem?_eq_none (by simp; omega)] at hev; cases hev
  · refine ledger_same h w _ k d rfl rfl ?_ hj.led
    intro pj x
    by_cases he : x < w.events.length
    · exact accepted_congr rfl (by rw [List.getElem?_append_left he])
    · have h1 : w.events[x]? = none := List.getElem?_eq_none (by omega)
      unfold accepted
      rw [h1]
      by_cases he2 : x = w.events.length
      · subst he2
        cases w.pools[pj]? <;> simp [List.lookup]
      · have h2 : (w.events ++ [({ cls := c, payload := payload } : Ev)])[x]? = none :=
          List.getElem?_eq_none (by simp; omega)
        show (match w.pools[pj]?, (w.events ++ [({ cls := c, payload := payload } : Ev)])[x]? with
          | some p, some ev => (ev.poolSerials.lookup p.name).isSome
          | _, _ => false) = _
        rw [h2]

theorem j_offer (h : Bytes → HRes) (e k : Nat) : ∀ (l : List Nat) (w : W), e + 1 = w.events.length → J h w k (fun _ => 0) →
    J h (l.foldl (fun acc i => acceptEvent i e false acc) w) k (fun _ => 0)
  | [], w, _, hj => hj
  | i :: l, w, hlast, hj => by
    simp only [List.foldl_cons]
    exact j_offer h e k l _ (by rw [(evsLe_acceptEvent i e false w).1]; exact hlast) (j_accept_false h i e k w hlast hj)

theorem j_notify (h : Bytes → HRes) (c : Cls) (payload : Bytes) (w : W) (k : Nat) (hj : J h w k (fun _ => 0)) :
    J h (notify c payload w) k (fun _ => 0) := by
  unfold notify
  split
  · exact hj
  · exact j_offer h _ k _ _ (by simp) (j_newEvent h w k _ c payload hj)

/-! ### listener-level operations -/

theorem J.congr_d {h : Bytes → HRes} {w : W} {pi : Nat} {d d' : Nat → Nat} (hd : ∀ x, d x = d' x) (hj : J h w pi d) :
    J h w pi d' :=
  ⟨hj.st, hj.ls, hj.sv, fun pj x => by rw [← hd x]; exact hj.led pj x, hj.rg⟩

theorem quiet_outs (w : W) (l : List POut) : Quiet w { w with outs := l } := ⟨rfl, rfl, rfl⟩
theorem quiet_err (w : W) (e : Option Listener.Err) : Quiet w { w with err := e } := ⟨rfl, rfl, rfl⟩

theorem j_err (h : Bytes → HRes) (w : W) (pi : Nat) (d : Nat → Nat) (e : Option Listener.Err) (hj : J h w pi d) :
    J h { w with err := e } pi d :=
  ⟨Static.of_shapes (w := w) rfl hj.st, fun j p l hp hl => hj.ls j p l hp hl,
   (quiet_err w e).sinv hj.sv, ledger_same h w _ pi d rfl rfl (fun _ _ => accepted_congr rfl rfl) hj.led, hj.rg.congr rfl⟩

/-- one trace entry of a listener of pool `pi` is recorded: an accepted answer takes its event out of transit -/
theorem j_out (h : Bytes → HRes) (w : W) (pi li : Nat) (o : Listener.Out) (d d' : Nat → Nat)
    (hd : ∀ x, d' x + (if isOkOut h x o = true then 1 else 0) = d x) (hj : J h w pi d) :
    J h { w with outs := w.outs ++ [.lis pi li o] } pi d' := by
  refine ⟨Static.of_shapes (w := w) rfl hj.st, fun j p l hp hl => hj.ls j p l hp hl,
   (quiet_outs w _).sinv hj.sv, ?_, hj.rg.congr rfl⟩
  intro pj x
  have hw := hj.led pj x
  have ha : accepted { w with outs := w.outs ++ [.lis pi li o] } pj x = accepted w pj x := accepted_congr rfl rfl
  have hb : inBuffer { w with outs := w.outs ++ [.lis pi li o] } pj x = inBuffer w pj x := inBuffer_congr rfl x
  have hh : heldBy { w with outs := w.outs ++ [.lis pi li o] } pj x = heldBy w pj x := heldBy_congr rfl x
  rw [ha, hb, hh]
  show _ + okCount h pj x (w.outs ++ [.lis pi li o]) + discardCount pj x (w.outs ++ [.lis pi li o]) + _ = _
  rw [okCount_append, discardCount_append]
  have h1 : discardCount pj x [POut.lis pi li o] = 0 := by simp [discardCount, isDiscP]
  have h2 : okCount h pj x [POut.lis pi li o] = if pj = pi ∧ isOkOut h x o = true then 1 else 0 := by
    by_cases hpj : pj = pi
    · subst hpj; simp [okCount, isOkP]
    · have : (pi == pj) = false := by simpa using fun hh => hpj hh.symm
      simp [okCount, isOkP, hpj, this]
  rw [h1, h2]
  have := hd x
  by_cases hpj : pj = pi
  · simp only [hpj, if_true, true_and] at hw ⊢
    split at this <;> simp_all <;> omega
  · simp only [hpj, if_false, false_and] at hw ⊢
    omega

theorem okL_cons (h : Bytes → HRes) (x : Nat) (o : Listener.Out) (os : List Listener.Out) :
    okL h x (o :: os) = okL h x os + (if isOkOut h x o = true then 1 else 0) := by
  simp [okL, List.countP_cons]
theorem rejL_cons (x : Nat) (o : Listener.Out) (os : List Listener.Out) :
    rejL x (o :: os) = rejL x os + (if isRejOut x o = true then 1 else 0) := by
  simp [rejL, List.countP_cons]

/-- the outputs of a listener operation are folded into the world: every accepted answer and every rejection
    takes its event out of transit -- the first for good, the second back to the head of the pool's buffer -/
theorem j_absorb (h : Bytes → HRes) (pi li : Nat) : ∀ (os : List Listener.Out) (w : W),
    (∃ p, w.pools[pi]? = some p ∧ li < p.procs.length) → pi ∈ rejecters w.reg →
    J h w pi (fun x => okL h x os + rejL x os) → J h (absorb pi li os w) pi (fun _ => 0) ∧ Quiet w (absorb pi li os w)
  | [], w, _, _, hj => by
    have : absorb pi li [] w = w := rfl
    rw [this]
    exact ⟨J.congr_d (by intro x; simp [okL, rejL]) hj, Quiet.refl w⟩
  | o :: os, w, hpl, hsub, hj => by
    obtain ⟨p, hp, hli⟩ := hpl
    -- the entry is recorded
    have h1 : J h { w with outs := w.outs ++ [.lis pi li o] } pi (fun x => okL h x os + rejL x (o :: os)) :=
      j_out h w pi li o _ _ (by intro x; rw [okL_cons]; omega) hj
    have hstep : absorb pi li (o :: os) w = absorb pi li os
        (match o with
         | .rejected (some e) => rejected (whoOf w pi li) e { w with outs := w.outs ++ [.lis pi li o] }
         | _ => { w with outs := w.outs ++ [.lis pi li o] }) := by
      cases o <;> first | rfl | (rename_i x; cases x <;> rfl)
    rw [hstep]
    have hkeep : ∀ w' : W, Quiet { w with outs := w.outs ++ [.lis pi li o] } w' → ∃ p', w'.pools[pi]? = some p' ∧ li < p'.procs.length := by
      intro w' hq
      obtain ⟨p', hp', hk⟩ := kview_fwd hq pi p hp
      simp only [kview, Prod.mk.injEq] at hk
      exact ⟨p', hp', by rw [hk.2.2.2]; exact hli⟩
    have hq1 : Quiet w { w with outs := w.outs ++ [.lis pi li o] } := quiet_outs w _
    have hplain : (∀ x, isRejOut x o = false) → J h (absorb pi li os { w with outs := w.outs ++ [.lis pi li o] }) pi (fun _ => 0) ∧
        Quiet w (absorb pi li os { w with outs := w.outs ++ [.lis pi li o] }) := by
      intro hr
      obtain ⟨a, b⟩ := j_absorb h pi li os _ (hkeep _ (Quiet.refl _)) hsub (J.congr_d (by intro x; rw [rejL_cons, hr x]; simp) h1)
      exact ⟨a, Quiet.trans hq1 b⟩
    cases o with
    | rejected ev =>
      cases ev with
      | none => exact hplain (fun x => rfl)
      | some e =>
        simp only []
        obtain ⟨ho1, ho2⟩ := hj.st.owner pi li p hp hli
        have hrej : rejected (whoOf w pi li) e { w with outs := w.outs ++ [.lis pi li (.rejected (some e))] } =
            acceptEvent pi e true { w with outs := w.outs ++ [.lis pi li (.rejected (some e))] } :=
          rejected_eq _ pi e _ p hp hj.rg.rejecters_nodup hsub ho1 ho2
        rw [hrej]
        have h1' : J h { w with outs := w.outs ++ [.lis pi li (.rejected (some e))] } pi
            (fun x => (if x = e then 1 else 0) + (okL h x os + rejL x os)) :=
          J.congr_d (by
            intro x
            rw [rejL_cons]
            by_cases hx : x = e
            · subst hx; simp [isRejOut]; omega
            · have : (e == x) = false := by simpa using fun hh => hx hh.symm
              simp [isRejOut, hx, this]) h1
        have h2 := j_rebuffer h pi e _ (fun x => okL h x os + rejL x os) h1'
        have hq2 := q_rebuffer h pi e _ (fun x => okL h x os + rejL x os) h1'
        suffices hs : ∃ p', (acceptEvent pi e true { w with outs := w.outs ++ [.lis pi li (.rejected (some e))] }).pools[pi]? = some p' ∧
            li < p'.procs.length by
          obtain ⟨a, b⟩ := j_absorb h pi li os _ hs
            (by rw [reg_of_rview (rview_acceptEvent pi e true _)]; exact hsub) h2
          exact ⟨a, Quiet.trans hq1 (Quiet.trans hq2 b)⟩
        have hA : Acc { w with outs := w.outs ++ [.lis pi li (.rejected (some e))] } pi e := by
          refine acc_of_accepted h1.sv pi e ?_
          have := h1.led pi e
          simp only [if_true, rejL_cons, isRejOut, beq_self_eq_true] at this
          cases ha : accepted { w with outs := w.outs ++ [.lis pi li (.rejected (some e))] } pi e
          · rw [ha] at this; simp at this
          · rfl
        rw [rebuffer_eq_insertEv pi e _ hA]
        exact hkeep _ (quiet_insertEv pi e true _)
    | handler ev r => exact hplain (fun x => rfl)
    | lstate a b => exact hplain (fun x => rfl)
    | wrote b => exact hplain (fun x => rfl)
    | sent ev => exact hplain (fun x => rfl)
    | inClosed => exact hplain (fun x => rfl)
    | outClosed => exact hplain (fun x => rfl)

theorem heldL_eq (l : Lst) (x : Nat) : heldL l x = if (l.event == some x) = true then 1 else 0 := by
  unfold heldL
  by_cases hx : l.event = some x <;> simp [hx]

/-- a listener of pool `pi` is replaced by its new state -/
theorem j_setProc (h : Bytes → HRes) (w : W) (pi li : Nat) (p : PoolSt) (l l' : Lst) (d d' : Nat → Nat)
    (hp : w.pools[pi]? = some p) (hl : p.procs[li]? = some l) (hok : LOK l')
    (hc : ∀ x, heldL l' x + d' x = heldL l x + d x) (hj : J h w pi d) :
    J h (setPool w pi (fun q => { q with procs := q.procs.set li l' })) pi d' := by
  have hq : Quiet w (setPool w pi (fun q => { q with procs := q.procs.set li l' })) :=
    quiet_setPool w pi _ (fun q => by simp [kview])
  refine ⟨Static.of_shapes hq.shapes hj.st, ?_, hq.sinv hj.sv, ?_, hj.rg.congr (rview_setPool w pi _ (fun q => rfl))⟩
  · intro j q m hqj hm
    rw [getElem?_setPool] at hqj
    split at hqj
    · cases hw : w.pools[j]? with
      | none => simp [hw] at hqj
      | some q0 =>
        simp [hw] at hqj; subst hqj
        rcases List.mem_or_eq_of_mem_set hm with hm | hm
        · exact hj.ls j q0 m hw hm
        · rw [hm]; exact hok
    · exact hj.ls j q m hqj hm
  · intro pj x
    have hw := hj.led pj x
    rw [hq.acc_eq, inBuffer_setPool w pi (fun q => { q with procs := q.procs.set li l' }) (fun q => rfl)]
    show _ + _ + okCount h pj x w.outs + discardCount pj x w.outs + _ = _
    by_cases hpj : pj = pi
    · subst hpj
      have hli : li < p.procs.length := (List.getElem?_eq_some_iff.mp hl).1
      have hget : p.procs[li] = l := (List.getElem?_eq_some_iff.mp hl).2
      have hnew : (setPool w pj (fun q => { q with procs := q.procs.set li l' })).pools[pj]? =
          some { p with procs := p.procs.set li l' } := by rw [getElem?_setPool]; simp [hp]
      rw [heldBy_of hnew]
      rw [heldBy_of hp] at hw
      simp only []
      rw [List.countP_set hli, hget]
      have hge : (if (l.event == some x) = true then 1 else 0) ≤ p.procs.countP (fun m => m.event == some x) := by
        split
        · rename_i hpred
          exact List.countP_pos_iff.mpr ⟨l, List.mem_of_getElem? hl, hpred⟩
        · omega
      have := hc x
      rw [heldL_eq l x, heldL_eq l' x] at this
      simp only [if_true] at hw ⊢
      omega
    · have : heldBy (setPool w pi (fun q => { q with procs := q.procs.set li l' })) pj x = heldBy w pj x :=
        heldBy_congr (by rw [getElem?_setPool, if_neg (fun hh => hpj hh.symm)]) x
      rw [this]
      simp only [hpj, if_false] at hw ⊢
      exact hw

/-- any listener-level operation that hands nothing over (`LT`): output arriving, stdin writable, a pipe fault,
    a process state change, the death of the listener, a respawn -/
theorem j_onListener (h : Bytes → HRes) (pi li : Nat) (f : Listener.S → Listener.S) (w : W) (k : Nat)
    (hf : ∀ l, LOK l → LT h { p := l } (f { p := l }) ∧ LOK (f { p := l }).p)
    (hj : J h w k (fun _ => 0)) : J h (onListener pi li f w) k (fun _ => 0) ∧ Quiet w (onListener pi li f w) := by
  unfold onListener
  split
  · exact ⟨hj, Quiet.refl w⟩
  · split
    · exact ⟨hj, Quiet.refl w⟩
    · rename_i p hp
      split
      · exact ⟨hj, Quiet.refl w⟩
      · rename_i hact
        have hsub : pi ∈ rejecters w.reg :=
          (hj.rg.mem_rejecters pi).mpr ⟨p, hp, by cases ha : p.active <;> simp_all⟩
        split
        · exact ⟨hj, Quiet.refl w⟩
        · rename_i l hl
          have hmem : l ∈ p.procs := List.mem_of_getElem? hl
          obtain ⟨⟨lo, ho, hns, hcons⟩, hok⟩ := hf l (hj.ls pi p l hp hmem)
          simp only [List.nil_append] at ho
          subst ho
          have hj0 : J h w pi (fun _ => 0) := ⟨hj.st, hj.ls, hj.sv, ledger_zero h w k pi hj.led, hj.rg⟩
          have h1 := j_setProc h w pi li p l (f { p := l }).p (fun _ => 0)
            (fun x => okL h x (f { p := l }).outs + rejL x (f { p := l }).outs) hp hl hok
            (by intro x
                have : heldL (f { p := l }).p x + okL h x (f { p := l }).outs + rejL x (f { p := l }).outs = heldL l x := hcons x
                omega) hj0
          have hli : li < p.procs.length := (List.getElem?_eq_some_iff.mp hl).1
          have h2 := j_absorb h pi li (f { p := l }).outs
            (setPool w pi (fun q => { q with procs := q.procs.set li (f { p := l }).p }))
            ⟨{ p with procs := p.procs.set li (f { p := l }).p },
            by rw [getElem?_setPool]; simp [hp], by simpa using hli⟩ hsub h1
          have h3 := j_err h _ pi (fun _ => 0) (f { p := l }).err h2.1
          have hq0 : Quiet w (setPool w pi (fun q => { q with procs := q.procs.set li (f { p := l }).p })) :=
            quiet_setPool w pi _ (fun q => by simp [kview])
          exact ⟨⟨h3.st, h3.ls, h3.sv, ledger_zero h _ pi k h3.led, h3.rg⟩, Quiet.trans hq0 (Quiet.trans h2.2 (quiet_err _ _))⟩

/-! ### `dispatch` -/

/-- trace entries that are neither handler calls nor rejections are recorded: nothing moves -/
theorem j_outs_plain (h : Bytes → HRes) (w : W) (pi li k : Nat) (os : List Listener.Out) (d : Nat → Nat)
    (hc : ∀ o ∈ os, clears o = false) (hj : J h w k d) :
    J h { w with outs := w.outs ++ os.map (POut.lis pi li) } k d := by
  refine ⟨Static.of_shapes (w := w) rfl hj.st, fun j p l hp hl => hj.ls j p l hp hl, (quiet_outs w _).sinv hj.sv, ?_, hj.rg.congr rfl⟩
  intro pj x
  have hw := hj.led pj x
  have ha : accepted { w with outs := w.outs ++ os.map (POut.lis pi li) } pj x = accepted w pj x := accepted_congr rfl rfl
  have hb : inBuffer { w with outs := w.outs ++ os.map (POut.lis pi li) } pj x = inBuffer w pj x := inBuffer_congr rfl x
  have hh : heldBy { w with outs := w.outs ++ os.map (POut.lis pi li) } pj x = heldBy w pj x := heldBy_congr rfl x
  rw [ha, hb, hh]
  show _ + okCount h pj x (w.outs ++ os.map (POut.lis pi li)) + discardCount pj x (w.outs ++ os.map (POut.lis pi li)) + _ = _
  rw [okCount_append, discardCount_append]
  have h1 : discardCount pj x (os.map (POut.lis pi li)) = 0 := by
    simp only [discardCount, List.countP_eq_zero]
    intro a ha; simp at ha; obtain ⟨o, _, rfl⟩ := ha; simp [isDiscP]
  have h2 : okCount h pj x (os.map (POut.lis pi li)) = 0 := by
    simp only [okCount, List.countP_eq_zero]
    intro a ha; simp at ha; obtain ⟨o, ho, rfl⟩ := ha
    have := hc o ho
    cases o <;> simp_all [isOkP, isOkOut, clears]
  rw [h1, h2]; omega

theorem j_go (h : Bytes → HRes) (pi e : Nat) (env : Bytes) : ∀ (fuel li : Nat) (w : W), w.err = none →
    J h w pi (fun x => if x = e then 1 else 0) →
    (dispatchEvent.go pi e env fuel li w).1.err = none ∧
    ((dispatchEvent.go pi e env fuel li w).2 = true → J h (dispatchEvent.go pi e env fuel li w).1 pi (fun _ => 0)) ∧
    ((dispatchEvent.go pi e env fuel li w).2 = false →
      J h (dispatchEvent.go pi e env fuel li w).1 pi (fun x => if x = e then 1 else 0)) ∧
    Quiet w (dispatchEvent.go pi e env fuel li w).1
  | 0, li, w, he, hj => ⟨he, (by intro hh; simp [dispatchEvent.go] at hh), fun _ => hj, Quiet.refl w⟩
  | fuel + 1, li, w, he, hj => by
    unfold dispatchEvent.go
    split
    · exact ⟨he, (by intro hh; simp at hh), fun _ => hj, Quiet.refl w⟩
    · rename_i l hbind
      have hqs : Quiet w { (setPool w pi (fun p => { p with procs := p.procs.set li (trySend e env { p := l }).1.p })) with
          outs := (setPool w pi (fun p => { p with procs := p.procs.set li (trySend e env { p := l }).1.p })).outs ++
            (trySend e env { p := l }).1.outs.map (POut.lis pi li) } :=
        Quiet.trans (quiet_setPool w pi _ (fun q => by simp [kview])) (quiet_outs _ _)
      obtain ⟨p, hp, hl⟩ : ∃ p, w.pools[pi]? = some p ∧ p.procs[li]? = some l := by
        cases hp : w.pools[pi]? with
        | none => simp [hp] at hbind
        | some p => simp [hp] at hbind; exact ⟨p, rfl, hbind⟩
      obtain ⟨herr, tl, houts, hcl, hsent⟩ := trySend_trace e env { p := l } rfl
      simp only [List.nil_append] at houts
      have hab := absorb_plain pi li (trySend e env { p := l }).1.outs
        (setPool w pi (fun p => { p with procs := p.procs.set li (trySend e env { p := l }).1.p })) (by rw [houts]; exact hcl)
      simp only [hab, herr, Option.isSome_none, Bool.false_eq_true, if_false]
      obtain ⟨hok, hheld⟩ := trySend_held e env l (hj.ls pi p l hp (List.mem_of_getElem? hl))
      have hplain : ∀ o ∈ (trySend e env { p := l }).1.outs, clears o = false := by rw [houts]; exact hcl
      rcases hheld with ⟨hs, hnone, hsome⟩ | ⟨hs, hsame⟩
      · -- handed over
        rw [hs]
        simp only []
        have h1 := j_setProc h w pi li p l (trySend e env { p := l }).1.p _ (fun _ => 0) hp hl hok
          (by intro x
              by_cases hx : x = e
              · subst hx; simp [heldL, hnone, hsome]
              · have : ¬ e = x := fun hh => hx hh.symm
                simp [heldL, hnone, hsome, hx, this]) hj
        have h2 := j_outs_plain h _ pi li pi _ _ hplain h1
        exact ⟨he, fun _ => h2, (by intro hh; cases hh), hqs⟩
      · have h1 := j_setProc h w pi li p l (trySend e env { p := l }).1.p _ (fun x => if x = e then 1 else 0) hp hl hok
          (by intro x; simp [heldL, hsame]) hj
        have h2 := j_outs_plain h _ pi li pi _ _ hplain h1
        cases hr : (trySend e env { p := l }).2 with
        | sent => exact absurd hr hs
        | skipped =>
          simp only []
          obtain ⟨a, b, c, d⟩ := j_go h pi e env fuel (li + 1) _ (by exact he) h2
          exact ⟨a, b, c, Quiet.trans hqs d⟩
        | epipe =>
          simp only []
          obtain ⟨a, b, c, d⟩ := j_go h pi e env fuel (li + 1) _ (by exact he) h2
          exact ⟨a, b, c, Quiet.trans hqs d⟩

theorem j_dispatchEvent (h : Bytes → HRes) (pi e : Nat) (w : W) (he : w.err = none)
    (hj : J h w pi (fun x => if x = e then 1 else 0)) :
    (dispatchEvent pi e w).1.err = none ∧
    ((dispatchEvent pi e w).2 = true → J h (dispatchEvent pi e w).1 pi (fun _ => 0)) ∧
    ((dispatchEvent pi e w).2 = false → J h (dispatchEvent pi e w).1 pi (fun x => if x = e then 1 else 0)) ∧
    Quiet w (dispatchEvent pi e w).1 := by
  unfold dispatchEvent
  split
  · exact j_go h pi e _ _ 0 w he hj
  · exact ⟨he, (by intro hh; simp at hh), fun _ => hj, Quiet.refl w⟩

/-- `event_buffer.pop(0)`: the oldest event is in transit -/
theorem j_pop (h : Bytes → HRes) (pi e : Nat) (rest : List Nat) (w : W) (p : PoolSt) (hp : w.pools[pi]? = some p)
    (hb : p.buffer = e :: rest) (hj : J h w pi (fun _ => 0)) :
    J h (setPool w pi (fun p => { p with buffer := p.buffer.drop 1 })) pi (fun x => if x = e then 1 else 0) := by
  have hq : Quiet w (setPool w pi (fun p => { p with buffer := p.buffer.drop 1 })) :=
    quiet_setPool w pi _ (fun q => by simp [kview])
  refine ⟨Static.of_shapes hq.shapes hj.st, ?_, hq.sinv hj.sv, ?_, hj.rg.congr (rview_setPool w pi _ (fun q => rfl))⟩
  · refine LAll.of_fixed (fun j => ?_) hj.ls
    rw [getElem?_setPool]
    split
    · cases w.pools[j]? <;> rfl
    · rfl
  · intro pj x
    have hw := hj.led pj x
    rw [hq.acc_eq, heldBy_setPool w pi (fun p => { p with buffer := p.buffer.drop 1 }) (fun q => rfl)]
    show _ + _ + okCount h pj x w.outs + discardCount pj x w.outs + _ = _
    by_cases hpj : pj = pi
    · subst hpj
      have hnew : (setPool w pj (fun p => { p with buffer := p.buffer.drop 1 })).pools[pj]? =
          some { p with buffer := rest } := by rw [getElem?_setPool]; simp [hp, hb]
      rw [inBuffer_of hnew]
      rw [inBuffer_of hp, hb, List.count_cons] at hw
      have hex : (if (e == x) = true then 1 else 0) = (if x = e then 1 else (0 : Nat)) := by
        by_cases hxe : x = e
        · subst hxe; simp
        · have : ¬ e = x := fun hh => hxe hh.symm
          simp [hxe, this]
      rw [hex] at hw
      simp only [if_true] at hw ⊢
      omega
    · have : inBuffer (setPool w pi (fun p => { p with buffer := p.buffer.drop 1 })) pj x = inBuffer w pj x :=
        inBuffer_congr (by rw [getElem?_setPool, if_neg (fun hh => hpj hh.symm)]) x
      rw [this]
      simp only [hpj, if_false] at hw ⊢
      exact hw

theorem j_dispatch (h : Bytes → HRes) (pi : Nat) : ∀ (fuel : Nat) (w : W), w.err = none → J h w pi (fun _ => 0) →
    J h (dispatch pi fuel w) pi (fun _ => 0) ∧ Quiet w (dispatch pi fuel w)
  | 0, w, _, hj => ⟨hj, Quiet.refl w⟩
  | fuel + 1, w, he, hj => by
    unfold dispatch
    split
    · exact ⟨hj, Quiet.refl w⟩
    · rename_i p hp
      split
      · exact ⟨hj, Quiet.refl w⟩
      · rename_i e rest hb
        have h1 := j_pop h pi e rest w p hp hb hj
        have hq0 : Quiet w (setPool w pi (fun p => { p with buffer := p.buffer.drop 1 })) :=
          quiet_setPool w pi _ (fun q => by simp [kview])
        obtain ⟨g1, g2, g3, g4⟩ := j_dispatchEvent h pi e (setPool w pi (fun p => { p with buffer := p.buffer.drop 1 })) he h1
        simp only [g1, Option.isSome_none, Bool.false_eq_true, if_false]
        cases hok : (dispatchEvent pi e (setPool w pi (fun p => { p with buffer := p.buffer.drop 1 }))).2 with
        | true =>
          simp only [if_true]
          obtain ⟨a, b⟩ := j_dispatch h pi fuel _ g1 (g2 hok)
          exact ⟨a, Quiet.trans hq0 (Quiet.trans g4 b)⟩
        | false =>
          simp only [Bool.false_eq_true, if_false]
          have h3 : J h _ pi (fun x => (if x = e then 1 else 0) + 0) := J.congr_d (by intro x; simp) (g3 hok)
          exact ⟨j_rebuffer h pi e _ (fun _ => 0) h3, Quiet.trans hq0 (Quiet.trans g4 (q_rebuffer h pi e _ (fun _ => 0) h3))⟩

/-! ### every operation, every history -/

theorem j_pool_irrelevant {h : Bytes → HRes} {w : W} (i k : Nat) (hj : J h w i (fun _ => 0)) : J h w k (fun _ => 0) :=
  ⟨hj.st, hj.ls, hj.sv, ledger_zero h w i k hj.led, hj.rg⟩

theorem j_transition (h : Bytes → HRes) (pi k : Nat) (w : W) (hj : J h w k (fun _ => 0)) :
    J h (transition pi w) k (fun _ => 0) ∧ Quiet w (transition pi w) := by
  unfold transition
  split
  · exact ⟨hj, Quiet.refl w⟩
  · rename_i he
    have he' : w.err = none := by cases hw : w.err <;> simp_all
    split
    · exact ⟨hj, Quiet.refl w⟩
    · simp only []
      split
      · obtain ⟨a, b⟩ := j_dispatch h pi _ w he' (j_pool_irrelevant k pi hj)
        exact ⟨j_pool_irrelevant pi k a, b⟩
      · exact ⟨hj, Quiet.refl w⟩

theorem lt_pipeline (h : Bytes → HRes) (data : Bytes) (l : Lst) (hl : LOK l) :
    LT h { p := l } (({ p := l } : Listener.S) |> setP (fun p => { p with pipeBroken := true }) |> readEvent h data |> writeEvent) ∧
    LOK (({ p := l } : Listener.S) |> setP (fun p => { p with pipeBroken := true }) |> readEvent h data |> writeEvent).p := by
  have h0 := lt_ns h (s := { p := l }) hl (ns_setP (fun p => { p with pipeBroken := true }) _ ⟨rfl, rfl, rfl, rfl, rfl⟩)
  have h1 := lt_readEvent h data _ h0.2
  have h2 := lt_ns h h1.2 (ns_writeEvent _)
  exact ⟨LT.trans h0.1 (LT.trans h1.1 h2.1), h2.2⟩

theorem j_dieOp (h : Bytes → HRes) (pi li k : Nat) (data payload : Bytes) (w : W) (hj : J h w k (fun _ => 0)) :
    J h (dieOp h pi li data payload w) k (fun _ => 0) := by
  unfold dieOp
  split
  · exact hj
  · split
    · exact hj
    · simp only []
      have h1 := j_onListener h pi li
        (fun s => s |> setP (fun p => { p with pipeBroken := true }) |> readEvent h data |> writeEvent) w k
        (fun l hl => lt_pipeline h data l hl) hj
      split
      · exact h1.1
      · exact (j_onListener h pi li (die h []) _ k (fun l hl => lt_die h [] _ hl) (j_notify h _ payload _ k h1.1)).1

theorem j_spawnOp (h : Bytes → HRes) (pi li k : Nat) (pid : Int) (payload : Bytes) (w : W) (hj : J h w k (fun _ => 0)) :
    J h (spawnOp pi li pid payload w) k (fun _ => 0) := by
  unfold spawnOp
  split
  · exact hj
  · split
    · exact hj
    · split
      · exact hj
      · exact (j_onListener h pi li (spawn pid) _ k (fun l hl => lt_spawn h pid _ hl) (j_notify h _ payload w k hj)).1

/-! ### pools removed and added at run time -/

theorem setPool_map_eq {β : Type} (w : W) (i j : Nat) (f : PoolSt → PoolSt) (g : PoolSt → β) (hf : ∀ p, g (f p) = g p) :
    ((setPool w i f).pools[j]?).map g = (w.pools[j]?).map g := by
  rw [getElem?_setPool]
  split
  · cases w.pools[j]? <;> simp [hf]
  · rfl

/-- a change that leaves the event records, the counters, the buffers, the listeners and the trace alone (only the
    registry and the `active` / `used` flags differ) keeps the invariant, provided the registry invariant holds afterwards -/
theorem j_reframe (h : Bytes → HRes) (w w' : W) (k : Nat) (d : Nat → Nat) (hq : Quiet w w') (ho : w'.outs = w.outs)
    (hfix : ∀ j : Nat, (w'.pools[j]?).map fixedPart = (w.pools[j]?).map fixedPart)
    (hbuf : ∀ j : Nat, (w'.pools[j]?).map (·.buffer) = (w.pools[j]?).map (·.buffer))
    (hr : RegOK w') (hj : J h w k d) : J h w' k d := by
  refine ⟨Static.of_shapes hq.shapes hj.st, LAll.of_fixed hfix hj.ls, hq.sinv hj.sv, ?_, hr⟩
  intro pj x
  have hw := hj.led pj x
  have hb : inBuffer w' pj x = inBuffer w pj x := by
    unfold inBuffer
    have := hbuf pj
    cases h1 : w'.pools[pj]? <;> cases h2 : w.pools[pj]? <;> simp [h1, h2] at this ⊢
    rw [this]
  have hh : heldBy w' pj x = heldBy w pj x := by
    unfold heldBy
    have := hfix pj
    cases h1 : w'.pools[pj]? <;> cases h2 : w.pools[pj]? <;> simp [h1, h2, fixedPart] at this ⊢
    rw [this.1]
  rw [hq.acc_eq, hb, hh, ho]
  exact hw

theorem quiet_reg (w : W) (r : List Entry) : Quiet w { w with reg := r } := ⟨rfl, rfl, rfl⟩

theorem quiet_deactivate (pi : Nat) (p : PoolSt) (w : W) : Quiet w (deactivate pi p w) :=
  Quiet.trans (quiet_reg w _) (quiet_setPool _ pi _ (fun q => by simp [kview]))

theorem quiet_activate (pi : Nat) (p : PoolSt) (w : W) : Quiet w (activate pi p w) :=
  Quiet.trans (quiet_setPool w pi _ (fun q => by simp [kview])) (quiet_reg _ _)

theorem j_deactivate (h : Bytes → HRes) (pi k : Nat) (p : PoolSt) (w : W) (d : Nat → Nat) (hp : w.pools[pi]? = some p)
    (hj : J h w k d) : J h (deactivate pi p w) k d :=
  j_reframe h w _ k d (quiet_deactivate pi p w) rfl
    (fun j => setPool_map_eq _ pi j _ fixedPart (fun q => rfl))
    (fun j => setPool_map_eq _ pi j _ (·.buffer) (fun q => rfl))
    (regOK_deactivate pi p w hp hj.rg) hj

theorem j_activate (h : Bytes → HRes) (pi k : Nat) (p : PoolSt) (w : W) (d : Nat → Nat) (hp : w.pools[pi]? = some p)
    (hna : p.active = false) (hj : J h w k d) : J h (activate pi p w) k d :=
  j_reframe h w _ k d (quiet_activate pi p w) rfl
    (fun j => setPool_map_eq w pi j _ fixedPart (fun q => rfl))
    (fun j => setPool_map_eq w pi j _ (·.buffer) (fun q => rfl))
    (regOK_activate pi p w hp hna hj.rg) hj

/-- `remove_process_group` of a pool: refused (nothing changes) or unsubscribed, out of the table, announced -/
theorem j_removeOp (h : Bytes → HRes) (pi k : Nat) (w : W) (hj : J h w k (fun _ => 0)) :
    J h (removeOp pi w) k (fun _ => 0) := by
  unfold removeOp
  split
  · exact hj
  · cases hp : w.pools[pi]? with
    | none => simp [removeRun, hp]; exact hj
    | some p =>
      rw [removeRun_eq pi w p hp]
      split
      · exact hj
      · exact j_notify h _ _ _ k (j_deactivate h pi k p w _ hp hj)

/-- `add_process_group` of a pool: refused (already there) or created, subscribed, in the table, announced -/
theorem j_addOp (h : Bytes → HRes) (pi k : Nat) (w : W) (hj : J h w k (fun _ => 0)) :
    J h (addOp pi w) k (fun _ => 0) := by
  unfold addOp
  split
  · exact hj
  · cases hp : w.pools[pi]? with
    | none => simp [addRun, hp]; exact hj
    | some p =>
      rw [addRun_eq pi w p hp]
      split
      · exact hj
      · rename_i ha
        exact j_notify h _ _ _ k (j_activate h pi k p w _ hp (by cases hh : p.active <;> simp_all) hj)

theorem j_applyOp (h : Bytes → HRes) (w : W) (op : Op) (k : Nat) (hj : J h w k (fun _ => 0)) :
    J h (applyOp h w op) k (fun _ => 0) := by
  cases op <;> simp only [applyOp]
  · exact j_notify h _ _ w k hj
  · exact (j_transition h _ k w hj).1
  · exact (j_onListener h _ _ _ w k (fun l hl => lt_readEvent h _ _ hl) hj).1
  · exact (j_onListener h _ _ _ w k (fun l hl => lt_ns h (s := { p := l }) hl (ns_writeEvent _)) hj).1
  · exact (j_onListener h _ _ _ w k (fun l hl => lt_ns h (s := { p := l }) hl (ns_setPState _ _)) hj).1
  · exact (j_onListener h _ _ _ w k
      (fun l hl => lt_ns h (s := { p := l }) hl (ns_setP _ _ ⟨rfl, rfl, rfl, rfl, rfl⟩)) hj).1
  · exact (j_onListener h _ _ _ w k
      (fun l hl => lt_ns h (s := { p := l }) hl (ns_setP _ _ ⟨rfl, rfl, rfl, rfl, rfl⟩)) hj).1
  · exact j_dieOp h _ _ k _ _ w hj
  · exact j_spawnOp h _ _ k _ _ w hj
  · exact j_removeOp h _ k w hj
  · exact j_addOp h _ k w hj

theorem j_step (h : Bytes → HRes) (w : W) (op : Op) (k : Nat) (hj : J h w k (fun _ => 0)) :
    J h (step h w op) k (fun _ => 0) := by
  unfold step
  split
  · exact j_err h w k _ none hj
  · exact j_applyOp h _ op k (j_err h w k _ none hj)

theorem j_exec (h : Bytes → HRes) (k : Nat) : ∀ (ops : List Op) (w : W), J h w k (fun _ => 0) → J h (exec h w ops) k (fun _ => 0)
  | [], w, hj => hj
  | op :: ops, w, hj => j_exec h k ops (step h w op) (j_step h w op k hj)

/-! ### acceptance is decided when the event is emitted -/

/-- the events numbered below `n` keep their acceptance status (for every pool); the event table only grows -/
def Keeps (n : Nat) (w w' : W) : Prop :=
  w.events.length ≤ w'.events.length ∧ ∀ (i e : Nat), e < n → accepted w' i e = accepted w i e

theorem Keeps.refl (n : Nat) (w : W) : Keeps n w w := ⟨Nat.le_refl _, fun _ _ _ => rfl⟩
theorem Keeps.trans {n : Nat} {a b c : W} (h1 : Keeps n a b) (h2 : Keeps n b c) : Keeps n a c :=
  ⟨Nat.le_trans h1.1 h2.1, fun i e he => (h2.2 i e he).trans (h1.2 i e he)⟩
theorem Keeps.of_quiet (n : Nat) {w w' : W} (hq : Quiet w w') : Keeps n w w' :=
  ⟨by rw [hq.1]; exact Nat.le_refl _, fun i e _ => hq.acc_eq i e⟩

theorem keeps_serialStep (n e : Nat) (w : W) : Keeps n w (serialStep e w) := by
  refine ⟨by simp [serialStep, setEv], fun i x _ => ?_⟩
  refine accepted_congr rfl ?_
  have : (serialStep e w).events[x]? = (setEv w e (fun x => { x with serial := some (newSerial w.gserial) })).events[x]? := rfl
  rw [this, getElem?_setEv]
  split
  · cases w.events[x]? <;> rfl
  · rfl

theorem keeps_stamp (n i e : Nat) (p : PoolSt) (w : W) (hn : n ≤ e) : Keeps n w (stamp i e p w) := by
  refine ⟨by simp [stamp, setEv], fun pj x hx => ?_⟩
  refine accepted_congr ?_ ?_
  · rw [stamp_pools]; split
    · cases w.pools[pj]? <;> rfl
    · rfl
  · have : (stamp i e p w).events[x]? = _ := getElem?_setEv w e x _
    rw [this, if_neg (by omega)]

theorem keeps_accept_new (n i e : Nat) (head : Bool) (w : W) (p : PoolSt) (ev : Ev) (hp : w.pools[i]? = some p)
    (hev : w.events[e]? = some ev) (hl : ev.poolSerials.lookup p.name = none) (hn : n ≤ e) :
    Keeps n w (acceptEvent i e head w) := by
  rw [acceptEvent_new i e head w p ev hp hev hl]
  refine Keeps.trans (b := (if ev.serial.isNone then serialStep e w else w)) ?_
    (Keeps.trans (keeps_stamp n i e p _ hn) (Keeps.of_quiet n (quiet_insertEv i e head _)))
  split
  · exact keeps_serialStep n e w
  · exact Keeps.refl n w

theorem keeps_accept_false (h : Bytes → HRes) (n i e k : Nat) (w : W) (hn : n ≤ e) (hj : J h w k (fun _ => 0)) :
    Keeps n w (acceptEvent i e false w) := by
  cases hp : w.pools[i]? with
  | none => rw [acceptEvent_skip_id i e w (Or.inr (Or.inl hp))]; exact Keeps.refl n w
  | some p =>
    cases hev : w.events[e]? with
    | none => rw [acceptEvent_skip_id i e w (Or.inr (Or.inr hev))]; exact Keeps.refl n w
    | some ev =>
      cases hl : ev.poolSerials.lookup p.name with
      | some v =>
        have hacc : accepted w i e = true := by simp [accepted, hp, hev, hl]
        rw [acceptEvent_skip_id i e w (Or.inl (acc_of_accepted hj.sv i e hacc))]; exact Keeps.refl n w
      | none => exact keeps_accept_new n i e false w p ev hp hev hl hn

theorem keeps_offer (h : Bytes → HRes) (n e k : Nat) (hn : n ≤ e) : ∀ (l : List Nat) (w : W), e + 1 = w.events.length →
    J h w k (fun _ => 0) → Keeps n w (l.foldl (fun acc i => acceptEvent i e false acc) w)
  | [], w, _, _ => Keeps.refl n w
  | i :: l, w, hlast, hj => by
    simp only [List.foldl_cons]
    exact Keeps.trans (keeps_accept_false h n i e k w hn hj)
      (keeps_offer h n e k hn l _ (by rw [(evsLe_acceptEvent i e false w).1]; exact hlast) (j_accept_false h i e k w hlast hj))

theorem keeps_notify (h : Bytes → HRes) (n k : Nat) (c : Cls) (payload : Bytes) (w : W) (hn : n ≤ w.events.length)
    (hj : J h w k (fun _ => 0)) : Keeps n w (notify c payload w) := by
  unfold notify
  split
  · exact Keeps.refl n w
  · have h0 : Keeps n w { w with events := w.events ++ [{ cls := c, payload := payload }] } := by
      refine ⟨by simp, fun i x hx => accepted_congr rfl ?_⟩
      rw [List.getElem?_append_left (by omega)]
    exact Keeps.trans h0 (keeps_offer h n _ k hn _ _ (by simp) (j_newEvent h w k _ c payload hj))

theorem keeps_dieOp (h : Bytes → HRes) (n pi li k : Nat) (data payload : Bytes) (w : W) (hn : n ≤ w.events.length)
    (hj : J h w k (fun _ => 0)) : Keeps n w (dieOp h pi li data payload w) := by
  unfold dieOp
  split
  · exact Keeps.refl n w
  · split
    · exact Keeps.refl n w
    · simp only []
      have h1 := j_onListener h pi li
        (fun s => s |> setP (fun p => { p with pipeBroken := true }) |> readEvent h data |> writeEvent) w k
        (fun l hl => lt_pipeline h data l hl) hj
      have k1 := Keeps.of_quiet n h1.2
      split
      · exact k1
      · exact Keeps.trans k1 (Keeps.trans (keeps_notify h n k _ payload _ (Nat.le_trans hn k1.1) h1.1)
          (Keeps.of_quiet n (j_onListener h pi li (die h []) _ k (fun l hl => lt_die h [] _ hl)
            (j_notify h _ payload _ k h1.1)).2))

theorem keeps_spawnOp (h : Bytes → HRes) (n pi li k : Nat) (pid : Int) (payload : Bytes) (w : W) (hn : n ≤ w.events.length)
    (hj : J h w k (fun _ => 0)) : Keeps n w (spawnOp pi li pid payload w) := by
  unfold spawnOp
  split
  · exact Keeps.refl n w
  · split
    · exact Keeps.refl n w
    · split
      · exact Keeps.refl n w
      · exact Keeps.trans (keeps_notify h n k .PROCESS_STATE_STARTING payload w hn hj) (Keeps.of_quiet n
          (j_onListener h pi li (spawn pid) _ k (fun l hl => lt_spawn h pid _ hl)
            (j_notify h .PROCESS_STATE_STARTING payload w k hj)).2)

theorem keeps_removeOp (h : Bytes → HRes) (n pi k : Nat) (w : W) (hn : n ≤ w.events.length)
    (hj : J h w k (fun _ => 0)) : Keeps n w (removeOp pi w) := by
  unfold removeOp
  split
  · exact Keeps.refl n w
  · cases hp : w.pools[pi]? with
    | none => simp [removeRun, hp]; exact Keeps.refl n w
    | some p =>
      rw [removeRun_eq pi w p hp]
      split
      · exact Keeps.refl n w
      · have k1 := Keeps.of_quiet n (quiet_deactivate pi p w)
        exact Keeps.trans k1 (keeps_notify h n k _ _ _ (Nat.le_trans hn k1.1) (j_deactivate h pi k p w _ hp hj))

theorem keeps_addOp (h : Bytes → HRes) (n pi k : Nat) (w : W) (hn : n ≤ w.events.length)
    (hj : J h w k (fun _ => 0)) : Keeps n w (addOp pi w) := by
  unfold addOp
  split
  · exact Keeps.refl n w
  · cases hp : w.pools[pi]? with
    | none => simp [addRun, hp]; exact Keeps.refl n w
    | some p =>
      rw [addRun_eq pi w p hp]
      split
      · exact Keeps.refl n w
      · rename_i ha
        have k1 := Keeps.of_quiet n (quiet_activate pi p w)
        exact Keeps.trans k1 (keeps_notify h n k _ _ _ (Nat.le_trans hn k1.1)
          (j_activate h pi k p w _ hp (by cases hh : p.active <;> simp_all) hj))

theorem keeps_applyOp (h : Bytes → HRes) (n k : Nat) (w : W) (op : Op) (hn : n ≤ w.events.length)
    (hj : J h w k (fun _ => 0)) : Keeps n w (applyOp h w op) := by
  cases op <;> simp only [applyOp]
  · exact keeps_notify h n k _ _ w hn hj
  · exact Keeps.of_quiet n (j_transition h _ k w hj).2
  · exact Keeps.of_quiet n (j_onListener h _ _ _ w k (fun l hl => lt_readEvent h _ _ hl) hj).2
  · exact Keeps.of_quiet n (j_onListener h _ _ _ w k (fun l hl => lt_ns h (s := { p := l }) hl (ns_writeEvent _)) hj).2
  · exact Keeps.of_quiet n (j_onListener h _ _ _ w k (fun l hl => lt_ns h (s := { p := l }) hl (ns_setPState _ _)) hj).2
  · exact Keeps.of_quiet n (j_onListener h _ _ _ w k
      (fun l hl => lt_ns h (s := { p := l }) hl (ns_setP _ _ ⟨rfl, rfl, rfl, rfl, rfl⟩)) hj).2
  · exact Keeps.of_quiet n (j_onListener h _ _ _ w k
      (fun l hl => lt_ns h (s := { p := l }) hl (ns_setP _ _ ⟨rfl, rfl, rfl, rfl, rfl⟩)) hj).2
  · exact keeps_dieOp h n _ _ k _ _ w hn hj
  · exact keeps_spawnOp h n _ _ k _ _ w hn hj
  · exact keeps_removeOp h n _ k w hn hj
  · exact keeps_addOp h n _ k w hn hj

theorem keeps_step (h : Bytes → HRes) (n k : Nat) (w : W) (op : Op) (hn : n ≤ w.events.length)
    (hj : J h w k (fun _ => 0)) : Keeps n w (step h w op) := by
  unfold step
  split
  · exact Keeps.of_quiet n (quiet_err w none)
  · exact Keeps.trans (Keeps.of_quiet n (quiet_err w none)) (keeps_applyOp h n k _ op hn (j_err h w k _ none hj))

/-- whether a pool has accepted an event that exists now is never changed by anything that happens later -/
theorem keeps_exec (h : Bytes → HRes) (n k : Nat) : ∀ (ops : List Op) (w : W), n ≤ w.events.length → J h w k (fun _ => 0) →
    Keeps n w (exec h w ops)
  | [], w, _, _ => Keeps.refl n w
  | op :: ops, w, hn, hj => by
    have k1 := keeps_step h n k w op hn hj
    exact Keeps.trans k1 (keeps_exec h n k ops (step h w op) (Nat.le_trans hn k1.1) (j_step h w op k hj))

/-! ### a freshly configured daemon -/

theorem assignIds_getElem? : ∀ (ps : List PoolSt) (k i : Nat) (q : PoolSt), (assignIds k ps)[i]? = some q →
    ∃ p off, ps[i]? = some p ∧ k ≤ off ∧ q = { p with ids := (List.range p.procs.length).map (· + off) }
  | [], k, i, q, hq => by simp [assignIds] at hq
  | p :: ps, k, 0, q, hq => by
    simp only [assignIds, List.getElem?_cons_zero, Option.some.injEq] at hq
    exact ⟨p, k, rfl, Nat.le_refl _, hq.symm⟩
  | p :: ps, k, i + 1, q, hq => by
    simp only [assignIds, List.getElem?_cons_succ] at hq
    obtain ⟨p', off, h1, h2, h3⟩ := assignIds_getElem? ps (k + p.procs.length) i q hq
    exact ⟨p', off, by simpa using h1, by omega, h3⟩

theorem assignIds_ge (ps : List PoolSt) (k i : Nat) (q : PoolSt) (x : Nat) (hq : (assignIds k ps)[i]? = some q)
    (hx : x ∈ q.ids) : k ≤ x := by
  obtain ⟨p, off, _, h2, h3⟩ := assignIds_getElem? ps k i q hq
  subst h3
  simp at hx
  obtain ⟨a, _, rfl⟩ := hx
  omega

theorem assignIds_own : ∀ (ps : List PoolSt) (k i j : Nat) (p q : PoolSt) (x : Nat), (assignIds k ps)[i]? = some p →
    (assignIds k ps)[j]? = some q → x ∈ p.ids → x ∈ q.ids → i = j
  | [], k, i, j, p, q, x, hp, _, _, _ => by simp [assignIds] at hp
  | a :: ps, k, 0, 0, p, q, x, _, _, _, _ => rfl
  | a :: ps, k, 0, j + 1, p, q, x, hp, hq, hx, hy => by
    simp only [assignIds, List.getElem?_cons_zero, Option.some.injEq, List.getElem?_cons_succ] at hp hq
    subst hp
    have := assignIds_ge ps _ j q x hq hy
    simp at hx
    obtain ⟨b, hb, rfl⟩ := hx
    omega
  | a :: ps, k, i + 1, 0, p, q, x, hp, hq, hx, hy => by
    simp only [assignIds, List.getElem?_cons_zero, Option.some.injEq, List.getElem?_cons_succ] at hp hq
    subst hq
    have := assignIds_ge ps _ i p x hp hx
    simp at hy
    obtain ⟨b, hb, rfl⟩ := hy
    omega
  | a :: ps, k, i + 1, j + 1, p, q, x, hp, hq, hx, hy => by
    simp only [assignIds, List.getElem?_cons_succ] at hp hq
    rw [assignIds_own ps _ i j p q x hp hq hx hy]

theorem nodup_getElem?_inj {α : Type} : ∀ (l : List α) (i j : Nat) (a : α), l.Nodup → l[i]? = some a → l[j]? = some a → i = j
  | [], i, j, a, _, h, _ => by simp at h
  | b :: l, 0, 0, a, _, _, _ => rfl
  | b :: l, 0, j + 1, a, hn, h1, h2 => by
    simp at h1 h2; subst h1
    exact absurd (List.mem_of_getElem? h2) (List.nodup_cons.mp hn).1
  | b :: l, i + 1, 0, a, hn, h1, h2 => by
    simp at h1 h2; subst h2
    exact absurd (List.mem_of_getElem? h1) (List.nodup_cons.mp hn).1
  | b :: l, i + 1, j + 1, a, hn, h1, h2 => by
    simp at h1 h2
    rw [nodup_getElem?_inj l i j a (List.nodup_cons.mp hn).2 h1 h2]

/-- pools as configured: distinct names (section names of the configuration file), counters at their initial value,
    empty buffers, listeners that hold nothing -/
structure FreshPools (ps : List PoolSt) : Prop where
  names : (ps.map (·.name)).Nodup
  start : ∀ p ∈ ps, p.serial = initialSerial ∧ p.buffer = [] ∧ ∀ l ∈ p.procs, LOK l ∧ l.event = none

theorem static_assignIds (ps : List PoolSt) (hn : (ps.map (·.name)).Nodup) : Static { pools := assignIds 0 ps } := by
  refine ⟨?_, ?_, ?_⟩
  · intro i j p q hp hq hpq
    obtain ⟨p0, _, h1, _, h3⟩ := assignIds_getElem? ps 0 i p hp
    obtain ⟨q0, _, h2, _, h4⟩ := assignIds_getElem? ps 0 j q hq
    subst h3; subst h4
    simp only [] at hpq
    exact nodup_getElem?_inj (ps.map (·.name)) i j p0.name hn (by simp [h1]) (by simp [h2, hpq])
  · intro i p hp
    obtain ⟨p0, _, _, _, h3⟩ := assignIds_getElem? ps 0 i p hp
    subst h3; simp
  · intro i j p q x hp hq hx hy
    exact assignIds_own ps 0 i j p q x hp hq hx hy

theorem j_fresh (h : Bytes → HRes) (ps : List PoolSt) (hf : FreshPools ps) (k : Nat) :
    J h (boot (assignIds 0 ps)) k (fun _ => 0) := by
  have hback : ∀ (i : Nat) (q : PoolSt), (assignIds 0 ps)[i]? = some q → ∃ p ∈ ps, q.serial = p.serial ∧ q.buffer = p.buffer ∧ q.procs = p.procs := by
    intro i q hq
    obtain ⟨p0, _, h1, _, h3⟩ := assignIds_getElem? ps 0 i q hq
    subst h3
    exact ⟨p0, List.mem_of_getElem? h1, rfl, rfl, rfl⟩
  refine ⟨Static.of_shapes (w := { pools := assignIds 0 ps }) rfl (static_assignIds ps hf.names), ?_, ⟨?_, ?_, ?_⟩, ?_,
    regOK_boot _⟩
  · intro i q l hq hl
    obtain ⟨p, hp, _, _, h3⟩ := hback i q hq
    exact ((hf.start p hp).2.2 l (by rw [← h3]; exact hl)).1
  · exact chain_nil
  · intro i q hq
    obtain ⟨p, hp, h1, _, _⟩ := hback i q hq
    have : q.serial = initialSerial := by rw [h1]; exact (hf.start p hp).1
    rw [this]; exact chain_nil
  · intro e ev hev
    have : (boot (assignIds 0 ps)).events = [] := rfl
    rw [this] at hev; simp at hev
  · intro pj x
    have hpools : (boot (assignIds 0 ps)).pools = assignIds 0 ps := rfl
    have houts : (boot (assignIds 0 ps)).outs = [] := rfl
    have hacc : accepted (boot (assignIds 0 ps)) pj x = false := by
      unfold accepted
      show (match (assignIds 0 ps)[pj]?, ([] : List Ev)[x]? with
        | some p, some ev => (ev.poolSerials.lookup p.name).isSome
        | _, _ => false) = false
      cases (assignIds 0 ps)[pj]? <;> simp
    rw [hacc]
    simp only [okCount, discardCount, houts, List.countP_nil, ite_self, Nat.add_zero, Bool.toNat_false]
    cases hq : (assignIds 0 ps)[pj]? with
    | none => simp [inBuffer, heldBy, hpools, hq]
    | some q =>
      obtain ⟨p, hp, _, h2, h3⟩ := hback pj q hq
      have hb : q.buffer = [] := by rw [h2]; exact (hf.start p hp).2.1
      have hh : q.procs.countP (fun l => l.event == some x) = 0 := by
        rw [List.countP_eq_zero]
        intro l hl
        have := ((hf.start p hp).2.2 l (by rw [← h3]; exact hl)).2
        simp [this]
      simp [inBuffer, heldBy, hpools, hq, hb, hh]

end Sv.Pool
