import SupervisorModel.Basic.Bytes
import SupervisorModel.Generated.Tick
import SupervisorModel.Generated.EventNames
/-
  Model of `Supervisor.tick` (supervisor/supervisord.py).  Clock readings are integers in
  ticks of 1/1024 s; `timeslice` and the two comparisons are the regenerated definitions.
  `ticks` is the dict `self.ticks` (period ↦ last slice seen).
-/
namespace Sv.Tick
open Sv.Gen.Tick Sv.Gen.EventNames

structure Ticks where
  get : Int → Option Int

structure Ev where
  cls : Nat       -- class id of the tick event (Gen.EventNames)
  period : Int
  when_ : Int
deriving DecidableEq, Repr

/-- one iteration of the loop body for one period: the new dict entry and the emitted `when` -/
def tickPeriod (period now : Int) (last : Option Int) : Option Int × Option Int :=
  let last1 := if tick_g1 now last none then some (timeslice period now) else last
  if tick_g2 now last1 (some (timeslice period now)) then
    (some (timeslice period now), some (timeslice period now))
  else (last1, none)

def tickLoop (now : Int) : List (Nat × Int) → Ticks → List Ev → Ticks × List Ev
  | [], t, out => (t, out)
  | (cls, p) :: r, t, out =>
    tickLoop now r ⟨fun q => if q = p then (tickPeriod p now (t.get p)).1 else t.get q⟩
      (match (tickPeriod p now (t.get p)).2 with
       | some w => out ++ [⟨cls, p, w⟩]
       | none => out)

/-- `Supervisor.tick(now)`: the new `self.ticks` and the notified events, in order -/
def tick (now : Int) (t : Ticks) : Ticks × List Ev := tickLoop now tickEvents t []

/-- a run of main-loop passes with the given clock readings, from `self.ticks = {}` -/
def runFrom : Ticks → List Int → List (List Ev)
  | _, [] => []
  | t, now :: r => (tick now t).2 :: runFrom (tick now t).1 r

def run (clock : List Int) : List (List Ev) := runFrom ⟨fun _ => none⟩ clock

/-! line protocol -/
def showEv (e : Ev) : String := s!"{e.cls}:{e.period}:{e.when_}"

def runCase (_cfg : List String) (ops : List String) : List String :=
  let rec go (t : Ticks) : List String → List String
    | [] => []
    | l :: r =>
      match words l with
      | ["tick", n] =>
        match n.toInt? with
        | some now =>
          (if (tick now t).2.isEmpty then "-" else " ".intercalate ((tick now t).2.map showEv)) :: go (tick now t).1 r
        | none => "bad-op" :: go t r
      | _ => "bad-op" :: go t r
  go ⟨fun _ => none⟩ ops

end Sv.Tick
