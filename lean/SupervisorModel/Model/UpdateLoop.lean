import SupervisorModel.Generated.Reread
/-
  One pass of Supervisor.runforever (supervisor/supervisord.py) as far as the group table is concerned:

    pgroups = list(self.process_groups.values())      -- taken at the top of the pass
    ... poll(); the requests that arrived are dispatched: removeProcessGroup / addProcessGroup change the table ...
    for group in pgroups:
        if <guard>: group.transition()                -- a member that is EXITED with a restart pending is forked here

  Which list the loop runs over (`loopIteratesSnapshot`), the guard (`loopTransitionGuard`) and what
  ProcessGroupBase.__eq__ compares (`processGroupEqDefined`, `processGroupEqAttrs`) are GENERATED from /repo.
  A group object carries an identity (`oid`); two different objects may have the same name (a changed group is removed
  and added again under its name) and the same priority (999 is everybody's default).
-/
namespace Sv.UpdateLoop
open Sv.Gen.Reread

structure Group where
  oid : Nat                  -- the object's identity
  name : String              -- config.name
  priority : Int             -- config.priority
  restartPending : Bool      -- a member is due for a start (EXITED with autorestart, BACKOFF delay over, ...): transition() forks
deriving DecidableEq, Repr

/-- one `self.<path> == other.<path>` of ProcessGroupBase.__eq__ -/
def attrEq (p : String) (a b : Group) : Bool :=
  if p == "config.priority" then a.priority == b.priority
  else if p == "config.name" then a.name == b.name
  else false

/-- `a == b` on group objects: ProcessGroupBase.__eq__ as coded; without an __eq__ Python compares identities -/
def groupEq (a b : Group) : Bool :=
  if processGroupEqDefined then processGroupEqAttrs.all (fun p => attrEq p a b) else a.oid == b.oid

/-- `g in tbl` on a list: some element is the same object or compares equal -/
def pyIn (g : Group) (tbl : List Group) : Bool := tbl.any fun t => t.oid == g.oid || groupEq g t

/-- `any(g is t for t in tbl)` -/
def isIn (g : Group) (tbl : List Group) : Bool := tbl.any fun t => t.oid == g.oid

def guardPasses (k : GuardKind) (g : Group) (tbl : List Group) : Bool :=
  match k with
  | .identity => isIn g tbl
  | .membershipEq => pyIn g tbl
  | .none => true

/-- the requests of the dispatch phase that change the table (both succeed only under their preconditions, which do
    not matter here: a refused request changes nothing and is simply not in the list) -/
inductive Req where
  | remove (name : String)       -- supervisord.remove_process_group: del self.process_groups[name]
  | add (g : Group)              -- supervisord.add_process_group: a NEW group object under g.name, if the name is free
deriving DecidableEq, Repr

def applyReq (tbl : List Group) : Req → List Group
  | .remove n => tbl.filter fun g => g.name != n
  | .add g => if tbl.any (fun t => t.name == g.name) then tbl else tbl ++ [g]

def dispatch (tbl : List Group) (reqs : List Req) : List Group := reqs.foldl applyReq tbl

/-- the groups whose transition() runs in a pass that started with `snapshot` and whose dispatch phase left `after` -/
def transitionedWith (k : GuardKind) (iterSnapshot : Bool) (snapshot after : List Group) : List Group :=
  (if iterSnapshot then snapshot else after).filter fun g => guardPasses k g after

/-- ... as coded -/
def transitioned (snapshot after : List Group) : List Group :=
  transitionedWith loopTransitionGuard loopIteratesSnapshot snapshot after

structure PassResult where
  table : List Group            -- self.process_groups after the pass
  transitioned : List Group     -- groups whose transition() ran
  forkedFor : List Group        -- ... and forked a child
deriving DecidableEq, Repr

def pass (tbl : List Group) (reqs : List Req) : PassResult :=
  let after := dispatch tbl reqs
  let tr := transitioned tbl after
  { table := after, transitioned := tr, forkedFor := tr.filter (·.restartPending) }

end Sv.UpdateLoop
