import SupervisorModel.Model.LogRead
import SupervisorModel.Model.TailF
import SupervisorModel.Model.RpcLog
import SupervisorModel.Lemmas.Chunked
import SupervisorModel.Model.OutBuf
/-
  C16 — log retrieval returns exactly the requested bytes.
  Property theorems only.  The definitions unfolded here (`Sv.Gen.LogRead.*`, `Sv.Gen.TailF.*`,
  `Sv.Gen.Chunked.*`, `Sv.Gen.Rpc.*`) are regenerated from /repo on every run.

    offset arithmetic        readFile_spec, readFile_window, tailFile_spec
    RPC layer                readLog_no_file, readLog_bad_arguments, readLog_window, tailProcessLog_spec,
                             log_rpc_never_raises (F7)
    /logtail producer        tailf_appends, tailf_stream, tailf_restart_rotated, tailf_restart_truncated
    chunked stream           chunk_encode_total (F8), chunk_roundtrip, decoder_fragmentation_invariant
-/
set_option linter.unusedSimpArgs false
namespace Sv.Props.C16
open Sv Sv.LogRead Sv.Gen.LogRead Sv.TailF Sv.Gen.TailF Sv.RpcLog Sv.Gen.Rpc Sv.Chunked Sv.Gen.Chunked

/-! ## offset arithmetic (options.readFile / options.tailFile) -/

/-- the last `n` bytes of `f` (all of `f` when `n ≥ |f|`, nothing when `n ≤ 0`) -/
def lastN (n : Int) (f : Bytes) : Bytes := f.drop (f.length - n.toNat)

theorem readAt_to_end (f : Bytes) (pos n : Int) (h : (f.length : Int) ≤ pos + n) (hp : 0 ≤ pos) :
    readAt f pos n = f.drop pos.toNat := by
  unfold readAt
  apply List.take_of_length_le
  simp only [List.length_drop]; omega

/-- tailProcess*Log: new offset = size, overflow ↔ size > offset+length, data = the last
    min(length,size) bytes unless the offset is already at or past the end.  All integers. -/
theorem tailFile_spec (f : Bytes) (offset length : Int) :
    (tailFile f offset length).offset = f.length ∧
    ((tailFile f offset length).overflow = true ↔ (f.length : Int) > offset + length) ∧
    (tailFile f offset length).data =
      if offset ≥ f.length then [] else lastN (min length f.length) f := by
  refine ⟨?_, ?_, ?_⟩
  · simp [tailFile, tailFile_a10]
  · simp [tailFile, tailFile_g0, tailFile_a0, tailFile_a2]
  · simp only [tailFile, tailFile_g0, tailFile_g1, tailFile_g2, tailFile_g3, tailFile_g4, tailFile_g5,
      tailFile_a0, tailFile_a2, tailFile_a3, tailFile_a4, tailFile_a5, tailFile_a6, tailFile_a7, tailFile_a8, lastN,
      Bool.and_eq_true, ilt_iff, ile_iff, beq_iff_eq, bne_iff_ne]
    repeat' split
    all_goals first
      | rfl
      | omega
      | (symm; apply List.drop_of_length_le; omega)
      | (rw [readAt_to_end _ _ _ (by omega) (by omega)]; congr 1; omega)

/-- readLog / readProcess*Log: bytes [offset, offset+length); to the end when length = 0; the
    last |offset| bytes when offset < 0 and length = 0; BAD_ARGUMENTS for every other sign
    combination.  All integers, all file contents. -/
theorem readFile_spec (f : Bytes) (offset length : Int) :
    readFile f offset length =
      if offset < 0 then (if length ≠ 0 then .error .badArguments else .ok (lastN (-offset) f))
      else if length < 0 then .error .badArguments
      else if length = 0 then .ok (f.drop offset.toNat)
      else .ok ((f.drop offset.toNat).take length.toNat) := by
  simp [readFile, readFile_g0, readFile_g1, readFile_g3, readFile_g4, readFile_a0, readFile_a3, readFile_a4,
    readFile_g2, clampPos, lastN, readToEnd]
  repeat' split
  all_goals first
    | rfl
    | omega
    | (rw [readAt_to_end _ _ _ (by omega) (by omega)]; congr 2; omega)

/-- the window is never longer than asked for and never reaches outside the file -/
theorem readFile_window (f d : Bytes) (offset length : Int) (h : readFile f offset length = .ok d)
    (ho : 0 ≤ offset) (hl : 0 < length) :
    d = (f.drop offset.toNat).take length.toNat ∧ (d.length : Int) ≤ length := by
  rw [readFile_spec] at h
  have h1 : ¬ offset < 0 := by omega
  have h2 : ¬ length < 0 := by omega
  have h3 : ¬ length = 0 := by omega
  simp only [h1, h2, h3, if_false] at h
  injection h with h
  subst h
  refine ⟨rfl, ?_⟩
  simp only [List.length_take]; omega

-- non-vacuity: concrete instances of every branch
example : readFile [1,2,3,4,5] 1 2 = .ok [2,3] := by decide
example : readFile [1,2,3,4,5] (-2) 0 = .ok [4,5] := by decide
example : readFile [1,2,3,4,5] (-2) 1 = .error .badArguments := by decide
example : readFile [1,2,3,4,5] 2 (-1) = .error .badArguments := by decide
example : tailFile [1,2,3,4,5] 0 3 = ⟨[3,4,5], 5, true⟩ := by decide
example : tailFile [1,2,3,4,5] 7 3 = ⟨[], 5, false⟩ := by decide


/-! ## the XML-RPC layer (rpcinterface.py) -/

/-- the answer is the fault whose code the `Faults` table gives to `name` -/
def IsFault {α : Type} (a : Ans α) (name : String) : Prop := ∃ c, faultCode name = some c ∧ a = .fault c

theorem update_passes {α : Type} (mood : Int) (h : ¬ mood < moodRunning) : (update mood : Option (Ans α)) = none := by
  simp [update, update_g0, h]

theorem update_raises {α : Type} (mood : Int) (h : mood < moodRunning) :
    ∃ c, faultCode "SHUTDOWN_STATE" = some c ∧ (update mood : Option (Ans α)) = some (.fault c) := by
  refine ⟨6, by decide, ?_⟩
  simp [update, update_g0, h, updateRaises, raiseFault, faultCode, faults, List.lookup]

/-- NO_FILE when there is no log -/
theorem readLog_no_file (dec : Decoders) (mood : Int) (hm : ¬ mood < moodRunning) (lf : LogFile)
    (hl : ∀ f, lf ≠ .present f) (o l : Int) :
    IsFault (readLog dec mood lf o l) "NO_FILE" ∧ IsFault (readProcessLog dec mood true lf o l) "NO_FILE" := by
  refine ⟨⟨20, by decide, ?_⟩, ⟨20, by decide, ?_⟩⟩ <;>
  · cases lf with
    | present f => exact absurd rfl (hl f)
    | _ => simp [readLog, readProcessLog, update_passes mood hm, readCore, raiseFault, faultCode, faults, List.lookup]

/-- BAD_ARGUMENTS for the refused sign combinations -/
theorem readLog_bad_arguments (dec : Decoders) (mood : Int) (hm : ¬ mood < moodRunning) (f : Bytes) (o l : Int)
    (h : (o < 0 ∧ l ≠ 0) ∨ (0 ≤ o ∧ l < 0)) :
    IsFault (readLog dec mood (.present f) o l) "BAD_ARGUMENTS" ∧
    IsFault (readProcessLog dec mood true (.present f) o l) "BAD_ARGUMENTS" := by
  have hr : readFile f o l = .error .badArguments := by
    rw [readFile_spec]
    rcases h with ⟨h1, h2⟩ | ⟨h1, h2⟩
    · simp [h1, h2]
    · have : ¬ o < 0 := by omega
      simp [this, h2]
  refine ⟨⟨3, by decide, ?_⟩, ⟨3, by decide, ?_⟩⟩ <;>
    simp [readLog, readProcessLog, update_passes mood hm, readCore, hr, readFileBadArgs, raiseFault, faultCode, faults,
      List.lookup]

/-- otherwise the text conversion of exactly the window `readFile` selects (see `readFile_spec`) -/
theorem readLog_window (dec : Decoders) (mood : Int) (hm : ¬ mood < moodRunning) (f d : Bytes) (o l : Int)
    (h : readFile f o l = .ok d) :
    readLog dec mood (.present f) o l = .ok (dec.lossy d) ∧
    readProcessLog dec mood true (.present f) o l = .ok (dec.lossy d) := by
  simp [readLog, readProcessLog, update_passes mood hm, readCore, h, decodeLog, readDecodeTolerant]

/-- tailProcess*Log: the text conversion of tailFile's window, its offset and overflow flag
    (see `tailFile_spec`); `['', 0, False]` when there is no log -/
theorem tailProcessLog_spec (dec : Decoders) (mood : Int) (hm : ¬ mood < moodRunning) (lf : LogFile) (o l : Int) :
    tailProcessLog dec mood true lf o l =
      match lf with
      | .present f => .ok ⟨dec.lossy (tailFile f o l).data, (tailFile f o l).offset, (tailFile f o l).overflow⟩
      | _ => .ok ⟨[], 0, false⟩ := by
  cases lf <;> simp [tailProcessLog, update_passes mood hm, decodeLog, tailDecodeTolerant]

/-- **Whatever bytes the log contains and wherever the window cuts them, the call succeeds**:
    for every decoder pair, mood, log file, content, offset and length the answer is a value or a
    fault, never another exception (regression statement of F7; it depends on the generated flags
    `readDecodeTolerant`/`tailDecodeTolerant` and on every fault name being in `Faults`). -/
theorem log_rpc_never_raises (dec : Decoders) (mood : Int) (found : Bool) (lf : LogFile) (o l : Int) :
    (∀ w, readLog dec mood lf o l ≠ .exc w) ∧ (∀ w, readProcessLog dec mood found lf o l ≠ .exc w) ∧
    (∀ w, tailProcessLog dec mood found lf o l ≠ .exc w) := by
  have hu : ∀ {α : Type}, (update mood : Option (Ans α)) = none ∨ ∃ c, (update mood : Option (Ans α)) = some (.fault c) := by
    intro α
    by_cases h : mood < moodRunning
    · obtain ⟨c, _, hc⟩ := update_raises (α := α) mood h; exact Or.inr ⟨c, hc⟩
    · exact Or.inl (update_passes mood h)
  have hcore : ∀ w, readCore dec lf o l ≠ .exc w := by
    intro w
    cases lf with
    | present f =>
      simp only [readCore]
      cases hr : readFile f o l with
      | ok d => simp [decodeLog, readDecodeTolerant]
      | error e => cases e <;> simp [readFileBadArgs, readFileFailed, raiseFault, faultCode, faults, List.lookup]
    | _ => simp [readCore, raiseFault, faultCode, faults, List.lookup]
  refine ⟨?_, ?_, ?_⟩
  · intro w
    rcases hu (α := Bytes) with h | ⟨c, h⟩ <;> simp [readLog, h, hcore]
  · intro w
    rcases hu (α := Bytes) with h | ⟨c, h⟩
    · cases found <;> simp [readProcessLog, h, hcore, raiseFault, faultCode, faults, List.lookup]
    · simp [readProcessLog, h]
  · intro w
    rcases hu (α := TailAns) with h | ⟨c, h⟩
    · cases found
      · simp [tailProcessLog, h, raiseFault, faultCode, faults, List.lookup]
      · cases lf <;> simp [tailProcessLog, h, decodeLog, tailDecodeTolerant]
    · simp [tailProcessLog, h]

-- non-vacuity: a window cutting "é" (c3 a9) and a binary log
example : readLog pyDecoders 1 (.present [0x61, 0xc3, 0xa9, 0x62]) 0 2 = .ok [0x61, 0xEF, 0xBF, 0xBD] := by decide
example : readLog pyDecoders 1 (.present [0xff, 0xfe, 0x00]) 0 0 = .ok [0xEF, 0xBF, 0xBD, 0xEF, 0xBF, 0xBD, 0x00] := by decide
example : readLog pyDecoders 1 .missing 0 0 = .fault 20 := by decide
example : readLog pyDecoders 0 .missing 0 0 = .fault 6 := by decide
example : tailProcessLog pyDecoders 1 true (.present [0x61, 0xc3, 0xa9]) 0 1 = .ok ⟨[0xEF, 0xBF, 0xBD], 3, true⟩ := by decide

/-! ## tail_f_producer (/logtail, /mainlogtail) -/

/-- fixed inode (or the path momentarily unlinked), append-only growth -/
def Appends (ino : Int) : Bytes → List Obs → Prop
  | _, [] => True
  | c, o :: rest => (o.pathIno = none ∨ o.pathIno = some ino) ∧ c <+: o.content ∧ Appends ino o.content rest

def lastContent : Bytes → List Obs → Bytes
  | c, [] => c
  | _, o :: rest => lastContent o.content rest

theorem appends_prefix (ino : Int) (c : Bytes) (obs : List Obs) (h : Appends ino c obs) :
    c <+: lastContent c obs := by
  induction obs generalizing c with
  | nil => exact List.prefix_refl _
  | cons o rest ih =>
    obtain ⟨_, hp, hr⟩ := h
    exact List.IsPrefix.trans hp (ih _ hr)

theorem follow_same (t : TF) (o : Obs) (h : o.pathIno = none ∨ o.pathIno = some t.ino) : follow t o = t := by
  rcases h with h | h <;> simp [follow, h, tfFollow_g0]

/-- one `more()` on the same file that has only grown: exactly the new bytes, or NOT_DONE_YET -/
theorem more_append (t : TF) (o : Obs) (h : o.pathIno = none ∨ o.pathIno = some t.ino)
    (h0 : 0 ≤ t.sz) (h1 : t.sz ≤ o.content.length) :
    more t o = ({ t with sz := o.content.length },
                if t.sz < o.content.length then .data (o.content.drop t.sz.toNat) else .notDone) := by
  simp only [more, follow_same t o h, tfMore_g0, tfMore_g1, tfMore_a3, tfMore_a6, tfMore_c0_0, tfMore_c0_1,
    tfMore_c1_0, seekRead, ilt_iff]
  have hn : ¬ ((o.content.length : Int) - t.sz < 0) := by omega
  simp only [hn, if_false]
  by_cases hg : (0 : Int) < o.content.length - t.sz
  · have : t.sz < o.content.length := by omega
    simp only [hg, this, if_true]
    congr 2
    have e : ((o.content.length : Int) + -(o.content.length - t.sz)) = t.sz := by omega
    simp only [beq_self_eq_true, if_true, e]
    apply List.take_of_length_le
    simp only [List.length_drop]; omega
  · have : ¬ t.sz < o.content.length := by omega
    simp only [hg, this, if_false]
    cases t; simp_all; omega

theorem tailf_appends_aux (t : TF) (c : Bytes) (o : Obs) (obs : List Obs)
    (h0 : 0 ≤ t.sz) (h1 : t.sz ≤ c.length) (ha : Appends t.ino c (o :: obs)) :
    outBytes (run t (o :: obs)) = (lastContent c (o :: obs)).drop t.sz.toNat
    ∧ hasMarker (run t (o :: obs)) = false
    ∧ finalState t (o :: obs) = { t with sz := (lastContent c (o :: obs)).length } := by
  induction obs generalizing t c o with
  | nil =>
    obtain ⟨hi, hp, _⟩ := ha
    have hl : c.length ≤ o.content.length := hp.length_le
    have hm := more_append t o hi h0 (by omega)
    simp only [run, finalState, lastContent, hm]
    by_cases hg : t.sz < o.content.length
    · simp [hg, outBytes, hasMarker]
    · simp only [hg, if_false, outBytes, hasMarker, true_and, and_true]
      symm; apply List.drop_of_length_le; omega
  | cons o' rest ih =>
    obtain ⟨hi, hp, ha'⟩ := ha
    have hl : c.length ≤ o.content.length := hp.length_le
    have hm := more_append t o hi h0 (by omega)
    have ih' := ih { t with sz := o.content.length } o.content o' (by simp) (by simp) ha'
    have hpre : o.content <+: lastContent o.content (o' :: rest) := appends_prefix t.ino _ _ ha'
    obtain ⟨x, hx⟩ := hpre
    rw [run, finalState, hm]
    simp only [lastContent] at ih' hx ⊢
    obtain ⟨ih1, ih2, ih3⟩ := ih'
    refine ⟨?_, ?_, ?_⟩
    · have hd : (lastContent o'.content rest).drop t.sz.toNat = o.content.drop t.sz.toNat ++ x := by
        rw [← hx, List.drop_append_of_le_length (by omega)]
      have hd2 : (lastContent o'.content rest).drop o.content.length = x := by
        rw [← hx]; simp
      simp only [Int.toNat_natCast] at ih1
      by_cases hg : t.sz < o.content.length
      · simp only [hg, if_true, outBytes, ih1, hd, hd2]
      · simp only [hg, if_false, outBytes, ih1, hd, hd2]
        have : o.content.drop t.sz.toNat = [] := by apply List.drop_of_length_le; omega
        simp [this]
    · by_cases hg : t.sz < o.content.length <;> simp only [hg, if_true, if_false, hasMarker, ih2]
    · simpa using ih3


/-- **tailf_appends.**  While the log file stays the same file (fixed inode, or the path briefly
    unlinked) and only grows, the concatenation of everything `more()` returns over any number of
    polls is exactly the file from the producer's offset to its current end: every appended
    byte, in order, none twice; no truncation marker is emitted. -/
theorem tailf_appends (t : TF) (c : Bytes) (o : Obs) (obs : List Obs)
    (h0 : 0 ≤ t.sz) (h1 : t.sz ≤ c.length) (ha : Appends t.ino c (o :: obs)) :
    outBytes (run t (o :: obs)) = (lastContent c (o :: obs)).drop t.sz.toNat
    ∧ hasMarker (run t (o :: obs)) = false :=
  ⟨(tailf_appends_aux t c o obs h0 h1 ha).1, (tailf_appends_aux t c o obs h0 h1 ha).2.1⟩

/-- the producer's offset after construction: the file is entered `head` bytes before its end -/
theorem tailf_init (ino : Int) (c : Bytes) (head : Int) :
    (init ino c head).ino = ino ∧ (init ino c head).sz = max 0 ((c.length : Int) - head) := by
  simp only [init, tfInit_g0, tfInit_a4, tfOpen_a2, ile_iff]
  split <;> simp <;> omega

/-- **initial tail + appended bytes**: a fresh producer delivers the last `min head size` bytes of
    the log as it was when the stream was opened, followed by exactly the bytes appended since. -/
theorem tailf_stream (ino : Int) (c : Bytes) (head : Int) (hh : 0 ≤ head) (o : Obs) (obs : List Obs)
    (ha : Appends ino c (o :: obs)) :
    ∃ added, lastContent c (o :: obs) = c ++ added ∧
      outBytes (run (init ino c head) (o :: obs)) = lastN head c ++ added := by
  obtain ⟨hi, hs⟩ := tailf_init ino c head
  obtain ⟨x, hx⟩ := appends_prefix ino c (o :: obs) ha
  refine ⟨x, hx.symm, ?_⟩
  have := (tailf_appends (init ino c head) c o obs (by omega) (by omega) (by rw [hi]; exact ha)).1
  rw [this, ← hx, hs, List.drop_append_of_le_length (by omega)]
  congr 1
  unfold lastN
  congr 1
  omega

/-- **tailf_restart (rotation).**  When the path names another inode, this very `more()` reopens
    and delivers the new file from its first byte. -/
theorem tailf_restart_rotated (t : TF) (o : Obs) (i : Int) (hi : o.pathIno = some i) (hne : i ≠ t.ino) :
    more t o = ({ ino := i, sz := o.content.length },
                if o.content = [] then .notDone else .data o.content) := by
  have hne' : (t.ino != i) = true := by simp [bne_iff_ne]; exact fun h => hne h.symm
  simp only [more, follow, hi, tfFollow_g0, hne', if_true, tfOpen_a2, tfMore_g0, tfMore_g1, tfMore_a3, tfMore_a6,
    tfMore_c0_0, tfMore_c0_1, tfMore_c1_0, seekRead, ilt_iff]
  have hn : ¬ ((o.content.length : Int) - 0 < 0) := by omega
  simp only [hn, if_false]
  by_cases he : o.content = []
  · simp [he]
  · have hpos : 0 < o.content.length := List.length_pos_iff.mpr he
    have hg : (0 : Int) < (o.content.length : Int) - 0 := by omega
    simp only [hg, he, if_true, if_false]
    congr 2
    have e : ((o.content.length : Int) + -((o.content.length : Int) - 0)).toNat = 0 := by omega
    simp only [beq_self_eq_true, if_true, e]; simp

/-- **tailf_restart (cleared / truncated).**  When the open file is shorter than the producer's
    offset, `more()` answers the truncation marker and rewinds to offset 0, so that (by
    `tailf_appends` with `sz = 0`) everything delivered afterwards is the new content from its
    first byte. -/
theorem tailf_restart_truncated (t : TF) (o : Obs) (hi : o.pathIno = none ∨ o.pathIno = some t.ino)
    (hs : (o.content.length : Int) < t.sz) :
    ∃ m, more t o = ({ t with sz := 0 }, .marker m) ∧
      ∀ o' obs, Appends t.ino o.content (o' :: obs) →
        outBytes (run (more t o).1 (o' :: obs)) = lastContent o.content (o' :: obs) := by
  have hm : more t o = ({ t with sz := 0 }, .marker (tfMore_a4 t.sz o.content.length)) := by
    simp only [more, follow_same t o hi, tfMore_g0, tfMore_a3, ilt_iff]
    have : (o.content.length : Int) - t.sz < 0 := by omega
    simp [this]
  refine ⟨_, hm, ?_⟩
  intro o' obs ha
  rw [hm]
  have := (tailf_appends { t with sz := 0 } o.content o' obs (by simp) (by simp) ha).1
  simpa using this

-- non-vacuity
example : Appends 7 [1,2] [⟨some 7, [1,2,3]⟩, ⟨none, [1,2,3]⟩, ⟨some 7, [1,2,3,4,5]⟩] := by
  simp [Appends]
example : run (init 7 [1,2,3] 2) [⟨some 7, [1,2,3]⟩, ⟨some 7, [1,2,3,4]⟩, ⟨some 7, [1,2,3,4]⟩, ⟨some 7, [9]⟩, ⟨some 7, [9,8]⟩, ⟨some 8, [5,6]⟩]
    = [.data [2,3], .data [4], .notDone, .marker (tfMore_a4 0 0), .data [9,8], .data [5,6]] := by decide
/-- outside the property (DESIGN C16): a file cleared and regrown past the old offset between two
    polls is indistinguishable from an append -/
example : run ⟨7, 3⟩ [⟨some 7, [9,9,9,9]⟩] = [.data [9]] := by decide


/-! ## the chunked stream: encoder, bundled client, fragmentation -/

/-- the producer never fails on text from the wrapped producer (the truncation marker is a `str`):
    regression statement of F8, over the generated flag `encConvertsText` -/
theorem chunk_encode_total (e : Enc) (it : Item) : (encMore e it).2 ≠ .excTypeError := by
  cases it <;> simp [encMore, encChunk, encConvertsText] <;> (repeat' split) <;> simp

/-- what `more()` answers for a non-empty piece of data, bytes or text alike -/
theorem chunk_encode_data (b : Bytes) (hb : b ≠ []) :
    encMore {} (.bytes b) = ({}, .out (encodeChunk b)) ∧ encMore {} (.text b) = ({}, .out (encodeChunk b)) := by
  have : b.isEmpty = false := by simpa using hb
  simp [encMore, encChunk, encMore_g2, this, encConvertsText]

/-- **decoder_fragmentation_invariant.**  Whatever way the byte stream is cut into segments
    (`recv` results), the bundled client ends in the state of the byte-at-a-time automaton run
    over the concatenation: same `feed` calls in the same order, same done/error status.  In
    particular two fragmentations of one stream are indistinguishable. -/
theorem decoder_fragmentation_invariant (segs : List Bytes) (hne : segs ≠ []) :
    (feedAll initDec segs).core = (refDecode segs.flatten).core := by
  have := feedAll_core segs hne initDec
  simpa [refDecode, Chunked.abs, initDec] using this

theorem decoder_fragmentation_invariant' (segs segs' : List Bytes) (hne : segs ≠ []) (hne' : segs' ≠ [])
    (h : segs.flatten = segs'.flatten) : (feedAll initDec segs).core = (feedAll initDec segs').core := by
  rw [decoder_fragmentation_invariant segs hne, decoder_fragmentation_invariant segs' hne', h]

/-- **chunk_roundtrip.**  For every list of non-empty data pieces, under every fragmentation of
    the encoded stream, the client feeds its listener exactly those pieces, in order (so the
    reassembled bytes are `cs.flatten`), raises nothing and does not report the end. -/
theorem chunk_roundtrip (cs : List Bytes) (hcs : ∀ d ∈ cs, d ≠ []) (segs : List Bytes) (hne : segs ≠ [])
    (h : segs.flatten = encode cs) :
    (feedAll initDec segs).core.fed = cs ∧ (feedAll initDec segs).core.err = none ∧
    (feedAll initDec segs).core.done = false := by
  rw [decoder_fragmentation_invariant segs hne, h]
  have := step_chunks cs {} rfl rfl hcs
  simp only [refDecode, abs0, initDec] at this ⊢
  rw [this]
  simp

/-- with the last-chunk appended the client moves to the trailer part, all data delivered.
    (It never calls `listener.done()`: `HTTPHandler.trailer` compares the collected line — from
    which asynchat has already stripped the terminator — with CRLF.  The /logtail stream never
    ends, so this is outside the property; noted in the report.) -/
theorem chunk_roundtrip_closed (cs : List Bytes) (hcs : ∀ d ∈ cs, d ≠ []) (segs : List Bytes) (hne : segs ≠ [])
    (h : segs.flatten = encode cs ++ lastChunk) :
    (feedAll initDec segs).core = { part := .trailer, fed := cs, done := false, err := none } := by
  rw [decoder_fragmentation_invariant segs hne, h]
  have h1 := step_chunks cs {} rfl rfl hcs
  simp only [refDecode, abs0, initDec, List.foldl_append] at h1 ⊢
  rw [h1, step_last _ rfl rfl]
  simp

/-- the terminator the client searches for is the one the model's search is written for -/
theorem client_crlf : clientCRLF = [13, 10] := by decide

-- non-vacuity
example : encode [[104, 105], [33]] = [50, 13, 10, 104, 105, 13, 10, 49, 13, 10, 33, 13, 10] := by decide
example : (feedAll initDec [[50, 13], [10, 104], [105, 13, 10, 49, 13, 10, 33, 13], [10]]).core.fed = [[104, 105], [33]] := by
  decide
example : (encMore {} (.text [61, 61, 62])).2 = .out [51, 13, 10, 61, 61, 62, 13, 10] := by decide
example : (encMore {} (.bytes [])).2 = .out [48, 13, 10, 13, 10] := by decide

end Sv.Props.C16

/-! ## The channel's output buffer: between the producers and the socket

  `deferring_http_channel.refill_buffer` + `async_chat.initiate_send` (Model/OutBuf.lean; the refill
  expression, the refill test, what is offered to `send()` and what is kept afterwards are generated
  definitions `chRefill_a4`, `initSend_g0`, `initSend_c0_0`, `initSend_a2`).  The producers are any
  list of answers (pieces of any size, NOT_DONE_YET, exhausted producers); the socket accepts any
  number of the offered bytes on each call. -/
namespace Sv.Props.C16
open Sv Sv.OutBuf Sv.Gen.Chunked Sv.Chunked

/-- the methods that touch the output buffer are the ones modelled: `deferring_http_channel` defines
    `refill_buffer` only, medusa's `http_channel` none of them, `async_chat` provides `initiate_send`
    (called by `handle_write` and `push_with_producer`); `refill_buffer` assigns the buffer in two
    places (a bytes object from the fifo, a producer's piece), both modelled; the buffer size is positive -/
theorem outbuf_source_shape :
    outbuf_methods_deferring_http_channel = ["refill_buffer"] ∧ outbuf_methods_http_channel = [] ∧
    outbuf_methods_async_chat = ["initiate_send", "handle_write", "refill_buffer", "push_with_producer", "discard_buffers"] ∧
    refillAssignsOutBuffer.length = 2 ∧ 1 ≤ chanOutBufferSize := by decide

/-- a bytes object taken from the fifo is appended as well -/
theorem refill_bytes_object_appends (buf p : Bytes) : chRefill_a1 buf p = buf ++ p := rfl

/-- `refill_buffer` appends: the buffer afterwards is the buffer before followed by exactly what the
    producers handed over, and those bytes are the data of the answers consumed -/
theorem refill_appends (buf : Bytes) (pending : List Ans) :
    (refill buf pending).buf = buf ++ (refill buf pending).got ∧
    (refill buf pending).got ++ dataOf (refill buf pending).pending = dataOf pending := by
  induction pending with
  | nil => simp [refill, dataOf]
  | cons a rest ih =>
    cases a with
    | notDone => simp [refill, dataOf]
    | data d =>
      unfold refill
      by_cases h : chRefill_g6 buf d = true
      · simp [h, chRefill_a4, dataOf]
      · have hd : d = [] := by simpa [chRefill_g6] using h
        have h' : chRefill_g6 buf d = false := by simpa using h
        simp only [h', Bool.false_eq_true, if_false, dataOf, hd, List.nil_append]
        exact ih

theorem refillIfLow_appends (obs : Int) (c : Chan) :
    (refillIfLow obs c).buf = c.buf ++ (refillIfLow obs c).got ∧
    (refillIfLow obs c).got ++ dataOf (refillIfLow obs c).pending = dataOf c.pending := by
  unfold refillIfLow
  split
  · exact refill_appends c.buf c.pending
  · simp

/-- nothing lost, nothing duplicated, order kept: what the socket accepted followed by what is still
    buffered is what the producers handed over … -/
def Inv (c : Chan) : Prop := c.sent ++ c.buf = c.yielded

theorem initiateSend_inv (obs : Int) (k : Nat) (c : Chan) (h : Inv c) : Inv (initiateSend obs k c) := by
  have hr := (refillIfLow_appends obs c).1
  unfold Inv at *
  unfold initiateSend
  simp only
  split
  · rename_i hgo
    simp only [initSend_c0_0, initSend_a2, pySliceTo, pySliceFrom, Int.toNat_natCast, List.take_take]
    have hmin : min (min k (List.take obs.toNat (refillIfLow obs c).buf).length) obs.toNat =
        min k (List.take obs.toNat (refillIfLow obs c).buf).length := by
      simp only [List.length_take]; omega
    rw [hmin, List.append_assoc, List.take_append_drop, hr, ← List.append_assoc, h]
  · rw [hr, ← List.append_assoc, h]

theorem run_inv (obs : Int) (ks : List Nat) : ∀ c : Chan, Inv c → Inv (run obs ks c) := by
  induction ks with
  | nil => intro c h; exact h
  | cons k ks ih => intro c h; exact ih _ (initiateSend_inv obs k c h)

/-- … and what they handed over, followed by what they have yet to answer, is what they answer in all -/
def Inv2 (total : Bytes) (c : Chan) : Prop := c.yielded ++ dataOf c.pending = total

theorem initiateSend_inv2 (obs : Int) (k : Nat) (total : Bytes) (c : Chan) (h : Inv2 total c) :
    Inv2 total (initiateSend obs k c) := by
  have hr := (refillIfLow_appends obs c).2
  unfold Inv2 at *
  unfold initiateSend
  simp only
  rw [List.append_assoc, hr, h]

theorem run_inv2 (obs : Int) (total : Bytes) (ks : List Nat) : ∀ c : Chan, Inv2 total c → Inv2 total (run obs ks c) := by
  induction ks with
  | nil => intro c h; exact h
  | cons k ks ih => intro c h; exact ih _ (initiateSend_inv2 obs k total c h)

/-- **outbuf_conserves.**  For every buffer size, every list of producer answers and every schedule
    of how many bytes the socket accepts on each `initiate_send`: the bytes sent so far, followed by
    the bytes still in the channel's buffer, followed by the bytes the producers have yet to hand
    over, are exactly the bytes the producers answer, in order — no byte is lost, repeated or moved. -/
theorem outbuf_conserves (obs : Int) (answers : List Ans) (accepts : List Nat) :
    (run obs accepts { pending := answers }).sent ++ (run obs accepts { pending := answers }).buf ++
      dataOf (run obs accepts { pending := answers }).pending = dataOf answers := by
  have h1 : Inv (run obs accepts { pending := answers }) := run_inv obs accepts _ (by simp [Inv])
  have h2 : Inv2 (dataOf answers) (run obs accepts { pending := answers }) := run_inv2 obs _ accepts _ (by simp [Inv2])
  unfold Inv at h1; unfold Inv2 at h2
  rw [h1, h2]

/-! #### the buffer drains: every byte the producers hand over is eventually sent -/

/-- bytes still to be sent plus answers still to be asked for -/
def todo (c : Chan) : Nat := c.buf.length + (dataOf c.pending).length + c.pending.length

theorem refill_pending_le (buf : Bytes) (pending : List Ans) :
    (refill buf pending).pending.length ≤ pending.length ∧
    (pending ≠ [] → (refill buf pending).pending.length < pending.length) := by
  induction pending with
  | nil => simp [refill]
  | cons a rest ih =>
    cases a with
    | notDone => simp [refill]
    | data d =>
      unfold refill
      by_cases h : chRefill_g6 buf d = true
      · simp [h]
      · have h' : chRefill_g6 buf d = false := by simpa using h
        simp only [h', Bool.false_eq_true, if_false, List.length_cons, ne_eq, reduceCtorEq, not_false_eq_true, forall_const]
        omega

theorem refillIfLow_todo (obs : Int) (c : Chan) :
    (refillIfLow obs c).buf.length + (dataOf (refillIfLow obs c).pending).length = c.buf.length + (dataOf c.pending).length ∧
    (refillIfLow obs c).pending.length ≤ c.pending.length := by
  obtain ⟨h1, h2⟩ := refillIfLow_appends obs c
  constructor
  · have := congrArg List.length h2
    rw [h1]
    simp only [List.length_append] at this ⊢
    omega
  · unfold refillIfLow
    split
    · exact (refill_pending_le c.buf c.pending).1
    · simp

theorem initiateSend_todo (obs : Int) (k : Nat) (c : Chan) (hobs : 1 ≤ obs) (hk : 1 ≤ k) :
    todo (initiateSend obs k c) + 1 ≤ todo c ∨ (todo c = 0 ∧ todo (initiateSend obs k c) = 0) := by
  obtain ⟨h1, h2⟩ := refillIfLow_todo obs c
  have hap := (refillIfLow_appends obs c).1
  by_cases hb : (refillIfLow obs c).buf = []
  · -- nothing to send: the buffer was empty, so the refill was attempted
    have hcb : c.buf = [] := by
      have := congrArg List.length hap
      rw [hb] at this
      simp only [List.length_nil, List.length_append] at this
      exact List.eq_nil_of_length_eq_zero (by omega)
    have hlow : initSend_g0 c.buf obs 0 true = true := by simp [initSend_g0, hcb]; omega
    have hstep : todo (initiateSend obs k c) = (refillIfLow obs c).buf.length + (dataOf (refillIfLow obs c).pending).length + (refillIfLow obs c).pending.length := by
      simp [todo, initiateSend, hb, initSend_g1]
    by_cases hp : c.pending = []
    · right
      have hz : (refillIfLow obs c).pending.length = 0 := by rw [hp] at h2; simpa using h2
      have hd : (dataOf c.pending).length = 0 := by rw [hp]; simp [dataOf]
      have hcl : c.buf.length = 0 := by rw [hcb]; rfl
      have hpl : c.pending.length = 0 := by rw [hp]; rfl
      refine ⟨?_, ?_⟩
      · unfold todo; omega
      · rw [hstep]; omega
    · left
      have hlt : (refillIfLow obs c).pending.length < c.pending.length := by
        unfold refillIfLow
        simp only [hlow, if_true]
        exact (refill_pending_le c.buf c.pending).2 hp
      rw [hstep]; unfold todo; omega
  · left
    have hlen : 1 ≤ (refillIfLow obs c).buf.length := by
      cases hh : (refillIfLow obs c).buf with
      | nil => exact absurd hh hb
      | cons _ _ => simp
    have hoff : (initSend_c0_0 (refillIfLow obs c).buf obs 0 true).length = min obs.toNat (refillIfLow obs c).buf.length := by
      simp [initSend_c0_0, pySliceTo]
    have hn : 1 ≤ min k (initSend_c0_0 (refillIfLow obs c).buf obs 0 true).length := by rw [hoff]; omega
    have hn2 : min k (initSend_c0_0 (refillIfLow obs c).buf obs 0 true).length ≤ (refillIfLow obs c).buf.length := by rw [hoff]; omega
    have hgo : (initSend_g1 (refillIfLow obs c).buf obs 0 true &&
        initSend_g2 (refillIfLow obs c).buf obs ((min k (initSend_c0_0 (refillIfLow obs c).buf obs 0 true).length : Nat) : Int) true) = true := by
      have : (refillIfLow obs c).buf.isEmpty = false := by simpa using hb
      simp only [initSend_g1, initSend_g2, this, Bool.not_false, Bool.and_true, Bool.true_and, bne_iff_ne, ne_eq]
      omega
    simp only [todo, initiateSend, hgo, if_true, initSend_a2, pySliceFrom, Int.toNat_natCast, List.length_drop]
    omega

theorem run_todo (obs : Int) (hobs : 1 ≤ obs) (ks : List Nat) (hks : ∀ k ∈ ks, 1 ≤ k) :
    ∀ c : Chan, todo (run obs ks c) ≤ todo c - ks.length := by
  induction ks with
  | nil => intro c; simp [run]
  | cons k ks ih =>
    intro c
    have hk : 1 ≤ k := hks k (by simp)
    have := ih (fun k' hk' => hks k' (by simp [hk'])) (initiateSend obs k c)
    simp only [run, List.length_cons]
    rcases initiateSend_todo obs k c hobs hk with h | ⟨h0, h1⟩ <;> omega

/-- **outbuf_delivers_everything.**  With a positive buffer size and a socket that accepts at least
    one byte whenever it is offered some, after enough `initiate_send` calls the buffer is empty, no
    answer is outstanding and the bytes sent are exactly the bytes the producers answered — whatever
    the sizes of the pieces (larger or smaller than the buffer size) and whatever the amounts the
    socket accepted each time. -/
theorem outbuf_delivers_everything (obs : Int) (hobs : 1 ≤ obs) (answers : List Ans) (accepts : List Nat)
    (hacc : ∀ k ∈ accepts, 1 ≤ k) (hlen : (dataOf answers).length + answers.length ≤ accepts.length) :
    (run obs accepts { pending := answers }).sent = dataOf answers ∧
    (run obs accepts { pending := answers }).buf = [] ∧ (run obs accepts { pending := answers }).pending = [] := by
  have ht : todo (run obs accepts { pending := answers }) = 0 := by
    have := run_todo obs hobs accepts hacc { pending := answers }
    have h0 : todo ({ pending := answers } : Chan) = (dataOf answers).length + answers.length := by simp [todo]
    omega
  have hb : (run obs accepts { pending := answers }).buf = [] :=
    List.eq_nil_of_length_eq_zero (by unfold todo at ht; omega)
  have hp : (run obs accepts { pending := answers }).pending = [] :=
    List.eq_nil_of_length_eq_zero (by unfold todo at ht; omega)
  have h' := outbuf_conserves obs answers accepts
  refine ⟨?_, hb, hp⟩
  rw [hb, hp] at h'
  simpa [dataOf] using h'

/-- **logtail_stream_through_channel.**  The chunked /logtail stream through the channel's buffer and
    the network: if the producers answer (in pieces of any size, with any NOT_DONE_YET in between)
    the encoding of the chunk list `cs`, then for every send-size schedule as above and every
    fragmentation of what was sent into TCP segments, the bundled client feeds its listener exactly
    `cs`, in order, without error. -/
theorem logtail_stream_through_channel (cs : List Bytes) (hcs : ∀ d ∈ cs, d ≠ [])
    (obs : Int) (hobs : 1 ≤ obs) (answers : List Ans) (hans : dataOf answers = encode cs)
    (accepts : List Nat) (hacc : ∀ k ∈ accepts, 1 ≤ k) (hlen : (dataOf answers).length + answers.length ≤ accepts.length)
    (segs : List Bytes) (hne : segs ≠ []) (hsegs : segs.flatten = (run obs accepts { pending := answers }).sent) :
    (feedAll initDec segs).core.fed = cs ∧ (feedAll initDec segs).core.err = none := by
  have h := (outbuf_delivers_everything obs hobs answers accepts hacc hlen).1
  rw [h, hans] at hsegs
  have := chunk_roundtrip cs hcs segs hne hsegs
  exact ⟨this.1, this.2.1⟩


-- non-vacuity: buffer size 4, pieces of 6 and 2 bytes with a NOT_DONE_YET between, the socket accepting 4, 1, 4, 4, 4 bytes
example : (OutBuf.run 4 [4, 1, 4, 4, 4] { pending := [.data [1, 2, 3, 4, 5, 6], .notDone, .data [7, 8]] }).sent = [1, 2, 3, 4, 5, 6, 7, 8] := by decide
example : (OutBuf.run 4 [4, 1] { pending := [.data [1, 2, 3, 4, 5, 6], .data [7, 8]] }) =
    { buf := [6, 7, 8], pending := [], sent := [1, 2, 3, 4, 5], yielded := [1, 2, 3, 4, 5, 6, 7, 8], asked := 2 } := by decide
example : dataOf [.data [50, 13, 10, 104, 105, 13, 10], .notDone, .data [49, 13, 10, 33, 13, 10]] = encode [[104, 105], [33]] := by decide

end Sv.Props.C16
