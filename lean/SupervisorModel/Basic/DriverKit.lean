import SupervisorModel.Basic.Bytes
/-
  Line-protocol driver kit.  Input:
    case <model> <cfg...>
    <op line>*
    end
  For each case the model's `runCase cfg ops` yields one output line per op; the driver prints
  them followed by `end <n>`.  An unknown model answers `bad-model`.  Each property (or group
  of properties sharing a model) has its own small executable under Drivers/, so that a
  break in one model never takes another property's driver down.
-/
namespace Sv

abbrev Handler := List String → List String → List String

partial def readAllLines (h : IO.FS.Stream) (acc : Array String) : IO (Array String) := do
  let line ← h.getLine
  if line.isEmpty then return acc
  readAllLines h (acc.push (if line.endsWith "\n" then (line.dropEnd 1).toString else line))

def driverMain (handlers : List (String × Handler)) : IO Unit := do
  let stdin ← IO.getStdin
  let stdout ← IO.getStdout
  let lines ← readAllLines stdin #[]
  let mut i := 0
  while i < lines.size do
    let l := lines[i]!
    i := i + 1
    match words l with
    | "case" :: model :: cfg =>
      let mut ops : Array String := #[]
      while i < lines.size && lines[i]! != "end" do
        ops := ops.push lines[i]!
        i := i + 1
      i := i + 1
      match handlers.lookup model with
      | some h =>
        for o in h cfg ops.toList do stdout.putStrLn o
        stdout.putStrLn s!"end {ops.size}"
      | none => stdout.putStrLn "bad-model"
    | [] => pure ()
    | _ => stdout.putStrLn "bad-line"
  stdout.flush

end Sv
