import SupervisorModel.Basic.DriverKit
import SupervisorModel.Model.Envelope
import SupervisorModel.Model.Tick
import SupervisorModel.Model.Notify
import SupervisorModel.Model.Pool
def main : IO Unit := Sv.driverMain [("envelope", Sv.Envelope.runCase), ("tick", Sv.Tick.runCase),
  ("groups", Sv.Notify.runGroups), ("finish", Sv.Notify.runFinish), ("change", Sv.Notify.runChange),
  ("pool", Sv.Pool.runCase)]
