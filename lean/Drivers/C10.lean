import SupervisorModel.Basic.DriverKit
import SupervisorModel.Model.Listener
def main : IO Unit := Sv.driverMain [("listener", Sv.Listener.runCase)]
