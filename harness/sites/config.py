"""
Configuration parsing (supervisor/options.py, supervisor/datatypes.py, docs/configuration.rst).

TABLES (all regenerated from the working tree):
  optTable      every `get(section, 'opt', default, ...)` / `get('opt', default)` call of
                ServerOptions._processes_from_section, process_groups_from_parser (per section loop) and
                read_config, with the converter wrapped directly around it, the default as written, and
                whether do_expand=False is passed.  Option names built in the `for k in ('stdout','stderr')`
                loop ('%s_logfile' % k ...) are resolved by evaluating the loop.
  docTable      the "*Default*:" line of every option of docs/configuration.rst, per section.
                NORMALISATION (the only places where wording is interpreted): RST literal quotes are
                removed; a default whose wording starts with "No "/"no "/"Do not"/"do not"/"Uses "/"value of"
                means "nothing is set" (kind "unset"); "Uses "/"value of"/an RST role (:file:,
                :func:)/"socket." describes a computed value (kind "opaque", only the option's existence is
                compared); serverurl's documented "AUTO" is "unset" because options.py maps AUTO to None.
  truthy/falsy, logfileNones/Autos/Syslogs, byteSuffixes, forbiddenNameChars, processNumMarker,
  eventNames (EventTypes registry: upper-case attribute -> class name), sigNames / sigNums
  (the running interpreter's signal module, as used by datatypes.signal_number), autorestartWords.
SITES: the numeric guards of the constraints (numprocs > 1, stopasgroup and not killasgroup,
  exit-code range, buffer_size < 1, the process_num range bounds).
"""
import ast, os, re
from extract import Site, REPO, lean_str, Tr

LEAN_MODULE = 'Config'
IMPORTS = ['SupervisorModel.Model.ConfigTypes']
OPENS = ['Sv.Config']

OPT = 'supervisor/options.py'
DT = 'supervisor/datatypes.py'


def _tree(rel):
    return ast.parse(open(os.path.join(REPO, rel)).read())


def _find(tree, qual):
    body = tree.body
    node = None
    for p in qual.split('.'):
        node = next((n for n in body if isinstance(n, (ast.ClassDef, ast.FunctionDef)) and n.name == p), None)
        if node is None:
            raise KeyError(qual)
        body = node.body
    return node


def _dflt(node, env):
    if node is None:
        return 'Dflt.required'
    if isinstance(node, ast.Constant):
        v = node.value
        if v is None: return 'Dflt.none'
        if isinstance(v, bool): return 'Dflt.bool ' + ('true' if v else 'false')
        if isinstance(v, int): return 'Dflt.int (%d)' % v
        if isinstance(v, str): return 'Dflt.str ' + lean_str(v)
    if isinstance(node, ast.UnaryOp) and isinstance(node.op, ast.USub) and isinstance(node.operand, ast.Constant):
        return 'Dflt.int (%d)' % (-node.operand.value)
    if isinstance(node, ast.Name):
        if node.id == 'Automatic': return 'Dflt.auto'
        if node.id in env: return _dflt(ast.Constant(env[node.id]), env)
        return 'Dflt.ref ' + lean_str(node.id)
    raise ValueError('default not understood: ' + ast.unparse(node))


def _get_calls(stmts, nsec, env, parent_conv=None, out=None):
    """collect get(...) calls in statement list (source order), evaluating `for k in (<consts>)` loops and
       `name = '<fmt>' % k` assignments so that computed option names are resolved.
       nsec = number of leading 'section' arguments (1 for process sections, 0 for read_config)"""
    out = [] if out is None else out

    def has_get(e):
        return any(isinstance(n, ast.Call) and isinstance(n.func, ast.Name) and n.func.id == 'get' for n in ast.walk(e))

    def scan_expr(e, conv, fallback=None):
        if isinstance(e, (ast.BoolOp, ast.IfExp)) and has_get(e):
            # `get(...) or '<text>'`: an empty (falsy) looked-up value is replaced by <text> before it is converted.
            # Every other conditional form around a lookup is a statement the model does not know.
            if isinstance(e, ast.BoolOp) and isinstance(e.op, ast.Or) and len(e.values) == 2 and isinstance(e.values[0], ast.Call) \
                    and isinstance(e.values[0].func, ast.Name) and e.values[0].func.id == 'get' \
                    and isinstance(e.values[1], ast.Constant) and isinstance(e.values[1].value, str):
                scan_expr(e.values[0], conv, e.values[1].value)
                return
            raise ValueError('conditional expression around an option lookup not understood: ' + ast.unparse(e)[:100])
        if isinstance(e, ast.Call):
            f = e.func
            if isinstance(f, ast.Name) and f.id == 'get':
                args = e.args[nsec:]
                o = args[0]
                if isinstance(o, ast.Constant): name = o.value
                elif isinstance(o, ast.Name) and o.id in env: name = env[o.id]
                else: raise ValueError('option name not understood: ' + ast.unparse(e))
                d = args[1] if len(args) > 1 else None
                do_expand = True
                passes = False
                for k in e.keywords:
                    if k.arg == 'do_expand' and isinstance(k.value, ast.Constant):
                        do_expand = bool(k.value.value)
                    if k.arg == 'expansions' and ast.unparse(k.value) == 'expansions':
                        passes = True      # the caller's own dictionary is handed to the lookup
                out.append((name, conv or '', _dflt(d, env), do_expand, passes, fallback))
                return
            # converter(get(...)) : a call with exactly one positional argument which is the get call
            c = None
            if isinstance(f, ast.Name) and len(e.args) == 1 and not e.keywords:
                c = f.id
            for a in e.args:
                scan_expr(a, c if (len(e.args) == 1) else None)
            for k in e.keywords:
                scan_expr(k.value, None)
            if not isinstance(f, ast.Name):
                scan_expr(f, None)
            return
        for ch in ast.iter_child_nodes(e):
            if isinstance(ch, (ast.expr, ast.comprehension)):
                scan_expr(ch, None)

    for st in stmts:
        if isinstance(st, ast.FunctionDef):
            continue
        if isinstance(st, ast.For) and isinstance(st.target, ast.Name) and isinstance(st.iter, ast.Tuple) \
                and all(isinstance(x, ast.Constant) for x in st.iter.elts):
            for x in st.iter.elts:
                env2 = dict(env); env2[st.target.id] = x.value
                _get_calls(st.body, nsec, env2, None, out)
            continue
        if isinstance(st, ast.Assign) and len(st.targets) == 1 and isinstance(st.targets[0], ast.Name):
            v = st.value
            if isinstance(v, ast.BinOp) and isinstance(v.op, ast.Mod) and isinstance(v.left, ast.Constant) \
                    and isinstance(v.left.value, str) and isinstance(v.right, ast.Name) and v.right.id in env:
                env[st.targets[0].id] = v.left.value % env[v.right.id]
                continue
        for field in ('test', 'value', 'iter'):
            e = getattr(st, field, None)
            if isinstance(e, ast.expr):
                scan_expr(e, None)
        for field in ('body', 'orelse', 'finalbody'):
            b = getattr(st, field, None)
            if isinstance(b, list) and b and isinstance(b[0], ast.stmt):
                _get_calls(b, nsec, env, None, out)
        if isinstance(st, ast.Try):
            for h in st.handlers:
                _get_calls(h.body, nsec, env, None, out)
    return out


def _loop_scope(forstmt):
    """the section prefix a `for section in all_sections` loop of process_groups_from_parser handles"""
    for n in ast.walk(forstmt):
        if isinstance(n, ast.Call) and isinstance(n.func, ast.Attribute) and n.func.attr == 'startswith' \
                and n.args and isinstance(n.args[0], ast.Constant):
            return {'group:': 'group', 'program:': 'homogeneous', 'eventlistener:': 'eventlistener',
                    'fcgi-program:': 'fcgi'}.get(n.args[0].value, n.args[0].value)
    return '?'


def opt_rows():
    tree = _tree(OPT)
    rows = []
    f = _find(tree, 'ServerOptions._processes_from_section')
    for r in _get_calls(f.body, 1, {}):
        rows.append(('program',) + r[:4])
    f = _find(tree, 'ServerOptions.process_groups_from_parser')
    for st in f.body:
        if isinstance(st, ast.For):
            sc = _loop_scope(st)
            for r in _get_calls(st.body, 1, {}):
                rows.append((sc,) + r[:4])
    f = _find(tree, 'ServerOptions.read_config')
    for r in _get_calls(f.body, 0, {}):
        rows.append(('supervisord',) + r[:4])
    return rows


def fallback_rows():
    """[(scope, option, text)]: lookups written `get(...) or '<text>'` -- a present-but-empty value is replaced by <text>
    before the converter sees it.  Only understood for the once-per-section lookups (Model/Config.lean getField); in the
    numprocs loop it is an extraction error."""
    tree = _tree(OPT)
    rows = []
    f = _find(tree, 'ServerOptions._processes_from_section')
    loop_opts = {o for o, _ in loop_placement()['gets']} | {'environment'}
    for r in _get_calls(f.body, 1, {}):
        if r[5] is not None:
            if r[0] in loop_opts:
                raise ValueError("get(section, %r, ...) or %r inside the numprocs loop: not modelled" % (r[0], r[5]))
            rows.append(('program', r[0], r[5]))
    f = _find(tree, 'ServerOptions.process_groups_from_parser')
    for st in f.body:
        if isinstance(st, ast.For):
            sc = _loop_scope(st)
            for r in _get_calls(st.body, 1, {}):
                if r[5] is not None:
                    rows.append((sc, r[0], r[5]))
    f = _find(tree, 'ServerOptions.read_config')
    for r in _get_calls(f.body, 0, {}):
        if r[5] is not None:
            rows.append(('supervisord', r[0], r[5]))
    return rows


# ---- read_config: which dictionary the parser expands with, and when the sections are parsed -----------------------
_ENVIRON_COPIES = ('self.environ_expansions.copy()', 'dict(self.environ_expansions)', 'copy.copy(self.environ_expansions)',
                   'dict(**self.environ_expansions)', 'dict(self.environ_expansions.items())', 'copy.deepcopy(self.environ_expansions)')


def read_config_environ():
    """-> dict(shares=bool, groups_after=bool, servers_after=bool)
    shares: `parser.expansions = self.environ_expansions` binds the parser to the options' own dictionary (so what
            read_config later adds to self.environ_expansions is seen by parser.saneget); a copy does not.
    groups_after / servers_after: `section.process_group_configs = self.process_groups_from_parser(parser)` /
            `section.server_configs = self.server_configs_from_parser(parser)` stand AFTER the loop
            `for k, v in section.environment.items(): self.environ_expansions['ENV_%s' % k] = v`
    (top-level statements of read_config; any other shape is an extraction error: the model does not know it)."""
    f = _find(_tree(OPT), 'ServerOptions.read_config')
    binds = [n for n in ast.walk(f) if isinstance(n, ast.Assign) and len(n.targets) == 1
             and ast.unparse(n.targets[0]) == 'parser.expansions']
    if len(binds) != 1:
        raise ValueError('read_config: expected exactly one `parser.expansions = ...`, found %d' % len(binds))
    src = ast.unparse(binds[0].value)
    if src == 'self.environ_expansions':
        shares = True
    elif src in _ENVIRON_COPIES:
        shares = False
    else:
        raise ValueError('read_config: parser.expansions = %s: not a binding the model knows' % src)
    for n in ast.walk(f):
        if isinstance(n, ast.Attribute) and ast.unparse(n) == 'parser.expansions' and isinstance(n.ctx, ast.Store) and n is not binds[0].targets[0]:
            raise ValueError('read_config: parser.expansions is bound more than once')
    merge = groups = servers = None
    for i, st in enumerate(f.body):
        if isinstance(st, ast.For) and ast.unparse(st.iter) == 'section.environment.items()':
            body = [x for x in st.body if not isinstance(x, ast.Pass)]
            if len(body) != 1 or ast.unparse(body[0]).replace(' ', '').replace('"', "'") != "self.environ_expansions['ENV_%s'%k]=v" \
                    or ast.unparse(st.target).replace(' ', '') not in ('(k,v)', 'k,v'):
                raise ValueError('read_config: the loop that adds the [supervisord] environment to the ENV_ expansions is not understood: '
                                 + ast.unparse(st)[:120])
            if merge is not None:
                raise ValueError('read_config: two loops over section.environment.items()')
            merge = i
        if isinstance(st, ast.Assign) and len(st.targets) == 1:
            t, v = ast.unparse(st.targets[0]), ast.unparse(st.value)
            if t == 'section.process_group_configs':
                if v != 'self.process_groups_from_parser(parser)' or groups is not None:
                    raise ValueError('read_config: %s = %s: not understood' % (t, v))
                groups = i
            if t == 'section.server_configs':
                if v != 'self.server_configs_from_parser(parser)' or servers is not None:
                    raise ValueError('read_config: %s = %s: not understood' % (t, v))
                servers = i
    if merge is None or groups is None or servers is None:
        raise ValueError('read_config: %s not found among the top-level statements' % ', '.join(
            n for n, x in (('the ENV_ merge loop', merge), ('section.process_group_configs = ...', groups),
                           ('section.server_configs = ...', servers)) if x is None))
    return dict(shares=shares, groups_after=groups > merge, servers_after=servers > merge)


# ---- placement of the statements that bind / update the expansion dictionary of the numprocs loop ----------
_COPIES = ('dict(common_expansions)', 'common_expansions.copy()', 'copy.copy(common_expansions)', 'dict(**common_expansions)',
           'dict(common_expansions.items())')


def _key_step(key, val):
    if key == 'process_num' and val == 'process_num': return 'setProcessNum'
    if key == 'numprocs' and val == 'numprocs': return 'setNumprocs'
    raise ValueError('expansions[%r] = %s: not a statement the model knows' % (key, val))


def _exp_step(st):
    """the ExpStep constructors a statement stands for; None when it does not bind or update `expansions`"""
    if isinstance(st, ast.FunctionDef):
        return None
    if isinstance(st, ast.Assign) and len(st.targets) == 1:
        t = st.targets[0]
        if isinstance(t, ast.Name) and t.id == 'expansions':
            v = ast.unparse(st.value)
            if v == 'common_expansions': return ['alias']
            if v in _COPIES: return ['copy']
            raise ValueError('expansions = %s: not a binding the model knows' % v)
        if isinstance(t, ast.Subscript) and isinstance(t.value, ast.Name) and t.value.id == 'expansions' \
                and isinstance(t.slice, ast.Constant):
            return [_key_step(t.slice.value, ast.unparse(st.value))]
    if isinstance(st, ast.Expr) and isinstance(st.value, ast.Call) and ast.unparse(st.value.func) == 'expansions.update' \
            and len(st.value.args) == 1 and not st.value.keywords:
        a = st.value.args[0]
        if isinstance(a, ast.Dict) and all(isinstance(k, ast.Constant) for k in a.keys):
            return [_key_step(k.value, ast.unparse(v)) for k, v in zip(a.keys, a.values)]
        if ast.unparse(a) == 'self.environ_expansions':
            return ['resetEnviron']
        raise ValueError('expansions.update(%s): not an update the model knows' % ast.unparse(a))
    for n in ast.walk(st):
        if isinstance(n, ast.Name) and n.id == 'expansions' and isinstance(n.ctx, (ast.Store, ast.Del)):
            raise ValueError('statement binds `expansions` in a way the model does not know: ' + ast.unparse(st)[:80])
        if isinstance(n, ast.Attribute) and isinstance(n.value, ast.Name) and n.value.id == 'expansions' \
                and n.attr in ('update', 'pop', 'clear', 'setdefault', 'popitem'):
            raise ValueError('statement updates `expansions` in a way the model does not know: ' + ast.unparse(st)[:80])
    return None


def _has_get(st):
    return any(isinstance(n, ast.Call) and isinstance(n.func, ast.Name) and n.func.id == 'get' for n in ast.walk(st))


def loop_placement():
    """-> dict(pre=[steps before the loop], head=[steps at the head of the loop body], writeback=bool,
               gets=[(option, passes expansions=expansions)] of the loop body, reexpand=bool)
    Which statements are INSIDE the `for process_num in range(...)` loop is a fact the per-process
    independence theorem depends on (Props/C14.lean process_independent)."""
    f = _find(_tree(OPT), 'ServerOptions._processes_from_section')
    idx = next((i for i, n in enumerate(f.body) if isinstance(n, ast.For) and isinstance(n.target, ast.Name)
                and n.target.id == 'process_num'), None)
    if idx is None:
        raise ValueError('process_num loop not found')
    loop = f.body[idx]
    pre = []
    last_get = -1
    first_step = None
    for i, st in enumerate(f.body[:idx]):
        steps = _exp_step(st)
        if steps:
            if 'setProcessNum' in steps:
                raise ValueError('process_num used before the loop')
            pre.extend(steps)
            first_step = i if first_step is None else first_step
        elif not isinstance(st, ast.FunctionDef) and _has_get(st):
            last_get = i
    if first_step is not None and first_step < last_get:
        raise ValueError('`expansions` is bound before the last option lookup in front of the loop: placement not modelled')
    head = []
    body = list(loop.body)
    k = 0
    while k < len(body):
        st = body[k]
        if isinstance(st, ast.Assign) and len(st.targets) == 1 and isinstance(st.targets[0], ast.Name) \
                and st.targets[0].id == 'environment':
            break
        steps = _exp_step(st)
        if steps:
            head.extend(steps)
        elif _has_get(st):
            raise ValueError('option lookup before the environment is expanded: loop shape not modelled')
        k += 1
    if k >= len(body):
        raise ValueError('`environment = ...` not found in the loop')
    envsrc = ast.unparse(body[k].value).replace(' ', '')
    if not envsrc.startswith('dict_of_key_value_pairs(expand(environment_str,expansions,'):
        raise ValueError('environment statement not understood: ' + envsrc[:80])
    rest = body[k + 1:]
    writeback = False
    if rest and isinstance(rest[0], ast.For) and ast.unparse(rest[0].iter) == 'environment.items()' and len(rest[0].body) == 1 \
            and ast.unparse(rest[0].body[0]).replace(' ', '').replace('"', "'") == "expansions['ENV_%s'%k]=v":
        writeback = True
        rest = rest[1:]
    for st in rest:
        if _exp_step(st):
            raise ValueError('`expansions` is rebound after the environment was expanded: loop shape not modelled')
    gets = [(r[0], r[4]) for r in _get_calls(rest, 1, {})]
    reexpand = any(isinstance(n, ast.Call) and isinstance(n.func, ast.Name) and n.func.id == 'expand' and n.args
                   and isinstance(n.args[0], ast.Name) and n.args[0].id == 'lf_val' for st in rest for n in ast.walk(st))
    return dict(pre=pre, head=head, writeback=writeback, gets=gets, reexpand=reexpand)


# ---- read_config: the loop that overlays the [supervisord] environment with each program's own ---------------------
_ENV_COPIES = ('section.environment.copy()', 'dict(section.environment)', 'copy.copy(section.environment)', 'dict(**section.environment)',
               'dict(section.environment.items())', 'copy.deepcopy(section.environment)')


def env_merge_loop():
    """-> dict(copied=bool): `for group in section.process_group_configs: for proc in group.process_configs:
           env = section.environment.copy(); env.update(proc.environment); proc.environment = env`
    copied = the dictionary the program's environment is merged into is a fresh one per process (a statement of another
    shape is an extraction error: the model does not know it)."""
    f = _find(_tree(OPT), 'ServerOptions.read_config')
    outer = [n for n in ast.walk(f) if isinstance(n, ast.For) and ast.unparse(n.iter) == 'section.process_group_configs']
    if len(outer) != 1 or not isinstance(outer[0].target, ast.Name):
        raise ValueError('read_config: the loop over section.process_group_configs was not found')
    g = outer[0].target.id
    if len(outer[0].body) != 1 or not isinstance(outer[0].body[0], ast.For) or ast.unparse(outer[0].body[0].iter) != g + '.process_configs' \
            or not isinstance(outer[0].body[0].target, ast.Name):
        raise ValueError('read_config: environment loop: the inner loop over the process configs was not found')
    inner = outer[0].body[0]
    pr = inner.target.id
    body = [st for st in inner.body if not isinstance(st, ast.Pass)]
    if len(body) != 3:
        raise ValueError('read_config: environment loop body not understood: ' + '; '.join(ast.unparse(st) for st in body)[:120])
    a, u, w = body
    if not (isinstance(a, ast.Assign) and len(a.targets) == 1 and isinstance(a.targets[0], ast.Name)):
        raise ValueError('read_config: environment loop: first statement is not a binding: ' + ast.unparse(a))
    env = a.targets[0].id
    src = ast.unparse(a.value)
    if src in _ENV_COPIES:
        copied = True
    elif src == 'section.environment':
        copied = False
    else:
        raise ValueError('read_config: %s = %s: not a binding the model knows' % (env, src))
    if ast.unparse(u) != '%s.update(%s.environment)' % (env, pr):
        raise ValueError('read_config: environment loop: expected %s.update(%s.environment), found %s' % (env, pr, ast.unparse(u)))
    if ast.unparse(w) != '%s.environment = %s' % (pr, env):
        raise ValueError('read_config: environment loop: expected %s.environment = %s, found %s' % (pr, env, ast.unparse(w)))
    return dict(copied=copied)


# ---- read_include_config: what %(here)s of an included file is replaced by -----------------------------------------
def include_here():
    """-> 'matchedFile' | 'pattern' | 'mainFile': the directory handed to parser.expand_here() after an included file has been
    read, and the requirement that this happens once per matched file (inside the loop over the matches)."""
    f = _find(_tree(OPT), 'Options.read_include_config')
    loops = [n for n in ast.walk(f) if isinstance(n, ast.For) and isinstance(n.target, ast.Name)]
    pat = [n for n in loops if ast.unparse(n.iter) == 'files']
    if len(pat) != 1:
        raise ValueError('read_include_config: the loop over the include patterns was not found')
    pvar = pat[0].target.id
    match = [n for n in ast.walk(pat[0]) if isinstance(n, ast.For) and n is not pat[0] and isinstance(n.target, ast.Name)
             and ast.unparse(n.iter) in ('sorted(filenames)', 'filenames')]
    if len(match) != 1:
        raise ValueError('read_include_config: the loop over the matched file names was not found')
    fvar = match[0].target.id
    calls = [n for n in ast.walk(match[0]) if isinstance(n, ast.Call) and ast.unparse(n.func) == 'parser.expand_here']
    if len(calls) != 1 or len(calls[0].args) != 1:
        raise ValueError('read_include_config: expected exactly one parser.expand_here(...) per matched file, found %d' % len(calls))
    others = [n for n in ast.walk(pat[0]) if isinstance(n, ast.Call) and ast.unparse(n.func) == 'parser.expand_here' and n is not calls[0]]
    if others:
        raise ValueError('read_include_config: parser.expand_here called outside the loop over the matched files')
    arg = calls[0].args[0]
    # a local name: the (only) assignment it stands for
    hops = 0
    while isinstance(arg, ast.Name) and hops < 4:
        asg = [n for n in ast.walk(f) if isinstance(n, ast.Assign) and len(n.targets) == 1 and isinstance(n.targets[0], ast.Name)
               and n.targets[0].id == arg.id]
        if len(asg) != 1:
            raise ValueError('read_include_config: expand_here(%s): %d assignments to that name' % (arg.id, len(asg)))
        arg = asg[0].value
        hops += 1
    src = ast.unparse(arg).replace(' ', '')
    forms = lambda v: ('os.path.abspath(os.path.dirname(%s))' % v, 'os.path.dirname(os.path.abspath(%s))' % v,
                       'os.path.dirname(os.path.realpath(%s))' % v, 'os.path.realpath(os.path.dirname(%s))' % v)
    if src in forms(fvar):
        return 'matchedFile'
    if src in forms(pvar):
        return 'pattern'
    if src in ('self.here',) + forms('fp.name') + forms('self.configfile'):
        return 'mainFile'
    raise ValueError('read_include_config: expand_here(%s): not a directory the model knows' % src)


_UNSET = re.compile(r'^(no |do not)', re.I)
_OPAQUE = re.compile(r'^(uses |value of|:|socket\.)', re.I)


def doc_rows():
    txt = open(os.path.join(REPO, 'docs/configuration.rst')).read().split('\n')
    sec = opt = None
    rows = []
    scope = {'program:x': 'program', 'group:x': 'group', 'eventlistener:x': 'eventlistener',
             'fcgi-program:x': 'fcgi', 'supervisord': 'supervisord'}
    for l in txt:
        m = re.match(r'^``\[(.*?)\]`` Section Values', l)
        if m:
            sec = m.group(1); opt = None
        m = re.match(r'^``([a-z_.]+)``$', l)
        if m:
            opt = m.group(1)
        m = re.match(r'^\s+\*Default\*:\s*(.*)$', l)
        if m and sec in scope and opt:
            t = m.group(1).strip()
            kind = 'value'
            if _UNSET.match(t):
                kind, t = 'unset', ''
            elif _OPAQUE.match(t):
                kind, t = 'opaque', ''
            t = t.strip('`').rstrip('.') if kind == 'value' and t.startswith('`') else t
            if opt == 'serverurl' and t == 'AUTO':
                kind, t = 'unset', ''       # options.py maps AUTO to None (= not set)
            rows.append((scope[sec], opt, t, kind))
    return rows


def _const_tuple(tree, name):
    for st in tree.body:
        if isinstance(st, ast.Assign) and isinstance(st.targets[0], ast.Name) and st.targets[0].id == name:
            return st.value
    raise KeyError(name)


def _strs(node):
    return [e.value for e in node.elts if isinstance(e, ast.Constant) and isinstance(e.value, str)]


def TABLES():
    L = []
    rows = opt_rows()
    L.append('/-- every get(...) call of _processes_from_section / process_groups_from_parser / read_config -/')
    L.append('def optTable : List OptRow := [')
    L.append(',\n'.join('  ⟨%s, %s, %s, %s, %s⟩' % (lean_str(s), lean_str(o), lean_str(c), d, 'true' if x else 'false')
                        for s, o, c, d, x in rows))
    L.append(']')
    L.append('')
    L.append('/-- docs/configuration.rst "*Default*:" lines (normalisation: see harness/sites/config.py) -/')
    L.append('def docTable : List DocRow := [')
    L.append(',\n'.join('  ⟨%s, %s, %s, %s⟩' % (lean_str(s), lean_str(o), lean_str(t), lean_str(h))
                        for s, o, t, h in doc_rows()))
    L.append(']')
    L.append('')
    dt = _tree(DT)
    L.append('def truthy : List String := [%s]' % ', '.join(lean_str(s) for s in _strs(_const_tuple(dt, 'TRUTHY_STRINGS'))))
    L.append('def falsy : List String := [%s]' % ', '.join(lean_str(s) for s in _strs(_const_tuple(dt, 'FALSY_STRINGS'))))
    L.append('def logfileNones : List String := [%s]' % ', '.join(lean_str(s) for s in _strs(_const_tuple(dt, 'LOGFILE_NONES'))))
    L.append('def logfileAutos : List String := [%s]' % ', '.join(lean_str(s) for s in _strs(_const_tuple(dt, 'LOGFILE_AUTOS'))))
    L.append('def logfileSyslogs : List String := [%s]' % ', '.join(lean_str(s) for s in _strs(_const_tuple(dt, 'LOGFILE_SYSLOGS'))))
    # forbidden characters of process_or_group_name: `for character in ' :/'`
    f = _find(dt, 'process_or_group_name')
    chars = None
    for n in ast.walk(f):
        if isinstance(n, ast.For) and isinstance(n.iter, ast.Constant) and isinstance(n.iter.value, str):
            chars = n.iter.value
    if chars is None:
        raise ValueError('process_or_group_name: forbidden character loop not found')
    L.append('def forbiddenNameChars : List Char := %s.toList' % lean_str(chars))
    # auto_restart: the `value == '<word>'` comparison
    f = _find(dt, 'auto_restart')
    words = [n.comparators[0].value for n in ast.walk(f)
             if isinstance(n, ast.Compare) and isinstance(n.ops[0], ast.Eq) and isinstance(n.comparators[0], ast.Constant)
             and isinstance(n.comparators[0].value, str)]
    L.append('def autorestartUnexpectedWords : List String := [%s]' % ', '.join(lean_str(w) for w in words))
    # '%(process_num)' marker
    f = _find(_tree(OPT), 'ServerOptions._processes_from_section')
    marker = None
    for n in ast.walk(f):
        if isinstance(n, ast.Compare) and isinstance(n.ops[0], (ast.In, ast.NotIn)) and isinstance(n.left, ast.Constant) \
                and isinstance(n.comparators[0], ast.Name) and n.comparators[0].id == 'process_name':
            marker = n.left.value
    if marker is None:
        raise ValueError('process_num marker test not found')
    L.append('def processNumMarker : String := %s' % lean_str(marker))
    # range(numprocs_start, numprocs + numprocs_start)
    rng = None
    for n in ast.walk(f):
        if isinstance(n, ast.For) and isinstance(n.target, ast.Name) and n.target.id == 'process_num':
            rng = n.iter
    if not (isinstance(rng, ast.Call) and isinstance(rng.func, ast.Name) and rng.func.id == 'range' and len(rng.args) == 2):
        raise ValueError('process_num range not found')
    site = Site(OPT, 'ServerOptions._processes_from_section', 'pfs', '', _pfs_vars)
    tr = Tr(site, ast.parse('def f(): pass').body[0])
    L.append('-- %s' % ast.unparse(rng))
    L.append('def procNumLo (numprocs numprocs_start : Int) : Int := %s' % tr.expr(rng.args[0]))
    L.append('def procNumHi (numprocs numprocs_start : Int) : Int := %s' % tr.expr(rng.args[1]))
    # runtime tables
    import importlib
    datatypes = importlib.import_module('supervisor.datatypes')
    events = importlib.import_module('supervisor.events')
    import signal
    L.append('def byteSuffixes : List (String × Int) := [%s]' % ', '.join(
        '(%s, %d)' % (lean_str(k), v) for k, v in datatypes.byte_size._d.items()))
    L.append('def byteDefaultMultiplier : Int := %d' % datatypes.byte_size._default)
    names = [n for n in dir(events.EventTypes) if n == n.upper() and not n.startswith('__')
             and getattr(events.EventTypes, n) is not None]
    L.append('/-- EventTypes registry: attribute name -> event class -/')
    L.append('def eventNames : List (String × String) := [%s]' % ', '.join(
        '(%s, %s)' % (lean_str(n), lean_str(getattr(events.EventTypes, n).__name__)) for n in sorted(names)))
    sn = []
    for k in dir(signal):
        if k.startswith('SIG') and k == k.upper():
            try:
                sn.append((k, int(getattr(signal, k))))
            except (TypeError, ValueError):
                pass
    L.append('/-- upper-case SIG* attributes of the signal module (getattr(signal, name)) -/')
    L.append('def sigNames : List (String × Int) := [%s]' % ', '.join('(%s, %d)' % (lean_str(k), v) for k, v in sn))
    L.append('def sigNums : List Int := [%s]' % ', '.join(str(v) for v in sorted(set(int(x) for x in datatypes.SIGNUMS))))
    # placement facts of the numprocs loop (last: an unknown statement form is an extraction error)
    lp = loop_placement()
    L.append('')
    L.append('/-- _processes_from_section: statements binding/updating `expansions` in front of the numprocs loop -/')
    L.append('def pfsPreLoop : List ExpStep := [%s]' % ', '.join('.' + x for x in lp['pre']))
    L.append('/-- ... and at the head of the loop body, before the environment is expanded (source order) -/')
    L.append('def pfsLoopHead : List ExpStep := [%s]' % ', '.join('.' + x for x in lp['head']))
    L.append("/-- the loop writes the program's own environment back as ENV_ expansions right after expanding it -/")
    L.append('def pfsWriteBack : Bool := %s' % ('true' if lp['writeback'] else 'false'))
    L.append('/-- every get(...) of the loop body after that: (option, passes expansions=expansions) -/')
    L.append('def pfsLoopGets : List (String × Bool) := [%s]' % ', '.join(
        '(%s, %s)' % (lean_str(o), 'true' if p else 'false') for o, p in lp['gets']))
    L.append('/-- the looked-up (already expanded) log file name is expanded a second time -/')
    L.append('def pfsLogfileReexpanded : Bool := %s' % ('true' if lp['reexpand'] else 'false'))
    L.append('')
    L.append("/-- read_config: every process configuration gets a dictionary of its own (`env = section.environment.copy()`) when the")
    L.append("    [supervisord] environment is overlaid with the program's -/")
    L.append('def rcEnvCopied : Bool := %s' % ('true' if env_merge_loop()['copied'] else 'false'))
    rc = read_config_environ()
    L.append('/-- read_config: `parser.expansions = self.environ_expansions` -- the parser expands with the options\' OWN dictionary (not a')
    L.append('    snapshot), so the ENV_ names read_config adds from the [supervisord] environment are visible to every parser.saneget -/')
    L.append('def rcParserSharesEnviron : Bool := %s' % ('true' if rc['shares'] else 'false'))
    L.append('/-- read_config: the program/group/eventlistener/fcgi sections are parsed AFTER the [supervisord] environment was added -/')
    L.append('def rcGroupsAfterEnvMerge : Bool := %s' % ('true' if rc['groups_after'] else 'false'))
    L.append('/-- read_config: the [unix_http_server]/[inet_http_server] sections are parsed AFTER the [supervisord] environment was added -/')
    L.append('def rcServersAfterEnvMerge : Bool := %s' % ('true' if rc['servers_after'] else 'false'))
    L.append("/-- lookups written `get(...) or '<text>'`: (scope, option, text that replaces a present-but-empty value) -/")
    L.append('def optEmptyFallback : List (String × String × String) := [%s]' % ', '.join(
        '(%s, %s, %s)' % (lean_str(a), lean_str(b), lean_str(c)) for a, b, c in fallback_rows()))
    L.append('/-- read_include_config: the directory parser.expand_here() is given after reading one matched file -/')
    L.append('def includeHereSrc : HereSrc := .%s' % include_here())
    return L


_pfs_vars = {
    'numprocs': ('numprocs', 'int'), 'numprocs_start': ('numprocs_start', 'int'),
    'stopasgroup': ('stopasgroup', 'bool'), 'killasgroup': ('killasgroup', 'bool'),
}

SITES = [
    Site(DT, 'list_of_exitcodes', 'exitcodes', '(val : Int)', {'val': ('val', 'int')}, want={'exitcodes_g0'}),
    Site(OPT, 'ServerOptions._processes_from_section', 'pfs',
         '(numprocs numprocs_start : Int) (stopasgroup killasgroup : Bool)', _pfs_vars,
         want={'pfs_g4', 'pfs_g6'}),
    Site(OPT, 'ServerOptions.process_groups_from_parser', 'pgfp', '(buffer_size socket_backlog : Int)',
         {'buffer_size': ('buffer_size', 'int'), 'socket_backlog': ('socket_backlog', 'int')},
         want={'pgfp_g5', 'pgfp_g12'}),
]
