import SupervisorModel.Basic.DriverKit
import SupervisorModel.Model.Rotate
def main : IO Unit := Sv.driverMain [("rotate", Sv.Rotate.runCase)]
