"""
C11, several listener pools: "notifications correspond one-to-one to what they announce" seen from the listeners.

Real EventListenerPools (props/listener_world.py: real Subprocess, dispatchers, events.notify) with overlapping and disjoint
subscriptions and -- process names being unique within a group only -- listeners of the *same names* in several pools.
Things are announced (group added / removed, ticks, daemon state changes, remote communication, the listeners' own state
changes); listeners answer OK, FAIL, garbage, or die while busy.  What each listener was told is read back from the bytes
on its stdin by a listener-side parser and judged against what was announced:

  * a pool is notified only of event types it is subscribed to -- by the *documented* hierarchy (docs/events.rst);
  * a pool is notified once of one event; again only after one of its own listeners gave that very notification back;
  * eventname and payload of a notification are those of the announced event with that serial;
  * (after a final phase in which a well-behaved listener per pool answers OK) every announced event of a subscribed type
    was notified, unless the pool's overflow rule discarded it with its log entry.
Correspondence against Model/Pool.lean (driver model `pool`).
"""
from props.listener_world import PoolHistory, DocTypes, parse_stdin, hexs

READY = b'READY\n'
OKREADY = b'RESULT 2\nOKREADY\n'

ANNOUNCE = [('PROCESS_GROUP_ADDED', 'groupname:web\n'), ('PROCESS_GROUP_REMOVED', 'groupname:web\n'), ('PROCESS_GROUP_ADDED', 'groupname:db\n'),
            ('TICK_5', 'when:1000'), ('TICK_60', 'when:960'), ('TICK_3600', 'when:0'),
            ('SUPERVISOR_STATE_CHANGE_RUNNING', ''), ('SUPERVISOR_STATE_CHANGE_STOPPING', ''),
            ('REMOTE_COMMUNICATION', 'type:t\nhello'), ('PROCESS_STATE_RUNNING', 'processname:cat groupname:cat from_state:STARTING pid:77'),
            ('PROCESS_STATE_FATAL', 'processname:cat groupname:cat from_state:BACKOFF'),
            ('PROCESS_LOG_STDOUT', 'processname:cat groupname:cat pid:77 channel:stdout\nline\n'),
            ('PROCESS_COMMUNICATION_STDOUT', 'processname:cat groupname:cat pid:77\nmsg')]
SUBS = [[['PROCESS_GROUP'], ['TICK_60'], ['EVENT']], [['PROCESS_GROUP_ADDED'], ['PROCESS_GROUP'], ['TICK']],
        [['PROCESS_GROUP', 'TICK_5'], ['PROCESS_GROUP', 'SUPERVISOR_STATE_CHANGE'], ['PROCESS_STATE']],
        [['TICK_5'], ['TICK_5'], ['TICK_5', 'TICK_60']], [['PROCESS_LOG'], ['PROCESS_COMMUNICATION'], ['REMOTE_COMMUNICATION']],
        [['SUPERVISOR_STATE_CHANGE'], ['PROCESS_STATE_FATAL'], ['PROCESS_GROUP_REMOVED']]]
BAD = [b'RESULT 4\nFAIL', b'RESULT 4\nFAILREADY\n', b'RESULT x\n', b'RESULT 3\nBAD', b'garbage\n', b'RESULT -1\n']


def gen(rng):
    npools = rng.choice([2, 2, 3])
    nl = rng.choice([1, 2, 2])
    sets = rng.choice(SUBS)
    pools = [('pool%d' % i, rng.randrange(2, 6), nl, sets[i]) for i in range(npools)]
    churn = rng.random() < 0.4
    if churn:
        # pools leave and join while the daemon runs (real remove_process_group / add_process_group); a pool that joins
        # later has a new name or the name of a pool that was removed
        for k in range(rng.choice([1, 1, 2])):
            pools.append((rng.choice(['late%d' % k, 'pool%d' % rng.randrange(npools)]), rng.randrange(2, 6), nl, rng.choice(sets), 'absent'))
    ops, pid = [], 700
    for pi in range(npools):
        for li in range(nl):
            pid += 1
            ops += ['spawn %d %d %d' % (pi, li, pid), 'pstate %d %d running' % (pi, li), 'read %d %d %s' % (pi, li, READY.hex())]
    for _ in range(rng.randrange(2, 8)):
        if churn and rng.random() < 0.45:
            pi = rng.randrange(len(pools))
            r = rng.random()
            if r < 0.35:
                ops.append('remove %d' % pi)              # a listener is (usually) still running: refused, nothing may change
            elif r < 0.7:
                for li in range(nl):
                    ops += ['pstate %d %d stopping' % (pi, li), 'die %d %d - x' % (pi, li)]
                ops.append('remove %d' % pi)
            else:
                late = [i for i, p in enumerate(pools) if len(p) > 4]
                pi = rng.choice(late)
                same = [i for i, p in enumerate(pools[:npools]) if p[0] == pools[pi][0]]
                if same and rng.random() < 0.7:
                    for li in range(nl):
                        ops += ['pstate %d %d stopping' % (same[0], li), 'die %d %d - x' % (same[0], li)]
                    ops.append('remove %d' % same[0])
                ops.append('add %d' % pi)
                for li in range(nl):
                    pid += 1
                    ops += ['spawn %d %d %d' % (pi, li, pid), 'pstate %d %d running' % (pi, li), 'read %d %d %s' % (pi, li, READY.hex())]
        for _ in range(rng.choice([1, 1, 2])):
            name, payload = rng.choice(ANNOUNCE)
            ops.append('notify %s %s' % (name, hexs(payload.encode())))
        for pi in range(len(pools)):
            ops.append('transition %d' % pi)
        # every listener that was told something answers: mostly OK; one of them may reject, babble or die
        bad = (rng.randrange(len(pools)), rng.randrange(nl)) if rng.random() < 0.7 else None
        for pi in range(len(pools)):
            for li in range(nl):
                if (pi, li) == bad:
                    r = rng.random()
                    if r < 0.7:
                        data = rng.choice(BAD)
                        if rng.random() < 0.25:
                            c = data.find(b'\n') + 1 if 0 < data.find(b'\n') + 1 < len(data) else 1
                            ops += ['read %d %d %s' % (pi, li, data[:c].hex()), 'read %d %d %s' % (pi, li, data[c:].hex())]
                        else:
                            ops.append('read %d %d %s' % (pi, li, data.hex()))
                    else:
                        pid += 1
                        ops += ['die %d %d - x' % (pi, li), 'spawn %d %d %d' % (pi, li, pid), 'pstate %d %d running' % (pi, li),
                                'read %d %d %s' % (pi, li, READY.hex())]
                elif rng.random() < 0.8:
                    ops.append('read %d %d %s' % (pi, li, OKREADY.hex()))
        for pi in range(len(pools)):
            ops.append('transition %d' % pi)
    return rng.choice(['strict', 'default']), pools, rng.choice(['shared', 'shared', 'unique']), ops


def corpus():
    """seed C11-5 (= C09-2, C10-5): alpha's listener rejects a group notification; beta's listeners have the same names.
    Scenario 1: beta is subscribed to TICK_60 only.  Scenario 2: beta is subscribed too and has acknowledged."""
    def up(n):
        ops = []
        for pi in range(2):
            for li in range(n):
                ops += ['spawn %d %d %d' % (pi, li, 11 + 2 * pi + li), 'pstate %d %d running' % (pi, li), 'read %d %d %s' % (pi, li, READY.hex())]
        return ops
    added = 'notify PROCESS_GROUP_ADDED ' + b'groupname:web\n'.hex()
    both = ['transition 0', 'transition 1']
    res = []
    for names in ('shared', 'unique'):
        for bad in (['read 0 0 ' + b'RESULT 4\nFAIL'.hex()], ['read 0 0 ' + b'RESULT x\n'.hex()], ['die 0 0 - x']):
            res.append(('strict', [('alpha', 10, 2, ['PROCESS_GROUP']), ('beta', 10, 2, ['TICK_60'])], names,
                        up(2) + [added] + both + bad + both))
            res.append(('strict', [('alpha', 10, 2, ['PROCESS_GROUP']), ('beta', 10, 2, ['PROCESS_GROUP'])], names,
                        up(2) + [added] + both + ['read 1 0 ' + OKREADY.hex()] + bad + both))
    # seed C11-8: the removal of pool alpha is refused (a listener is running); alpha stays in the daemon and must be told of
    # every later group / tick notification.  Seed C09-7: beta is removed for good; alpha (same types) must still be told.
    tick = 'notify TICK_60 ' + b'when:960'.hex()
    for names in ('shared', 'unique'):
        res.append(('strict', [('alpha', 10, 2, ['PROCESS_GROUP', 'TICK_60']), ('beta', 10, 2, ['PROCESS_GROUP', 'TICK_60'])], names,
                    up(2) + ['remove 0', added, tick] + both + ['read 0 0 ' + OKREADY.hex(), 'read 1 0 ' + OKREADY.hex()] + both))
        res.append(('strict', [('alpha', 10, 2, ['PROCESS_GROUP', 'TICK_60']), ('beta', 10, 2, ['PROCESS_GROUP', 'TICK_60']),
                               ('beta', 10, 1, ['TICK'], 'absent')], names,
                    up(2) + ['pstate 1 0 stopping', 'die 1 0 - x', 'pstate 1 1 stopping', 'die 1 1 - x', 'remove 1', tick] + both +
                    ['read 0 0 ' + b'RESULT 4\nFAILREADY\n'.hex()] + both + ['add 2', 'spawn 2 0 31', 'pstate 2 0 running', 'read 2 0 ' + READY.hex(),
                                                                           tick, 'transition 2', 'transition 0']))
    return res


def monitor(h, drained):
    doc = DocTypes.get()
    w = h.w
    viol = []
    announced = {}            # event id -> (registered type name, payload text)
    returned = [dict() for _ in h.pools]      # pool -> {event: times one of its own listeners gave it back}
    discarded = [set() for _ in h.pools]      # pool -> serials its overflow rule discarded (error log entries)
    live_at = {}              # event id -> which pools were in the daemon when it was announced
    live = [not (len(p) > 4 and p[4] == 'absent') for p in h.spec]
    removed_at = [None for _ in h.pools]      # the number of announcements made before the pool left the daemon
    for st in h.steps:
        t = st['op'].split()
        if t[0] in ('remove', 'add'):
            # PROCESS_GROUP notifications correspond one-to-one to what they announce: the call's own answer says whether
            # the pool left / joined; the notification follows the change of the table, names the group, and a refused call
            # announces nothing and changes nothing (the pool keeps being told of everything it subscribed to)
            qi = int(t[1])
            res = next((o[4:] for o in st['outs'] if o.startswith('res:')), 'none')
            want = []
            if res == 'true':
                live[qi] = (t[0] == 'add')
                want = [('PROCESS_GROUP_ADDED' if t[0] == 'add' else 'PROCESS_GROUP_REMOVED', 'groupname:%s\n' % h.pools[qi][0])]
                if t[0] == 'remove':
                    removed_at[qi] = len(announced)
            got = []
            for evid, name in st['emitted']:
                try:
                    got.append((name, w.evobjs[evid].payload()))
                except Exception:      # noqa
                    got.append((name, None))
            if got != want:
                viol.append(('group-notification-not-one-to-one', '%r answered %s; announced %r, the change of the table calls for %r' % (
                    st['op'], res, got, want)))
            if res != 'true' and st['live'] != (steps_live_before(h, st)):
                viol.append(('refused-call-changed-the-table', '%r answered %s but the groups in the daemon changed' % (st['op'], res)))
        for evid, name in st['emitted']:
            live_at[evid] = list(live)
            try:
                announced[evid] = (name, w.evobjs[evid].payload())
            except Exception as ex:        # noqa -- a payload that cannot be rendered is somebody else's finding
                announced[evid] = (name, None)
        for o in st['outs']:
            f = o.split(':')
            if f[0] == 'rej' and f[2].isdigit():
                qi = int(f[1].split('.')[0])
                if 0 <= qi < len(h.pools):
                    returned[qi][int(f[2])] = returned[qi].get(int(f[2]), 0) + 1
            if f[0] == 'discard' and f[2].lstrip('-').isdigit() and 0 <= int(f[1]) < len(h.pools):
                discarded[int(f[1])].add(int(f[2]))
    by_serial = {getattr(ev, 'serial', None): i for i, ev in enumerate(w.evobjs)}
    for qi, (pname, bs, nl, types) in enumerate(h.pools):
        told = {}
        for qli in range(nl):
            for stream in h.stdin_streams(qi, qli):
                envs, rest, good = parse_stdin(stream)
                if not good:
                    viol.append(('header-unparseable', 'listener %d.%d of pool %s: cannot cut %r into notifications' % (qi, qli, pname, rest[:40])))
                for (serial, pool, pserial, evname, body) in envs:
                    if pool != pname:
                        viol.append(('header-value-wrong', 'a listener of pool %s received a notification with pool:%s' % (pname, pool)))
                    if evname not in doc.concrete:
                        viol.append(('eventname-not-a-documented-concrete-type', 'eventname:%s is not a concrete type of docs/events.rst' % evname))
                    if not doc.subscribed(types, evname):
                        viol.append(('notified-of-type-not-subscribed', 'pool %s (events=%s) was sent a notification with eventname:%s (serial %d)' % (
                            pname, ','.join(types), evname, serial)))
                    evid = by_serial.get(serial)
                    if evid is None or evid not in announced:
                        viol.append(('notification-without-announcement', 'pool %s was sent serial:%d eventname:%s; nothing with that serial was announced' % (pname, serial, evname)))
                        continue
                    told[evid] = told.get(evid, 0) + 1
                    name, payload = announced[evid]
                    if name != evname:
                        viol.append(('eventname-not-the-concrete-type', 'pool %s was told eventname:%s for the announced %s (serial %d)' % (pname, evname, name, serial)))
                    if payload is not None and body != payload.encode('utf-8'):
                        viol.append(('payload-bytes-differ', 'pool %s: serial %d carries %r, announced %r' % (pname, serial, body[:60], payload[:60])))
        for evid, n in told.items():
            if n > 1 + returned[qi].get(evid, 0):
                viol.append(('notified-twice-of-one-event',
                             'pool %s was sent %d notifications of event %d (%s) although its own listeners gave it back %d times' % (
                                 pname, n, evid, announced[evid][0], returned[qi].get(evid, 0))))
        for evid in told:
            if evid in live_at and not live_at[evid][qi]:
                viol.append(('notified-of-event-announced-while-not-in-daemon', 'pool %s was sent event %d (%s), announced while the pool was not in supervisord.process_groups' % (
                    pname, evid, announced[evid][0])))
        if drained and live[qi]:
            # a pool that is (still) in the daemon at the end was drained: it has been told of everything announced, while it
            # was in the daemon, of the types it subscribed to
            for evid, (name, payload) in announced.items():
                if name is not None and live_at[evid][qi] and doc.subscribed(types, name) and evid not in told and \
                        getattr(w.evobjs[evid], 'serial', None) not in discarded[qi]:
                    viol.append(('announced-event-never-notified', 'pool %s (events=%s, in the daemon since before the announcement) was never sent the announced event %d (%s)' % (
                        pname, ','.join(types), evid, name)))
    return viol


def steps_live_before(h, st):
    k = h.steps.index(st)
    return h.steps[k - 1]['live'] if k > 0 else [not (len(p) > 4 and p[4] == 'absent') for p in h.spec]


def one(ctx, handler, pools, names, ops, cases, impls, drain=True):
    h = PoolHistory(handler, pools, names=names)
    raised = None
    for op in ops:
        st = h.do(op)
        if st is not None and st['op'].split()[0] in ('remove', 'add') and st['err'] != '-':
            raised = (st['op'], st['err'])        # the history ends here: the state of the pool is anybody's guess
            break
    if drain and raised is None:
        h.drain()
    viol = monitor(h, drain and raised is None)
    if raised:
        viol.append(('group-call-raised', '%r let %s escape' % raised))
    cases.append((h.case_line(), h.ops))
    impls.append(h.lines)
    n = sum(len(st['sent']) for st in h.steps)
    ctx.case_done(('pools', handler, names, tuple(h.ops)), n > 0)
    ctx.count('pools:names:' + names)
    ctx.count('pools:notifications', n)
    ctx.count('pools:given-back', sum(1 for st in h.steps for o in st['outs'] if o.startswith('rej:')))
    seen = set()
    for kind, what in viol:
        if kind in seen:
            continue
        seen.add(kind)
        ctx.violation(kind, what, {'what': 'pools', 'handler': handler, 'names': names, 'pools': [list(p) for p in pools], 'ops': list(ops)})


def run(ctx):
    rng = ctx.rng
    cases, impls = [], []
    for handler, pools, names, ops in corpus():
        one(ctx, handler, pools, names, ops, cases, impls)
    for _ in range(ctx.n(100, 1500)):
        handler, pools, names, ops = gen(rng)
        one(ctx, handler, pools, names, ops, cases, impls)
    ctx.sample({'case': cases[0][0], 'ops': cases[0][1][:10], 'impl': impls[0][:10]})
    ctx.correspond('pool', cases, impls)


def replay(ctx, inp):
    cases, impls = [], []
    one(ctx, inp['handler'], [tuple(p[:3]) + (p[3],) + tuple(p[4:5]) for p in inp['pools']], inp['names'], inp['ops'], cases, impls)
    ctx.correspond('pool', cases, impls)
