import SupervisorModel.Basic.DriverKit
import SupervisorModel.Model.SupDriver
import SupervisorModel.Model.AllFunc
import SupervisorModel.Model.Execv
/-
  drv_c13: the daemon model (`sup` cases, the same entry point drv_c02 uses), the make_allfunc model
  (`allfunc` cases) and the command-file checks behind startProcess / spawn() (`execv` cases, Model/Execv.lean).

    case execv <process config as for `case proc`>
    check st=<none|st_mode> acc=<0|1>                     ServerOptions.check_execv_args -> ok | <class raised>
    getargs cmd=<unparsable|empty|explicit|search> files=<st>/<acc>,...|-
                                                          Subprocess.get_execv_args -> ok:<index of the file chosen> | <class raised>
    xstart now= mood= wait=<0|1> spawn=<ok:pid|pipeerr|forkerr> cmd= files=
                                                          startProcess(name, wait) -> <process> | <seam calls, events, answer> | <exception>
                                                          (answer `deferred`: a callback was handed back)
    xtransition now= mood= spawn= kill= cmd= files=       Subprocess.transition() with spawn()'s lookup answered by the files
    every operation of the `proc` model (transition, reap, rpcstop, ...) with its own line format

    case allfunc <process>*          one token per (group, process) pair of the list, in list order:
                                     <group>/<name>/<0|1 predicate>/<imm>/<poll>;<poll>;...
                                     imm  = D (func returns a function) | V (returns a plain value) | R<code>:<text>
                                     poll = N (NOT_DONE_YET) | V | R<code>:<text>
                                     a process whose imm is D needs a poll list ending in V or R (the callback is never
                                     polled after that); any other process needs an empty poll list
    invoke                           one invocation of the closure ->
                                     <NOT_DONE_YET | results name:group:status:description ...> | <seam calls of this invocation>
                                     seam calls: t<i> predicate tested, c<i>=<namespec> func called, p<i> callback of process i polled
-/
namespace Sv.AllFunc.Driver
open Sv Sv.AllFunc

def parseCodeText (s : String) : Option (Int × String) :=
  match s.splitOn ":" with
  | [c, t] => c.toInt?.map fun c => (c, t)
  | _ => none

def parseImm (s : String) : Option Imm :=
  if s == "D" then some .deferred else if s == "V" then some .value
  else if s.startsWith "R" then (parseCodeText (s.drop 1).toString).map fun ct => .raises ct.1 ct.2
  else none

def parsePoll (s : String) : Option Poll :=
  if s == "N" then some .notDone else if s == "V" then some .value
  else if s.startsWith "R" then (parseCodeText (s.drop 1).toString).map fun ct => .raises ct.1 ct.2
  else none

def parsePolls (s : String) : Option (List Poll) :=
  if s == "" then some [] else (s.splitOn ";").mapM parsePoll

/-- a finite poll script as a stream: the last outcome (which is final) repeats; never consulted beyond it by the model -/
def streamOf (l : List Poll) (k : Nat) : Poll := l.getD k (l.getLast?.getD .value)

def parseProc (tok : String) : Option PSpec :=
  match tok.splitOn "/" with
  | [g, n, e, i, p] =>
    match parseImm i, parsePolls p with
    | some imm, some polls =>
      let eOk := e == "0" || e == "1"
      let pOk := if imm == .deferred then (match polls.getLast? with | some .notDone => false | some _ => true | none => false)
                 else polls.isEmpty
      if eOk && pOk && g != "" && n != "" then
        some { group := g, name := n, eligible := e == "1", imm := imm, polls := streamOf polls }
      else none
    | _, _ => none
  | _ => none

def showEntry (e : Entry) : String := s!"{e.name}:{e.group}:{e.status}:{e.description}"

def showEv : Ev → String
  | .test i => s!"t{i}"
  | .call i ns => s!"c{i}={ns}"
  | .poll i => s!"p{i}"

def showAnswer : Answer → String
  | .notDoneYet => "NOT_DONE_YET"
  | .results rs => " ".intercalate ("results" :: rs.map showEntry)
  | .unmodelled => "unmodelled-structure"

def go (env : Env) : State → List String → List String
  | _, [] => []
  | s, op :: rest =>
    if op == "invoke" then
      let r := invoke env s
      let evs := (r.1.log.drop s.log.length).map showEv
      (showAnswer r.2 ++ " | " ++ " ".intercalate evs) :: go env r.1 rest
    else "bad-op" :: go env s rest

def runCase (cfg : List String) (ops : List String) : List String :=
  match cfg.mapM parseProc with
  | none => ops.map fun _ => "bad-config"
  | some ps => go (Env.ofList ps) State.init ops

end Sv.AllFunc.Driver

def main : IO Unit := Sv.driverMain [("sup", Sv.Sup.runCase), ("allfunc", Sv.AllFunc.Driver.runCase),
  ("execv", Sv.Execv.runCase)]
