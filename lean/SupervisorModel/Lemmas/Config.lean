/-  Helper lemmas for Props/C14.lean and Props/C15.lean: insertion sort (permutation, sortedness, stability),
    the (priority, name) order of Config.__lt__, Python-dict lookups.  Core Lean only. -/
import SupervisorModel.Model.Config
set_option linter.unusedSimpArgs false
namespace Sv.Config

theorem insertBy_perm {α : Type} (lt : α → α → Bool) (x : α) (l : List α) : (insertBy lt x l).Perm (x :: l) := by
  induction l with
  | nil => simp [insertBy]
  | cons y ys ih =>
    simp only [insertBy]
    split
    · exact (List.Perm.cons y ih).trans (List.Perm.swap x y ys)
    · exact List.Perm.refl _

theorem sortBy_perm {α : Type} (lt : α → α → Bool) (l : List α) : (sortBy lt l).Perm l := by
  induction l with
  | nil => simp [sortBy]
  | cons x xs ih =>
    simp only [sortBy, List.foldr_cons] at ih ⊢
    exact (insertBy_perm lt x _).trans (List.Perm.cons x ih)

/-- what sorting needs from `lt`: asymmetric and negatively transitive (a strict weak order) -/
structure StrictWeak {α : Type} (lt : α → α → Bool) : Prop where
  asymm : ∀ a b, lt a b = true → lt b a = false
  negTrans : ∀ a b c, lt b a = false → lt c b = false → lt c a = false

theorem insertBy_sorted {α : Type} (lt : α → α → Bool) (h : StrictWeak lt) (x : α) (l : List α)
    (hl : l.Pairwise (fun a b => lt b a = false)) : (insertBy lt x l).Pairwise (fun a b => lt b a = false) := by
  induction l with
  | nil => simp [insertBy]
  | cons y ys ih =>
    simp only [insertBy]
    rw [List.pairwise_cons] at hl
    split
    · rename_i hyx
      rw [List.pairwise_cons]
      refine ⟨?_, ih hl.2⟩
      intro z hz
      have := (insertBy_perm lt x ys).mem_iff.mp hz
      rcases List.mem_cons.mp this with rfl | hz'
      · exact h.asymm _ _ hyx
      · exact hl.1 z hz'
    · rename_i hyx
      have hyx' : lt y x = false := by simpa using hyx
      rw [List.pairwise_cons]
      refine ⟨?_, List.pairwise_cons.mpr hl⟩
      intro z hz
      rcases List.mem_cons.mp hz with rfl | hz'
      · exact hyx'
      · exact h.negTrans _ _ _ hyx' (hl.1 z hz')

theorem sortBy_sorted {α : Type} (lt : α → α → Bool) (h : StrictWeak lt) (l : List α) :
    (sortBy lt l).Pairwise (fun a b => lt b a = false) := by
  induction l with
  | nil => simp [sortBy]
  | cons x xs ih =>
    simp only [sortBy, List.foldr_cons] at ih ⊢
    exact insertBy_sorted lt h x _ ih

theorem insertBy_filter {α : Type} (lt : α → α → Bool) (P : α → Bool) (x : α) (l : List α)
    (h : ∀ y, P y = true → P x = true → lt y x = false) :
    (insertBy lt x l).filter P = if P x then x :: l.filter P else l.filter P := by
  induction l with
  | nil => simp [insertBy, List.filter]; split <;> simp_all
  | cons y ys ih =>
    simp only [insertBy]
    split
    · rename_i hyx
      by_cases hy : P y = true
      · have hx : ¬ P x = true := fun hx => by simp [h y hy hx] at hyx
        simp [List.filter_cons, hy, ih, hx]
      · simp [List.filter_cons, hy, ih]
    · simp [List.filter_cons]

/-- stability: elements that `lt` does not distinguish keep their relative order -/
theorem sortBy_stable {α : Type} (lt : α → α → Bool) (P : α → Bool)
    (h : ∀ x y, P x = true → P y = true → lt x y = false) (l : List α) :
    (sortBy lt l).filter P = l.filter P := by
  induction l with
  | nil => simp [sortBy]
  | cons x xs ih =>
    simp only [sortBy, List.foldr_cons] at ih ⊢
    rw [insertBy_filter lt P x _ (fun y hy hx => h y x hy hx), ih]
    by_cases hx : P x = true <;> simp [List.filter_cons, hx]

theorem cfgLt_iff (pa pb : Int) (na nb : String) :
    cfgLt pa na pb nb = true ↔ pa < pb ∨ (pa = pb ∧ na < nb) := by
  unfold cfgLt
  by_cases h : pa = pb
  · subst h; simp
  · have : (pa == pb) = false := by simp [h]
    simp [this, h]

theorem cfgLt_false_iff (pa pb : Int) (na nb : String) :
    cfgLt pa na pb nb = false ↔ pb < pa ∨ (pa = pb ∧ nb ≤ na) := by
  rw [← Bool.not_eq_true, cfgLt_iff]
  constructor
  · intro h
    rcases Int.lt_trichotomy pa pb with h1 | h1 | h1
    · exact absurd (Or.inl h1) h
    · right; refine ⟨h1, ?_⟩
      exact String.not_lt.mp (fun hlt => h (Or.inr ⟨h1, hlt⟩))
    · exact Or.inl h1
  · rintro (h | ⟨h1, h2⟩) (h' | ⟨h3, h4⟩)
    · omega
    · omega
    · omega
    · exact String.not_lt.mpr h2 h4

theorem cfgLt_asymm (pa pb : Int) (na nb : String) : cfgLt pa na pb nb = true → cfgLt pb nb pa na = false := by
  rw [cfgLt_iff, cfgLt_false_iff]
  rintro (h | ⟨h1, h2⟩)
  · exact Or.inl h
  · exact Or.inr ⟨h1.symm, String.not_lt.mp (String.lt_asymm h2)⟩

theorem cfgLt_negTrans (pa pb pc : Int) (na nb nc : String) :
    cfgLt pb nb pa na = false → cfgLt pc nc pb nb = false → cfgLt pc nc pa na = false := by
  rw [cfgLt_false_iff, cfgLt_false_iff, cfgLt_false_iff]
  rintro (h | ⟨h1, h2⟩) (h' | ⟨h3, h4⟩)
  · left; omega
  · left; omega
  · left; omega
  · right; exact ⟨by omega, String.le_trans h2 h4⟩

theorem cfgLt_strictWeak {α : Type} (prio : α → Int) (name : α → String) :
    StrictWeak (fun a b : α => cfgLt (prio a) (name a) (prio b) (name b)) :=
  ⟨fun _ _ => cfgLt_asymm _ _ _ _, fun _ _ _ => cfgLt_negTrans _ _ _ _ _ _⟩

end Sv.Config
