"""shared driver for the daemon-level properties (C02 C05 C06 C13): scenario populations, correspondence of the
real runforever() against the Lean `sup` model, monitors"""
import random
import l2


def burst_scenario(rng, n=120):
    """more children exiting in one pass than reap() handles (100)"""
    progs = [dict(name='b%d' % i, group='burst', gprio=5, prio=999, autostart=True, autorestart='false', startsecs=0,
                  startretries=0, exitcodes=[0], stopwaitsecs=1) for i in range(n)]
    script = [(1024, []), (1024, []), (1024, [('exit', 'b%d' % i, 0) for i in range(n)]), (1024, []), (1024, []), (1024, []), (1024, [])]
    return progs, script


def scenarios(ctx, nquick, nthorough, shutdown_p=0.4, faults_p=0.33, group_forms=False, rpcs=True, extra=()):
    rng = ctx.rng
    for sc in extra:
        yield sc
    for _ in range(ctx.n(nquick, nthorough)):
        progs = l2.gen_programs(rng)
        n = rng.choice([10, 20, 40])
        sd = rng.randrange(2, n) if rng.random() < shutdown_p else None
        script = l2.gen_script(rng, progs, n, shutdown=sd, faults=rng.random() < faults_p, rpcs=rpcs, group_forms=group_forms)
        if sd is not None:
            script += [(1024, [])] * (6 + 4 * len(progs))
        yield progs, script


def run_all(ctx, scs, monitors, correspond=True, name='sup'):
    cases, impls = [], []
    for progs, script in scs:
        k, outcome = l2.run_scenario(progs, script)
        inp = l2.scenario_input(progs, script)
        ctx.count('outcome:' + outcome)
        for m in monitors:
            m(ctx, k, inp)
        for r in k.log:
            if r['kind'] in ('fork', 'kill', 'fault', 'rpc-begin'):
                ctx.count('k:' + r['kind'] + (':' + r['call'] if r['kind'] == 'fault' else ''))
        if correspond:
            case, ops, lines = l2.sup_lines(k)
            if not any('unsupported' in o for o in ops):
                cases.append((case, ops)); impls.append(lines)
        changes = sum(1 for r in k.log if r['kind'] == 'event' and r['name'].startswith('PROCESS_STATE'))
        ctx.case_done((tuple(sorted(p['name'] for p in progs)), tuple(repr(x) for x in k.log if x['kind'] in ('event', 'fork', 'kill', 'wait'))),
                      nontrivial=changes > 0)
        if len(ctx.samples) < 2:
            ctx.sample({'programs': [p['name'] + '@' + p['group'] for p in progs], 'script': [[dt, [list(map(str, a)) for a in acts]] for dt, acts in script[:6]],
                        'outcome': outcome, 'first_lines': l2.sup_lines(k)[2][:3]})
    if correspond and cases:
        ctx.correspond(name, cases, impls)


def replay(ctx, data, monitors):
    inp = data['input']
    progs, script = l2.scenario_from_input(inp)
    run_all(ctx, [(progs, script)], monitors)


TRUSTED = [
    "harness/simkernel.py: the simulated kernel (lowest-free descriptor allocation, waitpid(-1, WNOHANG) semantics, ESRCH for reaped pids, a killed child is a zombie until waited; arguments the real calls reject -- None or other non-integer descriptors, str data -- raise TypeError as in os/fcntl; os.read returns at most the requested size; a pipe holds 64K) stands for Linux; supervisor.options.os/fcntl and the poller are replaced, everything else of supervisord runs unmodified",
    "Model/Sup.lean follows runforever() one pass at a time cut at the poll point; child output/dispatchers, ticks and log reopening are outside this model",
    "one clock reading per pass (the virtual clock only advances inside poll())",
]
