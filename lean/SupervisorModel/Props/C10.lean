import SupervisorModel.Lemmas.Listener
import SupervisorModel.Lemmas.Pool
import SupervisorModel.Lemmas.PoolLedger
/-
  C10 — event-listener protocol safety.  Property theorems only; helper lemmas are in
  Lemmas/Listener.lean.  The definitions unfolded there (`Sv.Gen.Listener.*`) are regenerated
  from /repo on every run.
-/
set_option linter.unusedSimpArgs false
set_option linter.unusedVariables false
namespace Sv.Props.C10
open Sv Sv.Listener Sv.Gen.Listener

/-- The parser's data invariant (`Listener.Wf`): while a result is being collected its announced length
    is not negative and the collected part is not longer than it.  It holds for a new dispatcher and is
    kept by everything the parser does (this is what the sign check of fix F6 buys). -/
theorem resultlen_never_negative (h : Bytes → HRes) (a : Bytes) (s : S) (he : s.err = none) (hw : Wf s.p) :
    (feed h a s).err = none ∧ Wf (feed h a s).p ∧
    (∀ n, (feed h a s).p.resultlen = some n → 0 ≤ n) := by
  have h1 : setP (fun p => { p with buf := p.buf ++ a }) s = sapp s a := by simp [setP, guard, he, sapp, app]
  unfold feed hlsc
  rw [h1]
  have hw' : Wf (sapp s a).p := (app_wf _ _).mpr hw
  have := runHL_ok h (mu (sapp s a).p + 1) (sapp s a) he hw' (by omega)
  refine ⟨this.1, this.2, ?_⟩
  intro n hn
  have h2 := this.2
  simp only [Wf, hn] at h2
  omega

example : Wf (fresh 7) := by simp [Wf, fresh, initialResult]

/-- The recursion of `handle_listener_state_change` always ends within the depth `2·|buffer| + 2`
    (the model's fuel): no RecursionError, for every state and every input.
    (Before fix F6 `RESULT -1\n…` recursed for ever.) -/
theorem terminates (h : Bytes → HRes) (a : Bytes) (s : S) (he : s.err = none) (hw : Wf s.p) :
    (feed h a s).err ≠ some .fuel := by
  rw [(resultlen_never_negative h a s he hw).1]; simp

/-- **Fragmentation invariance.**  Delivering `a` and then `b` leaves the listener — state, buffer,
    pending length, partial result, held event — and the concatenated outputs (state changes, handler
    calls, rejections) exactly as delivering `a ++ b` at once. -/
theorem fragmentation_invariant (h : Bytes → HRes) (a b : Bytes) (s : S) (he : s.err = none) (hw : Wf s.p) :
    feed h b (feed h a s) = feed h (a ++ b) s := by
  have h1 : ∀ (t : S) (x : Bytes), t.err = none → setP (fun p => { p with buf := p.buf ++ x }) t = sapp t x := by
    intro t x ht; simp [setP, guard, ht, sapp, app]
  have r1 := resultlen_never_negative h a s he hw
  have hw' : Wf (sapp s a).p := (app_wf _ _).mpr hw
  have hfa : feed h a s = runHL h (mu (sapp s a).p + 1) (sapp s a) := by unfold feed hlsc; rw [h1 s a he]
  have hassoc : sapp s (a ++ b) = sapp (sapp s a) b := by simp [sapp, app, List.append_assoc]
  unfold feed hlsc at *
  rw [h1 s (a ++ b) he, hassoc, h1 _ b r1.1, h1 s a he]
  exact (run_append h b (mu (sapp s a).p + 1) (sapp s a) _ _ he hw' (by omega) (by simp [sapp]) (by simp [sapp])).symm

/-- a BUSY listener holding event 3 (non-vacuity of the hypotheses, and a concrete instance) -/
def busy3 : S := { p := { fresh 7 with ls := .BUSY, event := some 3 } }
example : busy3.err = none ∧ Wf busy3.p := by simp [busy3, Wf, fresh, initialResult]
example : (feed defaultHandler [79, 75] (feed defaultHandler [82, 69, 83, 85, 76, 84, 32, 50, 10] busy3)).outs
    = [.handler (some 3) [79, 75], .lstate .BUSY .ACKNOWLEDGED] := by decide

/-! ### an event is written only to a RUNNING listener that announced READY -/

/-- `_dispatchEvent` leaves a listener that is not RUNNING or not READY completely alone:
    nothing is written, nothing changes (this covers UNKNOWN, ACKNOWLEDGED and BUSY: `unknown_is_silent`). -/
theorem not_ready_not_sent (ev : Nat) (env : Bytes) (s : S) (hn : s.p.running = false ∨ s.p.ls ≠ .READY) :
    trySend ev env s = (s, .skipped) := by
  unfold trySend
  rcases hn with hn | hn
  · simp [hn]
  · have : (s.p.ls == LS.READY) = false := by simpa using hn
    simp [this]

/-- when an event is handed over, the listener was RUNNING and READY -/
theorem sent_only_when_ready (ev : Nat) (env : Bytes) (s : S) (hs : (trySend ev env s).2 = .sent) :
    s.p.running = true ∧ s.p.ls = .READY := by
  by_cases hr : s.p.running = true
  · by_cases hl : s.p.ls = .READY
    · exact ⟨hr, hl⟩
    · rw [not_ready_not_sent ev env s (Or.inr hl)] at hs; cases hs
  · have hr' : s.p.running = false := by simpa using hr
    rw [not_ready_not_sent ev env s (Or.inl hr')] at hs; cases hs

example : (trySend 5 [1, 2, 3] { p := { fresh 7 with ls := .READY, running := true } }).2 = .sent := by decide

/-- **at_most_one_outstanding.**  For every history of one listener (any list of operations: output arriving in
    any fragmentation, hand-over attempts, writable events, pipe capacity changes, a closed stdin, process state
    changes, deaths, respawns) starting from a never-started listener:
    * a held event implies the listener is BUSY and alive (`event.isSome → listener_state = BUSY ∧ pid ≠ 0`);
    * in the output trace no event is handed over (`sent`) while an earlier one is still outstanding, i.e. has
      neither reached the result handler nor been returned by an `EventRejectedEvent` (`okFrom false`);
    * whenever the trace says an event is outstanding (`pendFrom false`), the listener does hold one.
    Together with `sent_only_when_ready` (a hand-over happens only to a RUNNING ∧ READY listener, which becomes
    BUSY) this is the statement's "never more than one unanswered event". -/
theorem at_most_one_outstanding (h : Bytes → HRes) (ops : List Op) :
    let s := exec h { p := initial } ops
    (s.p.event.isSome = true → s.p.ls = .BUSY ∧ s.p.pid ≠ 0) ∧
    okFrom false s.outs = true ∧
    (pendFrom false s.outs = true → s.p.event.isSome = true) := by
  have hi := inv_exec h ops _ inv_initial
  exact ⟨hi.busy, hi.ok, hi.pend⟩

/-- a history in which an event is handed over, answered, and a second one handed over -/
example :
    let s := exec defaultHandler { p := initial }
      [.spawn 7, .pstate .running, .read [82, 69, 65, 68, 89, 10], .send 1 [1, 2],
       .read [82, 69, 83, 85, 76, 84, 32, 50, 10, 79, 75, 82, 69, 65, 68, 89, 10], .send 2 [3]]
    (s.outs.filter isSent) = [.sent 1, .sent 2] ∧ s.p.event = some 2 ∧ s.p.ls = .BUSY := by decide

/-- the trace predicate does reject a double hand-over -/
example : okFrom false [Out.sent 1, Out.sent 2] = false := by decide

/-- in UNKNOWN every byte is swallowed: the state stays UNKNOWN and nothing is emitted -/
theorem unknown_absorbs (h : Bytes → HRes) (a : Bytes) (s : S) (he : s.err = none) (hu : s.p.ls = .UNKNOWN) :
    (feed h a s).p.ls = .UNKNOWN ∧ (feed h a s).outs = s.outs ∧ (feed h a s).p.buf = [] ∨
    (a = [] ∧ s.p.buf = [] ∧ feed h a s = s) := by
  have h1 : setP (fun p => { p with buf := p.buf ++ a }) s = sapp s a := by simp [setP, guard, he, sapp, app]
  unfold feed hlsc
  rw [h1, runHL_succ h _ (sapp s a) he]
  by_cases hb : (sapp s a).p.buf = []
  · right
    have hb' : s.p.buf = [] ∧ a = [] := by simpa [sapp, app] using hb
    refine ⟨hb'.2, hb'.1, ?_⟩
    rw [stepC_nil h _ hb]
    rcases hb' with ⟨h1, h2⟩
    subst h2
    rw [sapp_nil]
    cases s; simp_all
  · left
    rw [stepC_unknown h _ hb hu]
    simp [sapp, app, hu]

/-- the result-gathering part never leaves BUSY for UNKNOWN without rejecting the held event -/
theorem body_violation_returns_event (h : Bytes → HRes) (q : Lst) (n : Int) (hb : q.ls = .BUSY)
    (hn : (q.result.length : Int) ≤ n) (hu : (bodyC h q n).p.ls = .UNKNOWN) :
    Out.rejected q.event ∈ (bodyC h q n).outs ∧ (bodyC h q n).p.event = none := by
  have hn' : ¬ n - (q.result.length : Int) < 0 := by omega
  rw [bodyC_eq_K h q n hn'] at hu ⊢
  unfold bodyK at hu ⊢
  by_cases hc : n - ((takeBody q n).result.length : Int) = 0
  · simp only [hc, if_true] at hu ⊢
    unfold handled at hu ⊢
    have hev : (takeBody q n).event = q.event := rfl
    cases hh : h (takeBody q n).result <;> simp [hh, afterResult, hev] at hu ⊢
  · simp only [hc, if_false] at hu
    have : (takeBody q n).ls = q.ls := rfl
    rw [this, hb] at hu; cases hu

/-- `violation_returns_event`, per call body of the parser: whenever a BUSY listener is put into
    UNKNOWN (bad result line, result handler failure) an `EventRejectedEvent` for the event it held is
    emitted and the listener no longer holds it. -/
theorem violation_returns_event (h : Bytes → HRes) (p : Lst) (hb : p.ls = .BUSY) (hw : Wf p)
    (hu : (stepP h p).p.ls = .UNKNOWN) :
    Out.rejected p.event ∈ (stepP h p).outs ∧ (stepP h p).p.event = none := by
  rw [stepP_eq] at hu ⊢
  by_cases hbuf : p.buf = []
  · rw [stepC_nil h p hbuf] at hu; simp [hb] at hu
  · rcases Option.eq_none_or_eq_some p.resultlen with hr | ⟨n, hr⟩
    · rw [stepC_header h p hbuf hb hr] at hu ⊢
      unfold headerC at hu ⊢
      rcases Option.eq_none_or_eq_some (findNL p.buf) with hf | ⟨pos, hf⟩
      · simp [hf, hb] at hu
      · rcases Option.eq_none_or_eq_some (headerLenC (p.buf.take pos)) with hh | ⟨m, hh⟩
        · simp [hf, hh, toUnknown]
        · simp only [hf, hh] at hu ⊢
          have hres : p.result = [] := by simpa [Wf, hr] using hw
          exact body_violation_returns_event h (afterHeader p pos m) m (by simp [afterHeader, hb])
            (by simp [afterHeader, hres, headerLenC_nonneg _ _ hh]) hu
    · rw [stepC_body h p n hbuf hb hr] at hu ⊢
      exact body_violation_returns_event h p n hb (by simpa [Wf, hr] using hw) hu

/-- a complete zero-length result is acted on as soon as its header line is there (F25, fixed) -/
theorem zero_length_result_eager :
    (feed defaultHandler [82, 69, 83, 85, 76, 84, 32, 48, 10] busy3).p.ls = .ACKNOWLEDGED ∧
    (feed defaultHandler [82, 69, 83, 85, 76, 84, 32, 48, 10] busy3).outs =
      [.handler (some 3) [], .lstate .BUSY .ACKNOWLEDGED, .rejected (some 3)] := by decide

/-! ### the documented automaton on whole tokens -/

/-- what a listener may write: `READY\n`, or a result line `RESULT <n>\n` followed by `n` bytes -/
inductive Tok
  | ready
  | result (line payload : Bytes)

def Tok.bytes : Tok → Bytes
  | .ready => READY_FOR_EVENTS_TOKEN
  | .result line payload => line ++ 10 :: payload

/-- well-formed: the header line has no LF inside, starts with `RESULT ` and its number (Python `int`) is the
    payload's length -/
def Tok.Valid : Tok → Prop
  | .ready => True
  | .result line payload => ValidResult line payload

/-- The documented state machine of docs/events.rst over whole tokens:
    ACKNOWLEDGED -READY-> READY;  BUSY -RESULT-> result handler -> ACKNOWLEDGED (OK / FAIL) or UNKNOWN (handler error);
    every token that is not the expected one -> UNKNOWN (returning the held event when BUSY); UNKNOWN absorbs.
    (READY -> BUSY is not a token: it is the pool handing over an event, `trySend`.) -/
def docStep (h : Bytes → HRes) (ls : LS) (ev : Option Nat) : Tok → LS × Option Nat × List Out
  | .ready =>
    match ls with
    | .ACKNOWLEDGED => (.READY, none, [.lstate .ACKNOWLEDGED .READY])
    | .READY => (.UNKNOWN, none, [.lstate .READY .UNKNOWN])
    | .BUSY => (.UNKNOWN, none, [.lstate .BUSY .UNKNOWN, .rejected ev])
    | .UNKNOWN => (.UNKNOWN, ev, [])
  | .result _ payload =>
    match ls with
    | .ACKNOWLEDGED => (.UNKNOWN, none, [.lstate .ACKNOWLEDGED .UNKNOWN])
    | .READY => (.UNKNOWN, none, [.lstate .READY .UNKNOWN])
    | .BUSY => (resultLS h payload, none, resultOuts h ev payload)
    | .UNKNOWN => (.UNKNOWN, ev, [])

def docRun (h : Bytes → HRes) : LS → Option Nat → List Tok → LS × Option Nat × List Out
  | ls, ev, [] => (ls, ev, [])
  | ls, ev, t :: ts =>
    let r := docStep h ls ev t
    let r' := docRun h r.1 r.2.1 ts
    (r'.1, r'.2.1, r.2.2 ++ r'.2.2)

theorem tok_bytes_ne (t : Tok) : t.bytes ≠ [] := by
  cases t <;> simp [Tok.bytes, READY_FOR_EVENTS_TOKEN]

theorem setLE_self (p : Lst) : setLE p p.ls p.event = p := by cases p; rfl

/-- one token, any listener state: the parser does what the documented automaton does -/
theorem feed_token (h : Bytes → HRes) (t : Tok) (s : S) (he : s.err = none) (hb : Bnd s.p) (hv : t.Valid) :
    feed h t.bytes s =
      { p := setLE s.p (docStep h s.p.ls s.p.event t).1 (docStep h s.p.ls s.p.event t).2.1,
        outs := s.outs ++ (docStep h s.p.ls s.p.event t).2.2, err := none } := by
  have hunk : s.p.ls = .UNKNOWN → feed h t.bytes s =
      { p := setLE s.p .UNKNOWN s.p.event, outs := s.outs ++ [], err := none } := by
    intro hl
    rw [tok_any_unknown h _ s he hb hl (tok_bytes_ne t)]
    have : setLE s.p .UNKNOWN s.p.event = s.p := by rw [← hl]; exact setLE_self s.p
    rw [this]; cases s; simp_all
  cases t with
  | ready =>
    cases hl : s.p.ls <;> simp only [docStep, Tok.bytes]
    · rw [tok_any_ready h _ s he hb hl (by simp [READY_FOR_EVENTS_TOKEN])]
    · rw [tok_ready_busy h s he hb hl]
    · rw [tok_ready_ack h s he hb hl]
    · exact hunk hl
  | result line payload =>
    cases hl : s.p.ls <;> simp only [docStep, Tok.bytes]
    · rw [tok_any_ready h _ s he hb hl (by simp)]
    · rw [tok_result_busy h line payload s he hb hl hv]
    · rw [tok_result_ack h line payload s he hb hl hv]
    · exact hunk hl

theorem feed_nil_bnd (h : Bytes → HRes) (s : S) (he : s.err = none) (hb : Bnd s.p) : feed h [] s = s := by
  rw [feed_eq h [] s he, sapp_nil]
  exact runHL_nil h _ s he hb.1

theorem bnd_wf (p : Lst) (hb : Bnd p) : Wf p := by simp [Wf, hb.2.1, hb.2.2]

/-- **matches_documented_automaton.**  From a token boundary, for every sequence of well-formed tokens — delivered
    in one piece or, by `fragmentation_invariant`, in any fragmentation — the parser's listener state, held event and
    outputs (state changes, result handler calls with exactly the payload bytes, rejections) are those of the
    documented 4-state automaton run over the tokens, and the parser is again at a token boundary. -/
theorem matches_documented_automaton (h : Bytes → HRes) : ∀ (toks : List Tok) (s : S), s.err = none → Bnd s.p →
    (∀ t ∈ toks, t.Valid) →
    feed h (toks.flatMap Tok.bytes) s =
      { p := setLE s.p (docRun h s.p.ls s.p.event toks).1 (docRun h s.p.ls s.p.event toks).2.1,
        outs := s.outs ++ (docRun h s.p.ls s.p.event toks).2.2, err := none }
  | [], s, he, hb, _ => by
    simp only [List.flatMap_nil, docRun, List.append_nil]
    rw [feed_nil_bnd h s he hb, setLE_self]
    cases s; simp_all
  | t :: ts, s, he, hb, hv => by
    have hvt : t.Valid := hv t (by simp)
    have hvs : ∀ x ∈ ts, x.Valid := fun x hx => hv x (by simp [hx])
    simp only [List.flatMap_cons]
    rw [← fragmentation_invariant h t.bytes (ts.flatMap Tok.bytes) s he (bnd_wf _ hb), feed_token h t s he hb hvt]
    have ih := matches_documented_automaton h ts
      { p := setLE s.p (docStep h s.p.ls s.p.event t).1 (docStep h s.p.ls s.p.event t).2.1,
        outs := s.outs ++ (docStep h s.p.ls s.p.event t).2.2, err := none } rfl (setLE_bnd _ _ _ hb) hvs
    rw [ih]
    simp [docRun, setLE, List.append_assoc]

/-- a concrete run: READY, (event 3 handed over elsewhere), a result, READY again -/
example : docRun defaultHandler .BUSY (some 3) [.result [82, 69, 83, 85, 76, 84, 32, 50] [79, 75], .ready] =
    (.READY, none, [.handler (some 3) [79, 75], .lstate .BUSY .ACKNOWLEDGED, .lstate .ACKNOWLEDGED .READY]) := by decide

example : (Tok.result [82, 69, 83, 85, 76, 84, 32, 50] [79, 75]).Valid := by
  constructor <;> decide


/-! ### isolation -/

/-- **isolation.**  Whatever one listener does — any bytes on its stdout in any fragmentation, EOF, its stdin
    becoming writable, a pipe fault, its death (`f` ranges over all listener-level operations, and over everything
    else of type `S → S`) — no pool that does not own that listener's process *object* changes in any way (its name
    may well occur there too), and inside its own pool no other listener changes: the only things it can touch are
    its own state and its pool's buffer and poolserial counter. -/
theorem isolation (pi li : Nat) (f : Listener.S → Listener.S) (w : Pool.W) :
    (∀ j, j ≠ pi → (∀ p, w.pools[j]? = some p → Pool.owns p (Pool.whoOf w pi li) = false) →
      (Pool.onListener pi li f w).pools[j]? = w.pools[j]?) ∧
    (∀ (p p' : Pool.PoolSt) (k : Nat), w.pools[pi]? = some p → (Pool.onListener pi li f w).pools[pi]? = some p' →
      k ≠ li → p'.procs[k]? = p.procs[k]?) := by
  obtain ⟨h1, h2⟩ := Pool.onListener_isolated pi li f w
  exact ⟨h1, fun p p' k a b c => (h2 p p' k a b c).1⟩

/-- **never_disturbs_another_pool.**  `isolation` names the owner test; this is the statement without it.  In a
    daemon whose listeners are distinct process objects (`Pool.Static`: pool names distinct, every listener its own
    `Subprocess` object -- nothing is assumed about the listeners' *names*, which may coincide across pools), whatever
    listener `li` of pool `pi` does -- a FAIL answer, a bad result line, any other bytes, its death while it holds an
    event -- no other pool changes in any way: nothing is added to its buffer, its poolserial counter stands, its
    listeners keep their state, their held event and their unwritten stdin bytes.  The proof needs `handle_rejected`
    to recognise its own processes by object identity (generated `rejectedOwnerTest`; `Pool.Static.owner`). -/
theorem never_disturbs_another_pool (pi li : Nat) (f : Listener.S → Listener.S) (w : Pool.W) (hs : Pool.Static w)
    (j : Nat) (hj : j ≠ pi) : (Pool.onListener pi li f w).pools[j]? = w.pools[j]? := by
  by_cases hli : ∃ p, w.pools[pi]? = some p ∧ li < p.procs.length
  · obtain ⟨p, hp, hl⟩ := hli
    exact (isolation pi li f w).1 j hj (fun q hq => (hs.owner pi li p hp hl).2 j hj q hq)
  · unfold Pool.onListener
    split
    · rfl
    · split
      · rfl
      · rename_i pool hpool
        split
        · rfl
        · split
          · rfl
          · rename_i l hl
            exact absurd ⟨pool, hpool, by
              have := List.getElem?_eq_some_iff.mp hl
              exact this.1⟩ hli

/-- ... at every moment of every history of a freshly configured daemon (any pools with distinct section names, any
    numbers of listeners, names shared or not) -/
theorem never_disturbs_another_pool_ever (h : Bytes → HRes) (ps : List Pool.PoolSt) (hf : Pool.FreshPools ps)
    (ops : List Pool.Op) (pi li : Nat) (f : Listener.S → Listener.S) (j : Nat) (hj : j ≠ pi) :
    (Pool.onListener pi li f (Pool.exec h (Pool.boot (Pool.assignIds 0 ps)) ops)).pools[j]? =
      (Pool.exec h (Pool.boot (Pool.assignIds 0 ps)) ops).pools[j]? :=
  never_disturbs_another_pool pi li f _ (Pool.j_exec h 0 ops _ (Pool.j_fresh h ps hf 0)).st j hj

/-- two pools whose listeners have the same name `l0`: listener 0.0 answers FAIL for the event it holds; pool 1 (not
    subscribed to it, listener READY) is exactly as before -- the regression instance of seeded changes C09-2 / C10-5 -/
example :
    let ps : List Pool.PoolSt := [{ name := "a", bufSize := 3, subs := [.TICK_5], procs := [Listener.initial], names := ["l0"] },
                                  { name := "b", bufSize := 3, subs := [.TICK_60], procs := [Listener.initial], names := ["l0"] }]
    let ready : Bytes := [82, 69, 65, 68, 89, 10]
    let w := Pool.exec strictHandler (Pool.boot (Pool.withDir (Pool.assignIds 0 ps)))
      [.spawn 0 0 7 [], .pstate 0 0 .running, .spawn 1 0 8 [], .pstate 1 0 .running, .read 0 0 ready, .read 1 0 ready,
       .notify .TICK_5 [], .transition 0]
    let w' := Pool.step strictHandler w (.read 0 0 [82, 69, 83, 85, 76, 84, 32, 52, 10, 70, 65, 73, 76])
    (w.pools.map (·.buffer), w'.pools.map (·.buffer)) = ([[], []], [[2], []]) := by decide +kernel

end Sv.Props.C10
