import SupervisorModel.Lemmas.SupChain
set_option linter.unusedSimpArgs false
set_option linter.unusedVariables false
namespace Sv.Sup
open Sv Sv.Proc Sv.Gen.Proc Sv.Gen.Sup Sv.Props.C01

/-
  The record of the daemon never holds a per-process RPC answer at a main-loop boundary: only
  `rpcStop`/`rpcSignal` emit one, and `stopProcess`/`signalProcess` consume it at once; `transition()`,
  `finish()`, `spawn()`, `stop_all`'s `stop()`/`give_up()` and `stop_report()` emit none.  So `NoAns`
  (the hypothesis under which "the new part of the record" is `drop`) is an invariant of every run.
-/

/-! ### no per-process answer outside `stopProcess`/`signalProcess` -/

def isAns : Out → Bool
  | .answer _ => true
  | _ => false

/-- the operation's record holds no RPC answer -/
def NoA (s : Proc.S) : Prop := ∀ o ∈ s.outs, isAns o = false

theorem noA_guard (f : Proc.S → Proc.S) (s : Proc.S) (h : NoA s) (hf : NoA s → NoA (f s)) : NoA (guard f s) := by
  unfold guard; split
  · exact h
  · exact hf h

theorem noA_emit (o : Out) (s : Proc.S) (h : NoA s) (ho : isAns o = false) : NoA (emit o s) := by
  unfold emit
  apply noA_guard _ _ h
  intro _ x hx
  rcases List.mem_append.mp hx with hx | hx
  · exact h x hx
  · simp at hx; rw [hx]; exact ho

theorem noA_setP (f : Proc → Proc) (s : Proc.S) (h : NoA s) : NoA (setP f s) := by
  unfold setP
  exact noA_guard _ _ h (fun _ => h)

theorem noA_assertIn (l : List PS) (s : Proc.S) (h : NoA s) : NoA (assertIn l s) := by
  unfold assertIn
  apply noA_guard _ _ h
  intro _; split <;> exact h

theorem noA_changeState (cfg : Cfg) (now : Int) (new : PS) (ex : Bool) (s : Proc.S) (h : NoA s) :
    NoA (changeState cfg now new ex s) := by
  unfold changeState
  apply noA_guard _ _ h
  intro _
  try dsimp only
  split
  · exact h
  · split
    · exact noA_emit _ _ h rfl
    · exact h

attribute [local irreducible] Sv.emit Sv.setP Sv.guard Sv.Proc.assertIn Sv.Proc.changeState

macro "noa" : tactic => `(tactic| repeat (first
  | assumption
  | refine noA_emit _ _ ?_ rfl
  | apply noA_setP
  | apply noA_assertIn
  | apply noA_changeState
  | split))

theorem noA_spawn (cfg : Cfg) (now : Int) (res : SpawnRes) (s : Proc.S) (h : NoA s) : NoA (spawn cfg now res s) := by
  unfold spawn spawnError
  apply noA_guard _ _ h
  intro _
  try dsimp only
  noa

attribute [local irreducible] Sv.Proc.spawn

theorem noA_giveUp (cfg : Cfg) (now : Int) (s : Proc.S) (h : NoA s) : NoA (giveUp cfg now s) := by
  unfold giveUp
  apply noA_guard _ _ h
  intro _
  try dsimp only
  noa

theorem noA_kill (cfg : Cfg) (now sig : Int) (kr : KillRes) (s : Proc.S) (h : NoA s) : NoA (kill cfg now sig kr s) := by
  unfold kill
  apply noA_guard _ _ h
  intro _
  try dsimp only
  noa

attribute [local irreducible] Sv.Proc.kill Sv.Proc.giveUp

theorem noA_stop (cfg : Cfg) (now : Int) (kr : KillRes) (s : Proc.S) (h : NoA s) : NoA (stop cfg now kr s) := by
  unfold stop
  apply noA_guard _ _ h
  intro _
  try dsimp only
  apply noA_kill
  noa

attribute [local irreducible] Sv.Proc.stop

theorem noA_finishCore (cfg : Cfg) (e : Proc.Env) (busy : Bool) (s : Proc.S) (h : NoA s) : NoA (finishCore cfg e busy s) := by
  unfold finishCore
  apply noA_guard _ _ h
  intro _
  extract_lets now s2 s3 s4 s1
  have h2 : NoA s2 := noA_setP _ _ h
  have h3 : NoA s3 := by unfold s3; noa
  have h4 : NoA s4 := noA_assertIn _ _ h3
  have h1 : NoA s1 := by unfold s1; noa
  noa

theorem noA_finish (cfg : Cfg) (now es : Int) (busy : Bool) (s : Proc.S) (h : NoA s) : NoA (finish cfg now es busy s) := by
  unfold finish
  apply noA_guard _ _ h
  intro _
  try dsimp only
  apply noA_finishCore
  noa

theorem noA_autoStart (cfg : Cfg) (e : Proc.Env) (res : SpawnRes) (s : Proc.S) (h : NoA s) : NoA (autoStart cfg e res s) := by
  unfold autoStart
  apply noA_guard _ _ h
  intro _
  try dsimp only
  repeat' split
  all_goals first | exact h | exact noA_spawn _ _ _ _ h

theorem noA_toRunning (cfg : Cfg) (e : Proc.Env) (s : Proc.S) (h : NoA s) : NoA (toRunning cfg e s) := by
  unfold toRunning
  apply noA_guard _ _ h
  intro _
  noa

theorem noA_escalate (cfg : Cfg) (e : Proc.Env) (kr : KillRes) (s : Proc.S) (h : NoA s) : NoA (escalate cfg e kr s) := by
  unfold escalate
  apply noA_guard _ _ h
  intro _
  try dsimp only
  repeat' split
  all_goals first | exact h | exact noA_giveUp _ _ _ h | exact noA_kill _ _ _ _ _ h

theorem noA_transition (cfg : Cfg) (now mood : Int) (res : SpawnRes) (kr : KillRes) (s : Proc.S) (h : NoA s) :
    NoA (transition cfg now mood res kr s) := by
  unfold transition
  apply noA_guard _ _ h
  intro _
  try dsimp only
  apply noA_escalate
  apply noA_toRunning
  apply noA_autoStart
  exact noA_setP _ _ h

theorem noA_stopReport (cfg : Cfg) (now : Int) (s : Proc.S) (h : NoA s) : NoA (stopReport cfg now s) := by
  unfold stopReport
  apply noA_guard _ _ h
  intro _
  try dsimp only
  noa

theorem noA_groupStop (cfg : Cfg) (now : Int) (kr : KillRes) (s : Proc.S) (h : NoA s) : NoA (groupStop cfg now kr s) := by
  unfold groupStop
  apply noA_guard _ _ h
  intro _
  repeat' split
  all_goals first | exact h | exact noA_stop _ _ _ _ h | exact noA_giveUp _ _ _ h

/-! ### the daemon's record -/

/-- the record of `s` holds no unconsumed per-process RPC answer -/
def NA (s : Sup) : Prop := NoAns s.outs

theorem na_frame {s s' : Sup} (h : NA s) (ho : s'.outs = s.outs) : NA s' := by
  unfold NA at *; rw [ho]; exact h

theorem na_append {s s' : Sup} (x : List SOut) (h : NA s) (ho : s'.outs = s.outs ++ x) (hx : NoAns x) : NA s' := by
  unfold NA at *
  rw [ho]
  intro o hm
  rcases List.mem_append.mp hm with hm | hm
  · exact h o hm
  · exact hx o hm

theorem na_sguard (f : M) (s : Sup) (h : NA s) (hf : s.err = none → s.exited = false → NA (f s)) : NA (sguard f s) := by
  unfold sguard
  cases he : s.err with
  | some x => simpa using h
  | none =>
    cases hx : s.exited with
    | true => simpa using h
    | false => simpa using hf he hx

theorem na_sguard' (f : M) (s : Sup) (h : NA s) (hf : NA s → NA (f s)) : NA (sguard f s) :=
  na_sguard f s h (fun _ _ => hf h)

theorem na_foldl {α : Type} (f : Sup → α → Sup) (hf : ∀ acc x, NA acc → NA (f acc x)) (l : List α) (s : Sup) (h : NA s) :
    NA (l.foldl f s) := by
  induction l generalizing s with
  | nil => exact h
  | cons x xs ih => exact ih _ (hf _ _ h)

theorem na_semit (o : SOut) (s : Sup) (ho : daemonOut o = true) (h : NA s) : NA (semit o s) := by
  unfold semit
  apply na_sguard _ _ h
  intro _ _
  refine na_append [o] h rfl ?_
  intro x hx
  simp at hx; subst hx
  cases x <;> first | rfl | simp [daemonOut] at ho

theorem na_envExhausted {s : Sup} (h : NA s) : NA { s with err := some .envExhausted } := na_frame h rfl
theorem na_setPending (s : Sup) (o : List Deferred) (h : NA s) : NA { s with pending := o } := na_frame h rfl

theorem na_filterOuts (s : Sup) :
    NA { s with outs := s.outs.filter fun o => match o with | .proc _ (.answer _) => false | _ => true } := by
  intro o ho
  have h2 := (List.mem_filter.mp ho).2
  cases o with
  | proc m x => cases x <;> first | rfl | simp at h2
  | _ => rfl

theorem na_onProc (name : Nat) (f : Cfg → Proc.S → Proc.S) (hf : ∀ cfg p, NoA (f cfg { p := p })) (s : Sup) (h : NA s) :
    NA (onProc name f s) := by
  by_cases hc : (s.err.isSome || s.exited) = true
  · rw [onProc_skip _ _ _ hc]; exact h
  · have he : s.err = none := by cases h : s.err <;> simp_all
    have hx : s.exited = false := by cases h : s.exited <;> simp_all
    cases hfe : findPE s.procs name with
    | none => rw [onProc_none _ _ _ hfe]; exact h
    | some e0 =>
      rw [onProc_eq name f s e0 he hx hfe]
      refine na_append _ h rfl ?_
      intro o ho
      obtain ⟨x, hx, rfl⟩ := List.mem_map.mp ho
      have := hf e0.cfg e0.p x hx
      cases x <;> first | rfl | simp [isAns] at this

theorem noA_init (p : Proc) : NoA { p := p } := by intro o ho; simp at ho

theorem na_procTransition (name : Nat) (s : Sup) (h : NA s) : NA (procTransition name s) := by
  unfold procTransition
  apply na_sguard _ _ h
  intro _ _
  try dsimp only
  split
  · exact h
  · split
    · rcases popSpawn_cases s with h' | ⟨r, rs, _, h'⟩ <;> rw [h'] <;> dsimp only
      · exact na_envExhausted h
      · exact na_onProc _ _ (fun _ p => noA_transition _ _ _ _ _ _ (noA_init p)) _ (na_frame h rfl)
    · split
      · rcases popKill_cases s with h' | ⟨k, ks, h'⟩ <;> rw [h'] <;> dsimp only
        · exact na_envExhausted h
        · exact na_onProc _ _ (fun _ p => noA_transition _ _ _ _ _ _ (noA_init p)) _ (na_frame h rfl)
      · exact na_onProc _ _ (fun _ p => noA_transition _ _ _ _ _ _ (noA_init p)) _ h

theorem na_procGroupStop (name : Nat) (s : Sup) (h : NA s) : NA (procGroupStop name s) := by
  unfold procGroupStop
  apply na_sguard _ _ h
  intro _ _
  try dsimp only
  split
  · exact h
  · split
    · rcases popKill_cases s with h' | ⟨k, ks, h'⟩ <;> rw [h'] <;> dsimp only
      · exact na_envExhausted h
      · exact na_onProc _ _ (fun _ p => noA_groupStop _ _ _ _ (noA_init p)) _ (na_frame h rfl)
    · exact na_onProc _ _ (fun _ p => noA_groupStop _ _ _ _ (noA_init p)) _ h

theorem na_stopAll (g : Nat) (s : Sup) (h : NA s) : NA (stopAll g s) := by
  unfold stopAll
  apply na_sguard _ _ h
  intro _ _
  exact na_foldl _ (fun acc e h => na_procGroupStop e.name acc h) _ _ h

theorem na_exitTest (s : Sup) (h : NA s) : NA (exitTest s) := by
  unfold exitTest
  apply na_sguard _ _ h
  intro _ _
  try dsimp only
  split
  · exact na_append [.exitNow] h rfl (by intro o ho; simp at ho; subst ho; rfl)
  · exact h

theorem na_shutdownPhase1 (s : Sup) (h : NA s) : NA (shutdownPhase1 s) := by
  unfold shutdownPhase1
  apply na_sguard _ _ h
  intro _ _
  try dsimp only
  split
  · apply na_exitTest
    have h1 : NA (if runforever_g2 s.mood 0 0 0 s.stopping false = true then
        semit .stopping { s with stopping := true, stopGroups := (sortedGroups s).map (·.1) } else s) := by
      split
      · exact na_semit _ _ rfl (na_frame h rfl)
      · exact h
    split
    · exact na_stopAll _ _ h1
    · exact h1
  · exact h

theorem na_shutdownPhase2 (s : Sup) (h : NA s) : NA (shutdownPhase2 s) := by
  unfold shutdownPhase2
  apply na_sguard _ _ h
  intro _ _
  try dsimp only
  split
  · split
    · exact h
    · split
      · exact na_frame h rfl
      · exact h
  · exact h

theorem na_handleSignal (s : Sup) (h : NA s) : NA (handleSignal s) := by
  unfold handleSignal
  apply na_sguard _ _ h
  intro _ _
  try dsimp only
  split
  · exact h
  · exact na_frame h rfl

theorem na_delHist (pid : Int) (s : Sup) (h : NA s) : NA (delHist pid s) := by
  unfold delHist
  apply na_sguard _ _ h
  intro _ _
  exact na_frame h rfl

theorem na_reapOne (pid es : Int) (name gen : Nat) (s : Sup) (h : NA s) : NA (reapOne pid es name gen s) := by
  unfold reapOne
  apply na_delHist
  split
  · exact na_onProc _ _ (fun _ p => noA_finish _ _ _ _ _ (noA_init p)) _ h
  · exact h

theorem na_reapLoop (ws : List (Int × Int)) : ∀ (k : Int) (s : Sup), NA s → NA (reapLoop k ws s) := by
  induction ws with
  | nil => intro k s h; exact h
  | cons w ws ih =>
    intro k s h
    obtain ⟨pid, es⟩ := w
    rw [reapLoop]
    apply na_sguard _ _ h
    intro _ _
    try dsimp only
    split
    · exact h
    · split
      · exact h
      · split
        · exact ih _ _ (na_semit _ _ rfl h)
        · exact ih _ _ (na_reapOne _ _ _ _ _ h)

theorem na_reap (s : Sup) (h : NA s) : NA (reap s) := by
  unfold reap
  apply na_sguard _ _ h
  intro _ _
  try dsimp only
  split
  · exact na_envExhausted h
  · exact na_reapLoop _ _ _ (na_frame h rfl)

theorem na_pollDeferred (d : Deferred) (s : Sup) (h : NA s) : NA (pollDeferred d s) := by
  unfold pollDeferred
  apply na_sguard _ _ h
  intro _ _
  cases d with
  | startWait id name =>
    dsimp only
    split
    · exact h
    · split
      · exact na_semit _ _ rfl h
      · exact na_frame h rfl
  | stopWait id name =>
    dsimp only
    have h1 : NA (onProc name (fun cfg => stopReport cfg s.env.now) s) :=
      na_onProc _ _ (fun _ p => noA_stopReport _ _ _ (noA_init p)) _ h
    split
    · exact h1
    · split
      · exact na_semit _ _ rfl h1
      · exact na_frame h1 rfl

theorem na_pollAll (s : Sup) (h : NA s) : NA (pollAll s) := by
  unfold pollAll
  apply na_sguard _ _ h
  intro _ _
  try dsimp only
  exact na_foldl _ (fun acc d h => na_pollDeferred d acc h) _ _ (na_frame h rfl)

theorem na_transitions (order : List (Nat × Nat)) (s : Sup) (h : NA s) : NA (transitions order s) := by
  unfold transitions
  apply na_sguard _ _ h
  intro _ _
  try dsimp only
  apply na_foldl _ _ _ _ h
  intro acc ng h
  try dsimp only
  split
  · split
    · exact na_procTransition _ _ h
    · exact h
  · exact h

theorem na_stop_tail (id name : Nat) (wait : Bool) (c : Bool) (code : Int) (s2 : Sup) (h2 : NA s2) :
    NA (if (c && wait) = true then
        match findPE (if c = true then reap s2 else s2).procs name with
        | some e2 =>
          if (!decide (e2.p.state ∈ stoppedStates)) = true then
            semit (.deferredStart id) { (if c = true then reap s2 else s2) with
              pending := (if c = true then reap s2 else s2).pending ++ [.stopWait id name] }
          else semit (.answer id faultSUCCESS false) (if c = true then reap s2 else s2)
        | none => (if c = true then reap s2 else s2)
      else semit (.answer id code false) (if c = true then reap s2 else s2)) := by
  have h3 : NA (if c = true then reap s2 else s2) := by
    split
    · exact na_reap _ h2
    · exact h2
  generalize (if c = true then reap s2 else s2) = s3 at h3 ⊢
  split
  · split
    · split
      · exact na_semit _ _ rfl (na_setPending _ _ h3)
      · exact na_semit _ _ rfl h3
    · exact h3
  · exact na_semit _ _ rfl h3

theorem popSpawn_na {c : Prop} [Decidable c] (s : Sup) (h : NA s) :
    NA (if c then popSpawn s else (some (SpawnRes.ok 0), s)).2 := by
  split
  · rcases popSpawn_cases s with h' | ⟨r, rs, _, h'⟩ <;> rw [h']
    · exact h
    · exact na_frame h rfl
  · exact h

/-- **every RPC leaves the record free of per-process answers**: `stopProcess` and `signalProcess` consume
    the answer of `process.stop()` / `process.signal()` before they return -/
theorem na_rpcOne (r : Rpc) (s : Sup) (h : NA s) : NA (rpcOne r s) := by
  unfold rpcOne
  apply na_sguard _ _ h
  intro he hx
  cases r with
  | shutdown id =>
    dsimp only
    split
    · exact na_semit _ _ rfl h
    · exact na_semit _ _ rfl (na_frame h rfl)
  | restart id =>
    dsimp only
    split
    · exact na_semit _ _ rfl h
    · exact na_semit _ _ rfl (na_frame h rfl)
  | addGroup id g =>
    dsimp only
    split
    · exact na_semit _ _ rfl h
    · split
      · split <;> exact na_semit _ _ rfl h
      · exact na_semit _ _ rfl (na_frame h rfl)
  | removeGroup id g =>
    dsimp only
    split
    · exact na_semit _ _ rfl h
    · split
      · exact na_semit _ _ rfl h
      · split
        · exact na_semit _ _ rfl h
        · exact na_semit _ _ rfl (na_frame h rfl)
  | start id name wait missing =>
    dsimp only
    split
    · exact na_semit _ _ rfl h
    · split
      · exact na_semit _ _ rfl h
      · split
        · exact na_semit _ _ rfl h
        · split
          · exact na_envExhausted h
          · refine na_sguard' _ _ (na_reap _ (na_onProc _ _ (fun _ p => noA_spawn _ _ _ _ (noA_init p)) _ (popSpawn_na s h))) ?_
            intro h2
            try dsimp only
            split
            · exact h2
            · split
              · exact na_semit _ _ rfl h2
              · refine na_sguard' _ _ (na_procTransition _ _ h2) ?_
                intro h3
                try dsimp only
                split
                · exact h3
                · split
                  · exact na_semit _ _ rfl (na_setPending _ _ h3)
                  · exact na_semit _ _ rfl h3
  | stop id name wait =>
    dsimp only
    split
    · exact na_semit _ _ rfl h
    · split
      · exact na_semit _ _ rfl h
      · split
        · exact na_envExhausted h
        · apply na_stop_tail
          exact na_filterOuts _
  | signal id name sig =>
    dsimp only
    split
    · exact na_semit _ _ rfl h
    · split
      · exact na_semit _ _ rfl h
      · split
        · exact na_semit _ _ rfl h
        · split
          · exact na_envExhausted h
          · apply na_semit _ _ rfl
            exact na_filterOuts _

theorem na_rpcGuarded (r : Rpc) (s : Sup) (h : NA s) : NA (rpcGuarded r s) := by
  unfold rpcGuarded
  apply na_sguard _ _ h
  intro _ _
  try dsimp only
  have h1 := na_rpcOne r s h
  split
  · exact na_frame h1 rfl
  · exact h1

/-- **one pass keeps the record free of unconsumed per-process answers** -/
theorem na_pass (env : Env) (s : Sup) (h : NA s) : NA (pass env s) := by
  unfold pass
  apply na_sguard _ _ h
  intro _ _
  try dsimp only
  apply na_shutdownPhase1
  apply na_shutdownPhase2
  apply na_handleSignal
  apply na_reap
  apply na_transitions
  have h1 : NA (env.rpcs.foldl (fun acc r => rpcGuarded r acc) { s with env := env }) :=
    na_foldl _ (fun acc r h => na_rpcGuarded r acc h) _ _ (na_frame h rfl)
  split
  · exact na_pollAll _ h1
  · exact h1

theorem na_passes (envs : List Env) (s : Sup) (h : NA s) : NA (passes envs s) :=
  na_foldl _ (fun acc e h => na_pass e acc h) _ _ h

end Sv.Sup
