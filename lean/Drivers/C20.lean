import SupervisorModel.Basic.DriverKit
import SupervisorModel.Model.Ctl
def main : IO Unit := Sv.driverMain [("ctl", Sv.Ctl.runCase)]
