/-
  Sticky-error state transformers: every Python method becomes `St σ ο ε → St σ ο ε`;
  `raise`/`assert` sets `err`, after which every further step is the identity, so "an
  exception escapes" is an ordinary observable of the model.
-/
namespace Sv

structure St (σ ο ε : Type) where
  p : σ
  outs : List ο := []
  err : Option ε := none

variable {σ ο ε : Type}

def guard (f : St σ ο ε → St σ ο ε) (s : St σ ο ε) : St σ ο ε :=
  if s.err.isSome then s else f s

def emit (o : ο) : St σ ο ε → St σ ο ε := guard fun s => { s with outs := s.outs ++ [o] }
def setP (f : σ → σ) : St σ ο ε → St σ ο ε := guard fun s => { s with p := f s.p }
def raise (e : ε) : St σ ο ε → St σ ο ε := guard fun s => { s with err := some e }

end Sv
