import SupervisorModel.Model.ProcOps
import SupervisorModel.Generated.Execv
/-
  "May this command be executed": ServerOptions.check_execv_args, Subprocess.get_execv_args, and the two places that
  depend on them -- the pre-flight test of rpcinterface.startProcess and the try at the head of Subprocess.spawn.

  The environment is what the system calls answer: for every candidate file of the lookup (the program itself when it
  contains a '/', otherwise <dir>/<program> for every directory of the path, in order) the st_mode stat() reports or
  `none` when stat() raised OSError, and what os.access(file, X_OK) answers for the user supervisord runs as.
  Every test of the two functions is the definition regenerated from /repo (`Sv.Gen.Execv.check_g*`, `args_g*`), the
  if/elif chain of check_execv_args is the generated list `checkChain` (test, class raised) whatever its length, the
  mapping from the class raised to the fault startProcess answers is the generated list of its except clauses, and
  the statement-level shape the control flow below was written against is the conjunction of generated facts
  (`argsStructureOk`, `startStructureOk`, `spawnStructureOk`) -- when one of them is false the model answers
  `unmodelled` instead of pretending.
-/
namespace Sv.Execv
open Sv Sv.Proc Sv.Gen.Proc Sv.Gen.Execv

/-- first branch of an if/elif chain whose test holds: the class raised there -/
def firstRaise : List ((Option Int → Bool → Bool) × String) → Option Int → Bool → Option String
  | [], _, _ => none
  | (g, c) :: rest, st, acc => if g st acc then some c else firstRaise rest st acc

/-- ServerOptions.check_execv_args(filename, argv, st): the exception class it raises; `none` when it returns -/
def check (f : File) : Option String :=
  if checkIsRaiseChain then firstRaise checkChain f.st f.acc else some "unmodelled"

/-- what shlex.split makes of the configured command -/
inductive Cmd
  | unparsable     -- shlex.split raised ValueError
  | empty          -- no words
  | explicit       -- the program contains a '/': used as it is
  | search         -- looked up in the directories of the path
deriving DecidableEq, Repr

/-- stat() found nothing anywhere: st = None, and the file name is the bare program name -/
def nowhere : File := { st := none, acc := false }

def argsStructureOk : Bool :=
  argsExplicitStatErrIsNone && argsSearchStopsAtFirstHit && argsFilenameIsFound && argsEndsWithCheckAndReturn
    && argsCheckCall == ["filename", "commandargs", "st"] && argsGuards == ["args_g0", "args_g1", "args_g2"]

/-- position in the candidate list (`resolvedIdx`, for the driver's `ok:<index>`) and description (`resolved`) of the file
    get_execv_args hands to check_execv_args: the program itself when it contains a '/', otherwise the first candidate whose
    stat succeeds; when there is none, st = None and the file name is the bare program name -/
def resolvedIdx (hasSlash : Bool) (files : List File) : Option Nat :=
  if args_g1 true hasSlash none then (if files.isEmpty then none else some 0)
  else files.findIdx? (fun f => !(args_g2 true hasSlash f.st))

def resolved (hasSlash : Bool) (files : List File) : File :=
  if args_g1 true hasSlash none then files.head?.getD nowhere
  else (files.find? (fun f => !(args_g2 true hasSlash f.st))).getD nowhere

/-- Subprocess.get_execv_args(): the exception class it raises; `none` when it returns (filename, argv) -/
def execvRaises (cmd : Cmd) (files : List File) : Option String :=
  if !argsStructureOk then some "unmodelled"
  else match cmd with
  | .unparsable => some argsParseRaises
  | _ =>
    if !(args_g0 (cmd != .empty) (cmd == .explicit) none) then some argsEmptyRaises
    else check (resolved (cmd == .explicit) files)

/-! ### who catches what -/

/-- `cls` is `anc` or derived from it (supervisor.options' ProcessException family; any other name only matches itself) -/
def isA (cls anc : String) : Bool :=
  match excAncestors.lookup cls with
  | some l => l.contains anc
  | none => cls == anc

def caughtBy (cls : String) (names : List String) : Bool := names.any (isA cls)

/-- the fault startProcess raises for an exception of class `cls` escaping process.get_execv_args(): the first except clause
    that catches it -/
def handlerFault (cls : String) : Option Int :=
  (startHandlers.find? (fun h => caughtBy cls h.1)).map (·.2)

inductive Pre
  | pass                    -- get_execv_args() returned
  | fault (code : Int)      -- RPCError(code)
  | escapes (cls : String)  -- no except clause of startProcess catches the class: the exception leaves startProcess
deriving DecidableEq, Repr

def preflight (raised : Option String) : Pre :=
  match raised with
  | none => .pass
  | some c =>
    match handlerFault c with
    | some k => .fault k
    | none => .escapes c

def startStructureOk : Bool :=
  startHandlersTranslated && startSpawnCalls == 1
    && startStatementOrder == ["update", "lookup", "group-form", "execv-check", "state-test", "spawn"]

def spawnStructureOk : Bool := spawnHandlerReturns && spawnChecksBeforeFork

/-- a model state plus the class of an exception that left the operation uncaught (never on the unchanged tree) -/
structure R where
  s : S
  esc : Option String := none

/-- what `spawn()` sees: `badCmd` (its handler: spawnerr, BACKOFF, return before the fork) when get_execv_args() raised
    something it catches -/
def spawnRes (raised : Option String) (res : SpawnRes) : Except String SpawnRes :=
  match raised with
  | none => .ok res
  | some c => if caughtBy c spawnCatches then .ok .badCmd else .error c

/-- rpcinterface.startProcess(name, wait): `_update` gate, the pre-flight get_execv_args() with its except clauses, then the
    state tests / spawn() / SPAWN_ERROR test / transition() of `Proc.rpcStart` (whose spawn() repeats the lookup and gets the
    same answers) -/
def startProcess (cfg : Cfg) (now mood : Int) (raised : Option String) (res : SpawnRes) (s : S) : R :=
  if !(startStructureOk && spawnStructureOk) then { s := s, esc := some "unmodelled" }
  else if s.err.isSome then { s := s }
  else if Sv.ilt mood moodRUNNING then { s := answer faultSHUTDOWN_STATE s }
  else
    match preflight raised with
    | .fault c => { s := answer c s }
    | .escapes c => { s := s, esc := some c }
    | .pass => { s := rpcStart cfg now mood res s }

/-- the immediate answer is a callback to be polled, not `True` -/
def deferred (wait : Bool) (r : S) : Bool :=
  r.outs.getLast? == some (.answer faultSUCCESS) && start_deferWhen wait r.p

/-- Subprocess.transition() with the lookup of spawn() answered by the file system instead of by decree -/
def transitionChecked (cfg : Cfg) (now mood : Int) (raised : Option String) (res : SpawnRes) (kr : KillRes) (s : S) : R :=
  if !spawnStructureOk then { s := s, esc := some "unmodelled" }
  else match spawnRes raised res with
  | .ok r => { s := transition cfg now mood r kr s }
  | .error c => { s := s, esc := some c }

/-! ### line protocol -/

def parseSt (s : String) : Option (Option Int) :=
  if s == "none" then some none else s.toInt?.map some

def parseFile (tok : String) : Option File :=
  match tok.splitOn "/" with
  | [st, a] =>
    match parseSt st, a with
    | some st, "1" => some { st := st, acc := true }
    | some st, "0" => some { st := st, acc := false }
    | _, _ => none
  | _ => none

def parseFiles (s : String) : Option (List File) :=
  if s == "-" then some [] else (s.splitOn ",").mapM parseFile

def parseCmd (s : String) : Option Cmd :=
  match s with
  | "unparsable" => some .unparsable | "empty" => some .empty | "explicit" => some .explicit | "search" => some .search
  | _ => none

/-- an explicit program has exactly one candidate; an unparsable or empty command has none -/
def lookupOk (cmd : Cmd) (files : List File) : Bool :=
  match cmd with
  | .explicit => files.length == 1
  | .search => true
  | _ => files.isEmpty

def parseLookup (a : List String) : Option (Cmd × List File) := do
  let cmd ← (kvGet a "cmd").bind parseCmd
  let files ← (kvGet a "files").bind parseFiles
  if lookupOk cmd files then pure (cmd, files) else none

/-- the fork answer of the seam; `badcmd` is not an answer here: it is what the files say -/
def parseFork (s : String) : Option SpawnRes :=
  match parseSpawn s with
  | some .badCmd => none
  | r => r

def showR (wait : Bool) (r : R) : String :=
  let outs := r.s.outs.map outStr
  let outs := if deferred wait r.s then outs.dropLast ++ ["deferred"] else outs
  let o := if outs.isEmpty then "-" else ";".intercalate outs
  let e := match r.esc with
    | some c => c
    | none => match r.s.err with | some _ => "AssertionError" | none => "-"
  s!"{procStr r.s.p} | {o} | {e}"

def showRaised (r : Option String) (okText : String) : String :=
  match r with
  | none => okText
  | some c => c

def runLines (cfg : Cfg) : Proc → List String → List String
  | _, [] => []
  | p, l :: ls =>
    match words l with
    | "check" :: a =>
      (match (kvGet a "st").bind parseSt, kvBool a "acc" with
       | some st, some acc => showRaised (check { st := st, acc := acc }) "ok"
       | _, _ => "bad-op") :: runLines cfg p ls
    | "getargs" :: a =>
      (match parseLookup a with
       | some (cmd, files) =>
         showRaised (execvRaises cmd files)
           (match resolvedIdx (cmd == .explicit) files with | some i => s!"ok:{i}" | none => "ok:nowhere")
       | none => "bad-op") :: runLines cfg p ls
    | "xstart" :: a =>
      (match kvInt a "now", kvInt a "mood", kvBool a "wait", (kvGet a "spawn").bind parseFork, parseLookup a with
       | some now, some mood, some wait, some res, some (cmd, files) =>
         let r := startProcess cfg now mood (execvRaises cmd files) res { p := p }
         showR wait r :: runLines cfg r.s.p ls
       | _, _, _, _, _ => "bad-op" :: runLines cfg p ls)
    | "xtransition" :: a =>
      (match kvInt a "now", kvInt a "mood", (kvGet a "spawn").bind parseFork, (kvGet a "kill").bind parseKill, parseLookup a with
       | some now, some mood, some res, some kr, some (cmd, files) =>
         let r := transitionChecked cfg now mood (execvRaises cmd files) res kr { p := p }
         showR false r :: runLines cfg r.s.p ls
       | _, _, _, _, _ => "bad-op" :: runLines cfg p ls)
    | _ =>
      match parseOp l with
      | none => "bad-op" :: runLines cfg p ls
      | some op =>
        let r := stepP cfg p op
        showR false { s := r } :: runLines cfg r.p ls

def runCase (cfgArgs : List String) (ops : List String) : List String :=
  match parseCfg cfgArgs with
  | none => ops.map fun _ => "bad-config"
  | some cfg => runLines cfg {} ops

end Sv.Execv
