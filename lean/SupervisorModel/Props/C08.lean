import SupervisorModel.Lemmas.Capture
import SupervisorModel.Lemmas.OutDispDirect
/-
  C08 — capture mode extracts exactly what is between the tags.

  Reference: `Sv.CapSpec.refSplit` (Lemmas/CaptureSpec.lean) applied to the whole, unfragmented
  stream.  Model: `Sv.OutDisp` (Model/OutDisp.lean), whose tests, slices and arithmetic are the
  definitions regenerated from supervisor/dispatchers.py, supervisor/medusa/asynchat_25.py and
  supervisor/loggers.py (`Sv.Gen.OutDisp.*`).  Observables: `loggedOf` (bytes handed to the log
  file), `plogOf` (PROCESS_LOG event data), `commOf` (PROCESS_COMMUNICATION event data).
-/
set_option linter.unusedSimpArgs false
set_option linter.unusedVariables false
namespace Sv.Props.C08
open Sv Sv.OutDisp Sv.Gen.OutDisp Sv.CapSpec

/-! ### the tags are the documented ones, for both channels -/

/-- ASCII text as bytes -/
def ascii (l : List Char) : Bytes := l.map fun ch => ch.toNat.toUInt8

theorem tokens_as_documented :
    BEGIN_TOKEN = ascii ['<', '!', '-', '-', 'X', 'S', 'U', 'P', 'E', 'R', 'V', 'I', 'S', 'O', 'R', ':', 'B', 'E', 'G', 'I', 'N', '-', '-', '>'] ∧
    END_TOKEN = ascii ['<', '!', '-', '-', 'X', 'S', 'U', 'P', 'E', 'R', 'V', 'I', 'S', 'O', 'R', ':', 'E', 'N', 'D', '-', '-', '>'] ∧
    stdout_BEGIN = BEGIN_TOKEN ∧ stderr_BEGIN = BEGIN_TOKEN ∧ stdout_END = END_TOKEN ∧ stderr_END = END_TOKEN := by
  decide

/-- configurations the driver builds (`parseCfg`): generated tokens of the channel -/
def Std (c : Cfg) : Prop :=
  c.btok = (if c.isStdout then stdout_BEGIN else stderr_BEGIN) ∧ c.etok = (if c.isStdout then stdout_END else stderr_END)

theorem std_tokens_nonempty (c : Cfg) (h : Std c) : c.btok ≠ [] ∧ c.etok ≠ [] := by
  obtain ⟨h1, h2⟩ := h
  rw [h1, h2]
  cases c.isStdout <;> decide

/-! ### the model the driver executes is the model the theorems are about

  `readEventDirect` follows `handle_read_event` / `record_output` statement by statement (effects
  interleaved with the scan, as the method is written); `readEvent` performs the calls found by
  the scanner `scanGo`.  They are the same function. -/
theorem direct_model_eq (c : Cfg) (x : Bytes) (s : S) : readEventDirect c x s = readEvent c x s :=
  readEventDirect_eq c x s

/-! ### the scanner refines the reference splitter (monoid-action form of fragmentation invariance)

  `scanGo` is `record_output`: from (`capturemode` = m, `output_buffer` = buf) it makes the calls
  `acts` and leaves (`mode`, `buf`).  For every continuation `y` of the stream, what it has
  decided so far followed by the reference applied to "what it kept ++ y" equals the reference
  applied to "what it had ++ y".  After an end-of-file scan nothing more can follow (`y = []`).
  The "not enough data yet" test (`record_output_g2`) and the `if after:` test
  (`record_output_g4`) are kept opaque: waiting is always safe. -/
theorem scan_refines (c : Cfg) (hc : c.capMax ≠ 0) (hb : c.btok ≠ []) (he : c.etok ≠ [])
    (eof : Bool) (y : Bytes) (hy : eof = false ∨ y = []) :
    ∀ (n : Nat) (m : Bool) (buf : Bytes), buf.length < n →
      (scanGo c eof n m buf).fuelOut = false ∧
      endMode m (scanGo c eof n m buf).acts = (scanGo c eof n m buf).mode ∧
      flat m (scanGo c eof n m buf).acts ++
          spec c (scanGo c eof n m buf).mode ((scanGo c eof n m buf).buf ++ y)
        = spec c m (buf ++ y) := by
  intro n
  induction n with
  | zero => intro m buf h; omega
  | succ n ih =>
    intro m buf hlen
    have hg0 : record_output_g0 c.capMax m eof buf c.btok c.etok [] [] 0 = false := by
      simp [record_output_g0, hc]
    have htok : (if record_output_g1 c.capMax m eof buf c.btok c.etok [] [] 0
                 then record_output_a2 c.capMax m eof buf c.btok c.etok [] [] 0
                 else record_output_a3 c.capMax m eof buf c.btok c.etok [] [] 0) = tokOf c m := by
      cases m <;> rfl
    have htne : tokOf c m ≠ [] := by unfold tokOf; split <;> assumption
    unfold scanGo
    simp only [hg0, htok, Bool.false_eq_true, if_false]
    by_cases hw : record_output_g2 c.capMax m eof buf c.btok c.etok [] [] 0 = true
    · simp [hw, flat, endMode]
    · simp only [hw, Bool.false_eq_true, if_false, record_output_a4, record_output_a5]
      cases hs : splitFirst (tokOf c m) buf with
      | none =>
        simp only [findPrefixAtEnd_eq _ _ htne]
        have key := splitFirst_append buf y hs htne
        have hk := pae_le_length buf (tokOf c m)
        by_cases h3 : record_output_g3 c.capMax m eof [] c.btok c.etok buf [] (pae buf (tokOf c m) : Int) = true
        · -- hold back the longest token prefix at the end of the buffer
          simp only [h3, if_true, flat, endMode, List.append_nil, true_and]
          have hpos : 0 < pae buf (tokOf c m) := by
            simp [record_output_g3] at h3; omega
          have e10 : record_output_a10 c.capMax m eof [] c.btok c.etok buf [] (pae buf (tokOf c m) : Int)
              = buf.take (buf.length - pae buf (tokOf c m)) := by
            simp only [record_output_a10, Py.sliceTo, Py.normIdx]
            rw [if_pos (by omega)]; congr 1; omega
          have e9 : record_output_a9 c.capMax m eof [] c.btok c.etok buf [] (pae buf (tokOf c m) : Int)
              = buf.drop (buf.length - pae buf (tokOf c m)) := by
            simp only [record_output_a9, Py.sliceFrom, Py.normIdx, List.nil_append]
            rw [if_pos (by omega)]; congr 1; omega
          rw [e10, e9]
          cases hr : splitFirst (tokOf c m) (List.drop (buf.length - pae buf (tokOf c m)) buf ++ y) with
          | none =>
            rw [hr] at key
            simp at key
            rw [spec_none hr, spec_none key, ← List.map_append, ← List.append_assoc, List.take_append_drop]
          | some ba =>
            obtain ⟨b', a'⟩ := ba
            rw [hr] at key
            simp at key
            rw [spec_some hr, spec_some key]
            simp
        · -- nothing held back: no token prefix at the end of the buffer, or end of file
          simp only [h3, Bool.false_eq_true, if_false, flat, endMode, List.append_nil, List.nil_append, true_and]
          rcases hy with hy | hy
          · have hz : pae buf (tokOf c m) = 0 := by
              simp [record_output_g3, hy] at h3; omega
            rw [hz] at key
            simp at key
            cases hr : splitFirst (tokOf c m) y with
            | none =>
              rw [hr] at key; simp at key
              rw [spec_none hr, spec_none key, List.map_append]
            | some ba =>
              obtain ⟨b', a'⟩ := ba
              rw [hr] at key; simp at key
              rw [spec_some hr, spec_some key]; simp
          · subst hy
            simp only [List.append_nil]
            rw [spec_none hs, spec_none (splitFirst_nil _)]; simp
      | some ba =>
        obtain ⟨before, after⟩ := ba
        simp only [record_output_a11, toggle_a0]
        have hsy := splitFirst_some_append y hs
        have hal := splitFirst_some_length hs
        rw [spec_some hsy]
        by_cases h4 : record_output_g4 c.capMax (!m) eof after c.btok c.etok buf after 0 = true
        · simp only [h4, if_true]
          obtain ⟨i1, i2, i3⟩ := ih (!m) after (by omega)
          refine ⟨i1, ?_, ?_⟩
          · simpa [endMode] using i2
          · simp only [flat, List.append_assoc, List.cons_append]
            rw [i3]
        · simp [h4, flat, endMode]

/-- at end of file nothing stays in the buffer (fix F3): here the two tests that were opaque
    above matter — no waiting at EOF, recursion while bytes remain -/
theorem scan_eof_empties (c : Cfg) (hc : c.capMax ≠ 0) :
    ∀ (n : Nat) (m : Bool) (buf : Bytes), buf.length < n → (scanGo c true n m buf).buf = [] := by
  intro n
  induction n with
  | zero => intro m buf h; omega
  | succ n ih =>
    intro m buf hlen
    have hg0 : record_output_g0 c.capMax m true buf c.btok c.etok [] [] 0 = false := by
      simp [record_output_g0, hc]
    -- at end of file: no waiting, no holding back
    have hg2 : record_output_g2 c.capMax m true buf c.btok c.etok [] [] 0 = false := by
      simp [record_output_g2]
    have hg3 : ∀ (e d : Bytes) (i : Int), record_output_g3 c.capMax m true e c.btok c.etok d [] i = false := by
      intro e d i; simp [record_output_g3]
    unfold scanGo
    simp only [hg0, hg2, hg3, Bool.false_eq_true, if_false]
    split
    · simp [record_output_a5]
    · rename_i before after hs
      have hal := splitFirst_some_length hs
      simp only [record_output_a4] at hal
      by_cases h4 : record_output_g4 c.capMax (toggle_a0 c.capMax m) true
          (record_output_a11 c.capMax (toggle_a0 c.capMax m) true (record_output_a5 c.capMax m true buf c.btok c.etok [] [] 0) c.btok c.etok
            (record_output_a4 c.capMax m true buf c.btok c.etok [] [] 0) after 0) c.btok c.etok
          (record_output_a4 c.capMax m true buf c.btok c.etok [] [] 0) after 0 = true
      · simp only [h4, if_true]
        exact ih _ _ (by simp only [record_output_a11]; omega)
      · simp only [h4, Bool.false_eq_true, if_false]
        -- `if after:` is false only for an empty remainder
        simpa [record_output_g4, record_output_a11] using h4

/-! ### one read (`handle_read_event`) at the level of observables -/

/-- `feed_refines` (DESIGN.md C08): a read of `x` (empty = end of file) in a state that has so
    far produced exactly the effects of `items` produces exactly the effects of some `items'`,
    and for every continuation `y` of the stream, `items'` followed by the reference on what is
    now held equals `items` followed by the reference on what was held, `x`, and `y`. -/
theorem feed_refines (c : Cfg) (hc : 0 < c.capMax) (hst : c.strip = false) (hb : c.btok ≠ []) (he : c.etok ≠ [])
    (x : Bytes) (s : S) (items : List Item) (h : Sim c s items) :
    ∃ items', Sim c (readEvent c x s) items' ∧
      (∀ y, (x ≠ [] ∨ y = []) →
        items' ++ spec c (readEvent c x s).p.mode ((readEvent c x s).p.buf ++ y)
          = items ++ spec c s.p.mode (s.p.buf ++ (x ++ y))) ∧
      (x = [] → (readEvent c x s).p.buf = [] ∧ (readEvent c x s).p.closed = true) ∧
      (x ≠ [] → (readEvent c x s).p.closed = s.p.closed) := by
  have herr := h.err
  obtain ⟨⟨mode, buf, cap, closed⟩, outs, err⟩ := s
  simp only at herr
  subst herr
  have hcne : c.capMax ≠ 0 := by omega
  let s1 : S := { p := { mode := mode, buf := buf ++ x, cap := cap, closed := closed }, outs := outs, err := none }
  have hs1 : Sim c s1 items := ⟨rfl, h.logged, h.plog, h.comm, h.cap⟩
  have hscan := fun y hy => scan_refines c hcne hb he x.isEmpty y hy ((buf ++ x).length + 1) mode (buf ++ x) (by omega)
  obtain ⟨hf, _, _⟩ := hscan [] (by simp)
  let r := scanGo c x.isEmpty ((buf ++ x).length + 1) mode (buf ++ x)
  let s2 : S := { s1 with p := { s1.p with buf := r.buf } }
  have hs2 : Sim c s2 items := ⟨rfl, h.logged, h.plog, h.comm, h.cap⟩
  obtain ⟨hs3, hm3, hb3, hc3⟩ := sim_performAll c hc hst r.acts s2 items hs2
  have hro : recordOutput c x.isEmpty s1 = performAll c r.acts s2 := by
    simp only [recordOutput, guard, s1, setP, r, s2, Option.isSome_none, Bool.false_eq_true, if_false, hf]
  have hread : readEvent c x ⟨⟨mode, buf, cap, closed⟩, outs, none⟩ =
      if x.isEmpty then close (performAll c r.acts s2) else performAll c r.acts s2 := by
    simp only [readEvent, guard, hre_a1, hre_c0_0, hre_g0, setP, Bool.not_not]
    simp only [Option.isSome_none, Bool.false_eq_true, if_false]
    rw [show ({ p := { mode := mode, buf := buf ++ x, cap := cap, closed := closed }, outs := outs, err := none } : S) = s1 from rfl, hro]
  refine ⟨items ++ flat mode r.acts, ?_, ?_, ?_, ?_⟩
  · rw [hread]
    split
    · -- end of file: the dispatcher closes; `closed` is not one of the log/event observables
      have he3 := hs3.err
      generalize performAll c r.acts s2 = s3 at hs3 he3
      obtain ⟨p3, outs3, err3⟩ := s3
      simp only at he3; subst he3
      simp only [close, guard, emit, setP]
      simp only [Option.isSome_none, Bool.false_eq_true, if_false]
      split
      · exact hs3
      · exact ⟨rfl, by simpa [loggedOf_append, loggedOf] using hs3.logged,
          by simpa [plogOf_append, plogOf] using hs3.plog,
          by simpa [commOf_append, commOf] using hs3.comm, hs3.cap⟩
    · exact hs3
  · intro y hy
    have hy' : x.isEmpty = false ∨ y = [] := by
      rcases hy with hy | hy
      · left; cases x <;> simp_all
      · right; exact hy
    obtain ⟨_, hm, heq⟩ := hscan y hy'
    have hmode : (readEvent c x ⟨⟨mode, buf, cap, closed⟩, outs, none⟩).p.mode = r.mode := by
      rw [hread]; split
      · have he3 := hs3.err
        generalize performAll c r.acts s2 = s3 at hm3 he3
        obtain ⟨p3, outs3, err3⟩ := s3
        simp only at he3; subst he3
        simp only [close, guard, emit, setP]
        simp only [Option.isSome_none, Bool.false_eq_true, if_false]
        split <;> exact hm3.trans hm
      · exact hm3.trans hm
    have hbuf : (readEvent c x ⟨⟨mode, buf, cap, closed⟩, outs, none⟩).p.buf = r.buf := by
      rw [hread]; split
      · have he3 := hs3.err
        generalize performAll c r.acts s2 = s3 at hb3 he3
        obtain ⟨p3, outs3, err3⟩ := s3
        simp only at he3; subst he3
        simp only [close, guard, emit, setP]
        simp only [Option.isSome_none, Bool.false_eq_true, if_false]
        split <;> simpa [s2, s1] using hb3
      · simpa [s2, s1] using hb3
    rw [hmode, hbuf, List.append_assoc, heq, List.append_assoc]
  · intro hx
    subst hx
    have hbe := scan_eof_empties c hcne ((buf ++ []).length + 1) mode (buf ++ []) (by omega)
    rw [hread]
    simp only [List.isEmpty_nil, if_true]
    have he3 := hs3.err
    generalize performAll c r.acts s2 = s3 at hb3 he3
    obtain ⟨p3, outs3, err3⟩ := s3
    simp only at he3; subst he3
    simp only [close, guard, emit, setP]
    simp only [Option.isSome_none, Bool.false_eq_true, if_false]
    have : p3.buf = [] := by
      simp only [s2, s1] at hb3
      rw [hb3]; exact hbe
    split
    · rename_i hcl; exact ⟨this, hcl⟩
    · exact ⟨this, rfl⟩
  · intro hx
    have : x.isEmpty = false := by cases x <;> simp_all
    rw [hread, this]
    simpa [s2, s1] using hc3

/-! ### every fragmentation -/

/-- the reads so far (`stream`, in any fragmentation) have been processed correctly, whatever follows -/
def Inv (c : Cfg) (s : S) (stream : Bytes) : Prop :=
  ∃ items, Sim c s items ∧ ∀ y, items ++ spec c s.p.mode (s.p.buf ++ y) = spec c false (stream ++ y)

theorem init_inv (c : Cfg) (hc : 0 < c.capMax) : Inv c init [] :=
  ⟨[], ⟨rfl, by simp [init, loggedOf, plainOf], by simp [init, plogOf, plainOf], by simp [init, commOf, sectionsGo, AllOk],
      EvOk_nil _ (by omega)⟩, fun y => by simp [init]⟩

/-- `∀ chunks`: feeding any list of non-empty reads keeps the invariant for the concatenated stream -/
theorem feedAll_refines (c : Cfg) (hc : 0 < c.capMax) (hst : c.strip = false) (hb : c.btok ≠ []) (he : c.etok ≠ [])
    (chunks : List Bytes) (hne : ∀ x ∈ chunks, x ≠ []) :
    ∀ (s : S) (stream : Bytes), Inv c s stream → Inv c (feedAll c chunks s) (stream ++ chunks.flatten) := by
  induction chunks with
  | nil => intro s stream h; simpa [feedAll] using h
  | cons x r ih =>
    intro s stream ⟨items, hs, hi⟩
    obtain ⟨items', hs', hi', _, _⟩ := feed_refines c hc hst hb he x s items hs
    have hx : x ≠ [] := hne x (by simp)
    have := ih (fun z hz => hne z (by simp [hz])) (readEvent c x s) (stream ++ x)
      ⟨items', hs', fun y => by rw [hi' y (Or.inl hx), hi (x ++ y), List.append_assoc]⟩
    simpa [feedAll, List.append_assoc] using this

/-- a child's whole life on one channel: the reads in `chunks`, then the end-of-file read -/
def run (c : Cfg) (chunks : List Bytes) : S := readEvent c [] (feedAll c chunks init)

/-- `complete_at_eof`: after any fragmentation of a stream followed by end of file, the effects
    are exactly those of the reference splitter on the whole stream, nothing is left in the
    buffer, and the dispatcher is closed -/
theorem run_complete (c : Cfg) (hc : 0 < c.capMax) (hst : c.strip = false) (hb : c.btok ≠ []) (he : c.etok ≠ [])
    (chunks : List Bytes) (hne : ∀ x ∈ chunks, x ≠ []) :
    Sim c (run c chunks) (spec c false chunks.flatten) ∧ (run c chunks).p.buf = [] ∧ (run c chunks).p.closed = true := by
  obtain ⟨items, hs, hi⟩ := feedAll_refines c hc hst hb he chunks hne init [] (init_inv c hc)
  obtain ⟨items', hs', hi', hcl, _⟩ := feed_refines c hc hst hb he [] _ items hs
  have h1 := hi' [] (Or.inr rfl)
  have h2 := hi []
  obtain ⟨hbuf, hclosed⟩ := hcl rfl
  simp only [List.append_nil, List.nil_append] at h1 h2
  rw [hbuf, spec_nil, List.append_nil, h2] at h1
  subst h1
  exact ⟨hs', hbuf, hclosed⟩

/-! ### the property, in terms of the reference splitter `refSplit` on the unfragmented stream -/

/-- neither the tags nor the enclosed bytes reach the log, and nothing outside them is missing -/
theorem captured_not_logged (c : Cfg) (hc : 0 < c.capMax) (hst : c.strip = false) (hb : c.btok ≠ []) (he : c.etok ≠ [])
    (chunks : List Bytes) (hne : ∀ x ∈ chunks, x ≠ []) :
    loggedOf (run c chunks).outs = if c.hasLog then (refSplit c false chunks.flatten).plain else [] := by
  rw [(run_complete c hc hst hb he chunks hne).1.logged, plainOf_spec]

/-- PROCESS_LOG events carry exactly the bytes outside capture sections (fix F4), and only when enabled -/
theorem captured_not_in_plog (c : Cfg) (hc : 0 < c.capMax) (hst : c.strip = false) (hb : c.btok ≠ []) (he : c.etok ≠ [])
    (chunks : List Bytes) (hne : ∀ x ∈ chunks, x ≠ []) :
    plogOf (run c chunks).outs = if evOn c then (refSplit c false chunks.flatten).plain else [] := by
  rw [(run_complete c hc hst hb he chunks hne).1.plog, plainOf_spec]

/-- `event_data_is_suffix_and_bounded`: one event per closed section, in order; its data is a
    trailing part of the enclosed bytes, at most capture_maxbytes long (fix F5), and all of them
    when they fit -/
theorem event_data_is_suffix_and_bounded (c : Cfg) (hc : 0 < c.capMax) (hst : c.strip = false)
    (hb : c.btok ≠ []) (he : c.etok ≠ []) (chunks : List Bytes) (hne : ∀ x ∈ chunks, x ≠ []) :
    AllOk c.capMax (commOf (run c chunks).outs) (refSplit c false chunks.flatten).sections := by
  have := (run_complete c hc hst hb he chunks hne).1.comm
  rwa [sections_spec] at this

theorem one_event_per_section (c : Cfg) (hc : 0 < c.capMax) (hst : c.strip = false)
    (hb : c.btok ≠ []) (he : c.etok ≠ []) (chunks : List Bytes) (hne : ∀ x ∈ chunks, x ≠ []) :
    (commOf (run c chunks).outs).length = (refSplit c false chunks.flatten).sections.length :=
  AllOk_length (event_data_is_suffix_and_bounded c hc hst hb he chunks hne)

/-- the division into logged and captured bytes does not depend on the fragmentation -/
theorem fragmentation_invariance (c : Cfg) (hc : 0 < c.capMax) (hst : c.strip = false)
    (hb : c.btok ≠ []) (he : c.etok ≠ []) (c1 c2 : List Bytes)
    (h1 : ∀ x ∈ c1, x ≠ []) (h2 : ∀ x ∈ c2, x ≠ []) (hsame : c1.flatten = c2.flatten) :
    loggedOf (run c c1).outs = loggedOf (run c c2).outs ∧
    plogOf (run c c1).outs = plogOf (run c c2).outs ∧
    (commOf (run c c1).outs).length = (commOf (run c c2).outs).length ∧
    ∃ secs, AllOk c.capMax (commOf (run c c1).outs) secs ∧ AllOk c.capMax (commOf (run c c2).outs) secs := by
  refine ⟨?_, ?_, ?_, (refSplit c false c2.flatten).sections, ?_, ?_⟩
  · rw [captured_not_logged c hc hst hb he c1 h1, captured_not_logged c hc hst hb he c2 h2, hsame]
  · rw [captured_not_in_plog c hc hst hb he c1 h1, captured_not_in_plog c hc hst hb he c2 h2, hsame]
  · rw [one_event_per_section c hc hst hb he c1 h1, one_event_per_section c hc hst hb he c2 h2, hsame]
  · rw [← hsame]; exact event_data_is_suffix_and_bounded c hc hst hb he c1 h1
  · exact event_data_is_suffix_and_bounded c hc hst hb he c2 h2

/-- while the child is still running (no end of file yet), whatever has been logged is a prefix
    of what the reference logs for the stream so far extended by *any* continuation, and no
    event has been emitted that the reference would not emit -/
theorem prefix_safe (c : Cfg) (hc : 0 < c.capMax) (hst : c.strip = false) (hb : c.btok ≠ []) (he : c.etok ≠ [])
    (chunks : List Bytes) (hne : ∀ x ∈ chunks, x ≠ []) (y : Bytes) :
    (c.hasLog = true → loggedOf (feedAll c chunks init).outs <+: (refSplit c false (chunks.flatten ++ y)).plain) ∧
    (commOf (feedAll c chunks init).outs).length ≤ (refSplit c false (chunks.flatten ++ y)).sections.length := by
  obtain ⟨items, hs, hi⟩ := feedAll_refines c hc hst hb he chunks hne init [] (init_inv c hc)
  have h := hi y
  simp only [List.nil_append] at h
  constructor
  · intro hl
    rw [hs.logged, hl, if_pos rfl, ← plainOf_spec, ← h, plainOf_append]
    exact List.prefix_append _ _
  · rw [← sections_spec, ← h, sectionsGo_append, List.length_append, ← AllOk_length hs.comm]
    omega

/-- an unterminated section yields no event: if the first BEGIN tag splits the stream into
    `pre` and `rest` and no END tag occurs in `rest`, only `pre` is logged and nothing is emitted -/
theorem unterminated_section_yields_no_event (c : Cfg) (hc : 0 < c.capMax) (hst : c.strip = false)
    (hb : c.btok ≠ []) (he : c.etok ≠ []) (chunks : List Bytes) (hne : ∀ x ∈ chunks, x ≠ [])
    (pre rest : Bytes) (h1 : splitFirst c.btok chunks.flatten = some (pre, rest)) (h2 : splitFirst c.etok rest = none) :
    commOf (run c chunks).outs = [] ∧ loggedOf (run c chunks).outs = if c.hasLog then pre else [] := by
  have hr : refSplit c false chunks.flatten = ⟨pre, [], some rest⟩ := by
    rw [refSplit_some (m := false) h1]
    simp only [Bool.not_false, Bool.false_eq_true, if_false]
    rw [refSplit_none (m := true) h2]; simp
  have hl := one_event_per_section c hc hst hb he chunks hne
  rw [hr] at hl
  refine ⟨List.eq_nil_of_length_eq_zero hl, ?_⟩
  rw [captured_not_logged c hc hst hb he chunks hne, hr]

/-! ### capture_maxbytes = 0: the tags are ordinary output -/

/-- what one read does when there is no capture logger -/
theorem read_capture_off (c : Cfg) (hc : c.capMax = 0) (hst : c.strip = false) (x : Bytes) (s : S)
    (he : s.err = none) (hm : s.p.mode = false) (hb : s.p.buf = []) :
    (readEvent c x s).err = none ∧ (readEvent c x s).p.mode = false ∧ (readEvent c x s).p.buf = [] ∧
    loggedOf (readEvent c x s).outs = loggedOf s.outs ++ (if c.hasLog then x else []) ∧
    plogOf (readEvent c x s).outs = plogOf s.outs ++ (if evOn c then x else []) ∧
    commOf (readEvent c x s).outs = commOf s.outs := by
  obtain ⟨⟨mode, buf, cap, closed⟩, outs, err⟩ := s
  simp only at he hm hb
  subst he hm hb
  have hscan : scanGo c x.isEmpty (([] ++ x : Bytes).length + 1) false ([] ++ x) = ⟨[.data x], false, [], false⟩ := by
    unfold scanGo
    simp [record_output_g0, record_output_a0, record_output_a1, hc]
  have hlog := logData_plain c x ⟨⟨false, [], cap, closed⟩, outs, none⟩ rfl hst rfl
  have hread : readEvent c x ⟨⟨false, [], cap, closed⟩, outs, none⟩ =
      if x.isEmpty then close (logData c x ⟨⟨false, [], cap, closed⟩, outs, none⟩)
      else logData c x ⟨⟨false, [], cap, closed⟩, outs, none⟩ := by
    simp only [readEvent, guard, hre_a1, hre_c0_0, hre_g0, setP, Bool.not_not, recordOutput,
      Option.isSome_none, Bool.false_eq_true, if_false, hscan, performAll, List.foldl_cons, List.foldl_nil, perform]
  rw [hread, hlog]
  cases x with
  | nil =>
    simp only [List.isEmpty_nil, if_true, close, guard, emit, setP, Option.isSome_none, Bool.false_eq_true, if_false]
    cases closed <;> simp [loggedOf_append, plogOf_append, commOf_append, loggedOf, plogOf, commOf]
  | cons a r =>
    simp only [List.isEmpty_cons, Bool.false_eq_true, if_false]
    cases c.hasLog <;> cases evOn c <;>
      simp [loggedOf_append, plogOf_append, commOf_append, loggedOf, plogOf, commOf]

/-- `capture_off_is_plain`: with capture_maxbytes = 0 every byte read, tags included, goes to the
    log (and to PROCESS_LOG events when enabled) at once, in order, for every fragmentation, and
    no PROCESS_COMMUNICATION event is ever emitted -/
theorem capture_off_is_plain (c : Cfg) (hc : c.capMax = 0) (hst : c.strip = false) (chunks : List Bytes) :
    (feedAll c chunks init).err = none ∧
    loggedOf (feedAll c chunks init).outs = (if c.hasLog then chunks.flatten else []) ∧
    plogOf (feedAll c chunks init).outs = (if evOn c then chunks.flatten else []) ∧
    commOf (feedAll c chunks init).outs = [] := by
  suffices h : ∀ (s : S), s.err = none → s.p.mode = false → s.p.buf = [] →
      (feedAll c chunks s).err = none ∧
      loggedOf (feedAll c chunks s).outs = loggedOf s.outs ++ (if c.hasLog then chunks.flatten else []) ∧
      plogOf (feedAll c chunks s).outs = plogOf s.outs ++ (if evOn c then chunks.flatten else []) ∧
      commOf (feedAll c chunks s).outs = commOf s.outs by
    simpa [init, loggedOf, plogOf, commOf] using h init rfl rfl rfl
  induction chunks with
  | nil => intro s he _ _; simp [feedAll, he]
  | cons x r ih =>
    intro s he hm hb
    obtain ⟨e1, m1, b1, l1, p1, c1⟩ := read_capture_off c hc hst x s he hm hb
    obtain ⟨e2, l2, p2, c2⟩ := ih _ e1 m1 b1
    simp only [feedAll, List.foldl_cons] at e2 l2 p2 c2 ⊢
    refine ⟨e2, ?_, ?_, by rw [c2, c1]⟩
    · rw [l2, l1]; cases c.hasLog <;> simp
    · rw [p2, p1]; cases evOn c <;> simp

/-! ### non-vacuity: the hypotheses are satisfiable, and concrete runs behave as stated -/

/-- stdout dispatcher, capture_maxbytes = 5, log file and events on -/
def exCfg : Cfg := { capMax := 5, hasLog := true, strip := false, isStdout := true, outEv := true, errEv := false,
                     btok := stdout_BEGIN, etok := stdout_END }

example : Std exCfg ∧ 0 < exCfg.capMax ∧ exCfg.strip = false := ⟨⟨rfl, rfl⟩, by decide, rfl⟩
example : exCfg.btok ≠ [] ∧ exCfg.etok ≠ [] := std_tokens_nonempty exCfg ⟨rfl, rfl⟩
example : Inv exCfg init [] := init_inv exCfg (by decide)

/-- "a" BEGIN "bcdefgh" END "z", cut inside both tags -/
def exChunks : List Bytes := [[97] ++ stdout_BEGIN.take 9, stdout_BEGIN.drop 9 ++ [98, 99, 100], [101, 102, 103, 104] ++ stdout_END.take 21,
  stdout_END.drop 21 ++ [122]]

example : ∀ x ∈ exChunks, x ≠ [] := by decide
example : exChunks.flatten = [97] ++ stdout_BEGIN ++ [98, 99, 100, 101, 102, 103, 104] ++ stdout_END ++ [122] := by decide
-- the log has "az", the PROCESS_LOG events "a" and "z", one event with the last 5 bytes of "bcdefgh"
example : loggedOf (run exCfg exChunks).outs = [97, 122] := by decide
example : commOf (run exCfg exChunks).outs = [[100, 101, 102, 103, 104]] := by decide
example : (run exCfg exChunks).outs = [.log [97], .plog true [97], .comm [100, 101, 102, 103, 104], .log [122], .plog true [122], .closed] := by decide
-- the same stream in one read: same log, one event
example : loggedOf (run exCfg [exChunks.flatten]).outs = [97, 122] ∧
    commOf (run exCfg [exChunks.flatten]).outs = [[100, 101, 102, 103, 104]] := by decide
-- which trailing part of an oversized section survives depends on how it was written (BoundIO.write):
example : boundWrite (boundWrite [] [1, 2, 3] 5) [4, 5, 6, 7] 5 = [4, 5, 6, 7] ∧ boundWrite [] [1, 2, 3, 4, 5, 6, 7] 5 = [3, 4, 5, 6, 7] := by decide
-- F3 (fixed): a short stream is logged at end of file, not before
example : (feedAll exCfg [[104, 105]] init).outs = [] ∧ loggedOf (run exCfg [[104, 105]]).outs = [104, 105] := by decide
-- an unterminated section: hypotheses of `unterminated_section_yields_no_event` hold for "a" BEGIN "b"
example : splitFirst exCfg.btok ([[97] ++ stdout_BEGIN ++ [98]].flatten) = some ([97], [98]) ∧ splitFirst exCfg.etok [98] = none := by decide
example : (run exCfg [[97] ++ stdout_BEGIN ++ [98]]).outs = [.log [97], .plog true [97], .closed] := by decide
-- capture off: the tags are output
example : loggedOf (feedAll { exCfg with capMax := 0 } [stdout_BEGIN.take 9, stdout_BEGIN.drop 9] init).outs = stdout_BEGIN := by decide

end Sv.Props.C08
