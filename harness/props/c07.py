"""
C07 -- child output reaches the right log, complete and in order.

L1   the real POutputDispatcher (one, or several sharing one event subscription) fed read by read, at loglevel info
     and debug (log_to_mainlog); correspondence with Model/OutDisp.lean / Model/Strip.lean through drv_c07; monitors: log
     file vs bytes written, PROCESS_LOG events vs log writes, strip_ansi vs an independent reference stripper, no
     exception out of handle_read_event.
L1.5 real Subprocess objects in a real ProcessGroup over a small simulated kernel (lowest-free descriptor numbers,
     pipes with reference-counted write ends, scripted fork / pipe failures): spawn, child writes, main-loop style
     delivery through group.get_dispatchers(), exit with or without data still in the pipe, reap (Subprocess.finish),
     respawn.  Monitor: every log file holds exactly the bytes its own process wrote on that channel (regression
     for F11: descriptor reuse after a failed fork).
L2   the unmodified Supervisor.runforever over harness/simkernel.py: children made to write tagged bytes (capture tags
     included, chunks that are not valid UTF-8, bursts up to what a pipe holds written just before the exit), exits with
     data still in the pipe, autorestart respawns, fork/pipe faults followed by spawns that reuse the descriptor numbers,
     start/stop RPCs, every daemon log level; os.read honours the requested size; monitor mon_c07: real per-process log files and PROCESS_LOG /
     PROCESS_COMMUNICATION events against the bytes written per child (regressions for F11 and F29).
"""
import errno, os, re
from props import _outdisp as od
from props._outdisp import hexs, Cfg

ID = 'C07'
LEAN_PROPS = 'SupervisorModel.Props.C07'
DRIVER = 'drv_c07'
GENERATED = ['OutDisp']
TRUSTED = [
    "modelled, not verified: CPython bytes.split/find/endswith/slicing as in Model/OutDispPy.lean; the Logger/Handler plumbing",
    "the simulated kernel of the L1.5 scenarios (lowest-free descriptor allocation, a pipe reads EOF when all write ends are closed, "
    "a read drains the pipe -- L1.5 replaces options.readfd and so does not see its read size) and harness/simkernel.py under the unmodified "
    "runforever (L2) -- fidelity to Linux is an assumption: os.read returns at most the requested number of bytes and leaves the rest in the "
    "pipe, a pipe holds 65536 bytes (a child writing more stays blocked in write(2) and only what entered the pipe counts as written; "
    "killed or exiting while blocked, the rest was never written), so the real ServerOptions.readfd's size matters; L2 scripts inject no read() faults",
    "the statement-level control flow of the hand-written models against the methods: tied by correspondence (the driver executes recordDirect, proved equal to the two-layer model the theorems use)",
]
ASSUMPTIONS = [
    "a read returning b'' means end of file (options.readfd also maps EAGAIN/EINTR/EBADF to b''; a spurious empty read therefore closes the dispatcher -- outside the theorems)",
    "log rotation and syslog are off for the channel (C19)",
    "a pipe holds at most 65536 bytes (Linux default; a child that enlarges its pipe with F_SETPIPE_SZ is outside the claim): with it, "
    "`read_size_covers_pipe` (the regenerated size of readfd's os.read >= 65536) makes the single read of finish()->drain() complete",
]
RULE = ("L1 cases = (dispatcher configuration, token/ANSI/invalid-UTF-8-aware stream, fragmentation, EOF or not), corpus first; "
        "every 1-cut fragmentation of ANSI-bearing streams; interleavings of reads over three dispatchers of two processes; "
        "L1.5 scenarios = random scripts of spawn (ok / fork failure / pipe failure) / write / deliver / exit / reap over 3 processes "
        "with redirect_stderr and capture variants; L2 scenarios = random simkernel scripts (2-4 programs in 2 groups, tagged writes incl. capture tags "
        "split across passes, chunks that are not valid UTF-8 on their own, bursts of 4K..64K (8K/16K/64K boundaries +-1) in mid-life and just before "
        "an exit, exits, autorestart, fork/pipe faults, start/stop RPCs, 20% of ready descriptors not reported, daemon log level BLAT..WARN) under the "
        "real main loop; L1 and L1.5 also at loglevel=debug (child output copied to the daemon's log). non-trivial = more than one read (L1) or at least one failed spawn followed by "
        "another spawn (L1.5); distinct = distinct (config, reads) / distinct scripts")

ESC = b'\x1b['
TERMS = b'HfABCDRsuJKhlpm'     # the documented terminators of the escapes supervisor strips (dispatchers.ANSI_TERMINATORS)


def ref_strip(s):
    """independent reference: remove ESC [ ... <terminator letter>; an unterminated sequence swallows the rest"""
    out, i = bytearray(), 0
    while i < len(s):
        if s.startswith(ESC, i):
            j = i + 1                      # the scan resumes at '[' (which is no terminator)
            while j < len(s) and s[j] not in TERMS:
                j += 1
            i = j + 1
        else:
            out.append(s[i]); i += 1
    return bytes(out)


def cut_inside_escape(chunks):
    """does some read boundary fall strictly inside an escape sequence (ESC ... terminator) of the whole stream?"""
    s = b''.join(chunks)
    bounds, p = set(), 0
    for c in chunks[:-1]:
        p += len(c); bounds.add(p)
    i = 0
    while i < len(s):
        if s.startswith(ESC, i):
            j = i + 1
            while j < len(s) and s[j] not in TERMS:
                j += 1
            if any(i < b <= j for b in bounds):
                return True
            i = j + 1
        else:
            i += 1
    return False


def check_l1(ctx, cfg, stream, chunks, run, eof, per_step):
    inp = {'level': 'L1', 'cfg': cfg.json(), 'chunks': [hexs(c) for c in chunks], 'eof': eof}
    def bad(kind, what):
        ctx.violation(kind, what, inp)
    if run.raised:
        # the loop's guard closes the dispatcher: the chunk is logged but not announced, later output is lost
        bad('dispatcher-raised:' + run.raised, 'handle_read_event() raised %s on reads %r (mainlog=%d)' % (
            run.raised, [bytes(c) for c in chunks][:4], cfg.mainlog))
    if run.bad_attr:
        bad('event-attribution', 'event carried the wrong process/pid/channel: %r' % (run.bad_attr[0],))
    if run.other_log():
        bad('byte-in-wrong-log', 'bytes appeared in the other channel\'s log: %r' % run.other_log()[:40])
    # PROCESS_LOG events carry the same bytes as the log, read by read
    for k, (newlog, plogs) in enumerate(per_step):
        if cfg.events_on() and cfg.log and b''.join(plogs) != newlog:
            bad('plog-differs-from-log', 'read %d: log got %r, PROCESS_LOG events %r' % (k, newlog[:60], plogs[:3]))
        if not cfg.events_on() and plogs:
            bad('plog-while-disabled', 'PROCESS_LOG events although %s_events_enabled is off' % cfg.channel)
    want = None
    if cfg.capture == 0:
        if not cfg.strip:
            want = stream
            if cfg.log and run.logged != stream:
                bad('bytes-missing-or-reordered', 'capture off: after the reads the log is %r, the child wrote %r' % (run.logged[:60], stream[:60]))
        else:
            want = ref_strip(stream)
            if cfg.log and run.logged != want:
                if len(chunks) <= 1:
                    bad('strip-wrong-unfragmented', 'one read %r logged as %r, expected %r' % (stream[:60], run.logged[:60], want[:60]))
                elif run.logged == b''.join(ref_strip(c) for c in chunks) and cut_inside_escape(chunks):
                    bad('ansi-escape-cut-by-read-boundary-not-stripped',
                        'reads %r logged as %r; the stream minus escapes is %r' % ([bytes(c) for c in chunks][:4], run.logged[:60], want[:60]))
                else:
                    bad('strip-wrong', 'reads %r logged as %r, expected %r' % ([bytes(c) for c in chunks][:4], run.logged[:60], want[:60]))
    elif not cfg.strip:
        plain, sections, open_ = od.ref_split(stream)
        if cfg.log:
            if eof and run.logged != plain:
                if plain.startswith(run.logged):
                    bad('plain-bytes-missing-at-eof', 'after EOF the log lacks %r' % plain[len(run.logged):][:60])
                else:
                    bad('log-has-tag-or-captured-bytes', 'log %r, bytes outside capture sections %r' % (run.logged[:80], plain[:80]))
            if not eof and not plain.startswith(run.logged):
                bad('log-has-tag-or-captured-bytes', 'log %r is not a prefix of %r' % (run.logged[:80], plain[:80]))
    # F15: the serialised PROCESS_LOG payload of a chunk that is not valid UTF-8 is a repr, not the bytes
    for ev in run.plog_events:
        body = ev.payload().split('\n', 1)[1]
        try:
            ok = body == ev.data.decode('utf-8')
        except UnicodeDecodeError:
            ok = False
        if not ok:
            bad('plog-payload-not-the-bytes', 'PROCESS_LOG payload body %r for data %r' % (body[:50], ev.data[:30]))
            break
        head = ev.payload().split('\n', 1)[0]
        if head != 'processname:%s groupname: pid:%d channel:%s' % (run.pconfig.name, run.PID, cfg.channel):
            bad('event-attribution', 'PROCESS_LOG payload header %r' % head)
            break


def l1_case(ctx, cases, impls, cfg, stream, chunks, eof=True, tag=''):
    run = od.Run(cfg, ctx.scratch)
    run.plog_events = []
    per_step, ops, lines = [], [], []
    try:
        for c in chunks + ([b''] if eof else []):
            n0, p0 = len(run.logged), len(run.plog)
            e0 = len(run.seen)
            ops.append('read ' + hexs(c)); lines.append(run.step(c))
            per_step.append((run.logged[n0:], [d for _, d in run.plog[p0:]]))
            run.plog_events += [e for e in run.seen[e0:] if isinstance(e, run.events_mod.ProcessLogEvent)]
            if run.raised:
                break           # the dispatcher has been closed by the loop's error guard
    finally:
        run.finish()
    check_l1(ctx, cfg, stream, chunks, run, eof, per_step)
    cases.append((cfg.line(), ops)); impls.append(lines)
    ctx.case_done((cfg.line(), tuple(ops)), len(chunks) > 1)
    ctx.count('L1-cases' + tag); ctx.count('L1-reads', len(chunks))
    ctx.count('L1-strip=%d' % cfg.strip)
    return run


E, Bt, Et = ESC, od.DOC_BEGIN, od.DOC_END
CORPUS = [
    ('F3 hello held at EOF', dict(capture=10), [b'hello\n'], True),
    ('F3 short chunks', dict(capture=10, oev=1), [b'a', b'b', b'c'], True),
    ('no capture, tags are bytes', dict(capture=0, oev=1), [b'x' + Bt[:5], Bt[5:] + b'y' + Et], True),
    ('F12 escape cut by a read boundary', dict(strip=1), [b'\x1b[3', b'1mhello'], True),
    ('F12 ESC and [ in different reads', dict(strip=1), [b'abc\x1b', b'[31mred\x1b[0m'], True),
    ('strip, one read', dict(strip=1, oev=1), [b'\x1b[31mred\x1b[0m plain \x1b[2Jx\x1b[10;20Hy'], True),
    ('strip, unterminated escape swallows the rest', dict(strip=1), [b'ab\x1b[31;1'], True),
    ('strip removes everything of a read', dict(strip=1, oev=1), [b'\x1b[0m', b'x'], True),
    ('F15 invalid UTF-8 in a PROCESS_LOG payload', dict(oev=1), [b'caf\xc3', b'\xa9 \xff'], True),
    ('binary', dict(oev=1), [bytes(range(0, 128)), b'tail'], True),
    ('stderr channel events', dict(channel='stderr', eev=1), [b'err1', b'err2'], True),
    ('capture + events: plog equals log', dict(capture=30, oev=1), [b'a' * 30 + Bt + b'zz', b'z' + Et + b'b' * 30], True),
    # loglevel=debug: every chunk is decoded for the daemon's own log; chunks that are not valid UTF-8 on their own
    ('debug level, a character cut by the read boundary', dict(oev=1, mainlog=1), [b'caf\xc3', b'\xa9 au lait\n', b'second line\n'], True),
    ('debug level, binary', dict(eev=1, channel='stderr', mainlog=1), [b'\xff\xfe\x00', b'ok', b'\x80'], True),
    ('debug level, capture on, undecodable before the tag', dict(capture=30, oev=1, mainlog=1), [b'na\xefve' + Bt + b'x\xe2', b'\x82\xac' + Et + b'\xe2\x82'], True),
    ('debug level, strip on', dict(strip=1, oev=1, mainlog=1), [b'\x1b[31m\xc3', b'\xa9\x1b[0m'], True),
]


def run(ctx):
    rng = ctx.rng
    cases, impls = [], []
    for name, kw, chunks, eof in CORPUS:
        cfg = Cfg(**kw)
        l1_case(ctx, cases, impls, cfg, b''.join(chunks), chunks, eof, tag=':corpus')
        if len(ctx.samples) < 2:
            ctx.sample({'corpus': name, 'case': cfg.line(), 'ops': cases[-1][1][:3], 'impl': impls[-1][:3]})
    # every 1-cut fragmentation of ANSI-bearing streams (strip on)
    for stream in (b'ab\x1b[31mred\x1b[0m.', b'\x1b[1;32mgo\x1b[Kx\x1b', b'x\x1b[\x1b[mY'):
        for c in range(1, len(stream)):
            l1_case(ctx, cases, impls, Cfg(strip=1, oev=1), stream, od.fragment(stream, [c]), True, tag=':ansi-cuts')
    # random
    for i in range(ctx.n(900, 15000)):
        strip = 1 if rng.random() < 0.45 else 0
        stream = od.gen_stream(rng, tokens_weight=0.2, ansi=True)
        chunks = od.fragment(stream, od.gen_cuts(rng, len(stream), stream))
        if strip and rng.random() < 0.5:
            chunks = [stream] if stream else []
        cfg = Cfg(capture=0 if (strip or rng.random() < 0.5) else rng.choice([5, 30, 1000]), log=rng.choice([1, 1, 1, 0]), strip=strip,
                  channel=rng.choice(['stdout', 'stderr']), oev=rng.randrange(2), eev=rng.randrange(2), mainlog=rng.randrange(2))
        l1_case(ctx, cases, impls, cfg, stream, chunks, rng.random() < 0.8, tag=':random')
        ctx.count('L1-mainlog=%d' % cfg.mainlog)
    ctx.correspond('outdisp', cases, impls)
    strip_function(ctx)
    interleaved(ctx)
    n15 = 0
    for i in range(ctx.n(250, 4000)):
        n15 += scenario(ctx, gen_script(ctx.rng))
    for sc in SCRIPTS:
        scenario(ctx, sc)
    wiring(ctx)
    l2_all(ctx)


def strip_function(ctx):
    """dispatchers.stripEscapes itself against the model and the reference"""
    from supervisor.dispatchers import stripEscapes
    rng = ctx.rng
    ops, out = [], []
    pool = [b'\x1b', b'[', b'\x1b[', b'm', b'H', b'3', b';', b'x', b'K', b'\x1b[0m', b'\xff', b'f']
    for _ in range(ctx.n(600, 8000)):
        s = b''.join(rng.choice(pool) for _ in range(rng.randrange(0, 9)))
        r = stripEscapes(s)
        ops.append('strip ' + hexs(s)); out.append(hexs(r))
        ctx.count('stripEscapes-calls')
        if r != ref_strip(s):
            ctx.violation('strip-wrong-unfragmented', 'stripEscapes(%r) = %r, expected %r' % (s, r, ref_strip(s)), {'level': 'strip', 'hex': hexs(s)})
    ctx.correspond('stripEscapes', [('case strip', ops)], [out])


def interleaved(ctx):
    """three dispatchers (procA stdout, procA stderr, procB stdout), reads interleaved: each behaves as if alone"""
    from supervisor import events
    rng = ctx.rng
    cases, impls = [], []
    for _ in range(ctx.n(60, 1000)):
        events.clear()
        seen = []
        events.subscribe(events.Event, seen.append)
        cfgs = [Cfg(capture=rng.choice([0, 20]), channel='stdout', oev=1), Cfg(capture=0, channel='stderr', eev=rng.randrange(2)),
                Cfg(capture=rng.choice([0, 20]), channel='stdout', oev=rng.randrange(2))]
        runs = [od.Run(cfgs[0], ctx.scratch, seen, 'A', fd=5, pid=100, name='A'), od.Run(cfgs[1], ctx.scratch, seen, 'A', fd=7, pid=100, name='A'),
                od.Run(cfgs[2], ctx.scratch, seen, 'B', fd=9, pid=200, name='B')]
        ops = [[], [], []]; lines = [[], [], []]; wrote = [b'', b'', b'']
        script = []
        for k in range(rng.randrange(3, 14)):
            j = rng.randrange(3)
            if not runs[j].was_readable:
                continue
            data = (b'<%d:%d>' % (j, k)) * rng.randrange(1, 12) if rng.random() < 0.9 else b''
            ops[j].append('read ' + hexs(data)); lines[j].append(runs[j].step(data)); wrote[j] += data
            script.append([j, hexs(data)])
        for j in range(3):
            if runs[j].was_readable:
                ops[j].append('read -'); lines[j].append(runs[j].step(b'')); script.append([j, '-'])
        inp = {'level': 'L1-interleaved', 'cfgs': [c.json() for c in cfgs], 'script': script}
        for j in range(3):
            r = runs[j]
            if r.logged != wrote[j]:
                foreign = any((b'<%d:' % o) in r.logged for o in range(3) if o != j)
                ctx.violation('byte-in-wrong-log' if foreign else 'bytes-missing-or-reordered',
                              'dispatcher %d: log %r, written %r' % (j, r.logged[:60], wrote[j][:60]), inp)
            if r.bad_attr:
                ctx.violation('event-attribution', 'dispatcher %d: %r' % (j, r.bad_attr[0]), inp)
            cases.append((cfgs[j].line(), ops[j])); impls.append(lines[j])
        for r in runs:
            r.keep_events = True; r.finish()
        events.clear()
        ctx.case_done(('interleaved', repr(script)), True)
        ctx.count('L1-interleaved-scenarios')
    ctx.correspond('outdisp-interleaved', cases, impls)


# ---- L1.5 ------------------------------------------------------------------------------------------------

class Pipe:
    def __init__(self):
        self.queue = b''; self.writers = 0


class Kernel:
    def __init__(self):
        self.fds = {}
    def alloc(self, kind, pipe):
        fd = 3
        while fd in self.fds:
            fd += 1
        self.fds[fd] = (kind, pipe)
        if kind == 'w':
            pipe.writers += 1
        return fd
    def pipe(self):
        p = Pipe()
        return self.alloc('r', p), self.alloc('w', p)
    def close(self, fd):
        e = self.fds.pop(fd, None)
        if e and e[0] == 'w':
            e[1].writers -= 1


def make_options(kernel, script_state, loglevel=20):
    from supervisor.options import ServerOptions
    from supervisor import loggers

    class SimOptions(ServerOptions):
        def make_pipes(self, stderr=True):
            if script_state.get('pipefail'):
                script_state['pipefail'] = False
                raise OSError(errno.EMFILE, 'too many open files')
            pipes = {'child_stdin': None, 'stdin': None, 'stdout': None, 'child_stdout': None, 'stderr': None, 'child_stderr': None}
            pipes['child_stdin'], pipes['stdin'] = kernel.pipe()
            pipes['stdout'], pipes['child_stdout'] = kernel.pipe()
            if stderr:
                pipes['stderr'], pipes['child_stderr'] = kernel.pipe()
            script_state['last_pipes'] = pipes
            return pipes
        def close_fd(self, fd):
            kernel.close(fd)
        def fork(self):
            if script_state.get('forkfail'):
                script_state['forkfail'] = False
                raise OSError(errno.EAGAIN, 'no more processes')
            script_state['pid'] = script_state.get('pid', 1000) + 1
            p = script_state['last_pipes']
            out = kernel.fds[p['child_stdout']][1]
            err = kernel.fds[p['child_stderr']][1] if p['child_stderr'] is not None else out
            out.writers += 1
            if err is not out:
                err.writers += 1
            script_state['children'][script_state['pid']] = {'stdout': out, 'stderr': err}
            return script_state['pid']
        def readfd(self, fd):
            e = kernel.fds.get(fd)
            if not e or e[0] != 'r':
                return b''          # EBADF is mapped to b'' by the real readfd
            data, e[1].queue = e[1].queue, b''
            return data
        def getLogger(self, *a, **kw):
            return loggers.getLogger(*a, **kw)
    o = SimOptions()
    o.logger = loggers.getLogger()
    o.loglevel = loglevel
    o.strip_ansi = False
    o.pidhistory = {}
    return o


def gen_script(rng):
    """(process settings, ops).  ops: ['spawn', i, how] ['write', i, ch, n] ['deliver'] ['exit', i, reap_with_data]"""
    nproc = 3
    lvl = rng.choice([10, 20, 20, 5])          # the daemon's log level (DEBG and below: child output is copied to its own log)
    settings = [{'redirect': rng.random() < 0.3, 'capture': rng.choice([0, 0, 40]), 'loglevel': lvl} for _ in range(nproc)]
    ops = []
    for _ in range(rng.randrange(6, 26)):
        r = rng.random()
        i = rng.randrange(nproc)
        if r < 0.35:
            ops.append(['spawn', i, rng.choice(['ok', 'ok', 'ok', 'forkfail', 'forkfail', 'pipefail'])])
        elif r < 0.7:
            op = ['write', i, rng.choice(['stdout', 'stdout', 'stderr']), rng.choice([1, 3, 10, 30, 200])]
            if rng.random() < 0.3:
                op.append(rng.randrange(len(NON_UTF8)))      # the write ends with bytes that are not valid UTF-8 on their own
            ops.append(op)
        elif r < 0.85:
            ops.append(['deliver'])
        else:
            ops.append(['exit', i, rng.random() < 0.4])
    return settings, ops


# regression scripts: F11 in both dictionary orders; data in the pipe at reap time (F29, fixed in /repo 80611c2:
# finish() flushes the bytes held back for tag matching; a recurrence is a plain violation)
SCRIPTS = [
    ([{'redirect': False, 'capture': 0}] * 3, [['spawn', 0, 'forkfail'], ['spawn', 1, 'ok'], ['write', 1, 'stdout', 30], ['write', 1, 'stderr', 30], ['deliver'], ['exit', 1, False]]),
    ([{'redirect': False, 'capture': 0}] * 3, [['spawn', 1, 'forkfail'], ['spawn', 0, 'ok'], ['write', 0, 'stdout', 30], ['write', 0, 'stderr', 30], ['deliver'], ['exit', 0, False]]),
    ([{'redirect': False, 'capture': 0}] * 3, [['spawn', 2, 'forkfail'], ['spawn', 0, 'ok'], ['spawn', 1, 'ok'], ['write', 0, 'stdout', 10], ['write', 1, 'stdout', 10], ['exit', 0, True], ['exit', 1, True]]),
    ([{'redirect': True, 'capture': 0}] * 3, [['spawn', 0, 'ok'], ['write', 0, 'stdout', 10], ['write', 0, 'stderr', 10], ['write', 0, 'stdout', 10], ['deliver'], ['exit', 0, False]]),
    ([{'redirect': False, 'capture': 40}] * 3, [['spawn', 0, 'ok'], ['write', 0, 'stdout', 10], ['exit', 0, True]]),
    ([{'redirect': False, 'capture': 40}] * 3, [['spawn', 0, 'ok'], ['write', 0, 'stdout', 10], ['deliver'], ['exit', 0, False]]),
    # loglevel=debug, a multi-byte character cut by the read boundary; the rest read by the loop / still in the pipe at reap
    ([{'redirect': False, 'capture': 0, 'loglevel': 10}] * 3, [['spawn', 0, 'ok'], ['write', 0, 'stdout', 10, 1], ['deliver'], ['write', 0, 'stdout', 10], ['deliver'], ['exit', 0, False]]),
    ([{'redirect': False, 'capture': 0, 'loglevel': 10}] * 3, [['spawn', 0, 'ok'], ['write', 0, 'stdout', 10, 1], ['deliver'], ['write', 0, 'stdout', 10], ['exit', 0, True]]),
    ([{'redirect': True, 'capture': 40, 'loglevel': 5}] * 3, [['spawn', 1, 'ok'], ['write', 1, 'stderr', 30, 0], ['write', 1, 'stdout', 3, 3], ['exit', 1, True]]),
]


def scenario(ctx, script):
    from supervisor import events
    from supervisor.options import ProcessGroupConfig
    settings, ops = script
    events.clear()
    seen = []
    events.subscribe(events.ProcessLogEvent, seen.append)
    kernel = Kernel()
    st = {'children': {}}
    opt = make_options(kernel, st, settings[0].get('loglevel', 20))
    inp0 = {'level': 'L1.5', 'settings': settings, 'ops': ops}
    paths, pconfigs = {}, []
    for i, s in enumerate(settings):
        for ch in ('stdout', 'stderr'):
            paths[i, ch] = os.path.join(ctx.scratch, 'p%d-%s.log' % (i, ch))
            open(paths[i, ch], 'wb').close()
        pconfigs.append(od.make_pconfig(opt, 'p%d' % i, stdout_logfile=paths[i, 'stdout'], stderr_logfile=paths[i, 'stderr'],
                                        redirect_stderr=s['redirect'], stdout_capture_maxbytes=s['capture'],
                                        stdout_events_enabled=True, stderr_events_enabled=True, startsecs=0))
    group = ProcessGroupConfig(opt, 'g', 999, pconfigs).make_group()
    procs = [group.processes['p%d' % i] for i in range(len(settings))]
    expected = {k: b'' for k in paths}
    seq = [0]
    failed_then_spawn = [False, False]
    reaped_with_data_and_capture = [False]
    alive = {}                       # i -> pid of the simulated child

    def deliver():
        combined = group.get_dispatchers()
        for fd in sorted(combined):
            d = combined[fd]
            e = kernel.fds.get(fd)
            if d.readable() and e and e[0] == 'r' and (e[1].queue or e[1].writers == 0):
                try:
                    d.handle_read_event()
                except Exception as ex:
                    # runforever()'s per-dispatcher guard: handle_error() closes the dispatcher -- the chunk is not announced
                    # and whatever the child writes from now on is never logged
                    ctx.violation('dispatcher-raised:' + type(ex).__name__, 'handle_read_event() of %r raised %r' % (d, ex), inp0)
                    d.handle_error()
                ctx.count('L1.5-reads')

    def child_exit(i):
        pid = alive.pop(i)
        ch = st['children'].pop(pid)
        ch['stdout'].writers -= 1
        if ch['stderr'] is not ch['stdout']:
            ch['stderr'].writers -= 1
        return pid

    def reap(i, pid):
        try:
            procs[i].finish(pid, 0)
        except Exception as ex:
            # finish() -> drain() reads without the loop's guard: this exception ends supervisord (C06) and the output is lost
            ctx.violation('finish-raised:' + type(ex).__name__, 'Subprocess.finish() of p%d raised %r' % (i, ex), inp0)

    for op in ops:
        if op[0] == 'spawn':
            i, how = op[1], op[2]
            p = procs[i]
            from supervisor.states import ProcessStates as PS
            if p.pid or p.state not in (PS.EXITED, PS.FATAL, PS.BACKOFF, PS.STOPPED):
                continue
            st['forkfail'] = how == 'forkfail'; st['pipefail'] = how == 'pipefail'
            pid = p.spawn()
            st['forkfail'] = st['pipefail'] = False
            ctx.count('L1.5-spawn-' + how)
            if pid:
                alive[i] = pid
                if failed_then_spawn[0]:
                    failed_then_spawn[1] = True
                # redirect_stderr: one pipe and one output dispatcher; otherwise one per channel
                from supervisor.dispatchers import POutputDispatcher
                outs = [d for d in p.dispatchers.values() if isinstance(d, POutputDispatcher)]
                ch = st['children'][pid]
                merged = ch['stdout'] is ch['stderr'] and p.pipes.get('stderr') is None and len(outs) == 1
                split = ch['stdout'] is not ch['stderr'] and len(outs) == 2 and sorted(d.channel for d in outs) == ['stderr', 'stdout']
                if (settings[i]['redirect'] and not merged) or (not settings[i]['redirect'] and not split):
                    ctx.violation('redirect-stderr-wiring', 'p%d redirect_stderr=%s: pipes %r, %d output dispatchers' % (
                        i, settings[i]['redirect'], p.pipes, len(outs)), {'level': 'L1.5', 'settings': settings, 'ops': ops})
            elif p.dispatchers or p.pipes:
                ctx.violation('stale-dispatchers-after-failed-spawn', 'p%d: spawn failed (%s) but dispatchers=%r pipes=%r remain' % (
                    i, how, sorted(p.dispatchers), p.pipes), {'level': 'L1.5', 'settings': settings, 'ops': ops})
            else:
                failed_then_spawn[0] = True
        elif op[0] == 'write':
            i, ch, n = op[1], op[2], op[3]
            if i not in alive:
                continue
            seq[0] += 1
            data = ((b'<p%d.%s.%d>' % (i, ch[3:].encode(), seq[0])) * (n // 8 + 1))[:n]      # n bytes, tagged with the writer
            if len(op) > 4 and op[4] is not None:
                data += NON_UTF8[op[4] % len(NON_UTF8)]
                ctx.count('L1.5-writes-not-utf8')
            st['children'][alive[i]][ch].queue += data
            expected[i, 'stdout' if settings[i]['redirect'] else ch] += data
            ctx.count('L1.5-writes')
        elif op[0] == 'deliver':
            deliver()
        elif op[0] == 'exit':
            i, with_data = op[1], op[2]
            if i not in alive:
                continue
            pending = any(p.queue for p in st['children'][alive[i]].values())
            pid = child_exit(i)
            if not with_data:
                deliver()            # the main loop saw the data and the EOF before waitpid reported the child
            elif pending and settings[i]['capture']:
                reaped_with_data_and_capture[0] = True
            reap(i, pid)
            ctx.count('L1.5-reap-with-data' if with_data and pending else 'L1.5-reap')
    for i in list(alive):
        pid = child_exit(i)
        deliver()
        reap(i, pid)
    inp = {'level': 'L1.5', 'settings': settings, 'ops': ops}
    for (i, ch), path in paths.items():
        with open(path, 'rb') as f:
            got = f.read()
        want = expected[i, ch]
        if got == want:
            continue
        foreign = [m for m in re.findall(rb'<p(\d)\.', got) if int(m) != i]
        if foreign:
            ctx.violation('byte-in-wrong-log', 'log of p%d.%s holds bytes written by p%s: %r' % (i, ch, foreign[0].decode(), got[:80]), inp)
        elif want.startswith(got) or all(x in want for x in [got]):
            if settings[i]['capture'] and reaped_with_data_and_capture[0] and len(want) - len(got) <= len(od.DOC_BEGIN):
                ctx.violation('held-back-bytes-lost-when-reaped-with-data-in-pipe',
                              'p%d.%s wrote %d bytes, log has %d: the last %r were still held for tag matching when finish() dropped the dispatcher' % (
                                  i, ch, len(want), len(got), want[len(got):]), inp)
            else:
                ctx.violation('bytes-missing-after-reap', 'p%d.%s wrote %r, log has %r' % (i, ch, want[-60:], got[-60:]), inp)
        else:
            ctx.violation('bytes-duplicated-or-reordered', 'p%d.%s wrote %r, log has %r' % (i, ch, want[:80], got[:80]), inp)
    for e in seen:
        m = re.match(rb'<p(\d)\.(out|err)', e.data)
        if m and (e.process is not procs[int(m.group(1))]):
            ctx.violation('event-attribution', 'PROCESS_LOG event for %s carries bytes of p%s' % (e.process.config.name, m.group(1).decode()), inp)
            break
    events.clear()
    ctx.case_done(('L1.5', repr(script)), failed_then_spawn[1])
    ctx.count('L1.5-scenarios')
    if failed_then_spawn[1]:
        ctx.count('L1.5-scenarios-with-spawn-after-failed-spawn')
    return 1


def wiring(ctx):
    """real make_dispatchers / _prepare_child_fds over the simulated kernel vs the model's wiring"""
    from supervisor import events
    from supervisor.dispatchers import POutputDispatcher
    cases, impls = [], []
    for redirect in (0, 1):
        for junk in (0, 2, 5):                       # descriptor numbers already in use shift the allocation
            events.clear()
            kernel = Kernel()
            for _ in range(junk):
                kernel.alloc('r', Pipe())
            st = {'children': {}}
            opt = make_options(kernel, st)
            dups = []
            opt.dup2 = lambda a, b: dups.append((a, b))
            opt.minfds = 3
            pc = od.make_pconfig(opt, 'w', redirect_stderr=bool(redirect))
            p = pc.make_process()
            p.spawn()
            pp = dict(p.pipes)
            nums = sorted(v for v in st['last_pipes'].values() if v is not None)
            p._prepare_child_fds()
            disp = sorted((fd, d.channel) for fd, d in p.dispatchers.items() if isinstance(d, POutputDispatcher))
            line = 'disp:%s | stderr:%s | dups:%s' % (','.join('%d:%s' % (fd, 'o' if ch == 'stdout' else 'e') for fd, ch in disp),
                                                      'none' if pp['stderr'] is None else pp['stderr'],
                                                      ','.join('%d>%d' % d for d in dups))
            # the model is told the numbers three os.pipe() calls return, in call order
            base = junk + 3
            six = list(range(base, base + 6))
            cases.append(('case wiring redirect=%d' % redirect, ['make ' + ' '.join(map(str, six))])); impls.append([line])
            ctx.count('wiring-cases')
            ctx.case_done(('wiring', redirect, junk), True)
            if redirect and (len(disp) != 1 or (pp['child_stdout'], 2) not in dups or (pp['child_stdout'], 1) not in dups):
                ctx.violation('redirect-stderr-wiring', 'redirect_stderr: dispatchers %r, dup2 calls %r' % (disp, dups), {'level': 'wiring', 'redirect': redirect})
    events.clear()
    ctx.correspond('wiring', cases, impls)


# ---- L2: the unmodified Supervisor.runforever over harness/simkernel.py ------------------------------------

def l2_gen(rng):
    """(programs, script): output-writing children, exits, respawns, fork/pipe faults, start/stop RPCs"""
    import signal as _sg
    n = rng.randrange(2, 5)
    progs = []
    for i in range(n):
        progs.append(dict(name='p%d' % i, group='g%d' % (i % 2), gprio=999, prio=999, autostart=rng.random() < 0.75,
                          autorestart=rng.choice(['true', 'true', 'unexpected']), startsecs=rng.choice([0, 0, 1]), startretries=3,
                          exitcodes=[0], stopsignal=_sg.SIGTERM, stopwaitsecs=2, dies_on='any', die_delay=0,
                          capture=rng.choice([0, 0, 40]), events=rng.random() < 0.6, redirect_stderr=rng.random() < 0.25))
    names = [p['name'] for p in progs]
    cap = {p['name']: p['capture'] for p in progs}
    script, seq, rid = [], 0, 0
    for i in range(rng.randrange(12, 40)):
        acts = []
        for _ in range(rng.choice([0, 1, 1, 2, 3])):
            nm = rng.choice(names)
            ch = rng.choice(['stdout', 'stdout', 'stderr'])
            seq += 1
            tag = b'<%s.%s.%d>' % (nm.encode(), ch[3:].encode(), seq)
            r = rng.random()
            if cap[nm] and ch == 'stdout' and r < 0.45:
                t = rng.choice([od.DOC_BEGIN, od.DOC_END])
                k = rng.randrange(1, len(t))
                data = rng.choice([t, t, tag + t, t[:k], t[k:], tag + t[:k]])
                acts.append(('write', nm, ch, data))
            elif r > 0.93:
                acts.append(('writegen', nm, ch, tag, rng.choice(BURSTS)))
            elif r > 0.75:
                # chunks that are not valid UTF-8 on their own: binary, latin-1, a multi-byte character cut by the write boundary
                acts.append(('write', nm, ch, tag + rng.choice(NON_UTF8)))
            else:
                nbytes = rng.choice([1, 3, 9, 20, 60, 300])
                data = (tag * (nbytes // 8 + 1))[:max(nbytes, 1)] if r < 0.7 else tag
                acts.append(('write', nm, ch, data))
        r = rng.random()
        if r < 0.22:
            nm = rng.choice(names)
            if rng.random() < 0.4:
                # a last burst (stack dump, final report) written just before the exit: it is still in the pipe when the child
                # is reaped unless the loop happens to read the pipe first
                seq += 1
                ch = rng.choice(['stdout', 'stdout', 'stderr'])
                acts.append(('writegen', nm, ch, b'<%s.%s.%d>' % (nm.encode(), ch[3:].encode(), seq), rng.choice(BURSTS)))
            acts.append(('exit', nm, rng.choice([0, 0, 1])))
        elif r < 0.34:
            acts.append(('fault', rng.choice(['fork', 'fork', 'pipe']), rng.choice([errno.EAGAIN, errno.EMFILE]), rng.choice([1, 1, 2])))
        elif r < 0.46:
            rid += 1
            nm = rng.choice(names)
            full = 'g%d:%s' % (int(nm[1:]) % 2, nm)
            acts.append(('rpc', rid, rng.choice(['supervisor.stopProcess', 'supervisor.startProcess', 'supervisor.startProcess']), (full, False)))
        script.append((rng.choice([256, 512, 1024, 1024, 2048]), acts))
    script.append((1024, []))
    script.append((1024, []))
    return progs, script


# burst sizes around typical read sizes (4K, 8K, 64K = what a pipe holds, so the most that can be pending at reap time)
BURSTS = [4096, 8191, 8192, 8193, 16384, 16385, 40000, 65535, 65536]
NON_UTF8 = [b'\xff\xfe', b'caf\xc3', b'\xa9 au lait', b'\xe2\x82', b'\xac 12', b'na\xefve', b'\x80', b'\xc3\xa9t\xc3']
LOGLEVELS = [3, 5, 10, 10, 20, 20, 30]      # BLAT TRAC DEBG INFO WARN: at DEBG and below child output is copied to the daemon's own log


def expand(script):
    """('writegen', name, chan, tag, n) -> ('write', name, chan, n bytes made of the repeated tag); keeps replay files small"""
    out = []
    for dt, acts in script:
        out.append((dt, [('write', a[1], a[2], (a[3] * (a[4] // len(a[3]) + 1))[:a[4]]) if a[0] == 'writegen' else a for a in acts]))
    return out


L2_SCRIPTS = [
    # F11 under the real loop: p1's fork fails (its pipes are closed again), p0 respawns on the same numbers, and writes
    ([dict(name='p0', group='g0', autorestart='true', startsecs=0, capture=0, events=True),
      dict(name='p1', group='g1', autorestart='true', startsecs=0, capture=0, events=True)],
     [(1024, [('write', 'p0', 'stdout', b'<p0.out.1>first'), ('write', 'p1', 'stdout', b'<p1.out.2>first')]),
      (1024, [('exit', 'p0', 0), ('exit', 'p1', 0), ('fault', 'fork', errno.EAGAIN, 1)]),
      (1024, []), (1024, []),
      (1024, [('write', 'p0', 'stdout', b'<p0.out.3>second'), ('write', 'p0', 'stderr', b'<p0.err.4>second'),
              ('write', 'p1', 'stdout', b'<p1.out.5>second')]),
      (1024, []), (2048, []), (1024, [])], 1),
    # F11, the dictionary order that misroutes: p1 (later group) fails to fork on the lowest numbers while p0 is stopped,
    # then p0 is started by RPC on the same numbers and writes before p1's retry
    ([dict(name='p0', group='g0', autostart=False, autorestart='false', startsecs=0, capture=0, events=True),
      dict(name='p1', group='g1', autorestart='true', startsecs=0, capture=0, events=True)],
     [(256, [('fault', 'fork', errno.EAGAIN, 1)]),
      (256, [('rpc', 1, 'supervisor.startProcess', ('g0:p0', False))]),
      (256, []),                                         # the call runs (and forks) in this pass
      (256, [('write', 'p0', 'stdout', b'<p0.out.1>hello'), ('write', 'p0', 'stderr', b'<p0.err.2>oops')]),
      (256, []), (1024, [('write', 'p1', 'stdout', b'<p1.out.3>late')]), (1024, []), (1024, [])], 0),
    # F29 under the real loop: capture on, the child writes a few bytes and exits in the same pass
    ([dict(name='p0', group='g0', autorestart='false', startsecs=0, capture=40, events=True)],
     [(1024, [('write', 'p0', 'stdout', b'<p0.out.1>'), ('exit', 'p0', 0)]), (1024, []), (1024, [])], 2),
    ([dict(name='p0', group='g0', autorestart='false', startsecs=0, capture=40, events=True)],
     [(1024, [('write', 'p0', 'stdout', b'a' * 30 + od.DOC_BEGIN[:9])]), (1024, [('write', 'p0', 'stdout', od.DOC_BEGIN[9:] + b'cap' + od.DOC_END[:5])]),
      (1024, [('write', 'p0', 'stdout', od.DOC_END[5:] + b'tail'), ('exit', 'p0', 0)]), (1024, []), (1024, [])], 3),
]
# (programs, script, ready seed, (ready probability, daemon log level))
L2_SCRIPTS2 = [
    # a burst written just before the exit and not seen by poll(): drained by finish() -- every size up to what a pipe holds
    ([dict(name='p0', group='g0', autorestart='false', startsecs=0, capture=0, events=True)],
     [(1024, []), (1024, [('lateio', 1, 0.0), ('writegen', 'p0', ch, b'<p0.%s.1>' % ch[3:].encode(), n), ('exit', 'p0', 0)]), (1024, []), (1024, [])],
     0, (None, lvl))
    for n in BURSTS for ch in ('stdout', 'stderr') for lvl in (10, 20)
] + [
    # the same with the pipe reported readable: one read by the loop, the rest at reap
    ([dict(name='p0', group='g0', autorestart='false', startsecs=0, capture=cap, events=True, redirect_stderr=red)],
     [(1024, []), (1024, [('writegen', 'p0', 'stdout', b'<p0.out.1>', n), ('exit', 'p0', 0)]), (1024, []), (1024, [])], 0, (None, 20))
    for n in (16385, 40000, 65536) for cap in (0, 40) for red in (False, True)
] + [
    # ordinary UTF-8 text cut inside a multi-byte character by the write boundary, at every daemon log level; the second
    # half is written with the exit (seen by the loop, or only by finish())
    ([dict(name='p0', group='g0', autorestart='false', startsecs=0, capture=0, events=True)],
     [(1024, []), (1024, [('write', 'p0', 'stdout', b'<p0.out.1>caf\xc3')]), (1024, []),
      (1024, ([('lateio', 1, 0.0)] if late else []) + [('write', 'p0', 'stdout', b'\xa9 au lait\n<p0.out.2>second line\n'), ('exit', 'p0', 0)]),
      (1024, []), (1024, [])], 0, (None, lvl))
    for late in (False, True) for lvl in (3, 5, 10, 20, 30)
]


def l2_run(ctx, progs, script, ready_seed, loglevel=0):
    import random, shutil
    import l2
    from simkernel import SimKernel
    logdir = os.path.join(ctx.scratch, 'l2logs')
    shutil.rmtree(logdir, ignore_errors=True)
    os.makedirs(logdir)
    ps = [dict(p, logdir=logdir) for p in progs]
    k = SimKernel(ps, expand(script), scratch=ctx.scratch, ready_rng=random.Random(ready_seed) if ready_seed else None, loglevel=loglevel)
    k.run()
    inp = dict(l2.scenario_input(progs, script, ready_seed=ready_seed, loglevel=loglevel), level='L2')
    mon_c07(ctx, k, inp, logdir)
    ctx.count('L2-loglevel=%d' % loglevel)
    return k


def mon_c07(ctx, k, inp, logdir=None):
    """per-process log files and PROCESS_LOG / PROCESS_COMMUNICATION events against the bytes each child was made to
    write, under the unmodified runforever: complete after the child is reaped, in order, exactly once, nowhere else"""
    ctx.count('L2-scenarios')
    if not k.outcome or k.outcome.startswith('exception'):
        ctx.count('L2-main-loop-died(C06)')
        return
    progs = k.programs
    gens = {n: [] for n in progs}        # name -> [dict(pid, stdout=bytearray, stderr=bytearray, reaped)]
    bypid = {}
    fork_failed = spawn_after_fail = reaped_with_data = False
    pipebuf = {}
    for r in k.log:
        kd = r['kind']
        if kd == 'fork' and r['name'] in gens:
            g = dict(pid=r['pid'], stdout=bytearray(), stderr=bytearray(), reaped=False)
            gens[r['name']].append(g); bypid[r['pid']] = (r['name'], g)
            if fork_failed:
                spawn_after_fail = True
        elif kd == 'fault' and r['call'] in ('fork', 'pipe'):
            fork_failed = True
        elif kd == 'childwrite':
            nm, g = bypid[r['pid']]
            ch = 'stdout' if progs[nm].get('redirect_stderr') else r['chan']
            g[ch] += r['data']
            pipebuf[r['pipe']] = pipebuf.get(r['pipe'], 0) + len(r['data'])
        elif kd == 'read':
            pipebuf[r['pipe']] = pipebuf.get(r['pipe'], 0) - len(r['data'])
        elif kd == 'wait' and r.get('pid') in bypid:
            bypid[r['pid']][1]['reaped'] = True
    # a child counts as reaped-with-data when bytes were read from its pipe after its wait record
    waited = set()
    for r in k.log:
        if r['kind'] == 'wait' and r.get('pid'):
            waited.add(r['pid'])
        elif r['kind'] == 'read' and r['data']:
            for pid in waited:
                c = k.children.get(pid)
                if c is not None and ((c.stdout is not None and c.stdout.id == r['pipe']) or (c.stderr is not None and c.stderr.id == r['pipe'])):
                    reaped_with_data = True
    if spawn_after_fail: ctx.count('L2-spawn-after-failed-fork-or-pipe')
    if reaped_with_data: ctx.count('L2-reaped-with-data-in-pipe')

    def bad(kind, what):
        ctx.violation(kind, what, inp)

    def expected(nm, ch, g, final):
        """(bytes that must be in the log for this generation, sections) ; final = the child has been reaped"""
        data = bytes(g[ch])
        if ch == 'stdout' and progs[nm].get('capture'):
            plain, sections, open_ = od.ref_split(data)
            return plain, sections
        return data, []

    events = [r for r in k.log if r['kind'] == 'event' and r['name'].startswith(('PROCESS_LOG', 'PROCESS_COMMUNICATION'))]
    for nm, p in progs.items():
        for ch, ext in (('stdout', '.out'), ('stderr', '.err')):
            path = os.path.join(logdir, nm + ext)
            got = open(path, 'rb').read() if os.path.exists(path) else b''
            want_full, must = b'', 0
            for g in gens[nm]:
                e, _ = expected(nm, ch, g, g['reaped'])
                want_full += e
                if g['reaped']:
                    must = len(want_full)
            foreign = [m for m in re.findall(rb'<(p\d)\.', got) if m.decode() != nm]
            if foreign:
                bad('l2-byte-in-wrong-log', 'log of %s.%s holds bytes written by %s: %r' % (nm, ch, foreign[0].decode(), got[:80]))
            elif not want_full.startswith(got):
                bad('l2-bytes-duplicated-or-reordered', '%s.%s: log %r is not a prefix of what was written (minus capture sections) %r' % (nm, ch, got[-80:], want_full[-80:]))
            elif len(got) < must:
                bad('l2-bytes-missing-after-reap', '%s.%s: %d bytes written by reaped children (outside capture sections), %d in the log; missing from %r' % (
                    nm, ch, must, len(got), want_full[len(got):len(got) + 60]))
            # PROCESS_LOG events: same bytes, this process, this channel, the writer's pid
            evs = [r for r in events if r['name'].startswith('PROCESS_LOG') and r['process'] == nm and r['channel'] == ch]
            cat = b''.join(r['data'] for r in evs)
            if p.get('events'):
                if cat != got:
                    bad('l2-plog-differs-from-log', '%s.%s: PROCESS_LOG data %r, log %r' % (nm, ch, cat[-60:], got[-60:]))
            elif evs:
                bad('l2-plog-while-disabled', '%s.%s: PROCESS_LOG events with events disabled' % (nm, ch))
    # attribution of every event by the tags it carries
    writer = {}
    for r in k.log:
        if r['kind'] == 'childwrite':
            for m in re.findall(rb'<p\d\.(?:out|err)\.\d+>', r['data']):
                writer[m] = (r['name'], r['pid'])
    for r in events:
        for m in re.findall(rb'<p\d\.(?:out|err)\.\d+>', r['data']):
            w = writer.get(m)
            if w and (w[0] != r['process'] or w[1] != r['pid']):
                bad('l2-event-attribution', '%s for %s pid %s carries %r written by %s pid %d' % (r['name'], r['process'], r['pid'], m, w[0], w[1]))
                break
    # PROCESS_COMMUNICATION events: one per closed section of each generation, trailing part, bounded
    for nm, p in progs.items():
        capmax = p.get('capture') or 0
        secs = []
        for g in gens[nm]:
            if capmax:
                _, s, _ = od.ref_split(bytes(g['stdout']))
                secs.append((g, s))
        comm = [r for r in events if r['name'].startswith('PROCESS_COMMUNICATION') and r['process'] == nm]
        allsecs = [(g, s) for g, ss in secs for s in ss]
        nreaped = sum(len(ss) for g, ss in secs if g['reaped'])
        if len(comm) > len(allsecs) or len(comm) < nreaped:
            bad('l2-comm-event-count', '%s: %d PROCESS_COMMUNICATION events, %d closed sections (%d of reaped children)' % (nm, len(comm), len(allsecs), nreaped))
        for r, (g, s) in zip(comm, allsecs):
            if not s.endswith(r['data']) or len(r['data']) > capmax or (len(s) <= capmax and r['data'] != s) or r['pid'] != g['pid']:
                bad('l2-comm-event-data', '%s: event data %r (pid %s) for enclosed bytes %r (pid %d), capture_maxbytes=%d' % (nm, r['data'][:40], r['pid'], s[:40], g['pid'], capmax))
                break


def l2_all(ctx):
    rng = ctx.rng
    for progs, script, seed in L2_SCRIPTS:
        k = l2_run(ctx, progs, script, seed)
        ctx.case_done(('L2', repr(script)), True)
    for progs, script, seed, (_, lvl) in L2_SCRIPTS2:
        k = l2_run(ctx, progs, script, seed, lvl)
        ctx.case_done(('L2', repr(script), lvl), True)
        ctx.count('L2-corpus-bursts-and-cut-characters')
    for _ in range(ctx.n(120, 2500)):
        progs, script = l2_gen(rng)
        lvl = rng.choice(LOGLEVELS)
        k = l2_run(ctx, progs, script, rng.randrange(1, 1 << 30), lvl)
        ctx.case_done(('L2', repr(script), lvl), True)
        ctx.count('L2-forks', sum(1 for r in k.log if r['kind'] == 'fork'))
        ctx.count('L2-child-writes', sum(1 for r in k.log if r['kind'] == 'childwrite'))


def replay(ctx, data):
    inp = data['input']
    lvl = inp.get('level')
    if lvl == 'L2':
        import l2
        progs, script = l2.scenario_from_input(inp)
        script = [(dt, [(a[0], a[1], a[2], bytes.fromhex(a[3]), a[4]) if a[0] == 'writegen' else a for a in acts]) for dt, acts in script]
        l2_run(ctx, progs, script, inp['opts'].get('ready_seed'), inp['opts'].get('loglevel', 0))
    elif lvl == 'L1.5':
        scenario(ctx, (inp['settings'], inp['ops']))
    elif lvl == 'L1':
        cfg = Cfg(**inp['cfg'])
        chunks = [bytes.fromhex(h) if h != '-' else b'' for h in inp['chunks']]
        cases, impls = [], []
        l1_case(ctx, cases, impls, cfg, b''.join(chunks), chunks, inp.get('eof', True))
        ctx.correspond('outdisp-replay', cases, impls)
    elif lvl == 'strip':
        strip_function(ctx)
    elif lvl == 'wiring':
        wiring(ctx)
    else:
        interleaved(ctx)


TECHNIQUE = ("Lean 4 theorems over the dispatcher model (refinement to a reference splitter from C08, reference ANSI stripper, "
             "append-only/exactly-once, PROCESS_LOG matching, per-descriptor attribution); differential correspondence against the real "
             "POutputDispatcher / stripEscapes; scenario monitors over real Subprocess objects on a small simulated kernel")
LEVEL_TEXT = ("no_capture_concat, complete_at_eof, order_and_once, strip_per_read/strip_unfragmented, plog_events_match and attribution are "
              "proved for every stream, fragmentation and interleaving (no bound) over definitions regenerated from /repo; strip_ansi for "
              "fragmented escapes is a known open finding (F12, counterexample theorem); read_never_raises / debug_copy_is_silent / "
              "log_level_irrelevant: the debug-level copy of child output (decode guarded, regenerated handler table) never raises, so every theorem "
              "holds at every daemon log level; readfd_drains / reap_complete: the regenerated read size covers what a pipe holds, so the single read of "
              "finish()->drain() leaves nothing behind; cross-process attribution with descriptor reuse is "
              "exercised on real Subprocess objects (L1.5) and under the unmodified runforever on the simulated kernel (L2), not proved")
LEVEL_NOTE = ("trusts Lean's kernel, extract.py, CPython bytes semantics as modelled, the logger plumbing, the L1.5 kernel simulation; "
              "the L2 kernel simulation (harness/simkernel.py)")
DESIGN_REF = "DESIGN.md section 6, C07"
