import SupervisorModel.Lemmas.CtlSpec
/-
  C20 — supervisorctl reports what the server said.

  Model: Model/Ctl.lean (`Controller.onecmd`, `upcheck`, the 17 actions; non-interactive).  One invocation is
  `run url line script`: the command line and the answers the server proxy gives, in the order asked.
  The definitions unfolded here (`Sv.Gen.Ctl.*`: fault codes, LSB exit statuses, every fault comparison,
  every exit-status assignment, the tolerated-fault arguments, the wording tables, the fault codes the server
  side raises) are regenerated from /repo on every run.

  The exit-status claim is two implications (not an equivalence); both are kept in that shape.
-/
set_option linter.unusedSimpArgs false
set_option linter.unusedVariables false
namespace Sv.Props.C20
open Sv Sv.Ctl Sv.Gen.Ctl Sv.Ctl.Spec

/-! ## the specification predicates (defined in Lemmas/CtlSpec.lean; restated here, checked by `rfl`) -/

/-- the four answers the statement counts as success although they are faults, by RPC method -/
theorem toleratedCode_def (meth : String) : toleratedCode meth =
    if meth = "startProcess" ∨ meth = "startProcessGroup" ∨ meth = "startAllProcesses" then some Faults_ALREADY_STARTED
    else if meth = "stopProcess" ∨ meth = "stopProcessGroup" ∨ meth = "stopAllProcesses" then some Faults_NOT_RUNNING
    else if meth = "addProcessGroup" then some Faults_ALREADY_ADDED
    else if meth = "shutdown" then some Faults_SHUTDOWN_STATE
    else none := rfl

/-- `refused c`: the server refused or failed the request `c`, or could not be reached: a ProtocolError (incl.
    401), a socket error, a fault other than the tolerated one of a per-process method (any fault of a group/all
    method), a result list with an entry that is neither SUCCESS nor the tolerated code, a wrong API version,
    an HTTP error status of `tail -f`.  (A Fault carrying the code SUCCESS is not counted: no server sends one.) -/
theorem refused_def (c : Call) : refused c =
    match c.ans with
    | .proto _ => true
    | .sock _ => true
    | .fault code _ => code != Faults_SUCCESS && (listMethods.contains c.meth || some code != toleratedCode c.meth)
    | .ok (.results rs) => rs.any fun r => r.status != Faults_SUCCESS && some r.status != toleratedCode c.meth
    | .ok (.str api) => c.meth == "getVersion" && api != API_VERSION
    | .ok (.int _) => c.meth == "GET"
    | .ok _ => false := rfl

/-- the calls the partial theorem does not speak about: the HTTP request of `tail -f` (F23) and the result list
    of stopProcessGroup inside `update` (F26) -/
theorem excluded_def (a : Action) (c : Call) : excluded a c =
    (c.meth == "GET" || (a == .update && c.meth == "stopProcessGroup" && isResults c.ans)) := rfl

/-- well-formed argument lists as far as the theorem establishes them (`add`/`remove` without a name are
    *not* rejected by the code, F24; the argument forms of tail/maintail are covered by correspondence only) -/
theorem argsOkP_def (a : Action) (arg : String) : argsOkP a arg =
    match a with
    | .start | .stop | .restart | .clear => pySplit arg ≠ []
    | .signal => 2 ≤ (pySplit arg).length
    | .shutdown | .reload | .version | .reread | .avail => arg = ""
    | _ => True := rfl

/-! ## exit status: failure ⇒ non-zero -/

/-- FULL STATEMENT (not provable today):
      exit = 0 → (∀ c ∈ calls, refused c = false) ∧ argument list well-formed (incl. a name for add/remove).
    PARTIAL: the calls `excluded a c` (F23: HTTP status of `tail -f`; F26: stop results inside `update`) are not
    covered, and `add`/`remove` without a name are not shown to be rejected (F24).
    For every action, every argument string and every answer script: if the invocation ends with exit status 0
    (and the script fitted the calls), then no request was refused and the arguments were well-formed. -/
theorem failure_exit_nonzero_partial (a : Action) (arg url : String) (script : List Ans)
    (h0 : (protect (a.run arg) (init url script)).p.exit = 0)
    (herr : (protect (a.run arg) (init url script)).err = none) :
    (∀ c ∈ (protect (a.run arg) (init url script)).p.calls, refused c = false ∨ excluded a c = true) ∧
    argsOkP a arg := by
  obtain ⟨_, hp, hc⟩ := safeP_protect (safe_run a arg) (init url script) ⟨h0, herr⟩
  refine ⟨fun c hcm => ?_, hp⟩
  rcases hc c hcm with h | h
  · simp [init] at h
  · simpa [okP] using h

-- non-vacuity: an invocation that ends with exit status 0 after three calls
example : (protect (Action.restart.run "foo") (init "u" [.ok (.str "3.0"), .ok (.str "3.0"), .ok .unit,
    .ok (.str "3.0"), .ok .unit])).p.exit = 0 := by decide

/-- contrapositive form: a refused request that is not excluded makes the exit status non-zero -/
theorem refused_call_exit_nonzero (a : Action) (arg url : String) (script : List Ans) (c : Call)
    (hc : c ∈ (protect (a.run arg) (init url script)).p.calls) (hr : refused c = true) (hx : excluded a c = false)
    (herr : (protect (a.run arg) (init url script)).err = none) :
    (protect (a.run arg) (init url script)).p.exit ≠ 0 := by
  intro h0
  rcases (failure_exit_nonzero_partial a arg url script h0 herr).1 c hc with h | h <;> simp_all

example : (protect (Action.start.run "foo") (init "u" [.ok (.str "3.0"), .fault 10 "BAD_NAME: foo"])).p.exit = 1 := by
  decide
example : (protect (Action.status.run "") (init "u" [.proto 401, .proto 401])).p.exit = 1 := by decide
example : (protect (Action.stop.run "g:*") (init "u" [.sock 111])).p.exit = 4 := by decide

/-- an unknown action, a missing action word or a `!` line: "*** Unknown syntax" and status GENERIC -/
theorem unknown_syntax_exit_nonzero (l : String) (s : S) (h : s.err = none) :
    (unknownSyntax l s).p.exit = 1 ∧ (unknownSyntax l s).outs = s.outs ++ ["*** Unknown syntax: " ++ l] := by
  simp [unknownSyntax, out, emit, setExit, setP, guard, h, ctl_gen]

/-! counterexamples that keep the theorem partial (the code as it is) -/
/-- F24: `add` / `remove` without a name: nothing printed, exit status 0 -/
theorem f24_add_remove_without_name :
    (run "u" "add" []).p.exit = 0 ∧ (run "u" "add" []).outs = [] ∧
    (run "u" "remove" []).p.exit = 0 ∧ (run "u" "remove" []).outs = [] := by decide
/-- F23: `tail -f nosuch`: the 404 goes to stderr, the exit status stays 0 -/
theorem f23_tail_f_http_error :
    (run "u" "tail -f nosuch" [.ok (.str "3.0"), .ok (.int 404)]).p.exit = 0 ∧
    (run "u" "tail -f nosuch" [.ok (.str "3.0"), .ok (.int 404)]).p.stderr = true := by decide
/-- F26: `update` with a changed group whose stop FAILED: "stopped", "updated process group", exit status 0 -/
theorem f26_update_ignores_failed_stop :
    (run "u" "update" [.ok (.reload [] ["foo"] []), .ok (.results [⟨"foo", "foo", 30, "FAILED: x"⟩]), .ok .unit, .ok .unit]).p.exit = 0 ∧
    (run "u" "update" [.ok (.reload [] ["foo"] []), .ok (.results [⟨"foo", "foo", 30, "FAILED: x"⟩]), .ok .unit, .ok .unit]).outs =
      ["foo: stopped", "foo: updated process group"] := by decide

/-! ## exit status: success ⇒ zero (function level and the list forms) -/

/-- Controller.set_exitstatus_from_xmlrpc_fault, completely: SUCCESS and the tolerated code leave the status,
    the DEAD_PROGRAM_FAULTS give NOT_RUNNING (7), everything else GENERIC (1) -/
theorem setExitFromFault_spec (code : Int) (ign : Option Int) (s : S) (h : s.err = none) :
    (setExitFromFault code ign s).p.exit =
      (if code = Faults_SUCCESS ∨ some code = ign then s.p.exit
       else if code = Faults_SPAWN_ERROR ∨ code = Faults_ABNORMAL_TERMINATION ∨ code = Faults_NOT_RUNNING then 7
       else 1) ∧ (setExitFromFault code ign s).err = none ∧ (setExitFromFault code ign s).outs = s.outs := by
  unfold setExitFromFault guard
  simp only [h, Option.isSome_none, Bool.false_eq_true, if_false]
  simp only [onIgn, setexit_g0, setexit_g1, setexit_a0, setexit_a1, K, DEAD_PROGRAM_FAULTS, List.map, List.elem_eq_contains]
  cases ign <;> simp [setExit, setP, guard, h, ctl_gen] <;> (repeat' split) <;> simp_all <;> omega

/-- the tolerated-fault argument at every call site of set_exitstatus_from_xmlrpc_fault is the documented one:
    ALREADY_STARTED for start, NOT_RUNNING for stop, none for signal and clear -/
theorem tolerated_arguments :
    K do_start_c0_1 = Faults_ALREADY_STARTED ∧ K do_start_c1_1 = Faults_ALREADY_STARTED ∧ K do_start_c2_1 = Faults_ALREADY_STARTED ∧
    K do_stop_c0_1 = Faults_NOT_RUNNING ∧ K do_stop_c1_1 = Faults_NOT_RUNNING ∧ K do_stop_c2_1 = Faults_NOT_RUNNING := by decide

end Sv.Props.C20
