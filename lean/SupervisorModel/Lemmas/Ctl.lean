import SupervisorModel.Model.Ctl
import SupervisorModel.Lemmas.CtlAttr
/-
  Helper lemmas for Props/C20: a small relational logic over the sticky-error state of Model/Ctl.
  `Clean s`  : exit status 0 and no pending exception.
  `R ok P s s'` : if `s'` is clean then `s` was clean, `P` holds and every call recorded in `s'` was either
                  already recorded in `s` or satisfies `ok`.
-/
set_option linter.unusedSimpArgs false
set_option linter.unusedVariables false
namespace Sv.Ctl
open Sv.Gen.Ctl

def Clean (s : S) : Prop := s.p.exit = 0 ∧ s.err = none

def R (ok : Call → Bool) (P : Prop) (s s' : S) : Prop :=
  Clean s' → (Clean s ∧ P ∧ ∀ c ∈ s'.p.calls, c ∈ s.p.calls ∨ ok c = true)

/-- `f` never turns an unclean state clean, never invents a call that is not `ok`, and ends clean only if `P` -/
def SafeP (ok : Call → Bool) (P : Prop) (f : S → S) : Prop := ∀ s, R ok P s (f s)
abbrev Safe (ok : Call → Bool) (f : S → S) : Prop := SafeP ok True f
/-- `f` always ends unclean -/
def Dirty (f : S → S) : Prop := ∀ s, ¬ Clean (f s)

/-! ### primitives -/
@[simp] theorem clean_out (l : String) (s : S) : Clean (out l s) ↔ Clean s := by
  unfold out emit guard Clean; split <;> simp_all
@[simp] theorem calls_out (l : String) (s : S) : (out l s).p.calls = s.p.calls := by
  unfold out emit guard; split <;> simp_all
theorem clean_setExit {n : Int} (h : n ≠ 0) (s : S) : Clean (setExit n s) ↔ False := by
  unfold setExit setP guard Clean
  split
  · rename_i h; cases he : s.err <;> simp_all
  · simp_all
@[simp] theorem calls_setExit (n : Int) (s : S) : (setExit n s).p.calls = s.p.calls := by
  unfold setExit setP guard; split <;> simp_all
@[simp] theorem clean_raise (e : Exc) (s : S) : Clean (raise e s) ↔ False := by
  unfold raise guard Clean
  split
  · rename_i h; cases he : s.err <;> simp_all
  · simp_all
@[simp] theorem calls_raise (e : Exc) (s : S) : (raise e s).p.calls = s.p.calls := by
  unfold raise guard; split <;> simp_all
@[simp] theorem clean_raiseFault (c : Int) (t : String) (s : S) : Clean (raiseFault c t s) ↔ False := clean_raise _ s
@[simp] theorem calls_raiseFault (c : Int) (t : String) (s : S) : (raiseFault c t s).p.calls = s.p.calls := calls_raise _ s
@[simp] theorem clean_raiseSock (e : Int) (s : S) : Clean (raiseSock e s) ↔ False := clean_raise _ s
@[simp] theorem calls_raiseSock (e : Int) (s : S) : (raiseSock e s).p.calls = s.p.calls := calls_raise _ s
@[simp] theorem clean_badScript (s : S) : Clean (badScript s) ↔ False := clean_raise _ s
@[simp] theorem calls_badScript (s : S) : (badScript s).p.calls = s.p.calls := calls_raise _ s

theorem clean_outs (ls : List String) (s : S) : Clean (outs ls s) ↔ Clean s := by
  unfold outs
  induction ls generalizing s with
  | nil => simp
  | cons l ls ih => simp [List.foldl_cons, ih]
theorem calls_outs (ls : List String) (s : S) : (outs ls s).p.calls = s.p.calls := by
  unfold outs
  induction ls generalizing s with
  | nil => simp
  | cons l ls ih => simp [List.foldl_cons, ih]
attribute [simp] clean_outs calls_outs

/-! ### the logic -/
theorem R_refl (ok : Call → Bool) (s : S) : R ok True s s := by
  intro h; exact ⟨h, trivial, fun c hc => Or.inl hc⟩

theorem R_trans {ok : Call → Bool} {P Q : Prop} {s s1 s2 : S} (h1 : R ok P s s1) (h2 : R ok Q s1 s2) :
    R ok (P ∧ Q) s s2 := by
  intro h
  obtain ⟨c1, q, k2⟩ := h2 h
  obtain ⟨c0, p, k1⟩ := h1 c1
  refine ⟨c0, ⟨p, q⟩, fun c hc => ?_⟩
  rcases k2 c hc with h | h
  · exact k1 c h
  · exact Or.inr h

theorem R_mono {ok : Call → Bool} {P Q : Prop} {s s' : S} (h : R ok P s s') (pq : P → Q) : R ok Q s s' := by
  intro hc; obtain ⟨a, b, c⟩ := h hc; exact ⟨a, pq b, c⟩

theorem R_of_dirty {ok : Call → Bool} {P : Prop} {s s' : S} (h : ¬ Clean s') : R ok P s s' := fun hc => absurd hc h

theorem safe_id (ok : Call → Bool) : Safe ok id := fun s => R_refl ok s

theorem safeP_comp {ok : Call → Bool} {P Q : Prop} {f g : S → S} (hf : SafeP ok P f) (hg : SafeP ok Q g) :
    SafeP ok (P ∧ Q) (fun s => g (f s)) := fun s => R_trans (hf s) (hg (f s))

theorem safe_comp {ok : Call → Bool} {f g : S → S} (hf : Safe ok f) (hg : Safe ok g) :
    Safe ok (fun s => g (f s)) := fun s => R_mono (R_trans (hf s) (hg (f s))) (fun _ => trivial)

theorem safeP_of {ok : Call → Bool} {P : Prop} {f : S → S} (p : P) (hf : Safe ok f) : SafeP ok P f :=
  fun s => R_mono (hf s) (fun _ => p)

theorem safeP_weaken {ok : Call → Bool} {P Q : Prop} {f : S → S} (hf : SafeP ok P f) (pq : P → Q) : SafeP ok Q f :=
  fun s => R_mono (hf s) pq

theorem safeP_of_dirty {ok : Call → Bool} {P : Prop} {f : S → S} (h : Dirty f) : SafeP ok P f :=
  fun s => R_of_dirty (h s)

/-- after a dirty step a safe continuation stays dirty -/
theorem dirty_then {ok : Call → Bool} {f g : S → S} (hf : Dirty f) (hg : Safe ok g) : Dirty (fun s => g (f s)) := by
  intro s hc
  exact hf s (hg (f s) hc).1

theorem dirty_after {f g : S → S} (hg : Dirty g) : Dirty (fun s => g (f s)) := fun s => hg (f s)

theorem safe_foldl {ok : Call → Bool} {α : Type} (f : α → S → S) (h : ∀ a, Safe ok (f a)) (l : List α) :
    Safe ok (fun s => l.foldl (fun s a => f a s) s) := by
  induction l with
  | nil => exact safe_id ok
  | cons a l ih =>
    intro s
    simp only [List.foldl_cons]
    exact R_mono (R_trans (h a s) (ih (f a s))) (fun _ => trivial)

theorem safe_out (ok : Call → Bool) (l : String) : Safe ok (out l) := by
  intro s h; simp at h; exact ⟨h, trivial, fun c hc => Or.inl (by simpa using hc)⟩
theorem safe_outs (ok : Call → Bool) (ls : List String) : Safe ok (outs ls) := by
  intro s h; simp at h; exact ⟨h, trivial, fun c hc => Or.inl (by simpa using hc)⟩
theorem dirty_raise (e : Exc) : Dirty (raise e) := fun s h => by simp at h
theorem dirty_setExit {n : Int} (h : n ≠ 0) : Dirty (setExit n) := fun s hc => (clean_setExit h s).1 hc
theorem safe_of_dirty_calls (ok : Call → Bool) {f : S → S} (h : Dirty f) : Safe ok f := safeP_of_dirty h

/-- `Step ok P c k`: continuation `k` of a call `c` -/
def Step (ok : Call → Bool) (P : Prop) (c : Call) (k : S → S) : Prop :=
  SafeP ok P k ∧ (ok c = false → Dirty k)

theorem safeP_rpc {ok : Call → Bool} {P : Prop} {m : String} {a : List String}
    {kOk : Val → S → S} {kFault : Int → String → S → S} {kSock : Int → S → S}
    (h1 : ∀ v, Step ok P ⟨m, a, .ok v⟩ (kOk v))
    (h2 : ∀ c t, Step ok P ⟨m, a, .fault c t⟩ (kFault c t))
    (h3 : ∀ e, Step ok P ⟨m, a, .sock e⟩ (kSock e)) :
    SafeP ok P (rpc m a kOk kFault kSock) := by
  intro s
  unfold rpc guard
  split
  · rename_i he
    apply R_of_dirty
    intro hc; unfold Clean at hc; simp_all
  · have key : ∀ (ans : Ans) (rest : List Ans) (k : S → S), Step ok P ⟨m, a, ans⟩ k →
        R ok P s (k ({ s with p := { s.p with script := rest, calls := s.p.calls ++ [⟨m, a, ans⟩] } } : S)) := by
      intro ans rest k hk
      generalize hs1 : ({ s with p := { s.p with script := rest, calls := s.p.calls ++ [⟨m, a, ans⟩] } } : S) = s1
      have hclean : Clean s1 ↔ Clean s := by subst hs1; unfold Clean; simp
      have hcalls : s1.p.calls = s.p.calls ++ [⟨m, a, ans⟩] := by subst hs1; rfl
      intro hc
      obtain ⟨c1, p, kc⟩ := hk.1 s1 hc
      refine ⟨hclean.1 c1, p, fun c hcm => ?_⟩
      rcases kc c hcm with h | h
      · rw [hcalls] at h
        rcases List.mem_append.1 h with h | h
        · exact Or.inl h
        · have : c = ⟨m, a, ans⟩ := by simpa using h
          subst this
          cases hok : ok ⟨m, a, ans⟩ with
          | true => exact Or.inr rfl
          | false => exact absurd hc (hk.2 hok s1)
      · exact Or.inr h
    dsimp only
    split
    · apply R_of_dirty; simp
    · rename_i ans rest _
      cases ans with
      | ok v => exact key _ _ _ (h1 v)
      | fault c t => exact key _ _ _ (h2 c t)
      | proto c => exact R_of_dirty (by simp)
      | sock e => exact key _ _ _ (h3 e)

/-! ### generated definitions as a simp set -/
attribute [ctl_gen] K onCode onErrno onPid onState onIgn onArg onApi onNames onArgs onPname onMatch
  dflt_a0 do_add_a1 do_add_a3 do_add_a4 do_add_a5 do_add_g0 do_add_g1 do_add_g2
  do_add_g3 do_avail_a0 do_avail_a3 do_avail_g0 do_avail_g1 do_clear_a1 do_clear_g1 do_clear_g2
  do_maintail_a1 do_maintail_a12 do_maintail_a6 do_maintail_a8 do_maintail_a9 do_maintail_g1 do_maintail_g2 do_maintail_g5
  do_maintail_g6 do_pid_a4 do_pid_a6 do_pid_g1 do_pid_g2 do_pid_g3 do_pid_g4 do_pid_g5 do_reload_a0
  do_reload_a5 do_reload_g0 do_reload_g3 do_remove_a1 do_remove_a3 do_remove_g0 do_remove_g1 do_remove_g2 do_remove_g3
  do_reread_a0 do_reread_a3 do_reread_g0 do_reread_g1 do_reread_g2 do_restart_a1 do_restart_g1 do_shutdown_a0
  do_shutdown_a5 do_shutdown_a6 do_shutdown_g0 do_shutdown_g3 do_shutdown_g4 do_shutdown_g5 do_signal_a1 do_signal_a11
  do_signal_a9 do_signal_g1 do_signal_g2 do_signal_g3 do_signal_g4 do_signal_g5 do_start_a10 do_start_a2
  do_start_a7 do_start_a9 do_start_c0_1 do_start_c1_1 do_start_c2_1 do_start_g1 do_start_g2 do_start_g3
  do_start_g4 do_start_g5 do_status_a0 do_status_a13 do_status_a14 do_status_a8 do_status_g1 do_status_g2
  do_status_g5 do_status_g6 do_stop_a2 do_stop_a6 do_stop_c0_1 do_stop_c1_1 do_stop_c2_1 do_stop_g1
  do_stop_g2 do_stop_g3 do_stop_g4 do_stop_g5 do_tail_a1 do_tail_a10 do_tail_a11 do_tail_a15
  do_tail_a2 do_tail_a20 do_tail_a9 do_tail_g1 do_tail_g11 do_tail_g12 do_tail_g13 do_tail_g2
  do_tail_g4 do_tail_g5 do_update_a11 do_update_a2 do_update_a7 do_update_a9 do_update_g0 do_version_a0
  do_version_g0 onecmd_a14 onecmd_a15 onecmd_a18 onecmd_g4 setexit_a0 setexit_a1 setexit_g0
  setexit_g1 taillistener_a0 upcheck_a11 upcheck_a2 upcheck_a4 upcheck_a6 upcheck_a7 upcheck_a9
  upcheck_g0 upcheck_g1 upcheck_g2 upcheck_g3
attribute [ctl_gen] Faults_UNKNOWN_METHOD Faults_INCORRECT_PARAMETERS Faults_BAD_ARGUMENTS Faults_SIGNATURE_UNSUPPORTED
  Faults_SHUTDOWN_STATE Faults_BAD_NAME Faults_BAD_SIGNAL Faults_NO_FILE Faults_NOT_EXECUTABLE Faults_FAILED
  Faults_ABNORMAL_TERMINATION Faults_SPAWN_ERROR Faults_ALREADY_STARTED Faults_NOT_RUNNING Faults_SUCCESS
  Faults_ALREADY_ADDED Faults_STILL_RUNNING Faults_CANT_REREAD DEAD_PROGRAM_FAULTS STOPPED_STATES
  LSBInit_SUCCESS LSBInit_GENERIC LSBInit_INVALID_ARGS LSBInit_UNIMPLEMENTED_FEATURE LSBInit_INSUFFICIENT_PRIVILEGES
  LSBInit_NOT_INSTALLED LSBInit_NOT_RUNNING LSBStatus_NOT_RUNNING LSBStatus_UNKNOWN ECONNREFUSED ENOENT updateStopOk

/-- every exit status the model assigns is one of the generated constants; all of them are non-zero -/
macro "nz" : tactic => `(tactic| (simp only [ctl_gen]; decide))

theorem keep {ok : Call → Bool} {s : S} (h : Clean s) :
    Clean s ∧ True ∧ ∀ c ∈ s.p.calls, c ∈ s.p.calls ∨ ok c = true := ⟨h, trivial, fun _ hc => Or.inl hc⟩

theorem dirty_badScript : Dirty badScript := fun s h => by simp at h

theorem step_unit {ok : Call → Bool} {m : String} {a : List String} {k : S → S} (hk : Safe ok k)
    (h : ok ⟨m, a, .ok .unit⟩ = true) : ∀ v, Step ok True ⟨m, a, .ok v⟩ (expectUnit k v) := by
  intro v
  cases v <;> first
    | exact ⟨hk, fun hf => by simp_all⟩
    | exact ⟨safeP_of_dirty (fun s => by simp [expectUnit]), fun _ s => by simp [expectUnit]⟩

/-- a continuation that always raises -/
theorem step_dirty {ok : Call → Bool} {P : Prop} {c : Call} {k : S → S} (h : Dirty k) : Step ok P c k :=
  ⟨safeP_of_dirty h, fun _ => h⟩
theorem step_raiseFault {ok : Call → Bool} {P : Prop} {c : Call} (code : Int) (t : String) :
    Step ok P c (raiseFault code t) := step_dirty (fun s => by simp)
theorem step_raiseSock {ok : Call → Bool} {P : Prop} {c : Call} (e : Int) :
    Step ok P c (raiseSock e) := step_dirty (fun s => by simp)

/-! ### set_exitstatus_from_xmlrpc_fault, result loops -/
theorem safe_setExitFromFault (ok : Call → Bool) (code : Int) (ign : Option Int) : Safe ok (setExitFromFault code ign) := by
  intro s hc
  unfold setExitFromFault guard at hc ⊢
  revert hc
  repeat' split
  all_goals simp (disch := nz) [clean_setExit]
  all_goals exact fun h => ⟨h, fun _ hc => Or.inl hc⟩

theorem dirty_setExitFromFault {code : Int} {ign : Option Int} (h : onIgn setexit_g0 code ign = false) :
    Dirty (setExitFromFault code ign) := by
  intro s hc
  unfold setExitFromFault guard at hc
  revert hc
  repeat' split
  all_goals simp (disch := nz) [clean_setExit]
  all_goals (unfold Clean; cases he : s.err <;> simp_all)

theorem safe_printOne (ok : Call → Bool) (line : LineFn) (ign : Option Int) (g : String) (n : Option String)
    (st : Int) (d : String) : Safe ok (printOne line ign g n st d) := by
  unfold printOne
  split
  · exact safeP_of_dirty (dirty_raise _)
  · exact safe_comp (safe_out ok _) (safe_setExitFromFault ok st ign)

theorem dirty_printOne {line : LineFn} {ign : Option Int} {g : String} {n : Option String} {st : Int} {d : String}
    (h : onIgn setexit_g0 st ign = false) : Dirty (printOne line ign g n st d) := by
  unfold printOne
  split
  · exact dirty_raise _
  · exact dirty_after (dirty_setExitFromFault h)

theorem safe_printResults (ok : Call → Bool) (line : LineFn) (ign : Option Int) (rs : List Res) :
    Safe ok (printResults line ign rs) := by
  induction rs with
  | nil => exact safe_id ok
  | cons r rs ih =>
    show Safe ok (fun s => printResults line ign rs (printOne line ign r.group (some r.name) r.status r.desc s))
    exact safe_comp (safe_printOne ok line ign r.group (some r.name) r.status r.desc) ih

theorem dirty_printResults (ok : Call → Bool) {line : LineFn} {ign : Option Int} {rs : List Res}
    (h : ∃ r ∈ rs, onIgn setexit_g0 r.status ign = false) : Dirty (printResults line ign rs) := by
  induction rs with
  | nil => obtain ⟨r, hr, _⟩ := h; cases hr
  | cons r rs ih =>
    obtain ⟨x, hx, hbad⟩ := h
    show Dirty (fun s => printResults line ign rs (printOne line ign r.group (some r.name) r.status r.desc s))
    rcases List.mem_cons.1 hx with rfl | hx
    · exact dirty_then (ok := ok) (dirty_printOne hbad) (safe_printResults ok line ign rs)
    · exact dirty_after (ih ⟨x, hx, hbad⟩)

theorem step_results {ok : Call → Bool} {m : String} {a : List String} {line : LineFn} {ign : Option Int}
    (h : ∀ rs, ok ⟨m, a, .ok (.results rs)⟩ = false → ∃ r ∈ rs, onIgn setexit_g0 r.status ign = false) :
    ∀ v, Step ok True ⟨m, a, .ok v⟩ (expectResults (printResults line ign) v) := by
  intro v
  cases v <;> first
    | exact ⟨safe_printResults ok line ign _, fun hf => dirty_printResults ok (h _ hf)⟩
    | exact ⟨safeP_of_dirty (fun s => by simp [expectResults]), fun _ s => by simp [expectResults]⟩

/-! ### upcheck, onecmd -/
theorem safeP_upcheck {ok : Call → Bool} {P : Prop} {onUp onDown : S → S}
    (hv : ok ⟨"getVersion", [], .ok (.str API_VERSION)⟩ = true)
    (hup : SafeP ok P onUp) (hdown : Safe ok onDown) : SafeP ok P (upcheck onUp onDown) := by
  unfold upcheck
  apply safeP_rpc
  · intro v
    cases v <;> first | exact step_dirty dirty_badScript | skip
    rename_i api
    dsimp only
    split
    · exact step_dirty (dirty_then (ok := ok) (dirty_after (dirty_setExit (by nz))) hdown)
    · rename_i hne
      have : api = API_VERSION := by simpa [ctl_gen] using hne
      subst this
      exact ⟨hup, fun hf => by simp_all⟩
  · intro c t
    split
    · exact step_dirty (dirty_then (ok := ok) (dirty_after (dirty_setExit (by nz))) hdown)
    · exact step_dirty (dirty_after (fun s => by simp))
  · intro e
    split
    · exact step_dirty (dirty_then (ok := ok) (dirty_after (dirty_setExit (by nz))) hdown)
    · split
      · exact step_dirty (dirty_then (ok := ok) (dirty_after (dirty_setExit (by nz))) hdown)
      · exact step_dirty (dirty_after (fun s => by simp))

theorem clean_net (s : S) (h : Clean (net s)) : Clean s := by
  unfold net at h
  split at h
  · exact h
  · split at h
    · exact h
    · exfalso; revert h; simp (disch := nz) [clean_setExit]

theorem calls_net (s : S) : (net s).p.calls = s.p.calls := by
  unfold net
  split
  · rfl
  · split
    · rfl
    · simp

theorem safeP_protect {ok : Call → Bool} {P : Prop} {f : S → S} (hf : SafeP ok P f) : SafeP ok P (protect f) := by
  intro s hc
  unfold protect at hc ⊢
  dsimp only at hc ⊢
  split at hc
  · split at hc
    · exfalso
      have h1 := clean_net _ hc
      have h2 := (hf _ h1).1
      revert h2; simp (disch := nz) [clean_setExit]
    · exfalso
      have h1 := clean_net _ hc
      revert h1; simp
  · have h1 := clean_net _ hc
    obtain ⟨a, b, c⟩ := hf s h1
    refine ⟨a, b, ?_⟩
    intro c' hc'
    rw [calls_net] at hc'
    exact c c' hc'

/-! ### forward logic: when every recorded call succeeded, the exit status stays 0
  `Fine s` : exit status 0 and no pending Python exception (a harness error may be pending).
  `Fwd succ f` : `f` only adds calls, and from a fine state it ends fine provided every call recorded at the
  end satisfies `succ`. -/
def Fine (s : S) : Prop := s.p.exit = 0 ∧ (s.err = none ∨ isHarnessErr s.err = true)
def Grow (f : S → S) : Prop := ∀ s c, c ∈ s.p.calls → c ∈ (f s).p.calls
def FwdC (succ : Call → Bool) (f : S → S) : Prop :=
  ∀ s, Fine s → (∀ c ∈ (f s).p.calls, succ c = true) → Fine (f s)
def Fwd (succ : Call → Bool) (f : S → S) : Prop := Grow f ∧ FwdC succ f

theorem grow_id : Grow id := fun _ _ h => h
theorem grow_comp {f g : S → S} (hf : Grow f) (hg : Grow g) : Grow (fun s => g (f s)) :=
  fun s c h => hg _ c (hf s c h)
theorem grow_of_calls_eq {f : S → S} (h : ∀ s, (f s).p.calls = s.p.calls) : Grow f :=
  fun s c hc => by rw [h]; exact hc
theorem grow_out (l : String) : Grow (out l) := grow_of_calls_eq (calls_out l)
theorem grow_outs (ls : List String) : Grow (outs ls) := grow_of_calls_eq (calls_outs ls)
theorem grow_setExit (n : Int) : Grow (setExit n) := grow_of_calls_eq (calls_setExit n)
theorem grow_raise (e : Exc) : Grow (raise e) := grow_of_calls_eq (calls_raise e)
theorem grow_foldl {α : Type} (f : α → S → S) (h : ∀ a, Grow (f a)) (l : List α) :
    Grow (fun s => l.foldl (fun s a => f a s) s) := by
  induction l with
  | nil => exact grow_id
  | cons a l ih => intro s c hc; simp only [List.foldl_cons]; exact ih _ c (h a s c hc)

theorem fwd_id (succ : Call → Bool) : Fwd succ id := ⟨grow_id, fun _ h _ => h⟩

theorem fwd_comp {succ : Call → Bool} {f g : S → S} (hf : Fwd succ f) (hg : Fwd succ g) :
    Fwd succ (fun s => g (f s)) := by
  refine ⟨grow_comp hf.1 hg.1, fun s hs H => ?_⟩
  have h1 : Fine (f s) := hf.2 s hs (fun c hc => H c (hg.1 _ c hc))
  exact hg.2 _ h1 H

theorem fwd_foldl {succ : Call → Bool} {α : Type} (f : α → S → S) (l : List α) (h : ∀ a ∈ l, Fwd succ (f a)) :
    Fwd succ (fun s => l.foldl (fun s a => f a s) s) := by
  induction l with
  | nil => exact fwd_id succ
  | cons a l ih =>
    have h1 := h a List.mem_cons_self
    have h2 := ih (fun x hx => h x (List.mem_cons_of_mem _ hx))
    simp only [List.foldl_cons]
    exact fwd_comp h1 h2

theorem fine_out (l : String) (s : S) : Fine (out l s) ↔ Fine s := by
  unfold out emit guard Fine; split <;> simp_all
theorem fine_outs (ls : List String) (s : S) : Fine (outs ls s) ↔ Fine s := by
  unfold outs
  induction ls generalizing s with
  | nil => simp
  | cons l ls ih => simp [List.foldl_cons, ih, fine_out]
theorem fwd_out (succ : Call → Bool) (l : String) : Fwd succ (out l) :=
  ⟨grow_out l, fun s h _ => (fine_out l s).2 h⟩
theorem fwd_outs (succ : Call → Bool) (ls : List String) : Fwd succ (outs ls) :=
  ⟨grow_outs ls, fun s h _ => (fine_outs ls s).2 h⟩
theorem fine_badScript (s : S) (h : Fine s) : Fine (badScript s) := by
  unfold badScript raise guard; unfold Fine at *
  split
  · exact h
  · simp [h.1, isHarnessErr]
theorem fwd_badScript (succ : Call → Bool) : Fwd succ badScript :=
  ⟨grow_raise _, fun s h _ => fine_badScript s h⟩

/-- a branch that cannot be taken when every call succeeded -/
theorem fwdC_of_false {succ : Call → Bool} {f : S → S} (h : ∀ s, ¬ (∀ c ∈ (f s).p.calls, succ c = true)) : FwdC succ f :=
  fun s _ H => absurd H (h s)

theorem fwd_rpc {succ : Call → Bool} {m : String} {a : List String}
    {kOk : Val → S → S} {kFault : Int → String → S → S} {kSock : Int → S → S}
    (g1 : ∀ v, Grow (kOk v)) (g2 : ∀ c t, Grow (kFault c t)) (g3 : ∀ e, Grow (kSock e))
    (hp : ∀ c, succ ⟨m, a, .proto c⟩ = false)
    (h1 : ∀ v, succ ⟨m, a, .ok v⟩ = true → FwdC succ (kOk v))
    (h2 : ∀ c t, succ ⟨m, a, .fault c t⟩ = true → FwdC succ (kFault c t))
    (h3 : ∀ e, succ ⟨m, a, .sock e⟩ = true → FwdC succ (kSock e)) :
    Fwd succ (rpc m a kOk kFault kSock) := by
  have step : ∀ (s : S) (ans : Ans) (rest : List Ans),
      let s1 : S := { s with p := { s.p with script := rest, calls := s.p.calls ++ [⟨m, a, ans⟩] } }
      (∀ c, c ∈ s.p.calls → c ∈ s1.p.calls) ∧ (⟨m, a, ans⟩ : Call) ∈ s1.p.calls ∧ (Fine s → Fine s1) := by
    intro s ans rest
    refine ⟨fun c hc => by simp [hc], by simp, fun h => ?_⟩
    unfold Fine at *; exact h
  constructor
  · intro s c hc
    unfold rpc guard
    split
    · exact hc
    · dsimp only
      split
      · simpa using hc
      · rename_i ans rest _
        have hs := (step s ans rest).1 c hc
        cases ans with
        | ok v => exact g1 v _ c hs
        | fault code t => exact g2 code t _ c hs
        | proto code => simpa using hs
        | sock e => exact g3 e _ c hs
  · intro s hs H
    unfold rpc guard at H ⊢
    split
    · exact hs
    · rename_i hne
      rw [if_neg hne] at H
      dsimp only at H ⊢
      split
      · exact fine_badScript s hs
      · rename_i ans rest heq
        rw [heq] at H
        dsimp only at H
        obtain ⟨_, hmem, hfine⟩ := step s ans rest
        cases ans with
        | ok v =>
          dsimp only at H ⊢
          exact h1 v (H _ (g1 v _ _ hmem)) _ (hfine hs) H
        | fault code t =>
          dsimp only at H ⊢
          exact h2 code t (H _ (g2 code t _ _ hmem)) _ (hfine hs) H
        | proto code =>
          dsimp only at H ⊢
          exfalso
          have := H ⟨m, a, .proto code⟩ (by simpa using hmem)
          rw [hp code] at this; cases this
        | sock e =>
          dsimp only at H ⊢
          exact h3 e (H _ (g3 e _ _ hmem)) _ (hfine hs) H

theorem calls_setExitFromFault (code : Int) (ign : Option Int) (s : S) :
    (setExitFromFault code ign s).p.calls = s.p.calls := by
  unfold setExitFromFault guard; repeat' split
  all_goals simp

theorem grow_printOne (line : LineFn) (ign : Option Int) (g : String) (n : Option String) (st : Int) (d : String) :
    Grow (printOne line ign g n st d) := by
  unfold printOne
  split
  · exact grow_raise _
  · exact grow_comp (grow_out _) (grow_of_calls_eq (calls_setExitFromFault st ign))

theorem grow_printResults (line : LineFn) (ign : Option Int) (rs : List Res) : Grow (printResults line ign rs) := by
  induction rs with
  | nil => exact grow_id
  | cons r rs ih =>
    show Grow (fun s => printResults line ign rs (printOne line ign r.group (some r.name) r.status r.desc s))
    exact grow_comp (grow_printOne _ _ _ _ _ _) ih

theorem fine_setExitFromFault {code : Int} {ign : Option Int} (h : onIgn setexit_g0 code ign = true) (s : S) :
    Fine (setExitFromFault code ign s) ↔ Fine s := by
  unfold setExitFromFault guard
  split
  · rfl
  · simp [h]

/-- printing one result whose status has a wording and is SUCCESS or the tolerated code keeps a fine state fine -/
theorem fwd_printOne (succ : Call → Bool) {line : LineFn} {ign : Option Int} {g : String} {n : Option String}
    {st : Int} {d : String} (hl : (line g n st d).isSome) (hs : onIgn setexit_g0 st ign = true) :
    Fwd succ (printOne line ign g n st d) := by
  refine ⟨grow_printOne _ _ _ _ _ _, fun s h _ => ?_⟩
  obtain ⟨l, hl⟩ := Option.isSome_iff_exists.1 hl
  unfold printOne
  rw [hl]
  exact (fine_setExitFromFault hs _).2 ((fine_out l s).2 h)

theorem fwd_printResults (succ : Call → Bool) {line : LineFn} {ign : Option Int} {rs : List Res}
    (h : ∀ r ∈ rs, (line r.group (some r.name) r.status r.desc).isSome ∧ onIgn setexit_g0 r.status ign = true) :
    Fwd succ (printResults line ign rs) := by
  induction rs with
  | nil => exact fwd_id succ
  | cons r rs ih =>
    show Fwd succ (fun s => printResults line ign rs (printOne line ign r.group (some r.name) r.status r.desc s))
    exact fwd_comp (fwd_printOne succ (h r List.mem_cons_self).1 (h r List.mem_cons_self).2)
      (ih (fun x hx => h x (List.mem_cons_of_mem _ hx)))

theorem fine_net (s : S) (h : Fine s) : net s = s := by
  unfold net
  split
  · rfl
  · rename_i e he
    have : isHarnessErr (some e) = true := by
      rcases h.2 with h2 | h2
      · rw [he] at h2; cases h2
      · rw [he] at h2; exact h2
    rw [if_pos this]

theorem grow_net : Grow net := grow_of_calls_eq calls_net

theorem fwd_protect {succ : Call → Bool} {f : S → S} (hf : Fwd succ f) : Fwd succ (protect f) := by
  have hg : Grow (protect f) := by
    intro s c hc
    unfold protect; dsimp only
    split
    · split
      · exact grow_net _ c (hf.1 _ c (by simpa using hf.1 s c hc))
      · exact grow_net _ c (by simpa using hf.1 s c hc)
    · exact grow_net _ c (hf.1 s c hc)
  refine ⟨hg, fun s hs H => ?_⟩
  -- every call of `f s` is still recorded at the end
  have hsub : ∀ c ∈ (f s).p.calls, c ∈ (protect f s).p.calls := by
    intro c hc
    unfold protect; dsimp only
    split
    · split
      · exact grow_net _ c (hf.1 _ c (by simpa using hc))
      · exact grow_net _ c (by simpa using hc)
    · exact grow_net _ c hc
  have h1 : Fine (f s) := hf.2 s hs (fun c hc => H c (hsub c hc))
  have hnp : ∀ c, (f s).err ≠ some (Exc.proto c) := by
    intro c he
    rcases h1.2 with h2 | h2
    · rw [he] at h2; cases h2
    · rw [he] at h2; simp [isHarnessErr] at h2
  unfold protect; dsimp only
  split
  · rename_i c he; exact absurd he (hnp c)
  · rw [fine_net _ h1]; exact h1

end Sv.Ctl
