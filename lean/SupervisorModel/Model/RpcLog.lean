import SupervisorModel.Model.LogRead
import SupervisorModel.Generated.Rpc
/-
  The XML-RPC layer around readFile/tailFile (supervisor/rpcinterface.py): readLog,
  _readProcessLog (readProcessStdoutLog/StderrLog), _tailProcessLog (tailProcess*Log).

  * the `_update` gate is the generated guard `update_g0`; the fault it raises is `updateRaises`
  * fault codes are looked up in the generated `faults` table -- `getattr(Faults, why)` with the
    texts options.readFile raises (`readFileBadArgs`, `readFileFailed`) is a lookup that can fail
    (AttributeError → HTTP 500), so "never an exception" is a theorem about the tables
  * text conversion: decoding is a parameter (`Decoders`); which of the two decoders the code uses
    is the generated flag (`readDecodeTolerant`, `tailDecodeTolerant`; fix F7).  The driver
    instantiates `lossy` with `utf8Replace` (CPython's errors='replace' policy).
-/
namespace Sv.RpcLog
open Sv.LogRead Sv.Gen.Rpc

/-- what reaches the XML-RPC client -/
inductive Ans (α : Type)
  | ok (v : α)
  | fault (code : Int)          -- RPCError → xmlrpclib.Fault
  | exc (what : String)         -- any other exception → HTTP 500
deriving DecidableEq, Repr

/-- the configured log file: `None`, a path that does not exist, or an existing file -/
inductive LogFile
  | unset
  | missing
  | present (f : Bytes)
deriving DecidableEq, Repr

def faultCode (name : String) : Option Int := faults.lookup name

/-- `raise RPCError(Faults.<name>)` and `raise RPCError(getattr(Faults, name))` -/
def raiseFault {α : Type} (name : String) : Ans α :=
  match faultCode name with
  | some c => .fault c
  | none => .exc "AttributeError"

/-- text conversion of a byte window; a Python `str` is represented by its UTF-8 encoding -/
structure Decoders where
  strict : Bytes → Option Bytes      -- `b.decode('utf-8')`; none = UnicodeDecodeError
  lossy : Bytes → Bytes              -- `b.decode('utf-8', 'replace')`

def decodeLog (dec : Decoders) (tolerant : Bool) (b : Bytes) : Ans Bytes :=
  if tolerant then .ok (dec.lossy b)
  else match dec.strict b with
    | some s => .ok s
    | none => .exc "UnicodeDecodeError"

/-- `self._update(...)`: none = passes, some a = raises -/
def update {α : Type} (mood : Int) : Option (Ans α) :=
  if update_g0 true mood then
    (match updateRaises with
     | [n] => some (raiseFault n)
     | _ => some (.exc "extraction"))
  else none

/-- `if logfile is None or not os.path.exists(logfile): raise NO_FILE`, readFile, fault mapping, decode -/
def readCore (dec : Decoders) (lf : LogFile) (offset length : Int) : Ans Bytes :=
  match lf with
  | .unset => raiseFault "NO_FILE"
  | .missing => raiseFault "NO_FILE"
  | .present f =>
    match readFile f offset length with
    | .ok d => decodeLog dec readDecodeTolerant d
    | .error .badArguments => raiseFault readFileBadArgs
    | .error .failed => raiseFault readFileFailed

def readLog (dec : Decoders) (mood : Int) (lf : LogFile) (offset length : Int) : Ans Bytes :=
  match update mood with
  | some a => a
  | none => readCore dec lf offset length

/-- readProcessStdoutLog / readProcessStderrLog; `found = false`: `_getGroupAndProcess` raises
    BAD_NAME or the name denotes a whole group -/
def readProcessLog (dec : Decoders) (mood : Int) (found : Bool) (lf : LogFile) (offset length : Int) : Ans Bytes :=
  match update mood with
  | some a => a
  | none => if !found then raiseFault "BAD_NAME" else readCore dec lf offset length

structure TailAns where
  data : Bytes
  offset : Int
  overflow : Bool
deriving DecidableEq, Repr

def tailProcessLog (dec : Decoders) (mood : Int) (found : Bool) (lf : LogFile) (offset length : Int) : Ans TailAns :=
  match update mood with
  | some a => a
  | none =>
    if !found then raiseFault "BAD_NAME" else
    match lf with
    | .unset => .ok ⟨[], 0, false⟩
    | .missing => .ok ⟨[], 0, false⟩
    | .present f =>
      let t := tailFile f offset length
      match decodeLog dec tailDecodeTolerant t.data with
      | .ok s => .ok ⟨s, t.offset, t.overflow⟩
      | .fault c => .fault c
      | .exc w => .exc w

/-! ### CPython's `bytes.decode('utf-8', 'replace')`, re-encoded: every maximal ill-formed
    subsequence becomes U+FFFD (EF BF BD) -/

def leadInfo (b : UInt8) : Option (Nat × UInt8 × UInt8) :=
  if 0xC2 ≤ b && b ≤ 0xDF then some (1, 0x80, 0xBF)
  else if b == 0xE0 then some (2, 0xA0, 0xBF)
  else if (0xE1 ≤ b && b ≤ 0xEC) || b == 0xEE || b == 0xEF then some (2, 0x80, 0xBF)
  else if b == 0xED then some (2, 0x80, 0x9F)
  else if b == 0xF0 then some (3, 0x90, 0xBF)
  else if 0xF1 ≤ b && b ≤ 0xF3 then some (3, 0x80, 0xBF)
  else if b == 0xF4 then some (3, 0x80, 0x8F)
  else none

def fffd : Bytes := [0xEF, 0xBF, 0xBD]

/-- up to `n` continuation bytes (the first within `[lo, hi]`), and the rest -/
def takeConts : Nat → UInt8 → UInt8 → Bytes → Bytes × Bytes
  | 0, _, _, l => ([], l)
  | _+1, _, _, [] => ([], [])
  | n+1, lo, hi, b :: r =>
    if lo ≤ b && b ≤ hi then ((b :: (takeConts n 0x80 0xBF r).1), (takeConts n 0x80 0xBF r).2)
    else ([], b :: r)

def decodeAux : Nat → Bytes → Bytes
  | 0, _ => []
  | _+1, [] => []
  | f+1, b :: r =>
    if b < 0x80 then b :: decodeAux f r
    else match leadInfo b with
      | none => fffd ++ decodeAux f r
      | some (n, lo, hi) =>
        let tc := takeConts n lo hi r
        if tc.1.length = n then (b :: tc.1) ++ decodeAux f tc.2 else fffd ++ decodeAux f tc.2

def utf8Replace (b : Bytes) : Bytes := decodeAux (b.length + 1) b

def utf8Strict (b : Bytes) : Option Bytes := if utf8Replace b = b then some b else none

def pyDecoders : Decoders := { strict := utf8Strict, lossy := utf8Replace }

/-! line protocol:  case rpclog mood=<int> log=<unset|missing|hex>
    ops: read <o> <l> | pread <found 0|1> <o> <l> | ptail <found> <o> <l> | utf8 <hex> -/
def showAns : Ans Bytes → String
  | .ok d => s!"ok {hexOfBytes d}"
  | .fault c => s!"fault {c}"
  | .exc w => s!"exc {w}"

def runCase (cfg : List String) (ops : List String) : List String :=
  let lf : Option LogFile := match kvGet cfg "log" with
    | some "unset" => some .unset
    | some "missing" => some .missing
    | some h => (bytesOfHex h).map .present
    | none => none
  match kvInt cfg "mood", lf with
  | some mood, some lf => ops.map fun l =>
    match words l with
    | ["read", o, n] =>
      match o.toInt?, n.toInt? with
      | some o, some n => showAns (readLog pyDecoders mood lf o n)
      | _, _ => "bad-op"
    | ["pread", fd, o, n] =>
      match kvBool ["f=" ++ fd] "f", o.toInt?, n.toInt? with
      | some fd, some o, some n => showAns (readProcessLog pyDecoders mood fd lf o n)
      | _, _, _ => "bad-op"
    | ["ptail", fd, o, n] =>
      match kvBool ["f=" ++ fd] "f", o.toInt?, n.toInt? with
      | some fd, some o, some n =>
        match tailProcessLog pyDecoders mood fd lf o n with
        | .ok t => s!"ok {hexOfBytes t.data} {t.offset} {if t.overflow then 1 else 0}"
        | .fault c => s!"fault {c}"
        | .exc w => s!"exc {w}"
      | _, _, _ => "bad-op"
    | ["utf8", h] =>
      match bytesOfHex h with
      | some b => s!"ok {hexOfBytes (utf8Replace b)}"
      | none => "bad-op"
    | _ => "bad-op"
  | _, _ => ops.map fun _ => "bad-config"

end Sv.RpcLog
