#!/bin/sh
# Builds the Lean library (all models, all property theorems, the audit command) and the model
# drivers from files on disk only.  No network, no `lake update`.
set -e
cd "$(dirname "$0")"
/venv/bin/python harness/extract.py > /dev/null
cd lean
lake build
