import SupervisorModel.Model.Rpc
import SupervisorModel.Lemmas.RpcText
import SupervisorModel.Props.C16
/-
  C12 — XML-RPC exposes only the public API; answers are results or documented faults.
  Property theorems only.  `Sv.Gen.Rpc.*` (Faults, the gate table, the raise tables, the
  docs/api.rst method lists, the guards of traverse and _update) is regenerated from /repo on
  every run.

    closure          traverse_closed, refused_executes_nothing, traverse_dichotomy   (every attribute table)
    arity            arity_fault, call_runs_body
    gating           gating (full; F39 fixed: gating_sendRemoteCommEvent), gating_table_ok
    fault codes      fault_codes_documented, faults_distinct
    multicall        multicall_sequential, multicall_recursion_refused, multicall_elements
    answers          never_500_partial, log_methods_answer (what IS proved of "never an HTTP 500")
    framing          immediate_content_length, deferred_content_length (F42, fixed)
    group creation   addProcessGroup_answers_partial (F48, F49 fixed: ValueError / OSError -> FAILED), addGroup_table_ok
    deferred waits   start_onwait_total, stop_onwait_total (decide over the generated state table), deferred_wait_completes,
                     deferred_wait_pending_only_while_moving, onwaitCb_completes, deferred_single_completes
    marshalling      answers_never_tuples (decide over the generated return-shape table), marshal_non_tuple, marshal_tuple
    connection       handover_facts, every_request_on_a_connection_is_dispatched, one_answer_per_request,
                     stale_request_if_reset_only_on_close (what the theorem rests on), raised_fault_is_answered_as_fault
    request delivery request_body_fragmentation_invariant, request_body_independent_of_cuts, request_body_roundtrip,
                     request_header_fragmentation_invariant (the answer cannot depend on how the socket cuts the request)
-/
set_option linter.unusedSimpArgs false
namespace Sv.Props.C12
open Sv Sv.Rpc Sv.Gen.Rpc

/-! ## names -/

def dotJoin : List Name → Name
  | [] => []
  | [a] => a
  | a :: b :: r => a ++ '.' :: dotJoin (b :: r)

theorem splitDot_ne_nil (s : Name) : splitDot s ≠ [] := by
  induction s with
  | nil => simp [splitDot]
  | cons c r ih =>
    simp only [splitDot]
    split
    · simp
    · split <;> simp

theorem splitDot_join (s : Name) : dotJoin (splitDot s) = s := by
  induction s with
  | nil => simp [splitDot, dotJoin]
  | cons c r ih =>
    simp only [splitDot]
    split
    · rename_i h
      cases hs : splitDot r with
      | nil => exact absurd hs (splitDot_ne_nil r)
      | cons a t => rw [hs] at ih; simp [dotJoin, ih, h]
    · cases hs : splitDot r with
      | nil => exact absurd hs (splitDot_ne_nil r)
      | cons a t =>
        rw [hs] at ih
        cases t with
        | nil => simp [dotJoin] at ih ⊢; exact ih
        | cons b t' => simp [dotJoin] at ih ⊢; exact ih

theorem splitDot_nodot (s : Name) : ∀ p ∈ splitDot s, '.' ∉ p := by
  induction s with
  | nil => simp [splitDot]
  | cons c r ih =>
    simp only [splitDot]
    split
    · intro p hp
      simp only [List.mem_cons] at hp
      rcases hp with rfl | hp
      · simp
      · exact ih p hp
    · rename_i hc
      cases hs : splitDot r with
      | nil => exact absurd hs (splitDot_ne_nil r)
      | cons a t =>
        rw [hs] at ih
        intro p hp
        simp only [List.mem_cons] at hp
        rcases hp with rfl | hp
        · have := ih a (by simp)
          simp only [List.mem_cons, not_or]
          exact ⟨fun h => hc h.symm, this⟩
        · exact ih p (by simp [hp])

/-- a two-part name is `ns.m` with no further dot -/
theorem splitDot_two (s ns m : Name) (h : splitDot s = [ns, m]) : s = ns ++ '.' :: m ∧ '.' ∉ ns ∧ '.' ∉ m := by
  refine ⟨?_, splitDot_nodot s ns (by simp [h]), splitDot_nodot s m (by simp [h])⟩
  have := splitDot_join s
  rw [h] at this
  simpa [dotJoin] using this.symm

/-! ## closure of traverse — for every attribute table -/

/-- what `traverse` resolves, stated outright -/
def resolveSpec {μ : Type} (tbl : Table μ) (name : Name) : Except String μ :=
  match splitDot name with
  | [ns, m] =>
    if m.head? = some '_' then .error "UNKNOWN_METHOD"
    else match tbl ns with
      | none => .error "UNKNOWN_METHOD"
      | some attrs => match attrs m with
        | .boundMethod f => .ok f
        | _ => .error "UNKNOWN_METHOD"
  | _ => .error "UNKNOWN_METHOD"

theorem resolve_eq {μ : Type} (tbl : Table μ) (name : Name) : resolve tbl name = resolveSpec tbl name := by
  unfold resolve resolveSpec
  simp only [traverse_g0, traverse_g1, traverse_g2, traverse_g3, nthFault, traverseRaises]
  rcases hs : splitDot name with _ | ⟨a, _ | ⟨b, _ | ⟨c, r⟩⟩⟩
  · simp
  · simp
  · simp only [List.length_cons, List.length_nil]
    by_cases hu : b.head? = some '_'
    · simp [hu]
    · simp only [hu, if_false]
      have : (b.head? == some '_') = false := by simpa using hu
      simp only [this]
      cases tbl a with
      | none => simp
      | some attrs =>
        simp only [Bool.not_true, Bool.false_eq_true, if_false, Bool.not_false, if_true]
        generalize attrs b = k
        cases k <;> rfl
  · simp
    omega

/-- **traverse_closed.**  Whatever objects hang off the root: if `traverse` resolves a name to
    something it will call, the name is exactly `ns.m`, no further dot, `m` does not begin with an
    underscore, `ns` is an attribute of the root that is not None, and `m` is a bound method of it. -/
theorem traverse_closed {μ : Type} (tbl : Table μ) (name : Name) (f : μ) (h : resolve tbl name = .ok f) :
    ∃ ns m attrs, name = ns ++ '.' :: m ∧ '.' ∉ ns ∧ '.' ∉ m ∧ m.head? ≠ some '_' ∧
      tbl ns = some attrs ∧ attrs m = .boundMethod f := by
  rw [resolve_eq] at h
  unfold resolveSpec at h
  split at h
  · rename_i ns m hp
    split at h
    · cases h
    · rename_i hu
      split at h
      · cases h
      · rename_i attrs ha
        split at h
        · rename_i g hg
          cases h
          obtain ⟨h1, h2, h3⟩ := splitDot_two name ns m hp
          exact ⟨ns, m, attrs, h1, h2, h3, hu, ha, hg⟩
        · cases h
  · cases h

/-- every other name is answered UNKNOWN_METHOD by the resolution step -/
theorem traverse_dichotomy {μ : Type} (tbl : Table μ) (name : Name) :
    (∃ f, resolve tbl name = .ok f) ∨ resolve tbl name = .error "UNKNOWN_METHOD" := by
  rw [resolve_eq]
  unfold resolveSpec
  repeat' split
  all_goals first
    | (right; rfl)
    | (left; exact ⟨_, rfl⟩)

/-- the classes of names the statement lists are all refused: not exactly two dotted parts (none,
    one, three or more — every dotted chain, every empty part), a method part beginning with an
    underscore (dunder names included), a namespace that is not an attribute of the root, an
    attribute that is not a bound method -/
theorem refused_classes {μ : Type} (tbl : Table μ) (name : Name)
    (h : (splitDot name).length ≠ 2 ∨
         ∃ ns m, splitDot name = [ns, m] ∧
           (m.head? = some '_' ∨ tbl ns = none ∨ ∃ attrs, tbl ns = some attrs ∧ ∀ f, attrs m ≠ .boundMethod f)) :
    resolve tbl name = .error "UNKNOWN_METHOD" := by
  rw [resolve_eq]
  unfold resolveSpec
  rcases h with h | ⟨ns, m, hs, h⟩
  · split
    · rename_i hp; rw [hp] at h; simp at h
    · rfl
  · rw [hs]
    rcases h with h | h | ⟨attrs, ha, h⟩
    · simp [h]
    · simp only [h]; split <;> rfl
    · simp only [ha]
      split
      · rfl
      · generalize attrs m = k at h
        cases k with
        | boundMethod f => exact absurd rfl (h f)
        | other => rfl
        | absent => rfl

/-- **refused_executes_nothing.**  A refused name is answered with the UNKNOWN_METHOD fault and the
    state (including everything method bodies could have logged) is untouched — no body ran. -/
theorem refused_executes_nothing {σ ν : Type} (tbl : Table (Method σ ν)) (name : Name) (args : List ν) (s : σ)
    (h : resolve tbl name = .error "UNKNOWN_METHOD") :
    ∃ c, faultCode "UNKNOWN_METHOD" = some c ∧ call tbl name args s = (.fault c, s) := by
  refine ⟨1, by decide, ?_⟩
  simp [call, h, raiseFault, faultCode, faults, List.lookup]

/-- **arity_fault.**  A resolved method called with too few or too many arguments answers
    INCORRECT_PARAMETERS and its body does not run. -/
theorem arity_fault {σ ν : Type} (tbl : Table (Method σ ν)) (name : Name) (m : Method σ ν) (args : List ν) (s : σ)
    (h : resolve tbl name = .ok m) (ha : args.length < m.minArgs ∨ m.maxArgs < args.length) :
    ∃ c, faultCode "INCORRECT_PARAMETERS" = some c ∧ call tbl name args s = (.fault c, s) := by
  refine ⟨2, by decide, ?_⟩
  have : (decide (args.length < m.minArgs) || decide (m.maxArgs < args.length)) = true := by
    rcases ha with ha | ha <;> simp [ha]
  simp [call, h, this, nthFault, traverseRaises, raiseFault, faultCode, faults, List.lookup]

/-- otherwise the body runs once and its outcome is the answer (a TypeError escaping from the body
    is reported as INCORRECT_PARAMETERS as well) -/
theorem call_runs_body {σ ν : Type} (tbl : Table (Method σ ν)) (name : Name) (m : Method σ ν) (args : List ν) (s : σ)
    (h : resolve tbl name = .ok m) (ha : m.minArgs ≤ args.length ∧ args.length ≤ m.maxArgs)
    (hne : ∀ s', m.run args s ≠ (.raised "TypeError", s')) :
    call tbl name args s = m.run args s := by
  have : (decide (args.length < m.minArgs) || decide (m.maxArgs < args.length)) = false := by
    simp; omega
  simp only [call, h, this, Bool.false_eq_true, if_false]
  split
  · rename_i w s' hr
    split
    · rename_i hw; subst hw; exact absurd hr (hne s')
    · exact hr.symm
  · rfl


/-! ## gating: while shutting down or restarting -/

theorem updateFault_eq {σ ν : Type} : ∃ c, faultCode "SHUTDOWN_STATE" = some c ∧ (updateFault : Outcome σ ν) = .fault c :=
  ⟨6, by decide, by simp [updateFault, updateRaises, raiseFault, faultCode, faults, List.lookup]⟩

theorem iterLeaf_gated {σ ν : Type} (g : Option Gate) (hg : isGated g = true) (mood : Int) (hm : mood < moodRunning)
    (body : σ → Outcome σ ν × σ) (n : Nat) (s : σ) : iterLeaf g mood body n s = s := by
  induction n generalizing s with
  | zero => rfl
  | succ n ih => simp [iterLeaf, runLeaf, hg, update_g0, hm, ih]

/-- a method whose table row is `gateOk` answers SHUTDOWN_STATE and leaves the state untouched when
    the mood is below RUNNING — whatever its body and its leaves' bodies are -/
theorem gated_answers_shutdown {σ ν : Type} (g : Gate) (hg : gateOk g = true) (mood : Int) (hm : mood < moodRunning)
    (nLeaf : Nat) (leafBody body : σ → Outcome σ ν × σ) (s : σ) :
    ∃ c, faultCode "SHUTDOWN_STATE" = some c ∧ runGated g mood nLeaf leafBody body s = (.fault c, s) := by
  obtain ⟨c, hc, hu⟩ := updateFault_eq (σ := σ) (ν := ν)
  refine ⟨c, hc, ?_⟩
  cases g with
  | first => simp [runGated, update_g0, hm, hu]
  | afterPure => simp [runGated, update_g0, hm, hu]
  | viaLeaf l =>
    simp only [gateOk] at hg
    simp [runGated, update_g0, hm, hu, iterLeaf_gated _ hg mood hm]
  | none => simp [gateOk] at hg

/-- the generated table: every method of docs/api.rst's "Process Control" section (process control
    and configuration: start/stop/signal*, sendProcessStdin, sendRemoteCommEvent, reloadConfig,
    add/removeProcessGroup, the info methods) is gated; so is every method of the "Status and
    Control" and "Process Logging" sections, and every public attribute of the class (aliases
    included).  No exception (F39, fixed in e65d15a: sendRemoteCommEvent used to have no gate). -/
theorem gating_table_ok :
    (∀ name ∈ docProcessControlMethods, ∃ g, gateTable.lookup name = some g ∧ gateOk g = true) ∧
    (∀ name ∈ docStatusMethods ++ docLoggingMethods, ∃ g, gateTable.lookup name = some g ∧ gateOk g = true) ∧
    (∀ row ∈ gateTable, gateOk row.2 = true) := by
  decide

/-- **gating.**  For every `name ∈ docProcessControlMethods` (the process-control and configuration
    methods), whatever the method's body and its leaves' bodies do: mood below RUNNING ⇒ the answer
    is SHUTDOWN_STATE and nothing changes.  Full statement, no excluded method (until e65d15a it
    failed for `sendRemoteCommEvent`, finding F39; its input stays in the regression corpus). -/
theorem gating {σ ν : Type} (name : String) (hn : name ∈ docProcessControlMethods)
    (mood : Int) (hm : mood < moodRunning)
    (nLeaf : Nat) (leafBody body : σ → Outcome σ ν × σ) (s : σ) :
    ∃ g c, gateTable.lookup name = some g ∧ faultCode "SHUTDOWN_STATE" = some c ∧
      runGated g mood nLeaf leafBody body s = (.fault c, s) := by
  obtain ⟨g, hl, hg⟩ := gating_table_ok.1 name hn
  obtain ⟨c, hc, hr⟩ := gated_answers_shutdown g hg mood hm nLeaf leafBody body s
  exact ⟨g, c, hl, hc, hr⟩

/-- the methods of the other two documented sections are gated without exception -/
theorem gating_status_logging {σ ν : Type} (name : String) (hn : name ∈ docStatusMethods ++ docLoggingMethods)
    (mood : Int) (hm : mood < moodRunning) (nLeaf : Nat) (leafBody body : σ → Outcome σ ν × σ) (s : σ) :
    ∃ g c, gateTable.lookup name = some g ∧ faultCode "SHUTDOWN_STATE" = some c ∧
      runGated g mood nLeaf leafBody body s = (.fault c, s) := by
  obtain ⟨g, hl, hg⟩ := gating_table_ok.2.1 name hn
  obtain ⟨c, hc, hr⟩ := gated_answers_shutdown g hg mood hm nLeaf leafBody body s
  exact ⟨g, c, hl, hc, hr⟩

/-- F39 (fixed): sendRemoteCommEvent is listed under "Process Control" and its row of the regenerated
    table is a gated one; and why a row `Gate.none` would not do: such a body runs in every mood -/
theorem gating_sendRemoteCommEvent :
    "sendRemoteCommEvent" ∈ docProcessControlMethods ∧
    (∃ g, gateTable.lookup "sendRemoteCommEvent" = some g ∧ gateOk g = true) ∧
    ∀ (mood : Int) (body : Nat → Outcome Nat Nat × Nat) (s : Nat), runGated Gate.none mood 0 body body s = body s :=
  ⟨by decide, by decide, fun _ _ _ => rfl⟩

/-- RUNNING and FATAL moods pass the gate; SHUTDOWN and RESTARTING are the moods below RUNNING -/
theorem moods_below_running : (moods.filter fun m => decide (m.2 < moodRunning)).map (·.1) = ["SHUTDOWN", "RESTARTING"] := by
  decide

example : ∃ name, name ∈ docProcessControlMethods := ⟨"sendRemoteCommEvent", by decide⟩
example : (runGated Gate.first 0 0 (fun s => (.value 0, s + 1)) (fun s => (Outcome.value (σ := Nat) 0, s + 1)) 5).2 = 5 := by decide
example : (runGated Gate.first 1 0 (fun s => (.value 0, s + 1)) (fun s => (Outcome.value (σ := Nat) 0, s + 1)) 5).2 = 6 := by decide
example : (runGated (Gate.viaLeaf "signalProcess") 0 3 (fun s => (.value 0, s + 1)) (fun s => (Outcome.value (σ := Nat) 0, s + 1)) 5).2 = 5 := by
  decide

/-! ## fault codes -/

/-- every fault name constructed statically anywhere in the two modules -/
def allRaised : List String :=
  raisesTable.flatMap (·.2) ++ helperRaises ++ updateRaises ++ traverseRaises ++ multicallRefused.flatMap (·.2)

/-- **fault_codes_documented.**  Every `RPCError(Faults.X)` in rpcinterface.py and xmlrpc.py names a
    constant of the `Faults` table; the only dynamic lookup is `getattr(Faults, why)` and every
    text options.readFile can raise is a constant of the table; the names the models use
    literally are constants too.  So every fault a modelled call answers carries a code of the table. -/
theorem fault_codes_documented :
    (∀ n ∈ allRaised, n = "?getattr(Faults, why)" ∨ (faultCode n).isSome = true) ∧
    (∀ n ∈ readFileRaises, (faultCode n).isSome = true) ∧
    (∀ n ∈ ["UNKNOWN_METHOD", "INCORRECT_PARAMETERS", "SHUTDOWN_STATE", "NO_FILE", "BAD_NAME", "BAD_ARGUMENTS", "FAILED"],
        (faultCode n).isSome = true) := by
  decide

/-- a code determines its constant -/
theorem faults_distinct : (faults.map (·.2)).Nodup ∧ (faults.map (·.1)).Nodup := by decide

/-! ## system.multicall -/

section multicall
variable {σ ν : Type} (tbl : Table (Method σ ν)) (env : Nat → σ → σ)

/-- what `results` gets for an outcome that is not deferred -/
def elemOf : Outcome σ ν → Option (Elem ν)
  | .value v => some (.val v)
  | .fault c => some (elemOfFault c)
  | .raised _ => some elemOfRaised
  | .deferred _ => none

theorem multi_none (calls : List (MCall ν)) (acc : List (Elem ν)) (s : σ) :
    multi tbl ⟨calls, none, acc⟩ s = startCalls tbl calls acc s := by
  simp [multi, pollPending]

theorem drive_succ (f k : Nat) (m : MC σ ν) (s : σ) :
    drive tbl env (f + 1) k m s =
      if finished (multi tbl m s).1 then some ((multi tbl m s).1.results, (multi tbl m s).2)
      else drive tbl env f (k + 1) (multi tbl m s).1 (env k (multi tbl m s).2) := rfl

/-- the pending-callback clause of the specification -/
def Q (f : Nat) : Prop :=
  ∀ (rest : List (MCall ν)) (cb : Cb σ ν) (k : Nat) (acc : List (Elem ν)) (s : σ),
    drive tbl env f k ⟨rest, some cb, acc⟩ s =
      (waitCb env f k cb s).bind fun r =>
        (seq tbl env rest (f - r.2.2) (k + r.2.2) r.2.1).map fun q => (acc ++ r.1 :: q.1, q.2)

theorem L1_of_Q (f : Nat) (hQ : Q tbl env f) :
    ∀ (calls : List (MCall ν)) (k : Nat) (acc : List (Elem ν)) (s : σ),
      drive tbl env (f + 1) k ⟨calls, none, acc⟩ s =
        (seq tbl env calls (f + 1) k s).map fun q => (acc ++ q.1, q.2) := by
  intro calls
  induction calls with
  | nil =>
    intro k acc s
    simp [drive_succ, multi_none, startCalls, finished, seq]
  | cons c rest ih =>
    intro k acc s
    have hI : ∀ (e : Elem ν) (s1 : σ), startCalls tbl (c :: rest) acc s = startCalls tbl rest (acc ++ [e]) s1 →
        single tbl env (f + 1) k c s = some (e, s1, 0) →
        drive tbl env (f + 1) k ⟨c :: rest, none, acc⟩ s =
          (seq tbl env (c :: rest) (f + 1) k s).map fun q => (acc ++ q.1, q.2) := by
      intro e s1 h1 h2
      have := ih k (acc ++ [e]) s1
      rw [drive_succ, multi_none] at this ⊢
      rw [h1, this]
      simp [seq, h2, Option.map_map, Function.comp_def]
    cases hc : callOne tbl c s with
    | mk o s1 =>
      cases o with
      | value v => exact hI (.val v) s1 (by simp [startCalls, hc]) (by simp [single, hc])
      | fault code => exact hI (elemOfFault code) s1 (by simp [startCalls, hc]) (by simp [single, hc])
      | raised w => exact hI elemOfRaised s1 (by simp [startCalls, hc]) (by simp [single, hc])
      | deferred cb =>
        rw [drive_succ, multi_none]
        simp only [startCalls, hc, finished, Option.isNone_some, Bool.false_and, Bool.false_eq_true, if_false]
        rw [hQ rest cb (k + 1) acc (env k s1)]
        simp only [seq, single, hc, Nat.add_sub_cancel]
        cases waitCb env f (k + 1) cb (env k s1) with
        | none => simp
        | some r =>
          simp only [Option.map_some, Option.bind_some]
          have e1 : f + 1 - (r.2.2 + 1) = f - r.2.2 := by omega
          have e2 : k + (r.2.2 + 1) = k + 1 + r.2.2 := by omega
          rw [e1, e2]
          simp [Option.map_map, Function.comp_def]

theorem Q_zero : Q tbl env 0 := by
  intro rest cb k acc s
  simp [drive, waitCb]

theorem Q_succ (f : Nat) (hQ : Q tbl env f) : Q tbl env (f + 1) := by
  intro rest cb k acc s
  cases cb with
  | mk poll =>
    have hF : ∀ (e : Elem ν) (s1 : σ),
        multi tbl ⟨rest, some (.mk poll), acc⟩ s = startCalls tbl rest (acc ++ [e]) s1 →
        waitCb env (f + 1) k (.mk poll) s = some (e, s1, 0) →
        drive tbl env (f + 1) k ⟨rest, some (.mk poll), acc⟩ s =
          (waitCb env (f + 1) k (.mk poll) s).bind fun r =>
            (seq tbl env rest (f + 1 - r.2.2) (k + r.2.2) r.2.1).map fun q => (acc ++ r.1 :: q.1, q.2) := by
      intro e s1 h1 h2
      have := L1_of_Q tbl env f hQ rest k (acc ++ [e]) s1
      rw [drive_succ, multi_none] at this
      rw [drive_succ, h1, this, h2]
      simp
    cases hp : poll s with
    | again cb' s' =>
      rw [drive_succ]
      have hm : multi tbl ⟨rest, some (.mk poll), acc⟩ s = (⟨rest, some cb', acc⟩, s') := by
        simp [multi, pollPending, hp]
      rw [hm]
      simp only [finished, Option.isNone_some, Bool.false_and, Bool.false_eq_true, if_false]
      rw [hQ rest cb' (k + 1) acc (env k s')]
      simp only [waitCb, hp]
      cases waitCb env f (k + 1) cb' (env k s') with
      | none => simp
      | some r =>
        simp only [Option.map_some, Option.bind_some]
        have e1 : f + 1 - (r.2.2 + 1) = f - r.2.2 := by omega
        have e2 : k + (r.2.2 + 1) = k + 1 + r.2.2 := by omega
        rw [e1, e2]
    | value v s' => exact hF (.val v) s' (by simp [multi, pollPending, hp]) (by simp [waitCb, hp])
    | fault c s' => exact hF (elemOfFault c) s' (by simp [multi, pollPending, hp]) (by simp [waitCb, hp])
    | raised w s' => exact hF elemOfRaised s' (by simp [multi, pollPending, hp]) (by simp [waitCb, hp])

theorem Q_all (f : Nat) : Q tbl env f := by
  induction f with
  | zero => exact Q_zero tbl env
  | succ f ih => exact Q_succ tbl env f ih

/-- **multicall_sequential.**  For every attribute table, every list of calls, every behaviour of
    the deferred callbacks, every schedule `env` of what happens between ticks and every bound
    `f+1` on the number of ticks: `system.multicall` answers exactly what the same calls made one
    after another answer (call i+1 is started at the tick at which call i answered), element for
    element, with the same final state — or both are still unfinished after `f+1` ticks. -/
theorem multicall_sequential (f : Nat) (calls : List (MCall ν)) (s : σ) :
    multicall tbl env (f + 1) calls s = seq tbl env calls (f + 1) 0 s := by
  have := L1_of_Q tbl env f (Q_all tbl env f) calls 0 [] s
  simpa [multicall] using this

end multicall

/-! ### what a single element is -/

/-- recursion is refused with INCORRECT_PARAMETERS and runs nothing; so is a call without methodName -/
theorem multicall_recursion_refused {σ ν : Type} (tbl : Table (Method σ ν)) (ps : List ν) (s : σ) :
    (∃ c, faultCode "INCORRECT_PARAMETERS" = some c ∧
      callOne tbl ⟨some "system.multicall".toList, ps⟩ s = (.fault c, s) ∧ callOne tbl ⟨none, ps⟩ s = (.fault c, s)) := by
  refine ⟨2, by decide, ?_, ?_⟩
  · have : multicallRefused.find? (fun p => p.1.toList == "system.multicall".toList) = some ("system.multicall", ["INCORRECT_PARAMETERS"]) := by
      decide
    simp only [callOne]
    rw [this]
    simp [raiseFault, faultCode, faults, List.lookup]
  · simp [callOne, raiseFault, faultCode, faults, List.lookup]

/-- faults become fault structs carrying the fault's code, other exceptions the FAILED struct, values
    themselves; every other name goes through `traverse` (so `traverse_closed` applies inside multicall) -/
theorem multicall_elements {σ ν : Type} (tbl : Table (Method σ ν)) (env : Nat → σ → σ) (f k : Nat) (c : MCall ν) (s s' : σ) :
    (∀ code, callOne tbl c s = (.fault code, s') → single tbl env f k c s = some (.fstruct code, s', 0)) ∧
    (∀ v, callOne tbl c s = (.value v, s') → single tbl env f k c s = some (.val v, s', 0)) ∧
    (∀ w, callOne tbl c s = (.raised w, s') → single tbl env f k c s = some (.fstruct 30, s', 0)) ∧
    (∀ n, c.name = some n → n ≠ "system.multicall".toList → callOne tbl c s = call tbl n c.params s) := by
  refine ⟨?_, ?_, ?_, ?_⟩
  · intro code h; simp [single, h, elemOfFault]
  · intro v h; simp [single, h]
  · intro w h
    have : (elemOfRaised : Elem ν) = .fstruct 30 := by
      simp [elemOfRaised, failedCode, faultCode, faults, List.lookup]
    simp [single, h, this]
  · intro n hn hne
    have : multicallRefused.find? (fun p => p.1.toList == n) = none := by
      have hb : ("system.multicall".toList == n) = false := by
        rw [beq_eq_false_iff_ne]; exact fun h => hne h.symm
      unfold multicallRefused
      simp only [List.find?_cons, List.find?_nil, hb]
    simp only [callOne, hn, this]

-- non-vacuity: a deferred call between two immediate ones; the third call starts only after the second answered
def demoMc : Table (Method Log Int) := tableOf [
  .attr "s".toList "a".toList (some (0, 0, .fin (.v 1))),
  .attr "s".toList "d".toList (some (0, 0, .d 2 (.f 10))),
  .attr "s".toList "b".toList (some (0, 0, .fin (.v 3)))]
example : multicall demoMc (fun _ x => x) 10
    [⟨some "s.a".toList, []⟩, ⟨some "s.d".toList, []⟩, ⟨some "system.multicall".toList, []⟩, ⟨some "s.b".toList, []⟩] []
    = some ([.val 1, .fstruct 10, .fstruct 2, .val 3], ["s.a/0", "s.d/0", "poll:s.d", "poll:s.d", "poll:s.d", "s.b/0"]) := by
  decide
example : multicall demoMc (fun _ x => x) 2 [⟨some "s.d".toList, []⟩] [] = none := by decide


/-! ## "never an HTTP 500": what is proved about answers -/

/-- `try: return func(*params) / except TypeError: raise RPCError(INCORRECT_PARAMETERS)` -/
def mapTypeError {σ ν : Type} (r : Outcome σ ν × σ) : Outcome σ ν × σ :=
  match r with
  | (.raised w, s') => if w = "TypeError" then (raiseFault (nthFault 4), s') else (.raised w, s')
  | r => r

/-- an answer of the C16 log-method models as an outcome of a method body -/
def ofAns {σ ν α : Type} (emb : α → ν) : RpcLog.Ans α → Outcome σ ν
  | .ok v => .value (emb v)
  | .fault c => .fault c
  | .exc w => .raised w

/-- the answer is a value or a fault whose code is a constant of `Faults` -/
def Documented {σ ν : Type} (o : Outcome σ ν) : Prop :=
  (∃ v, o = .value v) ∨ (∃ c, c ∈ faults.map (·.2) ∧ o = .fault c)

theorem rpclog_fault_in_table {α : Type} (n : String) (c : Int) (h : (RpcLog.raiseFault n : RpcLog.Ans α) = .fault c) :
    c ∈ faults.map (·.2) := by
  unfold RpcLog.raiseFault RpcLog.faultCode at h
  cases hl : faults.lookup n with
  | none => simp [hl] at h
  | some c' =>
    simp only [hl, RpcLog.Ans.fault.injEq] at h
    subst h
    have : ∀ (l : List (String × Int)), l.lookup n = some c' → c' ∈ l.map (·.2) := by
      intro l
      induction l with
      | nil => simp [List.lookup]
      | cons x r ih =>
        intro hx
        simp only [List.lookup] at hx
        split at hx
        · simp only [Option.some.injEq] at hx; simp [hx]
        · simp [ih hx]
    exact this faults hl

/-- **log methods answer a value or a documented fault** — for every decoder pair, mood, process
    lookup result, log file, content, offset and length (C16 `log_rpc_never_raises` carried over to
    outcomes; this is where fix F7 enters C12) -/
theorem log_methods_answer {σ ν : Type} (emb : Bytes → ν) (embT : RpcLog.TailAns → ν) (dec : RpcLog.Decoders)
    (mood : Int) (found : Bool) (lf : RpcLog.LogFile) (o l : Int) :
    Documented (ofAns (σ := σ) emb (RpcLog.readLog dec mood lf o l)) ∧
    Documented (ofAns (σ := σ) emb (RpcLog.readProcessLog dec mood found lf o l)) ∧
    Documented (ofAns (σ := σ) embT (RpcLog.tailProcessLog dec mood found lf o l)) := by
  obtain ⟨h1, h2, h3⟩ := Sv.Props.C16.log_rpc_never_raises dec mood found lf o l
  have key : ∀ {α : Type} (e : α → ν) (a : RpcLog.Ans α), (∀ w, a ≠ .exc w) →
      (∀ c, a = .fault c → c ∈ faults.map (·.2)) → Documented (ofAns (σ := σ) e a) := by
    intro α e a hn hf
    cases a with
    | ok v => exact Or.inl ⟨e v, rfl⟩
    | fault c => exact Or.inr ⟨c, hf c rfl, rfl⟩
    | exc w => exact absurd rfl (hn w)
  have hup : ∀ {α : Type} (c : Int), (RpcLog.update mood : Option (RpcLog.Ans α)) = some (.fault c) → c ∈ faults.map (·.2) := by
    intro α c h
    unfold RpcLog.update at h
    split at h
    · simp only [updateRaises, Option.some.injEq] at h
      exact rpclog_fault_in_table _ c h
    · cases h
  have hcore : ∀ c, RpcLog.readCore dec lf o l = .fault c → c ∈ faults.map (·.2) := by
    intro c h
    unfold RpcLog.readCore at h
    cases lf with
    | unset => exact rpclog_fault_in_table _ c h
    | missing => exact rpclog_fault_in_table _ c h
    | present f =>
      simp only at h
      cases hr : LogRead.readFile f o l with
      | ok d => simp [hr, RpcLog.decodeLog, readDecodeTolerant] at h
      | error e =>
        cases e <;> simp only [hr] at h <;> exact rpclog_fault_in_table _ c h
  refine ⟨key emb _ h1 ?_, key emb _ h2 ?_, key embT _ h3 ?_⟩
  · intro c h
    unfold RpcLog.readLog at h
    cases hu : (RpcLog.update mood : Option (RpcLog.Ans Bytes)) with
    | some a => rw [hu] at h; simp only at h; subst h; exact hup c hu
    | none => rw [hu] at h; exact hcore c h
  · intro c h
    unfold RpcLog.readProcessLog at h
    cases hu : (RpcLog.update mood : Option (RpcLog.Ans Bytes)) with
    | some a => rw [hu] at h; simp only at h; subst h; exact hup c hu
    | none =>
      rw [hu] at h
      cases found with
      | false => exact rpclog_fault_in_table _ c (by simpa using h)
      | true => exact hcore c (by simpa using h)
  · intro c h
    unfold RpcLog.tailProcessLog at h
    cases hu : (RpcLog.update mood : Option (RpcLog.Ans RpcLog.TailAns)) with
    | some a => rw [hu] at h; simp only at h; subst h; exact hup c hu
    | none =>
      rw [hu] at h
      cases found with
      | false => exact rpclog_fault_in_table _ c (by simpa using h)
      | true =>
        cases lf <;> simp [RpcLog.decodeLog, tailDecodeTolerant] at h

/-- **never_500_partial.**  What is proved about the answer to ANY request `nm(args)` against ANY
    attribute table, in any state:

    1. a name that does not resolve to a public bound method is answered UNKNOWN_METHOD, nothing runs;
    2. a resolved method called with a wrong number of arguments is answered INCORRECT_PARAMETERS,
       nothing runs;
    3. otherwise the body runs exactly once and its outcome is the answer (a TypeError from inside is
       reported as INCORRECT_PARAMETERS), and
       a. if the body is that of a public method of SupervisorNamespaceRPCInterface whose row of the
          generated gate table is `gateOk` (all of them, `gating_table_ok`)
          and the mood is below RUNNING, the answer is SHUTDOWN_STATE and the state is untouched;
       b. if the body is one of the log methods (readLog, readProcess*Log, tailProcess*Log as
          modelled in RpcLog) the answer is a value or a fault of the `Faults` table.

    In 1, 2, 3a, 3b the answer is a fault of the table or a value: no HTTP 500 arises from the
    dispatcher.  EXCLUDED (hence `_partial`; exercised through the real handler, not proved):
    what the *other* method bodies answer above the gate (start/stop/signal bodies: C13;
    reload/add/remove: C15; the info methods), that the value can be marshalled (xmlrpclib; findings
    F37/F38 live there), DeferredXMLRPCResponse and the medusa request/channel plumbing, and that a
    deferred answer eventually completes (liveness of the process state machine: C01–C04; what IS proved of it:
    `deferred_wait_completes` — the start/stop callbacks answer in every state the process need not move on from). -/
theorem never_500_partial {σ ν : Type} (tbl : Table (Method σ ν)) (nm : Name) (args : List ν) (s : σ) :
    (resolve tbl nm = .error "UNKNOWN_METHOD" ∧
      ∃ c, faultCode "UNKNOWN_METHOD" = some c ∧ call tbl nm args s = (.fault c, s)) ∨
    (∃ m, resolve tbl nm = .ok m ∧
      (((args.length < m.minArgs ∨ m.maxArgs < args.length) ∧
          ∃ c, faultCode "INCORRECT_PARAMETERS" = some c ∧ call tbl nm args s = (.fault c, s)) ∨
       ((m.minArgs ≤ args.length ∧ args.length ≤ m.maxArgs) ∧
          call tbl nm args s = mapTypeError (m.run args s) ∧
          (∀ (name : String) (g : Gate) (mood : Int) (nLeaf : Nat) (leafBody body : σ → Outcome σ ν × σ),
             (name, g) ∈ gateTable → gateOk g = true → mood < moodRunning →
             m.run args s = runGated g mood nLeaf leafBody body s →
             ∃ c, faultCode "SHUTDOWN_STATE" = some c ∧ call tbl nm args s = (.fault c, s)) ∧
          (∀ (o : Outcome σ ν), Documented o → m.run args s = (o, s) →
             Documented (call tbl nm args s).1 ∧ (call tbl nm args s).2 = s)))) := by
  rcases traverse_dichotomy tbl nm with ⟨m, hm⟩ | hr
  · right
    refine ⟨m, hm, ?_⟩
    by_cases ha : args.length < m.minArgs ∨ m.maxArgs < args.length
    · left
      exact ⟨ha, arity_fault tbl nm m args s hm ha⟩
    · right
      have ha' : m.minArgs ≤ args.length ∧ args.length ≤ m.maxArgs := by omega
      have hb : (decide (args.length < m.minArgs) || decide (m.maxArgs < args.length)) = false := by
        simp; omega
      have hcall : call tbl nm args s = mapTypeError (m.run args s) := by
        simp only [call, hm, hb, Bool.false_eq_true, if_false, mapTypeError]
        generalize m.run args s = r
        rcases r with ⟨o, s'⟩
        cases o <;> rfl
      refine ⟨ha', hcall, ?_, ?_⟩
      · intro name g mood nLeaf leafBody body _ hg hmood hrun
        obtain ⟨c, hc, hr⟩ := gated_answers_shutdown g hg mood hmood nLeaf leafBody body s
        exact ⟨c, hc, by rw [hcall, hrun, hr]; rfl⟩
      · intro o ho hrun
        rw [hcall, hrun]
        rcases ho with ⟨v, rfl⟩ | ⟨c, hc, rfl⟩
        · exact ⟨Or.inl ⟨v, rfl⟩, rfl⟩
        · exact ⟨Or.inr ⟨c, hc, rfl⟩, rfl⟩
  · left
    exact ⟨hr, refused_executes_nothing tbl nm args s hr⟩

-- non-vacuity of 3a / 3b
example : ∃ name g, (name, g) ∈ gateTable ∧ gateOk g = true := ⟨"startProcess", .first, by decide, by decide⟩
example : Documented (σ := Nat) (ofAns (ν := Bytes) id (RpcLog.readLog RpcLog.pyDecoders 1 (.present [0x61, 0xc3]) 0 0)) :=
  (log_methods_answer (σ := Nat) id (fun _ => []) RpcLog.pyDecoders 1 true (.present [0x61, 0xc3]) 0 0).1


/-! ## HTTP framing of the answer: Content-Length counts the bytes on the wire -/

theorem utf8Char_length_pos (c : Char) : 1 ≤ (utf8Char c).length := by
  unfold utf8Char
  simp only []
  repeat' split
  all_goals simp

theorem utf8Of_length_ge (t : List Char) : t.length ≤ (utf8Of t).length := by
  induction t with
  | nil => simp [utf8Of]
  | cons c r ih =>
    simp only [utf8Of, List.flatMap_cons, List.length_append, List.length_cons] at ih ⊢
    have := utf8Char_length_pos c
    omega

theorem utf8Of_length_ascii (t : List Char) (h : ∀ c ∈ t, c.toNat < 0x80) : (utf8Of t).length = t.length := by
  induction t with
  | nil => simp [utf8Of]
  | cons c r ih =>
    have hc : c.toNat < 0x80 := h c (by simp)
    have ih' := ih (fun x hx => h x (by simp [hx]))
    simp only [utf8Of, List.flatMap_cons, List.length_append, List.length_cons] at ih' ⊢
    have : (utf8Char c).length = 1 := by simp [utf8Char, hc]
    omega

/-- **immediate answers.**  For every response text, the Content-Length header of a non-deferred
    answer is the number of bytes put on the wire, and those bytes are the UTF-8 encoding of the
    marshalled response; a client reading Content-Length bytes gets the whole body. -/
theorem immediate_content_length (t : List Char) :
    (immediateResponse t).wire = utf8Of t ∧
    (immediateResponse t).contentLength = (immediateResponse t).wire.length ∧
    clientBody (immediateResponse t) = utf8Of t := by
  simp [immediateResponse, contReq_a9, contReq_c0_0, clientBody]

/-- **deferred answers.**  The same for `DeferredXMLRPCResponse.more` → `getresponse`: the body is
    handed over and pushed as text (the request encodes it), and Content-Length is the length of
    its UTF-8 encoding — for every response text (F42, fixed: the header used to count characters;
    the input "é" is in the regression corpus). -/
theorem deferred_content_length (t : List Char) :
    (deferredResponse t).wire = utf8Of t ∧
    (deferredResponse t).contentLength = (deferredResponse t).wire.length ∧
    clientBody (deferredResponse t) = utf8Of t := by
  simp [deferredResponse, defResp_a1, defResp_c0_0, defMore_c0_0, clientBody]

example : deferredResponse ['é'] = ⟨2, [0xC3, 0xA9]⟩ := by decide
example : utf8Of ['a', 'é', '€', '😀'] = [0x61, 0xC3, 0xA9, 0xE2, 0x82, 0xAC, 0xF0, 0x9F, 0x98, 0x80] := by decide

/-! ## the request on its way in: what `continue_request` is handed does not depend on how the socket cut the request

  The property quantifies over calls, not over TCP segmentations.  The bytes of one POST reach the
  channel in whatever pieces `recv` returns; every piece of the body goes through
  `collector.collect_incoming_data` (generated `collKept`), and when Content-Length bytes are
  there `collector.found_terminator` hands `continue_request` the generated `collHanded` of what
  was kept.  An exception on this path escapes `handle_read`, asyncore closes the channel and the
  caller gets NO answer — neither a value nor a fault.  So "every call … returns a value or a
  documented fault" needs: the text handed over is the decoding of the WHOLE body, for every way of
  cutting it.  (Seeded change C12-4 decoded each piece by itself: with it `collKept` is
  `asString data`, `collHanded` is `joinText`, and the theorems below are false —
  `decode_per_piece_not_invariant` is the reason.) -/

theorem joinBytes_bytes (ps : List Bytes) : joinBytes (ps.map PyStr.bytes) = .ok (.bytes ps.flatten) := by
  induction ps with
  | nil => rfl
  | cons p r ih => simp [joinBytes, ih]

theorem collectPieces_eq (ps : List Bytes) (kept : List PyStr) :
    collectPieces ps kept = .ok (kept ++ ps.map PyStr.bytes) := by
  induction ps generalizing kept with
  | nil => simp [collectPieces]
  | cons p r ih => simp [collectPieces, collKept, ih]

/-- **request_body_fragmentation_invariant.**  For every way `pieces` in which a request body can
    arrive (any number of pieces, empty ones included, cuts anywhere — inside a multi-byte character
    too): collecting never raises, and what `continue_request` is handed is `as_string` of the
    whole body — the decoded text, or UnicodeDecodeError exactly when the body as a whole is not
    UTF-8. -/
theorem request_body_fragmentation_invariant (pieces : List Bytes) :
    requestBody pieces = asString (.bytes pieces.flatten) := by
  simp [requestBody, collectPieces_eq, collHanded, joinBytes_bytes, Except.bind]

/-- two deliveries of the same bytes hand `continue_request` the same thing -/
theorem request_body_independent_of_cuts (p q : List Bytes) (h : p.flatten = q.flatten) :
    requestBody p = requestBody q := by
  rw [request_body_fragmentation_invariant, request_body_fragmentation_invariant, h]

/-- **request_body_roundtrip.**  Whatever text `t` a client marshals and encodes (`as_bytes`), and
    however the network cuts it, `continue_request` is handed exactly `t`. -/
theorem request_body_roundtrip (t : List Char) (pieces : List Bytes) (h : pieces.flatten = utf8Of t) :
    requestBody pieces = .ok (.text t) := by
  rw [request_body_fragmentation_invariant, h]
  simp [asString, decodeUtf8_utf8Of]

theorem bufferPieces_eq (ps : List Bytes) (b : Bytes) :
    bufferPieces ps (.bytes b) = .ok (.bytes (b ++ ps.flatten)) := by
  induction ps generalizing b with
  | nil => simp [bufferPieces]
  | cons p r ih => simp [bufferPieces, chanKept, pyConcat, Except.bind, ih]

/-- the same for the request header (request line, Content-Length, … — `http_channel.collect_incoming_data`
    accumulates, `deferring_http_channel.found_terminator` decodes once): the header text cracked
    is `as_string` of the whole header however it was cut -/
theorem request_header_fragmentation_invariant (pieces : List Bytes) :
    requestHeader pieces = asString (.bytes pieces.flatten) := by
  simp [requestHeader, bufferPieces_eq, chanHeader, Except.bind]

theorem request_header_roundtrip (t : List Char) (pieces : List Bytes) (h : pieces.flatten = utf8Of t) :
    requestHeader pieces = .ok (.text t) := by
  rw [request_header_fragmentation_invariant, h]
  simp [asString, decodeUtf8_utf8Of]

/-- why the decode has to come after the join: decoding piece by piece is NOT invariant — the same
    two bytes ("é") decode as one piece and raise when cut between them -/
theorem decode_per_piece_not_invariant :
    ∃ p q : List Bytes, p.flatten = q.flatten ∧
      p.mapM (fun x => asString (.bytes x)) = .ok [.text ['é']] ∧
      q.mapM (fun x => asString (.bytes x)) = .error "UnicodeDecodeError" :=
  ⟨[[0xC3, 0xA9]], [[0xC3], [0xA9]], by decide, by decide, by decide⟩

-- non-vacuity / the input of seeded change C12-4 in the small: "é" cut between its two bytes
example : requestBody [[0x63, 0xC3], [0xA9, 0x21]] = .ok (.text ['c', 'é', '!']) := by decide
example : requestBody [[0x63, 0xC3, 0xA9, 0x21]] = .ok (.text ['c', 'é', '!']) := by decide
example : requestBody [[0xC3], [0x28]] = .error "UnicodeDecodeError" := by decide
example : requestHeader [[0x58, 0xE2], [0x82], [0xAC]] = .ok (.text ['X', '€']) := by decide
example : decodeUtf8 [0xED, 0xA0, 0x80] = none ∧ decodeUtf8 [0xC0, 0x80] = none ∧ decodeUtf8 [0xF4, 0x90, 0x80, 0x80] = none := by decide

/-! ## addProcessGroup for a group that cannot be created (F48) -/

theorem faultCode_mem (f : String) (c : Int) (h : faultCode f = some c) : c ∈ faults.map (·.2) := by
  unfold faultCode at h
  generalize faults = l at h ⊢
  induction l with
  | nil => simp [List.lookup] at h
  | cons p r ih =>
    obtain ⟨k, v⟩ := p
    simp only [List.lookup] at h
    split at h
    · simp at h; simp [h]
    · simp [ih h]

theorem raiseOne_documented {σ ν : Type} (fs : List String)
    (h : (match fs with | [f] => (faultCode f).isSome | _ => false) = true) : Documented (raiseOne fs : Outcome σ ν) := by
  match fs, h with
  | [f], h =>
    simp only [Option.isSome_iff_exists] at h
    obtain ⟨c, hc⟩ := h
    exact Or.inr ⟨c, faultCode_mem f c hc, by simp [raiseOne, raiseFault, hc]⟩

theorem catches_mono (a b : List String) (exc : String) (hab : ∀ t ∈ a, t ∈ b) (h : catches a exc = true) :
    catches b exc = true := by
  unfold catches at h ⊢
  cases hl : excMro.lookup exc with
  | some mro =>
    rw [hl] at h
    simp only [List.any_eq_true] at h ⊢
    obtain ⟨t, ht, hm⟩ := h
    exact ⟨t, hab t ht, hm⟩
  | none =>
    rw [hl] at h
    simp only [List.contains_iff_mem, List.elem_eq_mem, decide_eq_true_eq] at h ⊢
    exact hab _ h

theorem catches_split (a : List String) (exc : String) (h : catches a exc = true) : ∃ t ∈ a, catches [t] exc = true := by
  unfold catches at h
  cases hl : excMro.lookup exc with
  | some mro =>
    rw [hl] at h
    simp only [List.any_eq_true] at h
    obtain ⟨t, ht, hm⟩ := h
    exact ⟨t, ht, by simpa [catches, hl] using hm⟩
  | none =>
    rw [hl] at h
    simp only [List.contains_iff_mem, List.elem_eq_mem, decide_eq_true_eq] at h
    exact ⟨exc, h, by simp [catches, hl]⟩

/-- the generated facts the theorem rests on: every except clause around add_process_group answers
    exactly one fault, a constant of `Faults`; ValueError and OSError are each named by a clause; the
    two other faults of the method are constants too -/
theorem addGroup_table_ok :
    (addGroupCatches.all fun h => match h.2 with | [f] => (faultCode f).isSome | _ => false) = true ∧
    (["ValueError", "OSError"].all fun t => addGroupCatches.any fun h => h.1.contains t) = true ∧
    (match addGroupAlready with | [f] => (faultCode f).isSome | _ => false) = true ∧
    (match addGroupUnknown with | [f] => (faultCode f).isSome | _ => false) = true ∧
    (∃ g, gateTable.lookup "addProcessGroup" = some g ∧ gateOk g = true ∧ g ≠ Gate.none ∧ ∀ l, g ≠ Gate.viaLeaf l) := by
  refine ⟨by decide, by decide, by decide, by decide, ⟨Gate.first, by decide, by decide, by decide, by intro l; exact Gate.noConfusion⟩⟩

theorem addGroupBody_documented {ν : Type} (vTrue : ν) (found : Bool) (construct : AddRes) (s : Nat)
    (h : ∀ exc, construct = .raised exc → catches ["ValueError", "OSError"] exc = true) :
    Documented (addGroupBody vTrue found construct s).1 ∧
    ((addGroupBody vTrue found construct s).2 = s ∨
      (found = true ∧ construct = .added ∧ addGroupBody vTrue found construct s = (.value vTrue, s + 1))) := by
  obtain ⟨hall, hany, halr, hunk, _⟩ := addGroup_table_ok
  unfold addGroupBody
  cases found with
  | false => exact ⟨by simpa using raiseOne_documented _ hunk, Or.inl (by simp)⟩
  | true =>
    cases construct with
    | added => exact ⟨Or.inl ⟨vTrue, by simp⟩, Or.inr ⟨rfl, rfl, by simp⟩⟩
    | already => exact ⟨by simpa using raiseOne_documented _ halr, Or.inl (by simp)⟩
    | raised exc =>
      have hc := h exc rfl
      simp only [Bool.not_true, Bool.false_eq_true, if_false]
      cases hf : addGroupCatches.find? (fun h => catches h.1 exc) with
      | none =>
        exfalso
        rw [List.find?_eq_none] at hf
        obtain ⟨t, ht, hct⟩ := catches_split _ exc hc
        have hany' := (List.all_eq_true.mp hany) t ht
        simp only [List.any_eq_true] at hany'
        obtain ⟨h0, hm, hv⟩ := hany'
        have := hf h0 hm
        have h1 : catches h0.1 exc = true :=
          catches_mono [t] h0.1 exc (by intro t' ht'; simp at ht'; subst ht'; simpa using hv) hct
        simp [h1] at this
      | some h0 =>
        have hm : h0 ∈ addGroupCatches := List.mem_of_find?_eq_some hf
        have := (List.all_eq_true.mp hall) h0 hm
        exact ⟨by simpa using raiseOne_documented _ this, Or.inl (by simp)⟩

/-- **addProcessGroup_answers_partial.**  `supervisor.addProcessGroup(name)` in every mood, whether or
    not a configured group has the name, whatever `supervisord.add_process_group` does for it — adds
    the group, finds it active, or fails with ANY exception of class ValueError or OSError or a
    subclass (F48: `FastCGIProcessGroup` raising "Could not create FastCGI socket …", fixed in 076788a;
    F49: `config.after_setuid()` cannot create an AUTO child log because the child log directory is
    gone → FileNotFoundError, fixed in 4afb3d2; the except clause is the generated `addGroupCatches`):
    the answer is a value or a fault whose code is a constant of `Faults`; below RUNNING it is
    SHUTDOWN_STATE and nothing changed; and the group table changes only together with the answer `True`.
    PARTIAL: the hypothesis restricts the exception class to the two the construction of a group is
    known to raise (files, sockets, configuration values).  An exception of any other class would
    still escape the method (`addProcessGroup_other_classes_escape`); the harness found no way to
    provoke one through the real configuration classes. -/
theorem addProcessGroup_answers_partial {ν : Type} (vTrue : ν) (mood : Int) (found : Bool) (construct : AddRes) (s : Nat)
    (h : ∀ exc, construct = .raised exc → catches ["ValueError", "OSError"] exc = true) :
    Documented (addProcessGroup vTrue mood found construct s).1 ∧
    (mood < moodRunning → ∃ c, faultCode "SHUTDOWN_STATE" = some c ∧ addProcessGroup vTrue mood found construct s = (.fault c, s)) ∧
    ((addProcessGroup vTrue mood found construct s).2 = s ∨
      (found = true ∧ construct = .added ∧ addProcessGroup vTrue mood found construct s = (.value vTrue, s + 1))) := by
  obtain ⟨c, hc, hu⟩ := updateFault_eq (σ := Nat) (ν := ν)
  obtain ⟨hdoc, hst⟩ := addGroupBody_documented vTrue found construct s h
  have hg : gateTable.lookup "addProcessGroup" = some Gate.first ∨ gateTable.lookup "addProcessGroup" = some Gate.afterPure := by decide
  have key : addProcessGroup vTrue mood found construct s =
      if update_g0 true mood then (updateFault, s) else addGroupBody vTrue found construct s := by
    unfold addProcessGroup
    rcases hg with hg | hg <;> rw [hg] <;> rfl
  rw [key]
  by_cases hm : mood < moodRunning
  · have : update_g0 true mood = true := by simp [update_g0, hm]
    simp only [this, if_true]
    exact ⟨Or.inr ⟨c, faultCode_mem _ c hc, hu⟩, fun _ => ⟨c, hc, by rw [hu]⟩, by first | exact Or.inl rfl | exact Or.inl trivial⟩
  · have : update_g0 true mood = false := by simp [update_g0, hm]
    simp only [this, Bool.false_eq_true, if_false]
    exact ⟨hdoc, fun h' => absurd h' hm, hst⟩

/-- F49 (fixed in 4afb3d2): the child log directory is gone — FileNotFoundError, an OSError — the answer
    is FAILED and nothing is added -/
theorem addProcessGroup_oserror_answers_failed :
    addProcessGroup true 1 true (.raised "FileNotFoundError") 0 = (.fault 30, 0) ∧
    catches ["ValueError", "OSError"] "FileNotFoundError" = true ∧ faultCode "FAILED" = some 30 := ⟨by rfl, by decide, by decide⟩

/-- the excluded part of `addProcessGroup_answers_partial`: a class that is neither a ValueError nor an
    OSError is not caught by the method as it is -/
theorem addProcessGroup_other_classes_escape :
    addProcessGroup true 1 true (.raised "KeyError") 0 = (.raised "KeyError", 0) ∧
    catches ["ValueError", "OSError"] "KeyError" = false := ⟨by rfl, by decide⟩

-- F48 in the small: the group's construction raises ValueError -> fault FAILED (30), nothing added; non-vacuity
example : addProcessGroup true 1 true (.raised "ValueError") 0 = (.fault 30, 0) := by rfl
example : addProcessGroup true 1 true .added 0 = (.value true, 1) := by rfl
example : addProcessGroup true 1 true .already 0 = (.fault 90, 0) := by rfl
example : addProcessGroup true 1 false .already 0 = (.fault 10, 0) := by rfl
example : addProcessGroup true 0 true (.raised "ValueError") 0 = (.fault 6, 0) := by rfl
example : catches ["ValueError"] "UnicodeDecodeError" = true ∧ catches ["OSError"] "ConnectionResetError" = true := by decide


/-! ## deferred answers complete: startProcess / stopProcess with wait=True

  `startOnwait` / `stopOnwait` (generated: the whole body of the callback the method returns) are what one
  poll answers as a function of what it reads of the process.  The theorems quantify over EVERY process
  state at EVERY poll (the schedule is arbitrary: another client may stop or start the process, the
  child may die, a kill may fail between two polls). -/

/-- the codes of ProcessStates -/
def stateCodes : List Int := procStates.map (·.2)

/-- **start_onwait_total.**  In every process state, with or without a spawn error, one poll of the callback of
    `startProcess(wait=True)` answers True, a fault of the `Faults` table, or NOT_DONE_YET — and NOT_DONE_YET exactly in
    the state the process must move on from (STARTING, no spawn error).  By `decide` over the whole regenerated
    state table.  (Seeded change C12-5 listed BACKOFF/EXITED/FATAL instead of "not STARTING/RUNNING": STOPPING,
    STOPPED and UNKNOWN then answered NOT_DONE_YET for ever.) -/
theorem start_onwait_total : ∀ se : Bool, ∀ st ∈ stateCodes,
    waitAnsOk (onwait .start ⟨se, st⟩) = true ∧
    (onwait .start ⟨se, st⟩ = .again ↔ mustMoveOn .start ⟨se, st⟩ = true) := by decide

/-- **stop_onwait_total.**  The same for `stopProcess(wait=True)`: True in every stopped state, NOT_DONE_YET in every
    other state (the kill has been sent: reap() or the SIGKILL escalation moves the process on), never anything else. -/
theorem stop_onwait_total : ∀ se : Bool, ∀ st ∈ stateCodes,
    waitAnsOk (onwait .stop ⟨se, st⟩) = true ∧
    (onwait .stop ⟨se, st⟩ = .again ↔ mustMoveOn .stop ⟨se, st⟩ = true) := by decide

/-- the two tables as one statement about any view whose state is one of ProcessStates -/
theorem onwait_total (kind : WaitKind) (p : PView) (hv : validState p.state = true) :
    waitAnsOk (onwait kind p) = true ∧ (onwait kind p = .again ↔ mustMoveOn kind p = true) := by
  have hm : p.state ∈ stateCodes := by
    simpa [validState, stateCodes] using hv
  cases p with
  | mk se st =>
    cases kind
    · exact start_onwait_total se st hm
    · exact stop_onwait_total se st hm

/-- polling stops at the first poll whose answer is not NOT_DONE_YET (any answer function, any schedule) -/
theorem waitPolls_completes (kind : WaitKind) (sched : Nat → PView) (j : Nat) :
    ∀ (f k : Nat), j < f → onwait kind (sched (k + j)) ≠ .again →
      ∃ i, waitPolls kind sched f k = some (onwait kind (sched i), i) ∧ k ≤ i ∧ i ≤ k + j ∧
        onwait kind (sched i) ≠ .again ∧ ∀ i', k ≤ i' → i' < i → onwait kind (sched i') = .again := by
  induction j with
  | zero =>
    intro f k hf h
    cases f with
    | zero => omega
    | succ f =>
      refine ⟨k, ?_, Nat.le_refl _, by omega, by simpa using h, ?_⟩
      · have h' : onwait kind (sched k) ≠ .again := by simpa using h
        simp [waitPolls, h']
      · intro i' h1 h2; omega
  | succ j ih =>
    intro f k hf h
    cases f with
    | zero => omega
    | succ f =>
      by_cases h0 : onwait kind (sched k) = .again
      · have h' : onwait kind (sched (k + 1 + j)) ≠ .again := by
          have : k + 1 + j = k + (j + 1) := by omega
          rw [this]; exact h
        obtain ⟨i, hi, hki, hij, hne, hbefore⟩ := ih f (k + 1) (by omega) h'
        refine ⟨i, ?_, by omega, by omega, hne, ?_⟩
        · simp [waitPolls, h0, hi]
        · intro i' h1 h2
          by_cases he : i' = k
          · subst he; exact h0
          · exact hbefore i' (by omega) h2
      · refine ⟨k, ?_, Nat.le_refl _, by omega, h0, ?_⟩
        · simp [waitPolls, h0]
        · intro i' h1 h2; omega

theorem waitPolls_pending (kind : WaitKind) (sched : Nat → PView) :
    ∀ (f k : Nat), waitPolls kind sched f k = none → ∀ i, k ≤ i → i < k + f → onwait kind (sched i) = .again := by
  intro f
  induction f with
  | zero => intro k _ i h1 h2; omega
  | succ f ih =>
    intro k h i h1 h2
    by_cases h0 : onwait kind (sched k) = .again
    · simp [waitPolls, h0] at h
      by_cases he : i = k
      · subst he; exact h0
      · exact ih (k + 1) h i (by omega) (by omega)
    · simp [waitPolls, h0] at h

/-- **deferred_wait_completes.**  For every schedule of what the callback reads — every process state at every poll,
    spawn error or not, changing arbitrarily between polls —: as soon as the process is, at some poll `j`, in a state
    it need not move on from (start: anything but STARTING; stop: a stopped state), the call HAS answered, at poll `j`
    or earlier, with True or a fault of the table; and every poll before the answer saw a state the process must move
    on from.  "A response that never completes" can therefore only come from a process that stays STARTING (start) or
    not-stopped (stop) for ever, which is the liveness of the process state machine (C01–C04), not of the RPC layer. -/
theorem deferred_wait_completes (kind : WaitKind) (sched : Nat → PView)
    (hv : ∀ k, validState (sched k).state = true)
    (j f : Nat) (hf : j < f) (hs : mustMoveOn kind (sched j) = false) :
    ∃ a i, waitPolls kind sched f 0 = some (a, i) ∧ i ≤ j ∧ a = onwait kind (sched i) ∧ a ≠ .again ∧ waitAnsOk a = true ∧
      mustMoveOn kind (sched i) = false ∧ ∀ i' < i, mustMoveOn kind (sched i') = true := by
  have hne : onwait kind (sched (0 + j)) ≠ .again := by
    intro h
    have := ((onwait_total kind (sched j) (hv j)).2).1 (by simpa using h)
    rw [hs] at this; exact Bool.noConfusion this
  obtain ⟨i, hi, _, hij, hne', hbefore⟩ := waitPolls_completes kind sched j f 0 hf hne
  refine ⟨_, i, hi, by omega, rfl, hne', (onwait_total kind (sched i) (hv i)).1, ?_, ?_⟩
  · cases hm : mustMoveOn kind (sched i) with
    | false => rfl
    | true => exact absurd (((onwait_total kind (sched i) (hv i)).2).2 hm) hne'
  · intro i' hi'
    exact ((onwait_total kind (sched i') (hv i')).2).1 (hbefore i' (Nat.zero_le _) hi')

/-- the converse: a call still pending after `f` polls saw a must-move-on state at every one of them -/
theorem deferred_wait_pending_only_while_moving (kind : WaitKind) (sched : Nat → PView)
    (hv : ∀ k, validState (sched k).state = true) (f : Nat) (h : waitPolls kind sched f 0 = none) :
    ∀ k < f, mustMoveOn kind (sched k) = true := by
  intro k hk
  exact ((onwait_total kind (sched k) (hv k)).2).1 (waitPolls_pending kind sched f 0 h k (Nat.zero_le _) (by omega))


/-! ### the same callback inside `call` / `system.multicall` (`Cb`, `waitCb`, `single`) -/

/-- what `results` (multicall) / the answer (single call) gets for the callback's final answer -/
def elemOfAns {ν : Type} (vTrue : ν) : WaitAns → Elem ν
  | .done => .val vTrue
  | .fault n => (match faultCode n with
                 | some c => elemOfFault c
                 | none => elemOfRaised)
  | _ => elemOfRaised

theorem waitCb_onwait_now {σ ν : Type} (kind : WaitKind) (view : σ → PView) (vTrue : ν) (env : Nat → σ → σ)
    (f n k : Nat) (s : σ) (h : onwait kind (view s) ≠ .again) :
    waitCb env (f + 1) k (onwaitCb kind view vTrue (n + 1)) s = some (elemOfAns vTrue (onwait kind (view s)), s, 0) := by
  simp only [onwaitCb, waitCb]
  cases ha : onwait kind (view s) with
  | again => exact absurd ha h
  | done => simp [ansPoll, elemOfAns]
  | fault nm =>
    cases hc : faultCode nm with
    | none => simp [ansPoll, elemOfAns, hc]
    | some c => simp [ansPoll, elemOfAns, hc]
  | other w => simp [ansPoll, elemOfAns]

/-- the `Cb` form of `waitPolls_completes`: the callback is polled in the states `stateAt env k s 0, 1, …` (whatever
    `env` does to the process between ticks) and answers at the first one whose answer is not NOT_DONE_YET -/
theorem onwaitCb_completes {σ ν : Type} (kind : WaitKind) (view : σ → PView) (vTrue : ν) (env : Nat → σ → σ) (j : Nat) :
    ∀ (f n k : Nat) (s : σ), j < f → j < n → onwait kind (view (stateAt env k s j)) ≠ .again →
      ∃ t, t ≤ j ∧ waitCb env f k (onwaitCb kind view vTrue n) s =
        some (elemOfAns vTrue (onwait kind (view (stateAt env k s t))), stateAt env k s t, t) := by
  induction j with
  | zero =>
    intro f n k s hf hn h
    cases f with
    | zero => omega
    | succ f =>
      cases n with
      | zero => omega
      | succ n => exact ⟨0, Nat.le_refl _, waitCb_onwait_now kind view vTrue env f n k s h⟩
  | succ j ih =>
    intro f n k s hf hn h
    cases f with
    | zero => omega
    | succ f =>
      cases n with
      | zero => omega
      | succ n =>
        by_cases h0 : onwait kind (view s) = .again
        · obtain ⟨t, ht, hw⟩ := ih f n (k + 1) (env k s) (by omega) (by omega) h
          refine ⟨t + 1, by omega, ?_⟩
          simp only [onwaitCb, waitCb, h0, ansPoll]
          rw [hw]
          rfl
        · exact ⟨0, Nat.zero_le _, waitCb_onwait_now kind view vTrue env f n k s h0⟩

/-- a start/stop call that answers later completes — on its own, and by `multicall_sequential` as an element of a
    `system.multicall` — within `j+1` further ticks, where `j` is the first poll at which the process is in a state
    it need not move on from -/
theorem deferred_single_completes {σ ν : Type} (tbl : Table (Method σ ν)) (env : Nat → σ → σ)
    (kind : WaitKind) (view : σ → PView) (vTrue : ν) (n f k j : Nat) (c : MCall ν) (s s' : σ)
    (hc : callOne tbl c s = (.deferred (onwaitCb kind view vTrue n), s'))
    (hf : j + 1 < f) (hn : j < n)
    (hs : onwait kind (view (stateAt env (k + 1) (env k s') j)) ≠ .again) :
    ∃ e s'' t, single tbl env f k c s = some (e, s'', t) ∧ t ≤ j + 1 := by
  obtain ⟨t, ht, hw⟩ := onwaitCb_completes kind view vTrue env j (f - 1) n (k + 1) (env k s') (by omega) hn hs
  refine ⟨elemOfAns vTrue (onwait kind (view (stateAt env (k + 1) (env k s') t))), stateAt env (k + 1) (env k s') t, t + 1, ?_, by omega⟩
  simp only [single, hc]
  rw [hw]
  rfl

/-! ## marshalling: what `xmlrpc_marshal` does with the value a method returns -/

/-- a value that is not a tuple is wrapped and answered as itself -/
theorem marshal_non_tuple (sh : PyShape) (h : sh.isTuple = false) : marshalValue sh = .value := by
  simp [marshalValue, marshal_g0, marshal_g1, h]

/-- a tuple is taken for the parameter tuple: a 1-tuple answers its element, any other length trips the assertion of
    `xmlrpclib.dumps(..., methodresponse=True)` — the catch-all of continue_request turns that into an HTTP 500 -/
theorem marshal_tuple (n : Nat) : marshalValue (.tuple n) = if n = 1 then .element else .assertion := by
  by_cases h : n = 1
  · subst h; simp [marshalValue, marshal_g0, marshal_g1, PyShape.isTuple]
  · simp [marshalValue, marshal_g0, marshal_g1, PyShape.isTuple, h]

/-- … while the same value inside `system.multicall` is one element of the result list (an array): a tuple answer is
    exactly where the single call and the multicall element part (seeded change C12-6) -/
theorem tuple_answer_parts_single_from_multicall (n : Nat) (h : n ≠ 1) :
    marshalValue (.tuple n) = .assertion ∧ marshalElement (.tuple n) = .value := by
  exact ⟨by rw [marshal_tuple]; simp [h], rfl⟩

example : waitPolls .start (fun k => [⟨false, 10⟩, ⟨false, 40⟩].getD k ⟨false, 0⟩) 5 0 = some (.fault "ABNORMAL_TERMINATION", 1) := by decide
example : waitPolls .start (fun _ => ⟨false, 10⟩) 5 0 = none := by decide
example : waitPolls .stop (fun k => [⟨false, 40⟩, ⟨false, 40⟩].getD k ⟨false, 1000⟩) 5 0 = some (.done, 2) := by decide
example : marshalValue (.tuple 3) = .assertion ∧ marshalValue .list = .value := by decide

/-- **answers_never_tuples.**  No `return` expression that can reach `xmlrpc_marshal` as the answer of a public method
    of SupervisorNamespaceRPCInterface — followed through the helpers whose result is handed on (`_tailProcessLog`,
    `_readProcessLog`, `tailFile`, `_decode_log`, `make_allfunc`) and through the deferred callbacks (`onwait`,
    `allfunc`, `clearall`) — is a tuple; every helper that is handed on has its own row; every public attribute has a
    row.  By `decide` over the regenerated table.  With `marshal_non_tuple`: every such answer is marshalled as itself,
    the same in a single call and as a multicall element. -/
theorem answers_never_tuples :
    (∀ r ∈ answerShapes, ∀ sh ∈ r.2, retNotTuple sh = true) ∧
    (∀ r ∈ answerShapes, ∀ sh ∈ r.2, (match sh with | .via f => (answerShapes.lookup f).isSome | _ => true) = true) ∧
    (∀ g ∈ gateTable, (answerShapes.lookup g.1).isSome = true) := by
  decide

/-- the states the two callbacks wait in, by name -/
theorem must_move_on_states :
    (procStates.filter fun p => mustMoveOn .start ⟨false, p.2⟩).map (·.1) = ["STARTING"] ∧
    (procStates.filter fun p => mustMoveOn .start ⟨true, p.2⟩).map (·.1) = [] ∧
    (∀ se : Bool, (procStates.filter fun p => mustMoveOn .stop ⟨se, p.2⟩).map (·.1) = ["STARTING", "RUNNING", "BACKOFF", "STOPPING"]) := by
  decide

example : ∃ r ∈ answerShapes, r.1 = "_tailProcessLog" ∧ RetShape.list ∈ r.2 := by decide
example : validState 40 = true ∧ validState 41 = false := by decide

/-! ## one connection, several requests -/

/-- the two finishers reset `channel.current_request` whatever the close flag is; the channel hands on to it only when it
    is set (the regenerated facts, each for every argument) -/
theorem handover_facts :
    (∀ c, doneClears c = true) ∧ (∀ c, defRespClears c = true) ∧ chanDispatchStale false = false := by
  refine ⟨fun c => ?_, fun c => ?_, ?_⟩ <;> first | (cases c <;> decide) | decide

/-- after any request served on a channel on which no request is current, again no request is current -/
theorem serve_keeps_no_current (r : Req) (c : Chan) (h : c.current = false) :
    (serveWith doneClears defRespClears r c).1 = .answered ∧ (serveWith doneClears defRespClears r c).2.current = false := by
  obtain ⟨hd, hr, hs⟩ := handover_facts
  have hf : Chan.fresh.current = false := rfl
  cases hd' : r.deferred <;> cases ho : c.isOpen <;>
    simp [serveWith, finishWith, hd r.closeIt, hr r.closeIt, hs, h, hf, hd', ho, Chan.fresh]

/-- **every_request_on_a_connection_is_dispatched.**  For every sequence of requests made one after another on one
    connection — answered at once or later (deferred), the connection kept alive or closed by the answer (then the client
    connects anew) — every request is cracked as a NEW request and dispatched to the handler: none is handed to a request
    that has been answered before (which would answer it with HTTP 400). -/
theorem every_request_on_a_connection_is_dispatched (reqs : List Req) :
    ∀ x ∈ serveAll reqs Chan.fresh, x = .answered := by
  suffices h : ∀ (c : Chan), c.current = false → ∀ x ∈ serveAllWith doneClears defRespClears reqs c, x = .answered from
    h Chan.fresh rfl
  induction reqs with
  | nil => intro c _ x hx; simp [serveAllWith] at hx
  | cons r rest ih =>
    intro c hc x hx
    have hs := serve_keeps_no_current r c hc
    simp only [serveAllWith, List.mem_cons] at hx
    rcases hx with hx | hx
    · rw [hx]; exact hs.1
    · exact ih _ hs.2 x hx

/-- the answers are as many as the requests (none is swallowed) -/
theorem one_answer_per_request (cd cr : Bool → Bool) (reqs : List Req) (c : Chan) :
    (serveAllWith cd cr reqs c).length = reqs.length := by
  induction reqs generalizing c with
  | nil => rfl
  | cons r rest ih => simp [serveAllWith, ih]

/-- what the theorem rests on: were the reset done only when the connection is closed (cr = id), the request after a
    deferred answer on a kept-alive connection would be handed to the answered request -/
theorem stale_request_if_reset_only_on_close :
    serveAllWith (fun _ => true) (fun closeIt => closeIt) [⟨true, false⟩, ⟨false, false⟩, ⟨false, false⟩] Chan.fresh
      = [.answered, .stale, .answered] := by
  decide

example : serveAll [⟨false, false⟩, ⟨true, false⟩, ⟨false, true⟩, ⟨true, false⟩, ⟨false, false⟩] Chan.fresh
    = [.answered, .answered, .answered, .answered, .answered] := by decide

/-- **raised_fault_is_answered_as_fault.**  An `RPCError` raised by a method — at once, or later by the callback of a
    deferred answer — is turned into an `xmlrpclib.Fault` carrying its code and text, which `xmlrpc_marshal` marshals as a
    `<fault>` response (not as a successful value): a client library raises it as a Fault.  Over the regenerated
    `except RPCError` handlers of `continue_request` and `DeferredXMLRPCResponse.more`. -/
theorem raised_fault_is_answered_as_fault : ∀ deferred, raisedBecomesFault deferred = true := by
  decide

/-- **Introspection of any published method answers a text, documented or not.**  For every docstring a method of a
    registered namespace may have — including none at all — `system.methodHelp` answers a string (the text "None" for an
    undocumented method) and `system.methodSignature` has a text to parse; neither becomes an HTTP 500.  Over the regenerated
    fact of what `_listMethods` stores. -/
theorem introspection_answers_a_text_for_every_docstring :
    ∀ doc, ∃ s, methodHelpAnswer listMethodsStoresText doc = .text s := by
  intro doc
  cases doc <;> simp [methodHelpAnswer, storedHelp, listMethodsStoresText]

/-- the documented method keeps its documentation unchanged -/
theorem documented_help_is_the_docstring :
    ∀ d, methodHelpAnswer listMethodsStoresText (some d) = .text d := by
  intro d; simp [methodHelpAnswer, storedHelp, listMethodsStoresText]

/-- non-vacuity: storing the raw `__doc__` makes the help of an undocumented method an HTTP 500 -/
theorem undocumented_method_is_500_if_raw_doc_is_stored :
    methodHelpAnswer false none = .http500 := by
  decide

-- non-vacuity
def demoTable : Table (Method Nat Nat) := fun ns =>
  if ns = "supervisor".toList then some fun m =>
    if m = "getPID".toList then .boundMethod ⟨0, 0, fun _ s => (.value 7, s + 1)⟩
    else if m = "supervisord".toList then .other else .absent
  else none
example : (call demoTable "supervisor.getPID".toList [] 0).2 = 1 := by decide
example : (call demoTable "supervisor.getPID".toList [5] 0).2 = 0 := by decide
def refusal {μ : Type} : Except String μ → Option String
  | .error e => some e
  | .ok _ => none
example : refusal (resolve demoTable "supervisor.supervisord.options".toList) = some "UNKNOWN_METHOD" := by decide
example : refusal (resolve demoTable "supervisor._update".toList) = some "UNKNOWN_METHOD" := by decide
example : refusal (resolve demoTable "supervisor.supervisord".toList) = some "UNKNOWN_METHOD" := by decide
example : refusal (resolve demoTable ".".toList) = some "UNKNOWN_METHOD" := by decide
example : refusal (resolve demoTable "supervisor.getPID".toList) = none := by decide
example : splitDot "a..b".toList = ["a".toList, [], "b".toList] := by decide

end Sv.Props.C12
