"""Supervisor main loop (supervisor/supervisord.py): mood tests, signal handling, reap limit."""
import signal
from extract import Site

LEAN_MODULE = 'Sup'
IMPORTS = ['SupervisorModel.Generated.Proc']
OPENS = ['Sv.Gen.Proc']


def TABLES():
    out = []
    for n in ('SIGTERM', 'SIGINT', 'SIGQUIT', 'SIGHUP', 'SIGCHLD', 'SIGUSR2'):
        out.append('def sig%s : Int := %d' % (n[3:], int(getattr(signal, n))))
    return out


_vars = {
    'self.options.mood': ('mood', 'int'),
    'sig': ('sig', 'int'),
    'self.stopping': ('stopping', 'bool'),
    'recursionguard': ('guardN', 'int'),
    'pid': ('pid', 'int'),
    'once': ('once', 'bool'),
}
_consts = {
    'SupervisorStates.RUNNING': 'moodRUNNING', 'SupervisorStates.RESTARTING': 'moodRESTARTING',
    'SupervisorStates.SHUTDOWN': 'moodSHUTDOWN', 'SupervisorStates.FATAL': 'moodFATAL',
    'signal.SIGTERM': 'sigTERM', 'signal.SIGINT': 'sigINT', 'signal.SIGQUIT': 'sigQUIT', 'signal.SIGHUP': 'sigHUP',
    'signal.SIGCHLD': 'sigCHLD', 'signal.SIGUSR2': 'sigUSR2',
}
PARAMS = '(mood sig guardN pid : Int) (stopping once : Bool)'


def S(qual, name):
    return Site('supervisor/supervisord.py', qual, name, PARAMS, _vars, _consts, const_types={'SupervisorStates': 'int', 'signal': 'int'})


SITES = [
    S('Supervisor.runforever', 'runforever'),
    S('Supervisor.handle_signal', 'handle_signal'),
    S('Supervisor.reap', 'reap'),
]
