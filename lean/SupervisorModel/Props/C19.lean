import SupervisorModel.Lemmas.Rotate
import SupervisorModel.Lemmas.RotateSeg
import SupervisorModel.Lemmas.LogFan
/-
  C19 — rotating logs keep the newest output within the configured bounds.
  Property theorems only; the model is `Sv.Rotate` (Model/Rotate.lean), whose comparisons, loop
  bounds, name-index arithmetic, errno tests and open modes are regenerated from
  supervisor/loggers.py on every run (`Sv.Gen.Rotate`).

  Vocabulary: `run c ops` is the handler state after the constructor in an empty directory
  followed by `ops`; `(run c ops).dir.get n` is the file at name index n (0 = the configured
  path, n = "<path>.n"); `written ops` is everything handed to emit, in order;
  `chain g N` = content of .N ++ … ++ .1 ++ the log.
-/
set_option linter.unusedSimpArgs false
namespace Sv.Props.C19
open Sv Sv.Rotate Sv.Gen.Rotate

/-- "a log with maxbytes > 0 and backups = N" as handle_file builds it -/
structure Rotating (c : Cfg) : Prop where
  rot : c.rotating = true
  pos : 0 < c.maxBytes
  nonneg : 0 ≤ c.backupCount

/-- operations of the handler itself (no interference from outside) -/
def own : Op → Bool
  | .extRemove _ => false
  | .extReplace _ _ => false
  | _ => true

def writeOrReopen : Op → Bool
  | .write _ => true
  | .reopen => true
  | _ => false

theorem invB_runFrom (c : Cfg) (hc : Rotating c) (ops : List Op) :
    ∀ s, InvB c s → (∀ op ∈ ops, own op = true) → InvB c (runFrom c s ops) := by
  induction ops with
  | nil => intro s I _; exact I
  | cons op r ih =>
    intro s I h
    have hr : ∀ o ∈ r, own o = true := fun o ho => h o (List.mem_cons_of_mem _ ho)
    have h0 := h op (List.mem_cons_self ..)
    simp only [runFrom, List.foldl_cons]
    apply ih _ _ hr
    cases op with
    | write b => exact InvB_write c hc.rot hc.pos hc.nonneg s I b
    | clear => exact InvB_clear c hc.pos s I
    | reopen => exact InvB_reopen c s I
    | extRemove n => simp [own] at h0
    | extReplace n d => simp [own] at h0

/-- the invariant of every history of writes, clears and reopens -/
theorem invB_run (c : Cfg) (hc : Rotating c) (ops : List Op) (h : ∀ op ∈ ops, own op = true) :
    InvB c (run c ops) :=
  invB_runFrom c hc ops _ (InvB_init c hc.pos hc.nonneg) h

/-- **files_bounded / no holes** (writes, clears, reopens): the files present are the log and
    backups .1 … .k for some k ≤ N, nothing else. -/
theorem files_bounded_own (c : Cfg) (hc : Rotating c) (ops : List Op) (h : ∀ op ∈ ops, own op = true) :
    ((run c ops).dir.get 0).isSome = true ∧
    (∀ n, ((run c ops).dir.get n).isSome = true → 0 ≤ n ∧ n ≤ c.backupCount) ∧
    (∀ n, 0 ≤ n → ((run c ops).dir.get (n + 1)).isSome = true → ((run c ops).dir.get n).isSome = true) := by
  have I := invB_run c hc ops h
  obtain ⟨f, hf, _⟩ := I.live
  exact ⟨by rw [hf]; rfl, I.bounded, I.contig⟩

/-- **live_short**: after every completed operation the live log is shorter than maxbytes. -/
theorem live_short (c : Cfg) (hc : Rotating c) (ops : List Op) (h : ∀ op ∈ ops, own op = true) :
    ∃ f, (run c ops).dir.get 0 = some f ∧ (f.data.length : Int) < c.maxBytes :=
  (invB_run c hc ops h).live

/-- **backups_full**: every backup is at least maxbytes long. -/
theorem backups_full (c : Cfg) (hc : Rotating c) (ops : List Op) (h : ∀ op ∈ ops, own op = true)
    (n : Int) (f : File) (hn : 1 ≤ n) (hf : (run c ops).dir.get n = some f) :
    c.maxBytes ≤ (f.data.length : Int) :=
  (invB_run c hc ops h).full n f hn hf

/-- no handler operation raises, and the handler is always bound to the configured path -/
theorem no_exception_own (c : Cfg) (hc : Rotating c) (ops : List Op) (h : ∀ op ∈ ops, own op = true) :
    (run c ops).err = none ∧ (run c ops).stream = .attached 0 :=
  ⟨(invB_run c hc ops h).ok, (invB_run c hc ops h).att⟩

theorem suffix_from (c : Cfg) (hc : Rotating c) (ops : List Op) :
    ∀ s, InvB c s → (∀ op ∈ ops, writeOrReopen op = true) →
      ∃ dropped : List Bytes,
        chain s.dir.get c.backupCount.toNat ++ written ops
          = dropped.flatten ++ chain (runFrom c s ops).dir.get c.backupCount.toNat ∧
        ∀ x ∈ dropped, c.maxBytes ≤ (x.length : Int) := by
  induction ops with
  | nil => intro s _ _; exact ⟨[], by simp [written, runFrom], by simp⟩
  | cons op r ih =>
    intro s I h
    have hr : ∀ o ∈ r, writeOrReopen o = true := fun o ho => h o (List.mem_cons_of_mem _ ho)
    have h0 := h op (List.mem_cons_self ..)
    simp only [runFrom, List.foldl_cons]
    cases op with
    | write b =>
      obtain ⟨d1, e1, f1⟩ := chain_write c hc.rot hc.pos hc.nonneg s I b
      obtain ⟨d2, e2, f2⟩ := ih _ (InvB_write c hc.rot hc.pos hc.nonneg s I b) hr
      refine ⟨d1 ++ d2, ?_, ?_⟩
      · simp only [written, step, List.flatten_append, List.append_assoc]
        rw [← List.append_assoc, e1, List.append_assoc]
        simp only [runFrom, step] at e2
        rw [e2]
      · intro x hx
        rcases List.mem_append.mp hx with hx | hx
        · exact f1 x hx
        · exact f2 x hx
    | reopen =>
      obtain ⟨d2, e2, f2⟩ := ih _ (InvB_reopen c s I) hr
      refine ⟨d2, ?_, f2⟩
      simp only [written, step]
      simp only [runFrom, step] at e2
      rw [← e2]
      congr 1
      apply chain_congr
      intro n
      obtain ⟨_, _, _, g⟩ := fhReopen_spec c s I.ok
      obtain ⟨f, hf, _⟩ := I.live
      rw [g n]; simp [hf]
    | clear => simp [writeOrReopen] at h0
    | extRemove n => simp [writeOrReopen] at h0
    | extReplace n d => simp [writeOrReopen] at h0

/-- **suffix_no_gap**: after any sequence of writes (and reopens), `.N ++ … ++ .1 ++ log` is a
    suffix of everything ever written, and what is missing in front is a concatenation of whole
    files, each of which had reached maxbytes (only whole oldest files are dropped). -/
theorem suffix_no_gap (c : Cfg) (hc : Rotating c) (ops : List Op)
    (h : ∀ op ∈ ops, writeOrReopen op = true) :
    ∃ dropped : List Bytes,
      written ops = dropped.flatten ++ chain (run c ops).dir.get c.backupCount.toNat ∧
      ∀ x ∈ dropped, c.maxBytes ≤ (x.length : Int) := by
  obtain ⟨d, e, f⟩ := suffix_from c hc ops (init c) (InvB_init c hc.pos hc.nonneg) h
  refine ⟨d, ?_, f⟩
  have hi : ∀ n, content (init c).dir.get n = [] := by
    intro n
    by_cases hn : n = 0 <;> simp [content, init, openFile, fexists, modeTruncates_false, hn]
  have h0 : ∀ k, chain (init c).dir.get k = [] := by
    intro k
    induction k with
    | zero => simp [chain, hi]
    | succ k ih => simp [chain, ih, hi]
  rw [h0] at e
  simpa [run] using e

/-! ### every history, including files removed or replaced behind the handler's back -/

structure InvA (c : Cfg) (s : S) : Prop where
  wf : WF s
  bounded : ∀ n, (s.dir.get n).isSome = true → 0 ≤ n ∧ n ≤ c.backupCount

/-- an external actor that only creates files under the names the handler itself uses -/
def extWithin (N : Int) : Op → Prop
  | .extReplace n _ => 0 ≤ n ∧ n ≤ N
  | _ => True

theorem invA_step (c : Cfg) (hc : Rotating c) (s : S) (I : InvA c s) (op : Op)
    (h : extWithin c.backupCount op) : InvA c (step c s op) := by
  obtain ⟨wf, bd⟩ := I
  cases op with
  | write b =>
    simp only [step]
    rcases wf.open_ with ⟨ha, hp⟩ | ⟨f, hd⟩
    · cases h0 : s.dir.get 0 with
      | none => rw [h0] at hp; simp at hp
      | some f =>
        obtain ⟨e, st, _, g⟩ := emit_attached_gen c hc.rot hc.pos s wf.ok ha f h0 b
        refine ⟨⟨e, Or.inl ⟨st, ?_⟩⟩, ?_⟩
        · rw [g 0]; split <;> simp [rollSpec]
        · intro n
          rw [g n]
          split
          · by_cases hn : n = 0
            · subst hn; intro _; exact ⟨by omega, hc.nonneg⟩
            · simpa [hn] using bd n
          · apply rollSpec_bounded _ hc.nonneg
            intro m
            by_cases hm : m = 0
            · subst hm; intro _; exact ⟨by omega, hc.nonneg⟩
            · simpa [hm] using bd m
    · obtain ⟨e, _, g⟩ := emit_detached_gen c hc.rot hc.pos s wf.ok f hd b
      by_cases hl : ((f.data ++ b).length : Int) < c.maxBytes
      · rw [if_pos hl] at g
        refine ⟨⟨e, Or.inr ⟨_, g.1⟩⟩, ?_⟩
        intro n; rw [g.2 n]; exact bd n
      · rw [if_neg hl] at g
        refine ⟨⟨e, Or.inl ⟨g.1, ?_⟩⟩, ?_⟩
        · rw [g.2 0]; simp [rollSpec]
        · intro n; rw [g.2 n]
          exact rollSpec_bounded _ hc.nonneg _ _ bd n
  | clear =>
    obtain ⟨e, st, _, g⟩ := clear_spec c s wf.ok
    show InvA c (fhReopen c (fhRemove s))
    refine ⟨⟨e, Or.inl ⟨st, by rw [g 0]; simp⟩⟩, ?_⟩
    intro n; rw [g n]
    by_cases hn : n = 0
    · subst hn; intro _; exact ⟨by omega, hc.nonneg⟩
    · simpa [hn] using bd n
  | reopen =>
    obtain ⟨e, st, _, g⟩ := fhReopen_spec c s wf.ok
    show InvA c (fhReopen c s)
    refine ⟨⟨e, Or.inl ⟨st, ?_⟩⟩, ?_⟩
    · rw [g 0]; cases h0 : s.dir.get 0 <;> simp
    · intro n; rw [g n]
      by_cases hn : n = 0
      · subst hn; intro _; exact ⟨by omega, hc.nonneg⟩
      · simpa [hn] using bd n
  | extRemove n =>
    obtain ⟨ws, e, _, hd, hs⟩ := ext_spec n s wf (fun d => dirRemove d n) (extRemove n) rfl
    refine ⟨⟨e, ?_⟩, ?_⟩
    · rcases ws with ha | hf
      · obtain ⟨ha0, hn⟩ := hs ha
        rcases wf.open_ with ⟨_, hp⟩ | ⟨f, hf⟩
        · refine Or.inl ⟨ha, ?_⟩
          simp only [step, hd, get_dirRemove]
          have : ¬ (0 : Int) = n := fun h => hn h.symm
          simpa [this] using hp
        · rw [hf] at ha0; simp at ha0
      · exact Or.inr hf
    · intro m
      simp only [step, hd, get_dirRemove]
      by_cases hm : m = n
      · simp [hm]
      · simpa [hm] using bd m
  | extReplace n d =>
    obtain ⟨ws, e, _, hd, hs⟩ := ext_spec n s wf (fun dd => dirSet dd n ⟨0, false, d⟩) (extReplace n d) rfl
    refine ⟨⟨e, ?_⟩, ?_⟩
    · rcases ws with ha | hf
      · obtain ⟨ha0, hn⟩ := hs ha
        rcases wf.open_ with ⟨_, hp⟩ | ⟨f, hf⟩
        · refine Or.inl ⟨ha, ?_⟩
          simp only [step, hd, get_dirSet]
          have : ¬ (0 : Int) = n := fun h => hn h.symm
          simpa [this] using hp
        · rw [hf] at ha0; simp at ha0
      · exact Or.inr hf
    · intro m
      simp only [step, hd, get_dirSet]
      by_cases hm : m = n
      · subst hm; intro _; exact h
      · simpa [hm] using bd m

theorem invA_init (c : Cfg) (hc : Rotating c) : InvA c (init c) := by
  have I := InvB_init c hc.pos hc.nonneg
  obtain ⟨f, hf, _⟩ := I.live
  exact ⟨⟨I.ok, Or.inl ⟨I.att, by rw [hf]; rfl⟩⟩, I.bounded⟩

theorem invA_runFrom (c : Cfg) (hc : Rotating c) (ops : List Op) :
    ∀ s, InvA c s → (∀ op ∈ ops, extWithin c.backupCount op) → InvA c (runFrom c s ops) := by
  induction ops with
  | nil => intro s I _; exact I
  | cons op r ih =>
    intro s I h
    simp only [runFrom, List.foldl_cons]
    exact ih _ (invA_step c hc s I op (h op (List.mem_cons_self ..)))
      (fun o ho => h o (List.mem_cons_of_mem _ ho))

/-- **files_bounded**: in every history — writes of any size, clears, reopens, files removed
    or replaced from outside (under names the handler uses) — the only files present are the
    log and backups .1 … .N; and no handler operation ever raises. -/
theorem files_bounded (c : Cfg) (hc : Rotating c) (ops : List Op)
    (h : ∀ op ∈ ops, extWithin c.backupCount op) :
    (run c ops).err = none ∧
    ∀ n, ((run c ops).dir.get n).isSome = true → 0 ≤ n ∧ n ≤ c.backupCount := by
  have I := invA_runFrom c hc ops _ (invA_init c hc) h
  exact ⟨I.wf.ok, I.bounded⟩

/-! ### maxbytes = 0, backups = 0, clear / reopen -/

/-- the state of a log that is never rotated: one file holding `W` -/
structure InvZ (W : Bytes) (s : S) : Prop where
  ok : s.err = none
  att : s.stream = .attached 0
  base : ∃ f, s.dir.get 0 = some f ∧ f.data = W
  only : ∀ n, n ≠ 0 → s.dir.get n = none

theorem emit_off (c : Cfg) (hoff : c.rotating = false ∨ c.maxBytes ≤ 0) (s : S) (h : s.err = none)
    (hs : s.stream = .attached 0) (f : File) (hf : s.dir.get 0 = some f) (b : Bytes) :
    emit c b s = ⟨dirSet s.dir 0 ⟨f.start, f.own, f.data ++ b⟩, .attached 0, s.hist + b.length, none⟩ := by
  unfold emit
  rw [okThen_ok _ _ h]
  have hs1 : ({ streamWrite b s with hist := s.hist + b.length } : S) =
      ⟨dirSet s.dir 0 ⟨f.start, f.own, f.data ++ b⟩, .attached 0, s.hist + b.length, none⟩ := by
    simp [streamWrite, hs, hf, h]
  rw [hs1]
  rcases hoff with hr | hm
  · simp [hr]
  · rw [doRollover_off c _ hm]; simp

theorem invZ_runFrom (c : Cfg) (hoff : c.rotating = false ∨ c.maxBytes ≤ 0) (ops : List Op) :
    ∀ s W, InvZ W s → (∀ op ∈ ops, writeOrReopen op = true) → InvZ (W ++ written ops) (runFrom c s ops) := by
  induction ops with
  | nil => intro s W I _; simpa [written, runFrom] using I
  | cons op r ih =>
    intro s W I h
    have hr : ∀ o ∈ r, writeOrReopen o = true := fun o ho => h o (List.mem_cons_of_mem _ ho)
    have h0 := h op (List.mem_cons_self ..)
    obtain ⟨f, hf, hW⟩ := I.base
    simp only [runFrom, List.foldl_cons]
    cases op with
    | write b =>
      have := ih (step c s (.write b)) (W ++ b) ?_ hr
      · simpa [written, runFrom, List.append_assoc] using this
      · simp only [step]
        rw [emit_off c hoff s I.ok I.att f hf b]
        refine ⟨rfl, rfl, ⟨⟨f.start, f.own, f.data ++ b⟩, by simp, by simp [hW]⟩, ?_⟩
        intro n hn
        simpa [hn] using I.only n hn
    | reopen =>
      have := ih (step c s .reopen) W ?_ hr
      · simpa [written, runFrom] using this
      · obtain ⟨e, st, _, g⟩ := fhReopen_spec c s I.ok
        show InvZ W (fhReopen c s)
        refine ⟨e, st, ⟨f, by rw [g 0]; simp [hf], hW⟩, ?_⟩
        intro n hn
        rw [g n]; simpa [hn] using I.only n hn
    | clear => simp [writeOrReopen] at h0
    | extRemove n => simp [writeOrReopen] at h0
    | extReplace n d => simp [writeOrReopen] at h0

/-- **maxbytes0_never**: with maxbytes = 0 (handle_file then builds a plain FileHandler; a
    RotatingFileHandler with maxBytes ≤ 0 behaves the same) nothing is ever rotated or dropped:
    the log holds everything written and no other file exists. -/
theorem maxbytes0_never (c : Cfg) (hoff : c.rotating = false ∨ c.maxBytes ≤ 0) (ops : List Op)
    (h : ∀ op ∈ ops, writeOrReopen op = true) :
    (run c ops).err = none ∧
    (∃ f, (run c ops).dir.get 0 = some f ∧ f.data = written ops) ∧
    ∀ n, n ≠ 0 → (run c ops).dir.get n = none := by
  have I0 : InvZ [] (init c) := by
    refine ⟨by simp [init, openFile, fexists], by simp [init, openFile, fexists],
      ⟨⟨0, true, []⟩, by simp [init, openFile, fexists], rfl⟩, ?_⟩
    intro n hn
    simp [init, openFile, fexists, hn]
  have I := invZ_runFrom c hoff ops _ _ I0 h
  simp only [List.nil_append] at I
  exact ⟨I.ok, I.base, I.only⟩

/-- what one write does when the handler is bound to the configured path (any directory
    contents, also after external interference): it appends to the log, or — when that makes
    the log reach maxbytes — the log with the new bytes becomes `.1` (if backups are kept) and
    the log at the configured path is empty.  The handler stays bound to the configured path. -/
theorem write_at_path (c : Cfg) (hc : Rotating c) (s : S) (h : s.err = none)
    (hs : s.stream = .attached 0) (f : File) (hf : s.dir.get 0 = some f) (b : Bytes) :
    (step c s (.write b)).err = none ∧ (step c s (.write b)).stream = .attached 0 ∧
    (((f.data ++ b).length : Int) < c.maxBytes →
        content (step c s (.write b)).dir.get 0 = f.data ++ b ∧
        ∀ n, n ≠ 0 → (step c s (.write b)).dir.get n = s.dir.get n) ∧
    (c.maxBytes ≤ ((f.data ++ b).length : Int) →
        (step c s (.write b)).dir.get 0 = some ⟨s.hist + b.length, true, []⟩ ∧
        (0 < c.backupCount → content (step c s (.write b)).dir.get 1 = f.data ++ b)) := by
  obtain ⟨e, st, _, g⟩ := emit_attached_gen c hc.rot hc.pos s h hs f hf b
  refine ⟨e, st, ?_, ?_⟩
  · intro hl
    simp only [step, content, g, if_pos hl]
    refine ⟨by simp, ?_⟩
    intro n hn; simp [hn]
  · intro hl
    have hl' : ¬ ((f.data ++ b).length : Int) < c.maxBytes := by omega
    simp only [step, content, g, if_neg hl']
    refine ⟨by simp [rollSpec], ?_⟩
    intro hN
    simp [rollSpec, hN]

/-- **backups0_truncates**: with backups = 0 the log is emptied when it reaches maxbytes (and
    no backup is ever created): after a write the log holds old ++ new if that is shorter than
    maxbytes, and nothing otherwise. -/
theorem backups0_truncates (c : Cfg) (hc : Rotating c) (h0 : c.backupCount = 0) (ops : List Op)
    (h : ∀ op ∈ ops, own op = true) (b : Bytes) :
    ∃ f, (run c ops).dir.get 0 = some f ∧
      content (run c (ops ++ [.write b])).dir.get 0
        = (if ((f.data ++ b).length : Int) < c.maxBytes then f.data ++ b else []) ∧
      ∀ n, n ≠ 0 → (run c (ops ++ [.write b])).dir.get n = none := by
  have I := invB_run c hc ops h
  obtain ⟨f, hf, _⟩ := I.live
  refine ⟨f, hf, ?_⟩
  have hrun : run c (ops ++ [.write b]) = step c (run c ops) (.write b) := by
    simp [run, runFrom, List.foldl_append]
  obtain ⟨_, _, hlt, hge⟩ := write_at_path c hc (run c ops) I.ok I.att f hf b
  have I' : InvB c (run c (ops ++ [.write b])) := by
    apply invB_run c hc
    intro op hop
    rcases List.mem_append.mp hop with hop | hop
    · exact h op hop
    · simp only [List.mem_singleton] at hop; subst hop; rfl
  refine ⟨?_, ?_⟩
  · rw [hrun]
    by_cases hl : ((f.data ++ b).length : Int) < c.maxBytes
    · rw [if_pos hl]; exact (hlt hl).1
    · rw [if_neg hl]
      have := (hge (by omega)).1
      simp [content, this]
  · intro n hn
    cases hg : (run c (ops ++ [.write b])).dir.get n with
    | none => rfl
    | some x =>
      have := I'.bounded n (by rw [hg]; rfl)
      omega

/-- **clear_reopen_safe** (1): whatever happened before — including the log having been removed
    or replaced from outside — after `clear` (clearProcessLogs) or `reopen` (SIGUSR2, clearLog)
    the handler has not raised, is bound to the file at the configured path, and that file
    exists; `clear` leaves it empty and touches no backup, `reopen` changes no existing file. -/
theorem clear_reopen_safe (c : Cfg) (s : S) (h : s.err = none) :
    ((step c s .clear).err = none ∧ (step c s .clear).stream = .attached 0 ∧
      (step c s .clear).dir.get 0 = some ⟨s.hist, true, []⟩ ∧
      ∀ n, n ≠ 0 → (step c s .clear).dir.get n = s.dir.get n) ∧
    ((step c s .reopen).err = none ∧ (step c s .reopen).stream = .attached 0 ∧
      ((step c s .reopen).dir.get 0).isSome = true ∧
      ∀ n, (s.dir.get n).isSome = true → (step c s .reopen).dir.get n = s.dir.get n) := by
  obtain ⟨e1, s1, _, g1⟩ := clear_spec c s h
  obtain ⟨e2, s2, _, g2⟩ := fhReopen_spec c s h
  refine ⟨⟨e1, s1, by show (fhReopen c (fhRemove s)).dir.get 0 = _; rw [g1]; simp, ?_⟩, ⟨e2, s2, ?_, ?_⟩⟩
  · intro n hn
    show (fhReopen c (fhRemove s)).dir.get n = _
    rw [g1]; simp [hn]
  · show ((fhReopen c s).dir.get 0).isSome = true
    rw [g2]; cases h0 : s.dir.get 0 <;> simp
  · intro n hn
    show (fhReopen c s).dir.get n = _
    rw [g2]
    by_cases h0 : n = 0
    · subst h0; simp [hn]
    · simp [h0]

/-- **clear_reopen_safe** (2): output written after a clear or reopen is never lost, however
    the directory looked before: for every later sequence of writes and reopens the files
    `.N … .1, log` end with everything written since, up to whole oldest files that had reached
    maxbytes.  (Stated from any state satisfying the own-operations invariant, which `clear` and
    `reopen` re-establish — `InvB_clear`, `InvB_reopen`.) -/
theorem nothing_lost_after (c : Cfg) (hc : Rotating c) (s : S) (I : InvB c s) (ops : List Op)
    (h : ∀ op ∈ ops, writeOrReopen op = true) :
    ∃ dropped : List Bytes,
      chain s.dir.get c.backupCount.toNat ++ written ops
        = dropped.flatten ++ chain (runFrom c s ops).dir.get c.backupCount.toNat ∧
      ∀ x ∈ dropped, c.maxBytes ≤ (x.length : Int) :=
  suffix_from c hc ops s I h

/-- the contrast that makes `clear_reopen_safe` non-trivial: when the log is removed from
    outside and the handler is *not* told to reopen, later output goes to a file nobody can
    see and is gone at the next rollover. -/
theorem lost_without_reopen :
    let s := run ⟨true, 4, 1⟩ [.write [1], .extRemove 0, .write [2, 3], .write [4, 5]]
    s.err = none ∧ s.dir.get 1 = none ∧ (s.dir.get 0).map (·.data) = some [] := by
  decide

/-! ### the dispatcher level: clear / reopen reach the log file in every mode -/

/-- **reopen/clear act on the normal log whatever the mode**: `POutputDispatcher.reopenlogs()`
    (SIGUSR2) and `removelogs()` (clearProcessLogs) do to the channel's log file exactly what
    the operations `reopen` and `clear` of this file do — outside and *inside* a capture section
    (where `childlog` is the in-memory capture log).  So every theorem above about histories of
    `write`, `clear`, `reopen` holds for a child's stdout/stderr log in capture mode too.  The
    loggers walked and the handler methods called are regenerated from dispatchers.py. -/
theorem dispatcher_ops_reach_log (c : Cfg) (capturemode : Bool) (s : S) :
    dispReopenlogs c capturemode s = step c s .reopen ∧
    dispRemovelogs c capturemode s = step c s .clear := by
  have h1 : reachesNormalLog reopenlogs_targets capturemode = true := by cases capturemode <;> decide
  have h2 : reachesNormalLog removelogs_targets capturemode = true := by cases capturemode <;> decide
  refine ⟨?_, ?_⟩
  · simp [dispReopenlogs, h1, reopenlogs_calls, handlerCalls, step]
  · simp [dispRemovelogs, h2, removelogs_calls, handlerCalls, step]

/-! ### segments_ordered: every history, all five kinds of operation -/

def noReplace : Op → Bool
  | .extReplace _ _ => false
  | _ => true

theorem segInv_step (c : Cfg) (hc : Rotating c) (W : Bytes) (s : S) (I : SegInv W s) (op : Op) :
    SegInv (W ++ written [op]) (step c s op) ∧
    (noReplace op = true → AllOwn s.dir.get → AllOwn (step c s op).dir.get) := by
  cases op with
  | write b =>
    have := segInv_write c hc.rot hc.pos W s I b
    simpa [written, step] using ⟨this.1, fun _ => this.2⟩
  | clear =>
    have := segInv_clear c W s I
    simpa [written, step] using ⟨this.1, fun _ => this.2⟩
  | reopen =>
    have := segInv_reopen c W s I
    simpa [written, step] using ⟨this.1, fun _ => this.2⟩
  | extRemove k =>
    have h1 : SegInv W (extRemove k s) :=
      segInv_ext W s I k (fun d => dirRemove d k) (extRemove k) rfl
        (fun m => if m = k then none else s.dir.get m) rfl (segDir_remove W _ I.dir k)
        (by intro hk x hx; simp [hk] at hx)
        (by intro hk; have : ¬ (0 : Int) = k := fun h => hk h.symm; simp [this])
    refine ⟨by simpa [written, step] using h1, ?_⟩
    intro _ ao
    obtain ⟨_, _, hd, _⟩ := ext_spec2 k s I.wf (fun d => dirRemove d k) (extRemove k) rfl
    show AllOwn (extRemove k s).dir.get
    rw [hd]
    exact allOwn_remove _ ao k
  | extReplace k d =>
    have h1 : SegInv W (extReplace k d s) :=
      segInv_ext W s I k (fun dd => dirSet dd k ⟨0, false, d⟩) (extReplace k d) rfl
        (fun m => if m = k then some ⟨0, false, d⟩ else s.dir.get m) rfl (segDir_foreign W _ I.dir k d)
        (by intro hk x hx; simp [hk] at hx; rw [← hx])
        (by intro hk; have : ¬ (0 : Int) = k := fun h => hk h.symm; simp [this])
    refine ⟨by simpa [written, step] using h1, ?_⟩
    intro h; simp [noReplace] at h

theorem written_cons (op : Op) (r : List Op) : written (op :: r) = written [op] ++ written r := by
  cases op <;> simp [written]

theorem segInv_runFrom (c : Cfg) (hc : Rotating c) (ops : List Op) :
    ∀ s W, SegInv W s →
      SegInv (W ++ written ops) (runFrom c s ops) ∧
      ((∀ op ∈ ops, noReplace op = true) → AllOwn s.dir.get → AllOwn (runFrom c s ops).dir.get) := by
  induction ops with
  | nil => intro s W I; exact ⟨by simpa [written, runFrom] using I, fun _ h => h⟩
  | cons op r ih =>
    intro s W I
    obtain ⟨I1, a1⟩ := segInv_step c hc W s I op
    obtain ⟨I2, a2⟩ := ih (step c s op) (W ++ written [op]) I1
    simp only [runFrom, List.foldl_cons]
    refine ⟨?_, ?_⟩
    · rw [written_cons, ← List.append_assoc]; exact I2
    · intro h ao
      exact a2 (fun o ho => h o (List.mem_cons_of_mem _ ho)) (a1 (h op (List.mem_cons_self ..)) ao)

theorem segInv_init (c : Cfg) : SegInv [] (init c) ∧ AllOwn (init c).dir.get := by
  have hg : (init c).dir.get = fun n => if n = 0 then some ⟨0, true, []⟩ else none := by
    funext n
    simp [init, openFile, fexists]
  have hd : SegDir [] (fun n : Int => if n = 0 then some (⟨0, true, []⟩ : File) else none) := by
    have := segDir_new0 [] (fun _ => none) ⟨by simp, by simp, by simp⟩
    simpa using this
  refine ⟨⟨by simp [init, openFile, fexists], by simp [init, openFile, fexists], by rw [hg]; exact hd,
    Or.inl ⟨by simp [init, openFile, fexists], ⟨0, true, []⟩, by rw [hg]; simp, by intro _; simp [fend]⟩⟩, ?_⟩
  rw [hg]
  intro n f hf
  by_cases hn : n = 0
  · simp [hn] at hf; rw [← hf]
  · simp [hn] at hf

/-- **segments_ordered**: in every history — writes of any size, clears, reopens, files removed
    and files replaced from outside, in any interleaving — every file that the handler itself
    created (`own`; files put there from outside hold foreign data and are excluded) holds a
    contiguous segment of the write history: `written = pre ++ content ++ post`, the segment
    starting at the history offset at which the file was created; such files exist only under
    the names the handler uses (index ≥ 0); and they are age-ordered and disjoint: a file under a
    higher backup index ends in the history before any file under a lower index begins.  So
    nothing is ever reordered or duplicated, and the only bytes of the history missing from the
    directory are the gaps *between* these segments — which `suffix_no_gap` /
    `nothing_lost_after` (whole dropped oldest files), `clear_reopen_safe` (the log emptied by a
    clear) and `lost_without_reopen` (files removed from outside) account for. -/
theorem segments_ordered (c : Cfg) (hc : Rotating c) (ops : List Op) :
    (∀ n f, (run c ops).dir.get n = some f → f.own = true →
        ∃ pre post : Bytes, written ops = pre ++ f.data ++ post ∧ pre.length = f.start) ∧
    (∀ n f, (run c ops).dir.get n = some f → f.own = true → 0 ≤ n) ∧
    (∀ n m f g, (run c ops).dir.get n = some f → (run c ops).dir.get m = some g →
        f.own = true → g.own = true → m < n → f.start + f.data.length ≤ g.start) := by
  have I := (segInv_runFrom c hc ops (init c) [] (segInv_init c).1).1
  simp only [List.nil_append] at I
  exact ⟨I.dir.seg, I.dir.nonneg, I.dir.order⟩

/-- the same without the ghost fields, for histories in which nothing is *replaced* from outside
    (writes, clears, reopens, external removals): there is an offset for every name such that
    each file present is the history segment at its offset, and the segments are age-ordered. -/
theorem segments_ordered_no_replace (c : Cfg) (hc : Rotating c) (ops : List Op)
    (h : ∀ op ∈ ops, noReplace op = true) :
    ∃ off : Int → Nat,
      (∀ n f, (run c ops).dir.get n = some f →
          ∃ pre post : Bytes, written ops = pre ++ f.data ++ post ∧ pre.length = off n) ∧
      (∀ n m f g, (run c ops).dir.get n = some f → (run c ops).dir.get m = some g → m < n →
          off n + f.data.length ≤ off m) := by
  obtain ⟨I, ao⟩ := segInv_runFrom c hc ops (init c) [] (segInv_init c).1
  have ao := ao h (segInv_init c).2
  simp only [List.nil_append] at I
  refine ⟨fun n => (((run c ops).dir.get n).map (·.start)).getD 0, ?_, ?_⟩
  · intro n f hf
    obtain ⟨pre, post, e, hl⟩ := I.dir.seg n f hf (ao n f hf)
    exact ⟨pre, post, e, by simp only [hf, Option.map_some, Option.getD_some]; exact hl⟩
  · intro n m f g hf hg hlt
    have := I.dir.order n m f g hf hg (ao n f hf) (ao m g hg) hlt
    simp only [hf, hg, Option.map_some, Option.getD_some]
    exact this

-- a file replaced from outside is not a segment, which is why `own` is in the statement
example : ((run ⟨true, 4, 1⟩ [.write [1], .extReplace 1 [9, 9]]).dir.get 1).map (·.own) = some false := by decide
example : ((run ⟨true, 4, 1⟩ [.write [1, 2], .extRemove 0, .write [3], .reopen, .write [4, 5, 6, 7], .write [8]]).dir.get 1).map
    (fun f => (f.start, f.own, f.data)) = some (3, true, [4, 5, 6, 7]) := by decide

-- non-vacuity of the hypotheses
example : ∀ op ∈ [Op.write [1], .clear, .reopen], own op = true := by decide
example : ∀ op ∈ [Op.write [1], .reopen], writeOrReopen op = true := by decide
example : ∀ op ∈ [Op.write [1], .extRemove 0, .extReplace 2 [7]], extWithin 2 op := by
  intro op h; simp at h; rcases h with h | h | h <;> subst h <;> simp [extWithin]
example : InvB ⟨true, 4, 2⟩ (init ⟨true, 4, 2⟩) := InvB_init _ (by decide) (by decide)
-- non-vacuity: a history with three rollovers, backups = 1, maxbytes = 3
example : Rotating ⟨true, 3, 1⟩ := ⟨rfl, by decide, by decide⟩
example : ((run ⟨true, 3, 1⟩ [.write [1,2], .write [3], .reopen, .write [4,5,6,7], .write [8]]).dir.get 1).map (·.data)
    = some [4,5,6,7] := by decide
example : ((run ⟨true, 3, 1⟩ [.write [1,2], .write [3], .reopen, .write [4,5,6,7], .write [8]]).dir.get 0).map (·.data)
    = some [8] := by decide

/-! ### the clear / reopen fan-out: every log an operation is about is reached

  A logger is a list of handlers (in foreground mode `make_logger()` puts a stdout handler in
  front of the file handler); a process has several dispatchers, a group several processes, the
  daemon several groups.  clearLog, ServerOptions.reopenlogs, SIGUSR2, clearProcessLogs and
  clearAllProcessLogs are loops over these.  The loop bodies are regenerated from the source
  (`Sv.Gen.Rotate.*_body`, interpreted by `Sv.LogFan.forEach` including break / continue /
  return); the theorems below hold because the bodies have no early exit. -/
section Fan
open Sv.LogFan

/-- **extracted structural fact**: the handler loops of `rpcinterface.clearLog()` and
    `ServerOptions.reopenlogs()` consist of fixed log messages and `handler.reopen()` under
    `if hasattr(handler, 'reopen')` only — no break / continue / return / raise, no other
    condition — and nothing but a plain `return` follows them. -/
theorem handler_loops_no_early_exit :
    SafeReopenBody clearLog_body = true ∧ postOk clearLog_post = true ∧ clearLog_pre = [] ∧
    SafeReopenBody optReopenlogs_body = true ∧ postOk optReopenlogs_post = true := by decide

/-- **extracted structural fact**: the loops over a process's dispatchers, a group's processes
    and the daemon's groups (removelogs / reopenlogs / SIGUSR2) call the element's method and do
    nothing else: no early exit, no condition other than the matching `hasattr`. -/
theorem process_loops_no_early_exit :
    spRemovelogs_body.all okElemStmt = true ∧ spReopenlogs_body.all okElemStmt = true ∧
    pgRemovelogs_body.all okElemStmt = true ∧ pgReopenlogs_body.all okElemStmt = true ∧
    (∀ m ∈ supervisorMoods, (sigusr2_body m).all okElemStmt = true) ∧
    spRemovelogs_pre = [] ∧ spReopenlogs_pre = [] ∧ pgRemovelogs_pre = [] ∧ pgReopenlogs_pre = [] ∧
    postOk spRemovelogs_post = true ∧ postOk spReopenlogs_post = true ∧
    postOk pgRemovelogs_post = true ∧ postOk pgReopenlogs_post = true ∧
    (∀ m ∈ supervisorMoods, postOk (sigusr2_post m) = true) := by decide

/-- **extracted structural fact**: `Supervisor.handle_signal()` specialised to SIGUSR2 consists, in *every* mood of
    the daemon (RUNNING, RESTARTING, SHUTDOWN, FATAL), of the same statements: the log message,
    `self.options.reopenlogs()`, and the loop over all groups calling `group.reopenlogs()` — no mood in which the
    request is only logged or the loop is missing. -/
theorem sigusr2_same_in_every_mood :
    ∀ m ∈ supervisorMoods,
      sigusr2_pre m = [⟨[], "logger.info", "?"⟩, ⟨[], "call", "self.options.reopenlogs"⟩] ∧
      sigusr2_loops m = true ∧ sigusr2_body m = [⟨[], "elem.reopenlogs", ""⟩] := by decide

/-- the moods the daemon is in between start and exit are among them -/
theorem moods_listed : "RUNNING" ∈ supervisorMoods ∧ "RESTARTING" ∈ supervisorMoods ∧ "SHUTDOWN" ∈ supervisorMoods := by decide

/-- what a later write does in a handler that is bound to its configured path, in every
    configuration: it is in the file at that path (or, when that fills a rotating log, in `.1`
    with a new empty log at the path), and the handler stays bound -/
def LandsAtPath (c : Cfg) (s : S) (f : File) (b : Bytes) : Prop :=
  Bound (emit c b s) ∧
  ((c.rotating = false ∨ c.maxBytes ≤ 0) → content (emit c b s).dir.get 0 = f.data ++ b) ∧
  (c.rotating = true → 0 < c.maxBytes → ((f.data ++ b).length : Int) < c.maxBytes →
      content (emit c b s).dir.get 0 = f.data ++ b) ∧
  (c.rotating = true → 0 < c.maxBytes → c.maxBytes ≤ ((f.data ++ b).length : Int) →
      (emit c b s).dir.get 0 = some ⟨s.hist + b.length, true, []⟩ ∧
      (0 < c.backupCount → content (emit c b s).dir.get 1 = f.data ++ b))

theorem bound_write_lands (c : Cfg) (s : S) (hb : Bound s) (f : File) (hf : s.dir.get 0 = some f) (b : Bytes) :
    LandsAtPath c s f b := by
  refine ⟨(emit_any c s hb.wf b).2.2.1 hb, ?_, ?_, ?_⟩
  · intro hoff
    rw [emit_off_attached c hoff s hb.ok hb.att f hf b]
    simp [content]
  · intro hr hm hl
    obtain ⟨_, _, _, g⟩ := emit_attached_gen c hr hm s hb.ok hb.att f hf b
    simp only [content, g, if_pos hl]
    simp
  · intro hr hm hl
    obtain ⟨_, _, _, g⟩ := emit_attached_gen c hr hm s hb.ok hb.att f hf b
    have hl' : ¬ ((f.data ++ b).length : Int) < c.maxBytes := by omega
    simp only [content, g, if_neg hl']
    refine ⟨by simp [rollSpec], ?_⟩
    intro hN
    simp [rollSpec, hN]

/-- **clearLog reaches every file handler**: for *every* list of handlers (a stdout handler or a
    handler without reopen() before, between or after the file handlers — in particular the
    foreground logger `[stdout, file]`), whatever happened to the files before: clearLog does not
    fail, and afterwards every file-backed handler is bound to a file at its configured path
    which is a *fresh* one — created by the handler itself, not before the clear began (so not
    the file that was unlinked, and nothing written before the clear is in it). -/
theorem clearLog_every_file_handler_fresh (fmt : String → Bytes) (hs : List Handler)
    (hwf : ∀ (j : Nat) c s, hs[j]? = some (Handler.file c s) → WF s)
    (hp : logfilePresent 0 hs = true) :
    ∃ hs', LogFan.clearLog fmt hs = some hs' ∧ hs'.length = hs.length ∧
      ∀ (j : Nat) c s, hs[j]? = some (Handler.file c s) →
        ∃ s' f, hs'[j]? = some (Handler.file c s') ∧ Bound s' ∧ s'.dir.get 0 = some f ∧
          f.own = true ∧ s.hist ≤ f.start ∧ s.hist ≤ s'.hist := by
  obtain ⟨hb, hpost, hpre, _, _⟩ := handler_loops_no_early_exit
  have hidx : clearLog_removedIdx = 0 := rfl
  have hwf' : ∀ (j : Nat) c s1, (hs.map (unlinkH 0))[j]? = some (Handler.file c s1) → WF s1 := by
    intro j c s1 h
    simp only [List.getElem?_map, Option.map_eq_some_iff] at h
    obtain ⟨x, hx, hu⟩ := h
    cases x with
    | stream n => simp [unlinkH] at hu
    | bare n => simp [unlinkH] at hu
    | file c0 s0 =>
      simp only [unlinkH, Handler.file.injEq] at hu
      obtain ⟨rfl, rfl⟩ := hu
      exact (unlink_any s0 (hwf j c0 s0 hx)).1
  obtain ⟨xs', h, hl, hall⟩ := forEach_safe fmt clearLog_body hb (hs.map (unlinkH 0)) hwf'
  refine ⟨xs', ?_, by simpa using hl, ?_⟩
  · simp [LogFan.clearLog, hidx, hp, hpost, hpre, h]
  · intro j c s hj
    have ha : (hs.map (unlinkH 0))[j]? = some (Handler.file c (extRemove 0 s)) := by
      simp [List.getElem?_map, hj, unlinkH]
    have hjl : j < xs'.length := by
      rw [hl]; simp
      rcases Nat.lt_or_ge j hs.length with h | h
      · exact h
      · have : hs[j]? = none := by simp [h]
        rw [this] at hj; cases hj
    obtain ⟨e, bd⟩ := hall j _ xs'[j] ha (by simp [hjl])
    obtain ⟨w1, hi1, fr1⟩ := unlink_any s (hwf j c s hj)
    cases hx : xs'[j] with
    | stream n => rw [hx] at e; simp [Ev] at e
    | bare n => rw [hx] at e; simp [Ev] at e
    | file c' s' =>
      rw [hx] at e bd
      obtain ⟨rfl, _, hh, fr⟩ := e
      rw [hi1] at hh fr
      have bd' : Bound s' := bd
      cases h0 : s'.dir.get 0 with
      | none => have := bd'.present; rw [h0] at this; simp at this
      | some f =>
        obtain ⟨o, st⟩ := fr fr1 f h0
        exact ⟨s', f, by simp [hjl, hx], bd', h0, o, st, hh⟩

/-- clearLog on a log that is not there answers NO_FILE and does nothing -/
theorem clearLog_absent (fmt : String → Bytes) (hs : List Handler) (hp : logfilePresent 0 hs = false) :
    LogFan.clearLog fmt hs = some hs := by
  have hidx : clearLog_removedIdx = 0 := rfl
  simp [LogFan.clearLog, hidx, hp]

/-- **every write after clearLog is in the file at the configured path**: in every handler list
    and every configuration of the file handler, the message logged next is in the fresh file
    at the configured path, preceded only by what was logged since the clear (or, when it fills
    a rotating log, in `.1` with a new empty log at the path) — and the handler stays bound to
    the path, so the same holds for the message after that (`bound_write_lands`). -/
theorem write_after_clearLog_at_path (fmt : String → Bytes) (hs : List Handler)
    (hwf : ∀ (j : Nat) c s, hs[j]? = some (Handler.file c s) → WF s)
    (hp : logfilePresent 0 hs = true) (b : Bytes) :
    ∃ hs', LogFan.clearLog fmt hs = some hs' ∧
      ∀ (j : Nat) c s, hs[j]? = some (Handler.file c s) →
        ∃ s' f, hs'[j]? = some (Handler.file c s') ∧ s'.dir.get 0 = some f ∧ s.hist ≤ f.start ∧
          (logAll b hs')[j]? = some (Handler.file c (emit c b s')) ∧ LandsAtPath c s' f b := by
  obtain ⟨hs', h, _, hall⟩ := clearLog_every_file_handler_fresh fmt hs hwf hp
  refine ⟨hs', h, ?_⟩
  intro j c s hj
  obtain ⟨s', f, hx, bd, hf, _, hst, _⟩ := hall j c s hj
  exact ⟨s', f, hx, hf, hst, by simp [logAll, List.getElem?_map, hx, emitH], bound_write_lands c s' bd f hf b⟩

/-- the handlers `ServerOptions.make_logger()` builds: in every configuration (daemon, foreground,
    foreground + silent) the list ends with the file handler on the configured path -/
theorem mkLogger_shape (nodaemon silent : Bool) (c : Cfg) :
    mkLogger nodaemon silent c =
      some ((if nodaemon && !silent then [Handler.stream 0] else []) ++ [Handler.file c (init c)]) := by
  cases nodaemon <;> cases silent <;> simp [mkLogger, makeLogger_handlers, mkHandlers]

/-- **clearLog in every make_logger configuration**: daemon / foreground / silent, plain or
    rotating, with or without backups, after any history of messages: the activity log's file
    handler is bound to a fresh file at the configured path, and the next message lands there. -/
theorem clearLog_every_configuration (fmt : String → Bytes) (nodaemon silent : Bool) (c : Cfg)
    (msgs : List Bytes) (b : Bytes) :
    ∃ hs0 hs hs', mkLogger nodaemon silent c = some hs0 ∧ hs = msgs.foldl (fun h m => logAll m h) hs0 ∧
      LogFan.clearLog fmt hs = some hs' ∧
      ∃ s' f, Handler.file c s' ∈ hs' ∧ Bound s' ∧ s'.dir.get 0 = some f ∧ f.own = true ∧ LandsAtPath c s' f b := by
  -- the file handler stays bound through any messages
  have key : ∀ (msgs : List Bytes) (pre : List Handler) (s : S), Bound s → (∀ h ∈ pre, ∃ n, h = Handler.stream n) →
      ∃ pre' s1, msgs.foldl (fun h m => logAll m h) (pre ++ [Handler.file c s]) = pre' ++ [Handler.file c s1] ∧
        Bound s1 ∧ pre'.length = pre.length ∧ (∀ h ∈ pre', ∃ n, h = Handler.stream n) := by
    intro msgs
    induction msgs with
    | nil => intro pre s bd hpre; exact ⟨pre, s, rfl, bd, rfl, hpre⟩
    | cons m r ih =>
      intro pre s bd hpre
      have : logAll m (pre ++ [Handler.file c s]) = pre.map (emitH m) ++ [Handler.file c (emit c m s)] := by
        simp [logAll, emitH]
      simp only [List.foldl_cons, this]
      obtain ⟨pre', s1, h1, h2, h3, h4⟩ := ih (pre.map (emitH m)) (emit c m s) ((emit_any c s bd.wf m).2.2.1 bd) (by
        intro h hh
        simp only [List.mem_map] at hh
        obtain ⟨x, hx, rfl⟩ := hh
        obtain ⟨n, rfl⟩ := hpre x hx
        exact ⟨_, rfl⟩)
      exact ⟨pre', s1, h1, h2, by simpa using h3, h4⟩
  have b0 : Bound (init c) := by
    refine ⟨by simp [init, openFile, fexists], by simp [init, openFile, fexists], by simp [init, openFile, fexists]⟩
  obtain ⟨pre', s1, h1, bd1, hl, hpre'⟩ := key msgs (if nodaemon && !silent then [Handler.stream 0] else []) (init c) b0 (by
    intro h hh; split at hh <;> simp at hh; exact ⟨0, hh⟩)
  have hwf : ∀ (j : Nat) c' s, (pre' ++ [Handler.file c s1])[j]? = some (Handler.file c' s) → WF s := by
    intro j c' s hj
    have hm : Handler.file c' s ∈ pre' ++ [Handler.file c s1] := List.mem_of_getElem? hj
    rcases List.mem_append.mp hm with hm | hm
    · obtain ⟨n, hn⟩ := hpre' _ hm; cases hn
    · simp at hm; obtain ⟨rfl, rfl⟩ := hm; exact bd1.wf
  have hp : logfilePresent 0 (pre' ++ [Handler.file c s1]) = true := by
    simp [logfilePresent, fexists, bd1.present]
  obtain ⟨hs', h, hl', hall⟩ := clearLog_every_file_handler_fresh fmt _ hwf hp
  obtain ⟨s', f, hx, bd, hf, ho, _, _⟩ := hall pre'.length c s1 (by simp)
  exact ⟨_, _, hs', mkLogger_shape nodaemon silent c, h1.symm ▸ rfl, h1 ▸ h, s', f, List.mem_of_getElem? hx, bd, hf, ho,
    bound_write_lands c s' bd f hf b⟩

/-- the contrast that makes the theorem non-trivial: the same loop *with* an early exit after the
    first handler that has reopen() leaves the foreground logger's file handler on the unlinked
    file — nothing at the configured path, later messages invisible -/
theorem early_exit_loses_the_log :
    let body : List FanStmt := clearLog_body ++ [⟨[(true, "hasattr", "reopen")], "break", ""⟩]
    let c : Cfg := ⟨false, 0, 0⟩
    ((forEach (logActs fun _ => [1]) body [Handler.stream 0, Handler.file c (extRemove 0 (init c))]).map fun hs =>
      hs.map fun h => match h with
        | .file _ s => (decide (s.stream = .attached 0), (s.dir.get 0).isSome)
        | _ => (true, true)) = some [(true, true), (false, false)] := by
  decide

/-- **ServerOptions.reopenlogs() (SIGUSR2) reaches every file handler** of the activity logger:
    for every handler list, afterwards every file-backed handler is bound to a file at its
    configured path (created if the old one was moved away), so what is logged next is there. -/
theorem reopenlogs_every_file_handler_bound (fmt : String → Bytes) (hs : List Handler)
    (hwf : ∀ (j : Nat) c s, hs[j]? = some (Handler.file c s) → WF s) :
    ∃ hs', optReopenlogs fmt hs = some hs' ∧ hs'.length = hs.length ∧
      ∀ (j : Nat) c s, hs[j]? = some (Handler.file c s) →
        ∃ s' f, hs'[j]? = some (Handler.file c s') ∧ Bound s' ∧ s'.dir.get 0 = some f ∧
          ∀ b, LandsAtPath c s' f b := by
  obtain ⟨_, _, _, hb, hpost⟩ := handler_loops_no_early_exit
  have hpre : runPre fmt (fun _ _ => none) optReopenlogs_pre hs = some (logAll (fmt "supervisord logreopen") hs) := by
    simp [optReopenlogs_pre, runPre]
  have hwf' : ∀ (j : Nat) c s1, (logAll (fmt "supervisord logreopen") hs)[j]? = some (Handler.file c s1) → WF s1 := by
    intro j c s1 h
    simp only [logAll, List.getElem?_map, Option.map_eq_some_iff] at h
    obtain ⟨x, hx, hu⟩ := h
    cases x with
    | stream n => simp [emitH] at hu
    | bare n => simp [emitH] at hu
    | file c0 s0 =>
      simp only [emitH, Handler.file.injEq] at hu
      obtain ⟨rfl, rfl⟩ := hu
      exact (emit_any c0 s0 (hwf j c0 s0 hx) _).1
  obtain ⟨xs', h, hl, hall⟩ := forEach_safe fmt optReopenlogs_body hb _ hwf'
  refine ⟨xs', by simp [optReopenlogs, hpost, hpre, h], by simpa [logAll] using hl, ?_⟩
  intro j c s hj
  have ha : (logAll (fmt "supervisord logreopen") hs)[j]? = some (Handler.file c (emit c (fmt "supervisord logreopen") s)) := by
    simp [logAll, List.getElem?_map, hj, emitH]
  have hjl : j < xs'.length := by
    rw [hl]; simp [logAll]
    rcases Nat.lt_or_ge j hs.length with h | h
    · exact h
    · have : hs[j]? = none := by simp [h]
      rw [this] at hj; cases hj
  obtain ⟨e, bd⟩ := hall j _ xs'[j] ha (by simp [hjl])
  cases hx : xs'[j] with
  | stream n => rw [hx] at e; simp [Ev] at e
  | bare n => rw [hx] at e; simp [Ev] at e
  | file c' s' =>
    rw [hx] at e bd
    obtain ⟨rfl, _, _, _⟩ := e
    have bd' : Bound s' := bd
    cases h0 : s'.dir.get 0 with
    | none => have := bd'.present; rw [h0] at this; simp at this
    | some f => exact ⟨s', f, by simp [hjl, hx], bd', h0, fun b => bound_write_lands c' s' bd' f h0 b⟩

/-! processes -/

/-- an operation applied to the log of a dispatcher (stdin has none) -/
def mapLog (f : Cfg → S → S) : Disp → Disp
  | .input => .input
  | .output l => .output (l.map fun cs => (cs.1, f cs.1 cs.2))
  | .listener l => .listener (l.map fun cs => (cs.1, f cs.1 cs.2))

/-- the dispatcher after SIGUSR2 / after clearProcessLogs: its log has had the operation
    `reopen` / `clear` of `Sv.Rotate`, about which `clear_reopen_safe`, `write_at_path` and
    `nothing_lost_after` speak -/
def reopenD : Disp → Disp := mapLog fun c s => step c s .reopen
def clearD : Disp → Disp := mapLog fun c s => step c s .clear

theorem dispLog_mapLog (f : Cfg → S → S) (d : Disp) :
    dispLog (mapLog f d) = (dispLog d).map fun cs => (cs.1, f cs.1 cs.2) := by
  cases d <;> simp [mapLog, dispLog]

theorem listener_loops (c : Cfg) (s : S) :
    oneHandlerLoop elReopenlogs_body c s = some (c, step c s .reopen) ∧
    oneHandlerLoop elRemovelogs_body c s = some (c, step c s .clear) ∧
    postOk elReopenlogs_post = true ∧ elReopenlogs_pre = [] ∧ postOk elRemovelogs_post = true ∧ elRemovelogs_pre = [] := by
  refine ⟨?_, ?_, by decide, by decide, by decide, by decide⟩
  · simp [oneHandlerLoop, forEach, runLoop, runBody, elReopenlogs_body, guardsOk, isExit, logActs, modAtM, reopenH, step]
  · simp [oneHandlerLoop, forEach, runLoop, runBody, elRemovelogs_body, guardsOk, isExit, logActs, modAtM, reopenH,
      removeH, step]

theorem dispatchers_body (d : Disp) :
    elemBody Disp.has dispCall spReopenlogs_body d = some (reopenD d) ∧
    elemBody Disp.has dispCall spRemovelogs_body d = some (clearD d) := by
  have hl := listener_loops
  cases d with
  | input => simp [spReopenlogs_body, spRemovelogs_body, elemBody, elemStep, methOf, Disp.has, reopenD, clearD, mapLog]
  | output l =>
    cases l with
    | none => simp [spReopenlogs_body, spRemovelogs_body, elemBody, elemStep, methOf, Disp.has, dispCall, reopenD, clearD, mapLog]
    | some cs =>
      obtain ⟨c, s⟩ := cs
      have := dispatcher_ops_reach_log c false s
      simp [spReopenlogs_body, spRemovelogs_body, elemBody, elemStep, methOf, Disp.has, dispCall, reopenD, clearD, mapLog, this]
  | listener l =>
    cases l with
    | none => simp [spReopenlogs_body, spRemovelogs_body, elemBody, elemStep, methOf, Disp.has, dispCall, reopenD, clearD, mapLog]
    | some cs =>
      obtain ⟨c, s⟩ := cs
      obtain ⟨h1, h2, h3, h4, h5, h6⟩ := hl c s
      simp [spReopenlogs_body, spRemovelogs_body, elemBody, elemStep, methOf, Disp.has, dispCall, reopenD, clearD, mapLog,
        h1, h2, h3, h4, h5, h6]

/-- `Subprocess.reopenlogs()` / `.removelogs()` reach every dispatcher of the process -/
theorem procCall_all (p : Proc) :
    procCall "reopenlogs" p = some (p.map reopenD) ∧ procCall "removelogs" p = some (p.map clearD) := by
  obtain ⟨h1, h2, _, _, _, p1, p2, _, _, q1, q2, _, _, _⟩ := process_loops_no_early_exit
  refine ⟨?_, ?_⟩
  · have := forEach_elem Disp.has dispCall spReopenlogs_body h2 reopenD (fun d => (dispatchers_body d).1) p
    simp [procCall, p2, q2, dispActs, this]
  · have := forEach_elem Disp.has dispCall spRemovelogs_body h1 clearD (fun d => (dispatchers_body d).2) p
    simp [procCall, p1, q1, dispActs, this]

/-- `ProcessGroupBase.reopenlogs()` / `.removelogs()` reach every process of the group -/
theorem groupCall_all (g : Group) :
    groupCall "reopenlogs" g = some (g.map (·.map reopenD)) ∧ groupCall "removelogs" g = some (g.map (·.map clearD)) := by
  obtain ⟨_, _, h3, h4, _, _, _, p3, p4, _, _, q3, q4, _⟩ := process_loops_no_early_exit
  refine ⟨?_, ?_⟩
  · have := forEach_elem (fun (_ : Proc) a => a == "removelogs" || a == "reopenlogs") procCall pgReopenlogs_body h4
      (·.map reopenD) (fun p => by simp [pgReopenlogs_body, elemBody, elemStep, methOf, (procCall_all p).1]) g
    simp [groupCall, p4, q4, procActs, this]
  · have := forEach_elem (fun (_ : Proc) a => a == "removelogs" || a == "reopenlogs") procCall pgRemovelogs_body h3
      (·.map clearD) (fun p => by simp [pgRemovelogs_body, elemBody, elemStep, methOf, (procCall_all p).2]) g
    simp [groupCall, p3, q3, procActs, this]

/-- **SIGUSR2 reaches every log, whatever the daemon is doing**: in every mood (also while it is shutting down
    or restarting) `Supervisor.handle_signal()` on SIGUSR2 does not fail, every file-backed handler of the
    activity logger (any handler list) ends bound to a file at its configured path, and the log of *every*
    dispatcher of *every* process of *every* group has had `reopen` — stdout and stderr logs, event
    listeners' logs; nothing else is touched. -/
theorem sigusr2_reaches_every_log (fmt : String → Bytes) (line : Bytes) (mood : String) (hmood : mood ∈ supervisorMoods)
    (w : World) (hwf : ∀ (j : Nat) c s, w.act[j]? = some (Handler.file c s) → WF s) :
    ∃ act', sigusr2 fmt line mood w = some ⟨act', w.groups.map (·.map (·.map reopenD))⟩ ∧
      act'.length = w.act.length ∧
      ∀ (j : Nat) c s, w.act[j]? = some (Handler.file c s) →
        ∃ s' f, act'[j]? = some (Handler.file c s') ∧ Bound s' ∧ s'.dir.get 0 = some f ∧ ∀ b, LandsAtPath c s' f b := by
  obtain ⟨_, _, _, _, h5, _, _, _, _, _, _, _, _, q5⟩ := process_loops_no_early_exit
  obtain ⟨hpre, hloops, hbody⟩ := sigusr2_same_in_every_mood mood hmood
  have hwf' : ∀ (j : Nat) c s1, (logAll line w.act)[j]? = some (Handler.file c s1) → WF s1 := by
    intro j c s1 h
    simp only [logAll, List.getElem?_map, Option.map_eq_some_iff] at h
    obtain ⟨x, hx, hu⟩ := h
    cases x with
    | stream n => simp [emitH] at hu
    | bare n => simp [emitH] at hu
    | file c0 s0 =>
      simp only [emitH, Handler.file.injEq] at hu
      obtain ⟨rfl, rfl⟩ := hu
      exact (emit_any c0 s0 (hwf j c0 s0 hx) _).1
  obtain ⟨act', h, hl, hall⟩ := reopenlogs_every_file_handler_bound fmt (logAll line w.act) hwf'
  have hg := forEach_elem (fun (_ : Group) a => a == "removelogs" || a == "reopenlogs") groupCall (sigusr2_body mood) (h5 mood hmood)
    (·.map (·.map reopenD)) (fun g => by rw [hbody]; simp [elemBody, elemStep, methOf, (groupCall_all g).1]) w.groups
  refine ⟨act', ?_, by simpa [logAll] using hl, ?_⟩
  · simp [sigusr2, q5 mood hmood, hpre, hloops, runPre, h, groupActs, hg]
  · intro j c s hj
    exact hall j c (emit c line s) (by simp [logAll, List.getElem?_map, hj, emitH])

/-- the contrast that makes "in every mood" non-trivial: a handler that only logs the request while the daemon
    is shutting down (the statements `[logger.info]`, no loop) leaves a log that was moved away unopened —
    nothing at the configured path, the next child output invisible there -/
theorem ignored_sigusr2_loses_the_log :
    let c : Cfg := ⟨true, 100, 2⟩
    let moved : S := extRemove 0 (init c)
    ((runPre (fun _ => [1]) (fun _ _ => none) [⟨[], "logger.info", "x"⟩] [Handler.file c moved]).map fun hs =>
      hs.map fun h => match h with
        | .file _ s => (decide (s.stream = .attached 0), (s.dir.get 0).isSome)
        | _ => (true, true)) = some [(false, false)] := by
  decide

/-- **clearProcessLogs / clearAllProcessLogs reach every log of the process / of every process**:
    each dispatcher's log has had `clear` (removed and reopened: `clear_reopen_safe`), the
    activity log is not touched -/
theorem clearProcessLogs_reaches_every_log (w : World) :
    (∀ p : Proc, procCalls clearProcessLogs_calls p = some (p.map clearD)) ∧
    clearAll w = some ⟨w.act, w.groups.map (·.map (·.map clearD))⟩ := by
  have h1 : ∀ p : Proc, procCalls clearProcessLogs_calls p = some (p.map clearD) := by
    intro p; simp [clearProcessLogs_calls, procCalls, (procCall_all p).2]
  refine ⟨h1, ?_⟩
  have h2 := allM_map (fun g : Group => g.map (·.map clearD)) (allM (procCalls clearProcessLogs_calls))
    (fun g => allM_map (·.map clearD) _ h1 g) w.groups
  simp [clearAll, h2]

-- non-vacuity: the foreground logger after a message, its file present; a process with three dispatchers
example : logfilePresent 0 (logAll [65] [Handler.stream 0, Handler.file ⟨true, 100, 2⟩ (init ⟨true, 100, 2⟩)]) = true := by decide
example : ((clearD (Disp.output (some (⟨true, 4, 1⟩, run ⟨true, 4, 1⟩ [.write [1, 2]])))) |> dispLog).map
    (fun cs => (cs.2.dir.get 0).map (·.data)) = some (some []) := by decide

/-! ### the configured bounds are the handler's bounds

  "maxbytes" and "backups" of the property are what the operator wrote — `logfile_maxbytes` / `logfile_backups`
  in `[supervisord]` or `-y` / `-z` on the command line; `stdout_logfile_maxbytes` / `_backups` (and stderr)
  in a program's section.  `actCfg` / `chanCfg` compose the regenerated steps between that text and
  `RotatingFileHandler(maxBytes, backupCount)`: command line vs file priority (`Options._set`), the
  "Process defaults" test of `Options.process_config`, the keyword arguments of the three `handle_file` calls
  and the constructor arguments inside `handle_file`. -/

theorem bne_zero_decide (m : Int) : (m != 0) = !decide (m = 0) := by
  by_cases h : m = 0 <;> simp [h]

/-- what the operator gave: the command line wins over the file -/
def given (cli file : Option Int) : Option Int := cli <|> file

/-- **a configured value is the value in effect** — every integer, in particular 0: neither the command line
    priority nor the "Process defaults" step replaces a value that was written. -/
theorem configured_value_in_effect (cli file : Option Int) (d v : Int) (h : given cli file = some v) :
    effective cli file d = some v := by
  cases cli <;> cases file <;> simp_all [given, effective, setCli, setAttr, optDefaultApplies, optSetOverrides,
    optPrioCli, optPrioFile, optPrioUnset, ile_iff]

/-- only a value that was written nowhere is replaced by the default -/
theorem unset_value_gets_default (d : Int) : effective none none d = some d := by
  simp [effective, setCli, setAttr, optDefaultApplies, optSetOverrides, optPrioFile, optPrioUnset, ile_iff]

/-- **the activity log's handler has the configured bounds**: for every maxbytes and backups given on the command
    line or in the file (0, 1, huge: any integer), the handler that `make_logger()` attaches is
    `handle_file(rotating = (maxbytes ≠ 0), maxbytes, backups)` — a plain FileHandler exactly when maxbytes = 0,
    otherwise a RotatingFileHandler with maxBytes = maxbytes and backupCount = backups. -/
theorem activity_log_has_configured_bounds (cliMb fileMb cliBk fileBk : Option Int) (mb bk : Int)
    (hm : given cliMb fileMb = some mb) (hb : given cliBk fileBk = some bk) :
    actCfg cliMb fileMb cliBk fileBk = some ⟨decide (mb ≠ 0), mb, bk⟩ := by
  have e1 : effective cliMb (some (sectionValue fileMb fileMaxbytesDefault)) optMaxbytesDefault = some mb := by
    apply configured_value_in_effect
    cases cliMb <;> cases fileMb <;> simp_all [given, sectionValue]
  have e2 : effective cliBk (some (sectionValue fileBk fileBackupsDefault)) optBackupsDefault = some bk := by
    apply configured_value_in_effect
    cases cliBk <;> cases fileBk <;> simp_all [given, sectionValue]
  simp [actCfg, e1, e2, handleFileCfg, handleFile_maxBytesFrom, handleFile_backupCountFrom, makeLogger_rotating,
    makeLogger_maxbytes, makeLogger_backups, bne_zero_decide]

/-- nothing written anywhere: the documented defaults, 50MB and 10 backups -/
theorem activity_log_defaults : actCfg none none none none = some ⟨true, 50 * 1024 * 1024, 10⟩ := by decide

/-- **a child log's handler has the bounds of its section** (stdout and stderr logs of programs, the stdout log
    of an event listener) -/
theorem child_log_has_configured_bounds (listener : Bool) (mb bk : Int) :
    chanCfg listener (some mb) (some bk) = some ⟨decide (mb ≠ 0), mb, bk⟩ := by
  cases listener <;> simp [chanCfg, sectionValue, handleFileCfg, handleFile_maxBytesFrom, handleFile_backupCountFrom,
    normallog_rotating, normallog_maxbytes, normallog_backups, listenerlog_rotating, listenerlog_maxbytes, listenerlog_backups,
    bne_zero_decide]

theorem child_log_defaults (listener : Bool) : chanCfg listener none none = some ⟨true, 50 * 1024 * 1024, 10⟩ := by
  cases listener <;> decide

/-- **configured maxbytes = 0: nothing is ever rotated or dropped** — for the activity log as `realize()` +
    `make_logger()` set it up from `logfile_maxbytes = 0` (or `-y 0`), whatever backups says: after any
    history of messages and reopens the log holds everything written and no other file exists. -/
theorem configured_maxbytes0_never_rotates (cliMb fileMb cliBk fileBk : Option Int) (bk : Int)
    (hm : given cliMb fileMb = some 0) (hb : given cliBk fileBk = some bk) (ops : List Op)
    (h : ∀ op ∈ ops, writeOrReopen op = true) :
    ∃ c, actCfg cliMb fileMb cliBk fileBk = some c ∧ (run c ops).err = none ∧
      (∃ f, (run c ops).dir.get 0 = some f ∧ f.data = written ops) ∧ ∀ n, n ≠ 0 → (run c ops).dir.get n = none := by
  refine ⟨_, activity_log_has_configured_bounds cliMb fileMb cliBk fileBk 0 bk hm hb, ?_⟩
  exact maxbytes0_never _ (Or.inl (by simp)) ops h

/-- the same for a child's log with `stdout_logfile_maxbytes = 0` -/
theorem configured_child_maxbytes0_never_rotates (listener : Bool) (bk : Int) (ops : List Op)
    (h : ∀ op ∈ ops, writeOrReopen op = true) :
    ∃ c, chanCfg listener (some 0) (some bk) = some c ∧ (run c ops).err = none ∧
      (∃ f, (run c ops).dir.get 0 = some f ∧ f.data = written ops) ∧ ∀ n, n ≠ 0 → (run c ops).dir.get n = none := by
  refine ⟨_, child_log_has_configured_bounds listener 0 bk, ?_⟩
  exact maxbytes0_never _ (Or.inl (by simp)) ops h

/-- **configured backups = 0: no backup file ever exists** — for the activity log set up from
    `logfile_backups = 0` (or `-z 0`) with any maxbytes > 0: the log is emptied when it reaches maxbytes. -/
theorem configured_backups0_no_backup (cliMb fileMb cliBk fileBk : Option Int) (mb : Int) (hpos : 0 < mb)
    (hm : given cliMb fileMb = some mb) (hb : given cliBk fileBk = some 0) (ops : List Op)
    (h : ∀ op ∈ ops, own op = true) (b : Bytes) :
    ∃ c, actCfg cliMb fileMb cliBk fileBk = some c ∧ c.maxBytes = mb ∧
      ∃ f, (run c ops).dir.get 0 = some f ∧
        content (run c (ops ++ [.write b])).dir.get 0 = (if ((f.data ++ b).length : Int) < mb then f.data ++ b else []) ∧
        ∀ n, n ≠ 0 → (run c (ops ++ [.write b])).dir.get n = none := by
  refine ⟨_, activity_log_has_configured_bounds cliMb fileMb cliBk fileBk mb 0 hm hb, rfl, ?_⟩
  have hne : mb ≠ 0 := by omega
  exact backups0_truncates ⟨decide (mb ≠ 0), mb, 0⟩ ⟨by simp [hne], hpos, by simp⟩ rfl ops h b

/-- the contrast: a "Process defaults" step that tests truthiness instead of `is None` turns a configured 0 into
    the default -/
theorem truthiness_test_loses_zero :
    let applies : Option Int → Bool := fun v => !(v.isSome && v != some 0)
    (if applies (some 0) then some optMaxbytesDefault else some (0 : Int)) = some (50 * 1024 * 1024) := by decide

-- non-vacuity: `-y 0` against a file that says 1000; the file alone; a rotating child log
example : given (some 0) (some 1000) = some 0 := rfl
example : actCfg (some 0) (some 1000) none (some 3) = some ⟨false, 0, 3⟩ := by decide
example : actCfg none (some 1000) none (some 0) = some ⟨true, 1000, 0⟩ := by decide
example : chanCfg true (some 8) none = some ⟨true, 8, 10⟩ := by decide
example : ∀ op ∈ [Op.write [1], .reopen, .write [2, 3]], writeOrReopen op = true := by decide

end Fan

end Sv.Props.C19
