"""
L1 harness for the Subprocess state machine: the real Subprocess / ProcessGroup /
SupervisorNamespaceRPCInterface from /repo, driven one operation at a time, with fakes only at
the system-call seam (the `options` object) and a virtual clock.  Produces the canonical lines
the Lean driver `proc` model produces (Model/ProcOps.lean: procStr | outs | err).

Time is in ticks of 1/1024 s on the wire; the clock handed to the implementation is the dyadic
float ticks/1024 (exact), configured durations are whole seconds.
"""
import errno, signal, sys

TICK = 1024


class FakeTime(object):
    """stands in for the `time` module inside supervisor.process / supervisor.rpcinterface"""
    def __init__(self):
        self.t = 0
    def time(self):
        return self.t / float(TICK)
    def __getattr__(self, name):
        import time as _t
        return getattr(_t, name)


class Logger(object):
    def __getattr__(self, name):
        return lambda *a, **k: None


class ScriptedOptions(object):
    """the seam: every method Subprocess/ProcessGroup/rpcinterface call on `options`"""
    def __init__(self):
        self.logger = Logger()
        self.mood = 1
        self.pidhistory = {}
        self.spawn = None      # ('ok', pid) | ('badcmd',) | ('pipeerr',) | ('forkerr',)
        self.killres = 'ok'
        self.calls = []
        self.strip_ansi = False
        self.loglevel = 0
        self.minfds = 5
        self.identifier = 'sim'
        self.serverurl = None
        self.umask = 0o22

    # --- process creation
    def stat(self, fn):
        import os
        return os.stat('/bin/sh')
    def check_execv_args(self, filename, argv, st):
        from supervisor.options import NotFound
        if self.spawn and self.spawn[0] == 'badcmd':
            raise NotFound('no such file')
    def get_path(self):
        return ['/bin']
    def make_pipes(self, stderr=True):
        if self.spawn[0] == 'pipeerr':
            raise OSError(errno.EMFILE if self.spawn[1:] != ('other',) else errno.ENFILE, 'pipes')
        return {'child_stdin': 3, 'stdin': 4, 'stdout': 5, 'child_stdout': 6, 'stderr': 7, 'child_stderr': 8}
    def fork(self):
        if self.spawn[0] == 'forkerr':
            raise OSError(errno.EAGAIN, 'fork')
        return self.spawn[1]
    def close_parent_pipes(self, pipes):
        self.calls.append('closeParent')
    def close_child_pipes(self, pipes):
        self.calls.append('closeChild')
    def close_fd(self, fd):
        pass
    # --- signals
    def kill(self, pid, sig):
        self.calls.append('kill:%d:%d' % (pid, int(sig)))
        if self.killres == 'esrch':
            raise OSError(errno.ESRCH, 'no such process')
        if self.killres == 'fail':
            raise OSError(errno.EPERM, 'not permitted')
    def waitpid(self):
        return None, None


class NoDispatchConfigMixin(object):
    """process config whose make_dispatchers goes through options.make_pipes only (no log files)"""
    def make_dispatchers(self, proc):
        p = self.options.make_pipes(not self.redirect_stderr)
        return {}, p


STATE_NAMES = {0: 'STOPPED', 10: 'STARTING', 20: 'RUNNING', 30: 'BACKOFF', 40: 'STOPPING', 100: 'EXITED', 200: 'FATAL', 1000: 'UNKNOWN'}


class FakeSupervisord(object):
    def __init__(self, options, groups):
        self.options = options
        self.process_groups = groups
    def get_state(self):
        return self.options.mood
    def reap(self, once=False, recursionguard=0):
        pass


class ScriptedSocketManager(object):
    """stands for supervisor.socket_manager.SocketManager: get_socket() answers what the current operation scripts
    (`sock`: 'ok' | 'fail' -- the FastCGI socket cannot be (re)created: address in use, directory gone)"""
    answer = 'ok'

    def __init__(self, socket_config, **kw):
        self.socket_config = socket_config

    def config(self):
        return self.socket_config

    def get_socket(self):
        if ScriptedSocketManager.answer == 'fail':
            raise OSError(errno.EADDRINUSE, 'Address already in use')
        return object()


class L1(object):
    def __init__(self, cfg, fcgi=False):
        """cfg: dict startsecs startretries autostart autorestart exitcodes stopsignal stopwaitsecs stopasgroup killasgroup (seconds);
        fcgi: the process is a FastCGISubprocess in a FastCGIProcessGroup whose socket manager is scripted (monitors only: the
        FastCGI hooks are not in the Lean model)"""
        import supervisor.process as sp, supervisor.rpcinterface as ri, supervisor.events as ev
        from supervisor.options import ProcessConfig, ProcessGroupConfig
        from supervisor.datatypes import RestartUnconditionally, RestartWhenExitUnexpected
        self.sp, self.ev = sp, ev
        self.clock = FakeTime()
        sp.time = self.clock
        ri.time = self.clock
        self.options = ScriptedOptions()
        ar = {'false': False, 'unexpected': RestartWhenExitUnexpected, 'true': RestartUnconditionally}[cfg['autorestart']]
        self.fcgi = fcgi
        if fcgi:
            from supervisor.options import FastCGIProcessConfig
            class PC(NoDispatchConfigMixin, FastCGIProcessConfig):
                pass
        else:
            class PC(NoDispatchConfigMixin, ProcessConfig):
                pass
        d = dict(name='p', command='/bin/prog', directory=None, umask=None, priority=999, autostart=cfg['autostart'],
                 autorestart=ar, startsecs=cfg['startsecs'], startretries=cfg['startretries'], uid=None,
                 stdout_logfile=None, stdout_capture_maxbytes=0, stdout_events_enabled=False, stdout_syslog=False,
                 stdout_logfile_backups=0, stdout_logfile_maxbytes=0, stderr_logfile=None, stderr_capture_maxbytes=0,
                 stderr_logfile_backups=0, stderr_logfile_maxbytes=0, stderr_events_enabled=False, stderr_syslog=False,
                 stopsignal=cfg['stopsignal'], stopwaitsecs=cfg['stopwaitsecs'], stopasgroup=cfg['stopasgroup'],
                 killasgroup=cfg['killasgroup'], exitcodes=list(cfg['exitcodes']), redirect_stderr=False,
                 environment={}, serverurl=None)
        self.pconfig = PC(self.options, **d)
        if fcgi:
            ScriptedSocketManager.answer = 'ok'
            self.gconfig = ProcessGroupConfig(self.options, 'g', 999, [self.pconfig])
            self.gconfig.socket_config = 'unix:///sim/fcgi.sock'
            self.group = sp.FastCGIProcessGroup(self.gconfig, socketManager=ScriptedSocketManager)
        else:
            self.gconfig = ProcessGroupConfig(self.options, 'g', 999, [self.pconfig])
            self.group = self.gconfig.make_group()
        self.proc = self.group.processes['p']
        self.supervisord = FakeSupervisord(self.options, {'g': self.group})
        self.rpc = ri.SupervisorNamespaceRPCInterface(self.supervisord)
        self.outs = []
        ev.clear()
        ev.subscribe(ev.ProcessStateEvent, self._on_state)
        ev.subscribe(ev.EventRejectedEvent, lambda e: self.outs.append('rejected'))

    def _on_state(self, e):
        name = self.ev.getEventNameByType(e.__class__)          # PROCESS_STATE_<TO>
        to = name[len('PROCESS_STATE_'):]
        frm = STATE_NAMES.get(e.from_state, str(e.from_state))
        extra = dict(e.extra_values)
        # canonical: the model's ev carries pid, tries, expected at the moment of the change; compare the
        # fields the real event carries and fill the others from the process *now* (event construction is
        # synchronous with the change)
        pid = extra.get('pid', self.proc.pid)
        tries = extra.get('tries', self.proc.backoff)
        exp = extra.get('expected', int(bool(e.expected)))
        self.outs.append('ev:%s<%s:pid=%d:tries=%d:exp=%d' % (to, frm, pid, tries, exp))

    def close(self):
        self.ev.clear()

    # ---------------------------------------------------------------------------------------
    def line(self, err):
        p = self.proc
        def t(x):
            v = x * TICK
            assert v == int(v), x
            return int(v)
        st = STATE_NAMES.get(p.get_state(), str(p.get_state()))
        es = 'None' if p.exitstatus is None else str(p.exitstatus)
        s = '%s pid=%d killing=%d backoff=%d delay=%d laststart=%d laststop=%d admin=%d sys=%d es=%s spawnerr=%d' % (
            st, p.pid, int(bool(p.killing)), p.backoff, t(p.delay), t(p.laststart), t(p.laststop),
            int(bool(p.administrative_stop)), int(bool(p.system_stop)), es, int(p.spawnerr is not None))
        outs = ';'.join(self.outs) if self.outs else '-'
        return '%s | %s | %s' % (s, outs, err or '-')

    def do(self, op):
        """op: dict with 'op' and parameters; returns the canonical line"""
        from supervisor import xmlrpc
        o = self.options
        self.outs = []
        o.calls = self.outs      # seam calls and events interleave in one ordered list
        self.clock.t = op['now']
        err = None
        self.fault = None
        ScriptedSocketManager.answer = op.get('sock', 'ok')
        try:
            k = op['op']
            if k == 'transition':
                o.mood = op['mood']; o.spawn = op['spawn']; o.killres = op['kill']
                self._wrap_spawn()
                self.group.transition()
            elif k == 'reap':
                es = op['es']
                sts = (es << 8) if es >= 0 else int(op.get('sig') or (9, 15, 2, 1, 35, 64, 33)[op['now'] % 7])   # killed by a signal, named or not (35 = SIGRTMIN+1)
                if op.get('busy'):
                    self.proc.event = object()
                self.proc.finish(self.proc.pid, sts)
            elif k == 'rpcstart':
                o.mood = op['mood']; o.killres = 'ok'
                o.spawn = op['spawn']
                self._wrap_spawn()
                try:
                    self.rpc.startProcess('g:p', wait=False)
                    self.outs.append('answer:%d' % xmlrpc.Faults.SUCCESS)
                except xmlrpc.RPCError as e:
                    self.outs.append('answer:%d' % e.code)
            elif k == 'rpcstop':
                o.mood = op['mood']
                o.killres = op['kill']
                form = op.get('form')
                try:
                    if not form:
                        self.rpc.stopProcess('g:p', wait=False)
                        self.outs.append('answer:%d' % xmlrpc.Faults.SUCCESS)
                    else:
                        # the group-wide forms of the same request (only generated for a process they must act on: starting,
                        # running or backing off): `stop g:*`, stopProcessGroup, stopAllProcesses -- one status entry for it
                        res = {'star': lambda: self.rpc.stopProcess('g:*', wait=False),
                               'group': lambda: self.rpc.stopProcessGroup('g', wait=False),
                               'all': lambda: self.rpc.stopAllProcesses(wait=False)}[form]()
                        for _ in range(5):
                            if not callable(res):
                                break
                            res = res()
                        mine = [r for r in res if r.get('name') == 'p'] if isinstance(res, list) else None
                        self.outs.append('answer:%s' % (mine[0]['status'] if mine else 'none'))
                except xmlrpc.RPCError as e:
                    self.outs.append('answer:%d' % e.code)
            elif k == 'rpcsignal':
                o.mood = op['mood']
                o.killres = op['kill']
                try:
                    self.rpc.signalProcess('g:p', str(op['sig']))
                    self.outs.append('answer:%d' % xmlrpc.Faults.SUCCESS)
                except xmlrpc.RPCError as e:
                    self.outs.append('answer:%d' % e.code)
            elif k == 'groupstop':
                o.killres = op['kill']
                self.group.stop_all()
            elif k == 'stopreport':
                self.proc.stop_report()
            else:
                raise ValueError(k)
        except AssertionError:
            err = 'AssertionError'
        except Exception as e:      # any other exception class is an observable, too
            err = type(e).__name__
        return self.line(err)

    def _wrap_spawn(self):
        # record a successful fork as an observable `fork:<pid>` right where _spawn_as_parent registers it
        o = self.options
        outs = self.outs
        class PH(dict):
            def __setitem__(s, k, v):
                dict.__setitem__(s, k, v)
                outs.append('fork:%d' % k)
        ph = PH(o.pidhistory)
        o.pidhistory = ph


def op_line(op):
    k = op['op']
    def sp(s):
        return 'ok:%d' % s[1] if s[0] == 'ok' else s[0]
    if k == 'transition':
        return 'transition now=%d mood=%d spawn=%s kill=%s' % (op['now'], op['mood'], sp(op['spawn']), op['kill'])
    if k == 'reap':
        return 'reap now=%d es=%d busy=%d' % (op['now'], op['es'], 1 if op.get('busy') else 0)
    if k == 'rpcstart':
        return 'rpcstart now=%d mood=%d spawn=%s' % (op['now'], op['mood'], sp(op['spawn']))
    if k == 'rpcstop':
        return 'rpcstop now=%d mood=%d kill=%s' % (op['now'], op['mood'], op['kill'])
    if k == 'rpcsignal':
        return 'rpcsignal now=%d mood=%d sig=%d kill=%s' % (op['now'], op['mood'], op['sig'], op['kill'])
    if k == 'groupstop':
        return 'groupstop now=%d kill=%s' % (op['now'], op['kill'])
    if k == 'stopreport':
        return 'stopreport now=%d' % op['now']
    raise ValueError(k)


def cfg_line(cfg):
    return ('case proc startsecs=%d startretries=%d autostart=%d autorestart=%s exitcodes=%s stopsignal=%d '
            'stopwaitsecs=%d stopasgroup=%d killasgroup=%d') % (
        cfg['startsecs'] * TICK, cfg['startretries'], int(cfg['autostart']), cfg['autorestart'],
        ','.join(str(x) for x in cfg['exitcodes']) or '-', int(cfg['stopsignal']), cfg['stopwaitsecs'] * TICK,
        int(cfg['stopasgroup']), int(cfg['killasgroup']))


def gen_cfg(rng):
    return {
        'startsecs': rng.choice([0, 0, 1, 1, 2, 5]),
        'startretries': rng.choice([0, 1, 2, 3]),
        'autostart': rng.random() < 0.7,
        'autorestart': rng.choice(['false', 'unexpected', 'unexpected', 'true']),
        'exitcodes': rng.choice([[0], [0, 2], [], [1]]),
        'stopsignal': rng.choice([15, 2, 1, 3, 9, 10]),
        'stopwaitsecs': rng.choice([0, 1, 3, 10]),
        'stopasgroup': rng.random() < 0.3,
        'killasgroup': rng.random() < 0.4,
    }


def gen_ops(rng, n, t0=None):
    """operation generator: yields the next op given the current real process (so that reaps are only
    generated for a live child); clock steps include 0, fractions, whole seconds, long gaps and
    backward jumps"""
    steps = [0, 0, 256, 512, 1024, 1024, 1024, 2048, 3 * 1024, 11 * 1024, 30 * 1024, -1024, -3 * 1024, -512]
    now = t0 if t0 is not None else rng.choice([1000, 50000]) * TICK
    nextpid = [100]
    def spawnres():
        r = rng.random()
        if r < 0.8:
            nextpid[0] += 1
            return ('ok', nextpid[0])
        return (rng.choice(['badcmd', 'pipeerr', 'forkerr']),)
    def killres():
        r = rng.random()
        return 'ok' if r < 0.8 else ('esrch' if r < 0.93 else 'fail')
    def gen(proc):
        nonlocal now
        now = max(TICK, now + rng.choice(steps))
        r = rng.random()
        haschild = proc.pid != 0
        if r < 0.45:
            mood = 1 if rng.random() < 0.85 else rng.choice([0, -1])
            return {'op': 'transition', 'now': now, 'mood': mood, 'spawn': spawnres(), 'kill': killres()}
        if r < 0.65 and haschild:
            es = rng.choice([0, 0, 1, 2, 3, -1, -1, 255])
            op = {'op': 'reap', 'now': now, 'es': es, 'busy': rng.random() < 0.05}
            if es < 0:
                op['sig'] = rng.choice([9, 15, 2, 1, 35, 64, 33])     # the signal that killed it, named or not (real-time signals)
            return op
        rmood = 1 if rng.random() < 0.9 else rng.choice([0, -1])
        if r < 0.75:
            return {'op': 'rpcstart', 'now': now, 'mood': rmood, 'spawn': spawnres()}
        if r < 0.85:
            return {'op': 'rpcstop', 'now': now, 'mood': rmood, 'kill': killres()}
        if r < 0.90:
            return {'op': 'rpcsignal', 'now': now, 'mood': rmood, 'sig': rng.choice([1, 2, 10, 15]), 'kill': killres()}
        if r < 0.95:
            return {'op': 'groupstop', 'now': now, 'kill': killres()}
        if r < 0.98:
            return {'op': 'stopreport', 'now': now}
        return {'op': 'transition', 'now': now, 'mood': 1, 'spawn': spawnres(), 'kill': killres()}
    return gen
