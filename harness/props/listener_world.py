"""
Implementation side shared by C09 and C10: real EventListenerPool / Subprocess /
PEventListenerDispatcher / PInputDispatcher / events.notify from /repo, one operation at a time.

Fakes only at the seam: the per-process `options` object (readfd / write / fork / make_pipes from
supervisor.tests.base.DummyOptions, with a scripted stdin pipe: capacity, broken), the pool's
`config` object (DummyPGroupConfig + result_handler), and `supervisor.process.time` (a constant
clock).  Observation without hooks: a Subprocess subclass whose `listener_state` is a recording
property, a result handler that records its calls, subscribers on EventRejectedEvent / Event.
"""
import errno, re, types


def hexs(b):
    return b.hex() if b else '-'


LS_NAMES = {None: 'None'}


def ls_name(v):
    from supervisor import states
    if v is None:
        return 'None'
    return states.getEventListenerStateDescription(v) or str(v)


class StrictReject(Exception):
    pass


def make_handler(world, kind):
    from supervisor.dispatchers import RejectEvent, default_handler

    def who(event):
        # the result handler runs inside the read/finish of the listener being operated on; the same event
        # object can be held by listeners of several pools, so the holder is not looked up by identity
        return '%d.%d' % world.cur if world.cur is not None else '?'

    def strict(event, result):
        world.trace.append('h:%s:%s:%s' % (who(event), world.evname(event), hexs(result)))
        if result == b'OK':
            return
        if result == b'FAIL':
            raise RejectEvent(result)
        raise ValueError('handler error')

    def default(event, result):
        world.trace.append('h:%s:%s:%s' % (who(event), world.evname(event), hexs(result)))
        default_handler(event, result)
    return strict if kind == 'strict' else default


class World:
    def __init__(self, pools, handler='strict', identifier='supervisor', names='unique'):
        """pools: [(name, buffer_size, n_listeners, [EventTypes member names])] -- one *slot* per configured pool; a
        fifth element 'absent' marks a pool that is configured but not in the daemon at the start (it is added at run
        time by the operation `add <slot>`; a pool that is removed and added again is a new object: a new slot, possibly
        of the same name).  The pools live in the `process_groups` of a real Supervisor; `remove <slot>` / `add <slot>`
        are its real remove_process_group / add_process_group."""
        import supervisor.process as sp
        from supervisor import events, states, supervisord
        from supervisor.tests.base import DummyOptions, DummyPConfig, DummyLogger
        from supervisor.options import EventListenerConfig, EventListenerPoolConfig
        from supervisor.process import Subprocess
        from supervisor.compat import as_bytes
        world = self
        # handler may carry a logging mode: 'strict+log' (the listener has a stdout_logfile) or 'strict+strip'
        # (…and [supervisord] strip_ansi=true): what is logged must not influence the protocol state machine
        handler, _, logmode = handler.partition('+')
        self.logmode = logmode
        self.events, self.states, self.sp = events, states, sp
        self.trace = []
        self.recording = True
        self.evids = {}        # id(event object) -> event id (order of notify)
        self.evobjs = []       # keeps the objects alive
        self.next_ev = 0
        self.exc = None
        self.cur = None
        self.full_trace = []
        sp.time = types.SimpleNamespace(time=lambda: 1000.0)
        sp.GlobalSerial.serial = -1
        events.clear()
        events.subscribe(events.Event, self._see_event)
        events.subscribe(events.EventRejectedEvent, self._see_rejected)

        class FakeOS(DummyOptions):
            def __init__(self):
                DummyOptions.__init__(self)
                self.identifier = identifier
                self.strip_ansi = (logmode == 'strip')
                self.read_data = {}
                self.cap = None
                self.broken = False
                self.accepted = b''
                self.accepted_all = []     # per incarnation

            def readfd(self, fd):
                return self.read_data.pop(fd, b'')

            def write(self, fd, data):
                data = as_bytes(data)
                if self.broken:
                    raise OSError(errno.EPIPE, 'broken pipe')
                if self.cap == 0:
                    raise OSError(errno.EAGAIN, 'pipe full')
                k = len(data) if self.cap is None else min(self.cap, len(data))
                if self.cap is not None:
                    self.cap -= k
                if k:
                    self.accepted += data[:k]
                    world.trace.append('w:%s:%s' % (self.coords, hexs(data[:k])))
                return k

        class RecProcess(Subprocess):
            _ls = None

            @property
            def listener_state(self):
                return self._ls

            @listener_state.setter
            def listener_state(self, v):
                if world.recording:
                    world.trace.append('ls:%d.%d:%s>%s' % (world.where(self) + (ls_name(self._ls), ls_name(v))))
                self._ls = v

        class Cfg(DummyPConfig):
            def make_dispatchers(self, proc):
                return EventListenerConfig.make_dispatchers(self, proc)

            def make_process(self, group=None):
                p = RecProcess(self)
                p.group = group
                return p

        self.pool_options = DummyOptions()
        self.pool_options.identifier = identifier
        self.pool_names = [x[0] for x in pools]

        class PoolLogger(DummyLogger):
            def error(lg, msg, **kw):
                # an error-level activity-log entry: which pool, which serial (no reliance on the wording)
                nums = re.findall(r'\d+', msg.split('discarding')[-1]) if 'discarding' in msg else re.findall(r'\d+', msg)
                # the slot of the pool named in the entry: among slots of that name, the one that is in process_groups
                toks = re.split(r'[^\w.-]+', msg)
                cands = [i for i, n in enumerate(world.pool_names) if n in toks] or \
                    [i for i, n in enumerate(world.pool_names) if n in msg]
                live = [i for i in cands if world.active(i)]
                pi = (live or cands or [-1])[0]
                world.trace.append('discard:%d:%s' % (pi, nums[-1] if nums else '?'))
        self.pool_options.logger = PoolLogger()
        self.pools, self.listeners, self.cfgs, self.used = [], [], [], []
        self.sup = supervisord.Supervisor(self.pool_options)
        handler_fn = make_handler(self, handler)
        for spec in pools:
            (name, bufsize, nl, types_) = spec[:4]
            absent = len(spec) > 4 and spec[4] == 'absent'
            pcs = []
            for j in range(nl):
                o = FakeOS()
                o.coords = '%d.%d' % (len(self.pools), j)
                # names='shared': the same process names in every pool (two [eventlistener:x] sections may
                # use the same process_name); the Subprocess objects are of course distinct
                c = Cfg(o, ('l%d' % j) if names == 'shared' else '%s_l%d' % (name, j), '/bin/cat', autostart=False, autorestart=False,
                        startsecs=0, exitcodes=(0,), stdout_logfile='/dev/null' if logmode else None)
                pcs.append(c)
            g = EventListenerPoolConfig(self.pool_options, name, 999, pcs, bufsize,
                                        [getattr(events.EventTypes, t) for t in types_], handler_fn)
            self.cfgs.append(g)
            if absent:
                self.pools.append(None)
                self.listeners.append([])
                self.used.append(False)
            else:
                # a pool of the start-up configuration: created (and subscribed) in configuration order
                pool = g.make_group()
                self.sup.process_groups[name] = pool
                self.pools.append(pool)
                self.listeners.append([pool.processes[c.name] for c in pcs])
                self.used.append(True)

    # ---- observation ---------------------------------------------------------------------
    def _see_event(self, event):
        if id(event) not in self.evids:
            self.evids[id(event)] = self.next_ev
            self.evobjs.append(event)
            # a marker for the monitors only (filtered out of the observable lines by run()): where in the sequence
            # of observations this event was emitted -- this subscriber runs before the pools' own
            self.trace.append('ev:%d' % self.next_ev)
            self.next_ev += 1

    def evname(self, event):
        if event is None:
            return '-'
        return str(self.evids.get(id(event), '?'))

    def _see_rejected(self, rej):
        pi, li = self.where(rej.process)
        self.trace.append('rej:%d.%d:%s' % (pi, li, self.evname(rej.event)))

    def where(self, process):
        for pi, ls in enumerate(self.listeners):
            for li, p in enumerate(ls):
                if p is process:
                    return pi, li
        return -1, -1

    def proc(self, pi, li):
        return self.listeners[pi][li]

    def active(self, pi):
        """the pool of slot `pi` is in supervisord.process_groups"""
        pool = self.pools[pi] if 0 <= pi < len(self.pools) else None
        return pool is not None and self.sup.process_groups.get(self.pool_names[pi]) is pool

    # ---- pools removed / added while the daemon runs ---------------------------------------
    def remove(self, pi):
        """the real Supervisor.remove_process_group(name); the answer is appended to the observations"""
        res = []
        outs, err = self.run(lambda: res.append(self.sup.remove_process_group(self.pool_names[pi])))
        ans = 'res:%s' % ('none' if not res else 'true' if res[0] is True else 'false' if res[0] is False else repr(res[0]))
        self.full_trace.append(ans)
        return outs + [ans], err

    def add(self, pi):
        """the real Supervisor.add_process_group(config) for the pool configured in slot `pi`"""
        res = []
        name = self.pool_names[pi]
        before = self.sup.process_groups.get(name)
        outs, err = self.run(lambda: res.append(self.sup.add_process_group(self.cfgs[pi])))
        pool = self.sup.process_groups.get(name)
        if pool is not None and pool is not before:
            self.pools[pi] = pool
            self.listeners[pi] = [pool.processes[c.name] for c in self.cfgs[pi].process_configs]
            self.used[pi] = True
        ans = 'res:%s' % ('none' if not res else 'true' if res[0] is True else 'false' if res[0] is False else repr(res[0]))
        self.full_trace.append(ans)
        return outs + [ans], err

    def stdout_disp(self, p):
        fd = p.pipes.get('stdout') if p.pipes else None
        return p.dispatchers.get(fd) if fd is not None else None

    def stdin_disp(self, p):
        fd = p.pipes.get('stdin') if p.pipes else None
        return p.dispatchers.get(fd) if fd is not None else None

    def run(self, fn):
        """run one operation on the implementation; returns (outs list, error name or '-')"""
        self.trace = []
        err = '-'
        # the harness' own observers must stay subscribed whatever the code under test does to the registry
        # -- and come first, so that the 'ev:' marker of an event precedes what the pools do with it
        cbs = self.events.callbacks
        mine = [(self.events.Event, self._see_event), (self.events.EventRejectedEvent, self._see_rejected)]
        if len(cbs) < 2 or any(not (a[0] is b[0] and a[1] == b[1]) for a, b in zip(cbs[:2], mine)):
            rest = [(t, c) for t, c in cbs if not any(t is mt and c == mc for mt, mc in mine)]
            cbs[:] = mine + rest
        try:
            fn()
        except RecursionError:
            err = 'RecursionError'
        except OSError as e:
            err = 'OSError:%s' % e.args[0]
        except Exception as e:   # anything else escaping is itself an observation
            err = type(e).__name__
        self.full_trace = list(self.trace)          # with the 'ev:' emission markers
        return [x for x in self.trace if not x.startswith('ev:')], err

    # ---- operations ----------------------------------------------------------------------
    def spawn(self, pi, li, pid):
        p = self.proc(pi, li)
        o = p.config.options

        def f():
            if p.pid:
                return p.spawn()
            o.forkpid = pid
            o.cap, o.broken = None, False
            o.accepted_all.append(o.accepted)      # index = incarnation number
            o.accepted = b''
            o.read_data = {}
            self.recording = False
            try:
                p.spawn()
            finally:
                self.recording = True
        return self.run(f)

    def pstate(self, pi, li, st):
        p = self.proc(pi, li)
        PS = self.states.ProcessStates

        def f():
            if not p.pid:
                return          # only a live child has one of these states
            if st == 'starting':
                p.state, p.killing = PS.STARTING, False
            elif st == 'running':
                p.state, p.killing = PS.RUNNING, False
            else:
                p.state, p.killing = PS.STOPPING, True
        return self.run(f)

    def cap(self, pi, li, c):
        self.proc(pi, li).config.options.cap = c
        return [], '-'

    def breakpipe(self, pi, li):
        self.proc(pi, li).config.options.broken = True
        return [], '-'

    def read(self, pi, li, data):
        p = self.proc(pi, li)
        self.cur = (pi, li)

        def f():
            d = self.stdout_disp(p)
            if d is not None and d.readable():
                p.config.options.read_data[d.fd] = data
                d.handle_read_event()
        return self.run(f)

    def wev(self, pi, li):
        p = self.proc(pi, li)

        def f():
            d = self.stdin_disp(p)
            if d is not None and d.writable():
                d.handle_write_event()
        return self.run(f)

    def die(self, pi, li, data):
        p = self.proc(pi, li)
        self.cur = (pi, li)

        def f():
            d = self.stdout_disp(p)
            if d is not None:
                p.config.options.read_data[d.fd] = data
            p.config.options.broken = True      # the child is gone: so is the read end of its stdin
            p.finish(p.pid, 0)
        return self.run(f)

    def make_event(self, clsname, payload_text):
        """an instance of the EventTypes member `clsname` whose payload() is `payload_text`"""
        cls = getattr(self.events.EventTypes, clsname)
        ev = cls.__new__(cls)
        ev.payload = lambda: payload_text
        return ev

    def notify(self, clsname, payload_text):
        ev = self.make_event(clsname, payload_text)
        return self.run(lambda: self.events.notify(ev))

    def transition(self, pi):
        return self.run(lambda: self.pools[pi].transition())

    def send(self, pi, ev):
        """C10: hand one event to the pool's _dispatchEvent directly"""
        res = []

        def f():
            res.append(self.pools[pi]._dispatchEvent(ev))
        outs, err = self.run(f)
        return outs, err, (res[0] if res else None)

    def envelope(self, pi, ev, serial, pool_serial):
        from supervisor.compat import as_bytes
        return as_bytes(self.pools[pi]._eventEnvelope(ev.__class__, serial, pool_serial, ev.payload()))

    def lstate(self, pi, li):
        p = self.proc(pi, li)
        return ls_name(p.listener_state), self.evname(p.event)

    def error_log(self):
        lg = self.pool_options.logger
        return [m for m in lg.data if isinstance(m, str) and 'overflow' in m] if hasattr(lg, 'data') else []


# ---------------------------------------------------------------------------------------------
# independent reference pieces used by the monitors (not derived from the Lean model)

ENVELOPE_HEAD = re.compile(rb'ver:(\S+) server:(\S+) serial:(\d+) pool:(\S+) poolserial:(\d+) eventname:(\S+) len:(\d+)\n')


def parse_stdin(stream):
    """listener-side parser: cut the bytes a listener received into envelopes.
    returns ([(serial, pool, poolserial, eventname, payload bytes)], trailing bytes, ok)"""
    out, i = [], 0
    while i < len(stream):
        nl = stream.find(b'\n', i)
        if nl < 0:
            return out, stream[i:], True       # incomplete header line (still being written)
        m = ENVELOPE_HEAD.fullmatch(stream[i:nl + 1])
        if not m:
            return out, stream[i:], False
        n = int(m.group(7))
        body = stream[nl + 1:nl + 1 + n]
        if len(body) < n:
            return out, stream[i:], True       # incomplete payload
        out.append((int(m.group(3)), m.group(4).decode(), int(m.group(5)), m.group(6).decode(), body))
        i = nl + 1 + n
    return out, b'', True


def py_int(b):
    try:
        return int(b)
    except ValueError:
        return None


class DocAutomaton:
    """The documented listener state machine over the byte stream, written from docs/events.rst:
    ACKNOWLEDGED -READY\\n-> READY -(event sent)-> BUSY -RESULT n\\n + n bytes-> ACKNOWLEDGED;
    anything else -> UNKNOWN.  Eager: a result is complete as soon as its n bytes are there."""

    def __init__(self, handler_kind):
        self.state = 'ACKNOWLEDGED'
        self.pending = b''
        self.kind = handler_kind
        self.outs = []      # ('handled', bytes) | ('violation',)

    def sent(self):
        self.state = 'BUSY'

    def verdict(self, result):
        if result == b'OK':
            return 'ok'
        if self.kind == 'default' or result == b'FAIL':
            return 'reject'
        return 'error'

    def feed(self, data):
        self.pending += data
        while True:
            if self.state == 'UNKNOWN':
                self.pending = b''
                return
            if not self.pending:
                return
            if self.state == 'READY':
                self.state, self.pending = 'UNKNOWN', b''
                self.outs.append(('violation',))
                return
            if self.state == 'ACKNOWLEDGED':
                if len(self.pending) < 6:
                    return
                if self.pending.startswith(b'READY\n'):
                    self.state, self.pending = 'READY', self.pending[6:]
                    continue
                self.state, self.pending = 'UNKNOWN', b''
                self.outs.append(('violation',))
                return
            # BUSY
            nl = self.pending.find(b'\n')
            if nl < 0:
                return
            line = self.pending[:nl]
            n = py_int(line[7:]) if line.startswith(b'RESULT ') else None
            if n is None or n < 0:
                self.state, self.pending = 'UNKNOWN', b''
                self.outs.append(('violation',))
                return
            if len(self.pending) - nl - 1 < n:
                return
            result = self.pending[nl + 1:nl + 1 + n]
            self.pending = self.pending[nl + 1 + n:]
            v = self.verdict(result)
            self.outs.append(('handled', result, v))
            self.state = 'UNKNOWN' if v == 'error' else 'ACKNOWLEDGED'


# ---------------------------------------------------------------------------------------------
# the documented event type hierarchy (docs/events.rst "*Subtype Of*" lines): the oracle for "subscribed"

class DocTypes:
    """Which pools must be offered an event is decided from the documentation of the tree under verification, never
    from issubclass(): a class that silently gains or loses a base class changes the code's answer, not this one."""
    _cache = {}

    def __init__(self):
        from sites.events import documented_hierarchy, documented_chain
        self.table = documented_hierarchy()
        self.names = [n for n, _ in self.table]
        self.chain = {n: documented_chain(self.table, n) for n in self.names}
        parents = {p for _, p in self.table if p}
        self.concrete = [n for n in self.names if n not in parents]
        self.abstract = [n for n in self.names if n in parents]

    @classmethod
    def get(cls):
        import os
        key = os.environ.get('VERIF_REPO', '/repo')
        if key not in cls._cache:
            cls._cache[key] = cls()
        return cls._cache[key]

    def is_a(self, name, typ):
        """an event of the type named `name` is a `typ` (itself or a documented supertype)"""
        return typ in (self.chain.get(name) or [])

    def subscribed(self, types, name):
        return any(self.is_a(name, t) for t in types)


# ---------------------------------------------------------------------------------------------
# histories over several pools, shared by C09 (its own Run), C10 and C11: one operation line at a time

def exec_op(w, pools, op):
    """run one operation line on World `w`; returns (canonical op line or None when it does not apply, outs, err).
    The canonical line of die / spawn carries the payload of the PROCESS_STATE event the real code emits."""
    t = op.split()
    if t[0] == 'remove':
        # only a pool that is in process_groups can be removed (the RPC layer answers BAD_NAME otherwise)
        if not w.active(int(t[1])):
            return None, [], '-'
        outs, err = w.remove(int(t[1]))
        return op, outs, err
    if t[0] == 'add':
        pi = int(t[1])
        # a slot is used once (a pool added again is a new slot); a name that is in the table under another slot is refused
        # by the real code without looking at the slot -- not an operation of this world
        if not w.active(pi) and (w.used[pi] or w.pool_names[pi] in w.sup.process_groups):
            return None, [], '-'
        outs, err = w.add(pi)
        return op, outs, err
    if t[0] != 'notify' and not w.active(int(t[1])):
        return None, [], '-'          # a pool that is not in process_groups has no processes, is not transitioned ...
    if t[0] == 'notify':
        outs, err = w.notify(t[1], bytes.fromhex(t[2]).decode() if t[2] != '-' else '')
    elif t[0] == 'transition':
        outs, err = w.transition(int(t[1]))
    elif t[0] == 'read':
        outs, err = w.read(int(t[1]), int(t[2]), bytes.fromhex(t[3]) if t[3] != '-' else b'')
    elif t[0] == 'wev':
        outs, err = w.wev(int(t[1]), int(t[2]))
    elif t[0] == 'pstate':
        outs, err = w.pstate(int(t[1]), int(t[2]), t[3])
    elif t[0] == 'cap':
        outs, err = w.cap(int(t[1]), int(t[2]), None if t[3] == 'inf' else int(t[3]))
    elif t[0] == 'breakpipe':
        outs, err = w.breakpipe(int(t[1]), int(t[2]))
    elif t[0] == 'die':
        pi, li = int(t[1]), int(t[2])
        p = w.proc(pi, li)
        if not p.pid:
            return None, [], '-'
        PS = w.states.ProcessStates
        if p.state == PS.STARTING:
            p.state = PS.RUNNING
        if p.killing:
            pay = 'processname:%s groupname:%s from_state:STOPPING pid:%d' % (p.config.name, pools[pi][0], p.pid)
        else:
            pay = 'processname:%s groupname:%s from_state:RUNNING expected:1 pid:%d' % (p.config.name, pools[pi][0], p.pid)
        op = 'die %d %d %s %s' % (pi, li, t[3], hexs(pay.encode()))
        outs, err = w.die(pi, li, bytes.fromhex(t[3]) if t[3] != '-' else b'')
    elif t[0] == 'spawn':
        pi, li = int(t[1]), int(t[2])
        p = w.proc(pi, li)
        if p.pid:
            return None, [], '-'
        pay = 'processname:%s groupname:%s from_state:%s tries:0' % (
            p.config.name, pools[pi][0], w.states.getProcessStateDescription(p.state))
        op = 'spawn %d %d %s %s' % (pi, li, t[3], hexs(pay.encode()))
        outs, err = w.spawn(pi, li, int(t[3]))
    else:
        raise ValueError(op)
    return op, outs, err


def pools_spec(pools):
    """the pools= field of a `case pool` line; a fifth element 'absent' marks a pool that is added at run time"""
    return ','.join('%s:%d:%d:%s%s' % (p[0], p[1], p[2], '+'.join(p[3]), ':absent' if len(p) > 4 and p[4] == 'absent' else '')
                    for p in pools)


class PoolHistory:
    """A history over several real pools (World) recorded operation by operation: canonical op lines and observable
    lines (for the correspondence with Model/Pool.lean) plus, per operation, what each property's monitors need:
    the events emitted during it (with their registered type names), every listener's (state, held event) before
    and after, and the outs.  No property-specific judgement is made here."""

    def __init__(self, handler, pools, names='unique'):
        self.handler, self.spec, self.names = handler, pools, names
        self.pools = [tuple(p[:4]) for p in pools]
        self.w = World(pools, handler=handler, names=names)
        self.ops, self.lines, self.steps = [], [], []
        self.pid = 500

    def snapshot(self):
        w = self.w
        return [[w.lstate(pi, li) for li in range(len(ls))] for pi, ls in enumerate(w.listeners)]

    def do(self, op):
        w = self.w
        before = self.snapshot()
        ev0 = w.next_ev
        cop, outs, err = exec_op(w, self.pools, op)
        if cop is None:
            return None
        emitted = [(evid, w.events.getEventNameByType(type(w.evobjs[evid]))) for evid in range(ev0, w.next_ev)]
        step = {'op': cop, 'outs': outs, 'err': err, 'before': before, 'after': self.snapshot(), 'emitted': emitted,
                'sent': [], 'live': [w.active(pi) for pi in range(len(w.pools))]}
        for o in outs:
            f = o.split(':')
            if f[0] == 'ls' and f[2] == 'READY>BUSY':
                qi, qli = [int(x) for x in f[1].split('.')]
                step['sent'].append((qi, qli, w.evids.get(id(w.proc(qi, qli).event))))
        self.ops.append(cop)
        self.lines.append('%s | %s' % (';'.join(outs) if outs else '-', err))
        self.steps.append(step)
        return step

    def drain(self, rounds=60):
        """every listener leaves; per pool a fresh well-behaved listener answers OK until the pool is quiet"""
        w = self.w
        ready, ok = b'READY\n'.hex(), b'RESULT 2\nOK'.hex()
        for pi, ls in enumerate(w.listeners):
            if not w.active(pi):
                continue
            for li in range(len(ls)):
                if w.proc(pi, li).pid:
                    self.do('die %d %d - x' % (pi, li))
            self.pid += 1
            self.do('spawn %d 0 %d' % (pi, self.pid))
            self.do('pstate %d 0 running' % pi)
        for _ in range(2):
            for pi in range(len(w.listeners)):
                if not w.active(pi):
                    continue
                for _ in range(rounds):
                    if w.lstate(pi, 0)[0] == 'ACKNOWLEDGED':
                        self.do('read %d 0 %s' % (pi, ready))
                    self.do('transition %d' % pi)
                    if w.lstate(pi, 0)[0] != 'BUSY':
                        break
                    self.do('read %d 0 %s' % (pi, ok))

    def case_line(self):
        return 'case pool handler=%s names=%s pools=%s' % (self.handler, self.names, pools_spec(self.spec))

    def stdin_streams(self, pi, li):
        o = self.w.cfgs[pi].process_configs[li].options       # (a pool that never joined the daemon received nothing)
        return o.accepted_all + [o.accepted]
