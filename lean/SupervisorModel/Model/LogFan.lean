import SupervisorModel.Model.Rotate
/-
  The clear / reopen fan-out: who is reached when a log is cleared or reopened.

  * A logger is a *list of handlers* (`Handler`): the stdout StreamHandler that
    `ServerOptions.make_logger()` puts in front of the file handler in foreground mode, a file
    handler (`Sv.Rotate`: its configuration and its state over its own directory), or a handler
    without `reopen`/`remove` (the base class).
  * Every function between an operator's request and `handler.remove()` / `handler.reopen()` —
    rpcinterface.clearLog, ServerOptions.reopenlogs, Supervisor.handle_signal[SIGUSR2],
    ProcessGroupBase / Subprocess / PEventListenerDispatcher .removelogs / .reopenlogs — is a
    loop.  The loop bodies are the regenerated tables of `Sv.Gen.Rotate` (`FanStmt`: flattened
    guarded statements); `forEach` below interprets them, early exits included.  Nothing here
    fixes which statements a body has.
  * `Option`: `none` = the source left the fragment the model covers (an unknown statement, an
    AttributeError).
-/
namespace Sv.LogFan
open Sv.Rotate Sv.Gen.Rotate

inductive Ctl
  | go | cont | brk
deriving DecidableEq, Repr

/-- what a loop's statements mean for the elements it walks over -/
structure Acts (α : Type) where
  /-- hasattr(element, name) -/
  has : α → String → Bool
  /-- `apply act arg i xs`: the statement `act` (argument `arg`) executed while element `i` is current -/
  apply : String → String → Nat → List α → Option (List α)

def guardOk (A : Acts α) (x : α) (g : Bool × String × String) : Option Bool :=
  if g.2.1 = "hasattr" then some (A.has x g.2.2 == g.1)
  else if g.2.1 = "notnone" then some g.1
  else none

/-- nested `if`s, outermost first -/
def guardsOk (A : Acts α) (x : α) : List (Bool × String × String) → Option Bool
  | [] => some true
  | g :: r =>
    match guardOk A x g with
    | none => none
    | some false => some false
    | some true => guardsOk A x r

def isExit (act : String) : Bool := act == "break" || act == "return"

/-- one element's pass through the loop body -/
def runBody (A : Acts α) (i : Nat) : List FanStmt → List α → Option (List α × Ctl)
  | [], xs => some (xs, .go)
  | st :: r, xs =>
    match xs[i]? with
    | none => none
    | some x =>
      match guardsOk A x st.guards with
      | none => none
      | some false => runBody A i r xs
      | some true =>
        if isExit st.act then some (xs, .brk)
        else if st.act = "continue" then some (xs, .cont)
        else
          match A.apply st.act st.arg i xs with
          | none => none
          | some xs' => runBody A i r xs'

/-- `for x in xs: body`, `k` elements left, the next one at index `i` -/
def runLoop (A : Acts α) (body : List FanStmt) : Nat → Nat → List α → Option (List α)
  | 0, _, xs => some xs
  | k + 1, i, xs =>
    match runBody A i body xs with
    | none => none
    | some (xs', .brk) => some xs'
    | some (xs', _) => runLoop A body k (i + 1) xs'

def forEach (A : Acts α) (body : List FanStmt) (xs : List α) : Option (List α) :=
  runLoop A body xs.length 0 xs

/-- the statements after a loop the model accepts: nothing, or a plain `return` -/
def postOk (post : List FanStmt) : Bool := post == [] || post == [⟨[], "return", ""⟩]

def modAt (i : Nat) (f : α → α) : List α → List α
  | [] => []
  | x :: r => match i with
    | 0 => f x :: r
    | j + 1 => x :: modAt j f r

def modAtM (i : Nat) (f : α → Option α) : List α → Option (List α)
  | [] => none
  | x :: r => match i with
    | 0 => (f x).map (· :: r)
    | j + 1 => (modAtM j f r).map (x :: ·)

/-- `f` on every element; none as soon as one is none -/
def allM (f : α → Option β) : List α → Option (List β)
  | [] => some []
  | x :: r =>
    match f x, allM f r with
    | some y, some ys => some (y :: ys)
    | _, _ => none

/-! ### a logger's handlers -/

inductive Handler
  | stream (n : Nat)            -- StreamHandler(sys.stdout): reopen() and remove() do nothing; n = bytes written
  | bare (n : Nat)              -- a handler without reopen / remove (loggers.Handler itself)
  | file (c : Cfg) (s : S)      -- FileHandler / RotatingFileHandler on its own path

def Handler.has : Handler → String → Bool
  | .bare _, _ => false
  | _, a => a == "reopen" || a == "remove"

def emitH (b : Bytes) : Handler → Handler
  | .stream n => .stream (n + b.length)
  | .bare n => .bare (n + b.length)
  | .file c s => .file c (emit c b s)

def reopenH : Handler → Option Handler
  | .stream n => some (.stream n)
  | .bare _ => none
  | .file c s => some (.file c (fhReopen c s))

def removeH : Handler → Option Handler
  | .stream n => some (.stream n)
  | .bare _ => none
  | .file c s => some (.file c (fhRemove s))

/-- `logger.info(msg)`: every handler emits -/
def logAll (b : Bytes) (hs : List Handler) : List Handler := hs.map (emitH b)

/-- the statements of the handler loops; `fmt` = the logger's format applied to a message -/
def logActs (fmt : String → Bytes) : Acts Handler where
  has := Handler.has
  apply act arg i hs :=
    if act = "logger.info" then (if arg = "?" then none else some (logAll (fmt arg) hs))
    else if act = "elem.reopen" then modAtM i reopenH hs
    else if act = "elem.remove" then modAtM i removeH hs
    else none

/-- statements outside a loop (no current element) -/
def runPre (fmt : String → Bytes) (call : String → List Handler → Option (List Handler)) :
    List FanStmt → List Handler → Option (List Handler)
  | [], hs => some hs
  | st :: r, hs =>
    if st.guards != [] then none
    else if st.act = "logger.info" then
      (if st.arg = "?" then none else runPre fmt call r (logAll (fmt st.arg) hs))
    else if st.act = "call" then
      match call st.arg hs with
      | none => none
      | some hs' => runPre fmt call r hs'
    else none

/-- the file at name index n is unlinked behind every file handler's back -/
def unlinkH (n : Int) : Handler → Handler
  | .file c s => .file c (extRemove n s)
  | h => h

/-- `options.exists(logfile)` -/
def logfilePresent (n : Int) (hs : List Handler) : Bool :=
  hs.any fun h => match h with | .file _ s => fexists s.dir n | _ => false

/-- `rpcinterface.clearLog()` on the activity logger's handlers -/
def clearLog (fmt : String → Bytes) (hs : List Handler) : Option (List Handler) :=
  if !(logfilePresent clearLog_removedIdx hs) then some hs        -- RPCError(NO_FILE): nothing happens
  else if postOk clearLog_post && clearLog_pre == [] then
    forEach (logActs fmt) clearLog_body (hs.map (unlinkH clearLog_removedIdx))
  else none

/-- `ServerOptions.reopenlogs()` -/
def optReopenlogs (fmt : String → Bytes) (hs : List Handler) : Option (List Handler) :=
  if postOk optReopenlogs_post then
    match runPre fmt (fun _ _ => none) optReopenlogs_pre hs with
    | none => none
    | some hs' => forEach (logActs fmt) optReopenlogs_body hs'
  else none

/-- `ServerOptions.make_logger()`: the handlers of the activity logger in an empty directory -/
def mkHandlers (nodaemon silent : Bool) (c : Cfg) : List (String × Bool) → Option (List Handler)
  | [] => some []
  | (nm, guarded) :: r =>
    match mkHandlers nodaemon silent c r with
    | none => none
    | some rest =>
      if guarded && !(nodaemon && !silent) then some rest
      else if nm = "handle_stdout" then some (.stream 0 :: rest)
      else if nm = "handle_file" then some (.file c (init c) :: rest)
      else none

def mkLogger (nodaemon silent : Bool) (c : Cfg) : Option (List Handler) :=
  mkHandlers nodaemon silent c makeLogger_handlers

/-! ### processes: dispatchers, processes, groups -/

inductive Disp
  | input                                  -- PInputDispatcher (stdin): neither removelogs nor reopenlogs
  | output (log : Option (Cfg × S))        -- POutputDispatcher; its normal log (none: no logfile)
  | listener (log : Option (Cfg × S))      -- PEventListenerDispatcher; its childlog

abbrev Proc := List Disp
abbrev Group := List Proc

/-- a `for handler in <logger>.handlers` loop over a logger that has exactly its file handler -/
def oneHandlerLoop (body : List FanStmt) (c : Cfg) (s : S) : Option (Cfg × S) :=
  match forEach (logActs fun _ => []) body [.file c s] with
  | some [.file c' s'] => some (c', s')
  | _ => none

def dispCall (m : String) : Disp → Option Disp
  | .input => none
  | .output none => if m = "removelogs" || m = "reopenlogs" then some (.output none) else none
  | .output (some (c, s)) =>
    if m = "removelogs" then some (.output (some (c, dispRemovelogs c false s)))
    else if m = "reopenlogs" then some (.output (some (c, dispReopenlogs c false s)))
    else none
  | .listener none => if m = "removelogs" || m = "reopenlogs" then some (.listener none) else none
  | .listener (some (c, s)) =>
    if m = "removelogs" then
      (if postOk elRemovelogs_post && elRemovelogs_pre == [] then (oneHandlerLoop elRemovelogs_body c s).map (.listener ∘ some) else none)
    else if m = "reopenlogs" then
      (if postOk elReopenlogs_post && elReopenlogs_pre == [] then (oneHandlerLoop elReopenlogs_body c s).map (.listener ∘ some) else none)
    else none

def Disp.has : Disp → String → Bool
  | .input, _ => false
  | _, a => a == "removelogs" || a == "reopenlogs"

/-- statements of a loop whose body only calls methods of the current element -/
def elemActs (has : α → String → Bool) (call : String → α → Option α) : Acts α where
  has := has
  apply act _ i xs :=
    if act = "elem.removelogs" then modAtM i (call "removelogs") xs
    else if act = "elem.reopenlogs" then modAtM i (call "reopenlogs") xs
    else none

def dispActs : Acts Disp := elemActs Disp.has dispCall

def procCall (m : String) (p : Proc) : Option Proc :=
  if m = "removelogs" then
    (if postOk spRemovelogs_post && spRemovelogs_pre == [] then forEach dispActs spRemovelogs_body p else none)
  else if m = "reopenlogs" then
    (if postOk spReopenlogs_post && spReopenlogs_pre == [] then forEach dispActs spReopenlogs_body p else none)
  else none

def procActs : Acts Proc := elemActs (fun _ a => a == "removelogs" || a == "reopenlogs") procCall

def groupCall (m : String) (g : Group) : Option Group :=
  if m = "removelogs" then
    (if postOk pgRemovelogs_post && pgRemovelogs_pre == [] then forEach procActs pgRemovelogs_body g else none)
  else if m = "reopenlogs" then
    (if postOk pgReopenlogs_post && pgReopenlogs_pre == [] then forEach procActs pgReopenlogs_body g else none)
  else none

def groupActs : Acts Group := elemActs (fun _ a => a == "removelogs" || a == "reopenlogs") groupCall

structure World where
  act : List Handler
  groups : List Group

/-- `Supervisor.handle_signal()` on SIGUSR2 while the daemon is in `mood`; `line` = the formatted
    "received SIGUSR2 …" message (its text is computed in the source, so the harness passes what was
    logged).  The statements are those of handle_signal specialised to SIGUSR2 and to the mood. -/
def sigusr2 (fmt : String → Bytes) (line : Bytes) (mood : String) (w : World) : Option World :=
  if postOk (sigusr2_post mood) then
    -- the computed message is substituted for the "?" argument
    let pre := (sigusr2_pre mood).map fun st => if st.act = "logger.info" && st.arg = "?" then { st with arg := "" } else st
    match runPre (fun m => if m = "" then line else fmt m)
        (fun f hs => if f = "self.options.reopenlogs" then optReopenlogs fmt hs else none) pre w.act with
    | none => none
    | some act' =>
      if sigusr2_loops mood then
        match forEach groupActs (sigusr2_body mood) w.groups with
        | none => none
        | some gs => some ⟨act', gs⟩
      else some ⟨act', w.groups⟩
  else none

/-- an RPC method that begins with `self._update(...)` is refused (SHUTDOWN_STATE) in some moods: nothing happens -/
def rpcRefused (method mood : String) : Bool := rpcGated.contains method && rpcRefusedMoods.contains mood

def procCalls : List String → Proc → Option Proc
  | [], p => some p
  | m :: r, p =>
    match procCall m p with
    | none => none
    | some p' => procCalls r p'

/-- `rpcinterface.clearProcessLogs(name)` -/
def clearProc (g p : Nat) (w : World) : Option World :=
  (modAtM g (modAtM p (procCalls clearProcessLogs_calls)) w.groups).map fun gs => { w with groups := gs }

/-- `rpcinterface.clearAllProcessLogs()`: clearProcessLogs for every process of every group -/
def clearAll (w : World) : Option World :=
  (allM (allM (procCalls clearProcessLogs_calls)) w.groups).map fun gs => { w with groups := gs }

/-! ### from the configured value to the handler parameters -/

/-- `Options._set(attr, value, prio)` on (value, priority of the last assignment) -/
def setAttr (cur : Option Int × Int) (v : Option Int) (prio : Int) : Option Int × Int :=
  if optSetOverrides prio cur.2 then (v, prio) else cur

def setCli (cli : Option Int) (cur : Option Int × Int) : Option Int × Int :=
  match cli with
  | some v => setAttr cur (some v) optPrioCli
  | none => cur

/-- `Options.realize()` + `process_config()` for one option: the command line value (if given), then the
    value of the configuration section, then "Process defaults"; the result is the attribute
    (`none` = it stays None) -/
def effective (cli file : Option Int) (dflt : Int) : Option Int :=
  let a := setAttr (setCli cli (none, optPrioUnset)) file optPrioFile
  if optDefaultApplies a.1 then some dflt else a.1

/-- `get(option, default)` of read_config: the section always has a value -/
def sectionValue (written : Option Int) (dflt : Int) : Int :=
  match written with
  | some v => v
  | none => dflt

/-- `loggers.handle_file(logger, filename, fmt, rotating, maxbytes, backups)`: what the handler gets -/
def handleFileCfg (rot : Bool) (mb bk : Int) : Option Cfg :=
  let pick (src : String) : Option Int :=
    if src = "maxbytes" then some mb else if src = "backups" then some bk else none
  match pick handleFile_maxBytesFrom, pick handleFile_backupCountFrom with
  | some m, some b => some ⟨rot, m, b⟩
  | _, _ => none

/-- the activity log's handler parameters from what the operator wrote: `-y` / `-z` on the command line
    (`cliMb`, `cliBk`), `logfile_maxbytes` / `logfile_backups` in `[supervisord]` (`fileMb`, `fileBk`);
    `none` = not given -/
def actCfg (cliMb fileMb cliBk fileBk : Option Int) : Option Cfg :=
  match effective cliMb (some (sectionValue fileMb fileMaxbytesDefault)) optMaxbytesDefault,
        effective cliBk (some (sectionValue fileBk fileBackupsDefault)) optBackupsDefault with
  | some mb, some bk => handleFileCfg (makeLogger_rotating mb bk) (makeLogger_maxbytes mb bk) (makeLogger_backups mb bk)
  | _, _ => none

/-- `ServerOptions.make_logger()` on attributes that already hold `mb`, `bk` -/
def actCfgOfAttrs (mb bk : Int) : Option Cfg :=
  handleFileCfg (makeLogger_rotating mb bk) (makeLogger_maxbytes mb bk) (makeLogger_backups mb bk)

/-- a child's stdout / stderr log from `stdout_logfile_maxbytes` / `_backups` of its section (`none` = not
    written); `listener`: the log is opened by PEventListenerDispatcher -/
def chanCfg (listener : Bool) (mb bk : Option Int) : Option Cfg :=
  let m := sectionValue mb progMaxbytesDefault
  let b := sectionValue bk progBackupsDefault
  if listener then handleFileCfg (listenerlog_rotating m b) (listenerlog_maxbytes m b) (listenerlog_backups m b)
  else handleFileCfg (normallog_rotating m b) (normallog_maxbytes m b) (normallog_backups m b)

/-! line protocol -/

def streamBytes : Handler → Nat
  | .stream n => n
  | _ => 0

def bareBytes : Handler → Nat
  | .bare n => n
  | _ => 0

def dispLog : Disp → Option (Cfg × S)
  | .input => none
  | .output l => l
  | .listener l => l

def showWorld (top : Nat) (w : World) : String :=
  -- handler order is not an observable: byte counts of stdout / the bare handler, then the file handlers' directories
  let files := w.act.filterMap fun h => match h with | .file _ s => some (showState top s) | _ => none
  let a := s!"out={(w.act.map streamBytes).sum} bare={(w.act.map bareBytes).sum} ; " ++ " ; ".intercalate files
  let ch := w.groups.flatMap fun g => g.flatMap fun p => p.filterMap fun d =>
    (dispLog d).map fun cs => showState top cs.2
  " || ".intercalate (a :: ch)

def setLog (f : Cfg → S → S) : Disp → Option Disp
  | .input => none
  | .output (some (c, s)) => some (.output (some (c, f c s)))
  | .listener (some (c, s)) => some (.listener (some (c, f c s)))
  | _ => none

/-- the dispatcher index of a channel letter: make_dispatchers' order is stdout, stderr, stdin -/
def chanIdx : String → Option Nat
  | "o" => some 0
  | "e" => some 1
  | _ => none

def onLog (g p d : Nat) (f : Cfg → S → S) (w : World) : Option World :=
  (modAtM g (modAtM p (modAtM d (setLog f))) w.groups).map fun gs => { w with groups := gs }

def onActFiles (f : Cfg → S → S) (w : World) : World :=
  { w with act := w.act.map fun h => match h with | .file c s => .file c (f c s) | h => h }

def parseLogId (l : String) : Option (Option (Nat × Nat × Nat)) :=
  if l = "act" then some none
  else match l.splitOn "." with
    | [g, p, d] =>
      match g.toNat?, p.toNat?, chanIdx d with
      | some g, some p, some d => some (some (g, p, d))
      | _, _, _ => none
    | _ => none

/-- one operation in mood `mood`; the result carries the mood afterwards (`setmood`: SIGTERM / SIGHUP / the
    shutdown and restart RPCs — which mood they lead to is observed, not modelled; the message they log is) -/
def stepWorld (fmt : String → Bytes) (mood : String) (w : World) (l : String) : Option (Option (String × World)) :=
  let keep (r : Option World) : Option (String × World) := r.map fun w' => (mood, w')
  match words l with
  | ["log", h] => (bytesOfHex h).map fun b => some (mood, { w with act := logAll b w.act })
  | ["chunk", g, p, d, h] =>
    match g.toNat?, p.toNat?, chanIdx d, bytesOfHex h with
    | some g, some p, some d, some b => some (keep (onLog g p d (fun c s => emit c b s) w))
    | _, _, _, _ => none
  | ["setmood", m, h] =>
    if supervisorMoods.contains m then
      (if h = "-" then some (some (m, w)) else (bytesOfHex h).map fun b => some (m, { w with act := logAll b w.act }))
    else none
  | ["clearlog"] =>
    if rpcRefused "clearLog" mood then some (some (mood, w))
    else some (keep ((clearLog fmt w.act).map fun a => { w with act := a }))
  | ["optreopen"] => some (keep ((optReopenlogs fmt w.act).map fun a => { w with act := a }))
  | ["sigusr2", h] => (bytesOfHex h).map fun b => keep (sigusr2 fmt b mood w)
  | ["clearproc", g, p] =>
    match g.toNat?, p.toNat? with
    | some g, some p => if rpcRefused "clearProcessLogs" mood then some (some (mood, w)) else some (keep (clearProc g p w))
    | _, _ => none
  | ["clearall"] => if rpcRefused "clearAllProcessLogs" mood then some (some (mood, w)) else some (keep (clearAll w))
  | ["extremove", id, n] =>
    match parseLogId id, n.toInt? with
    | some none, some n => some (some (mood, onActFiles (fun _ s => extRemove n s) w))
    | some (some (g, p, d)), some n => some (keep (onLog g p d (fun _ s => extRemove n s) w))
    | _, _ => none
  | ["extreplace", id, n, h] =>
    match parseLogId id, n.toInt?, bytesOfHex h with
    | some none, some n, some b => some (some (mood, onActFiles (fun _ s => extReplace n b s) w))
    | some (some (g, p, d)), some n, some b => some (keep (onLog g p d (fun _ s => extReplace n b s) w))
    | _, _, _ => none
  | _ => none

def runWorld (fmt : String → Bytes) (top : Nat) : String → Option World → List String → List String
  | _, _, [] => []
  | m, none, _ :: r => "unmodelled" :: runWorld fmt top m none r
  | m, some w, l :: r =>
    match stepWorld fmt m w l with
    | none => "bad-op" :: runWorld fmt top m (some w) r
    | some none => "unmodelled" :: runWorld fmt top m none r
    | some (some (m', w')) => showWorld top w' :: runWorld fmt top m' (some w') r

/-- an integer, or `d` = not written in the configuration -/
def parseOptInt (s : String) : Option (Option Int) :=
  if s = "d" then some none else s.toInt?.map some

/-- `M.B` of a channel: what the process's section says about this log -/
def parseCfg (listener : Bool) (s : String) : Option Cfg :=
  match s.splitOn "." with
  | [m, n] =>
    match parseOptInt m, parseOptInt n with
    | some m, some n => chanCfg listener m n
    | _, _ => none
  | _ => none

def parseChan (listener : Bool) (mk : Option (Cfg × S) → Disp) (s : String) : Option (List Disp) :=
  if s = "x" then some []                                    -- no such dispatcher (redirect_stderr)
  else if s = "-" then some [mk none]
  else (parseCfg listener s).map fun c => [mk (some (c, init c))]

/-- `K:O:E`: K = p (program) | l (event listener); dispatchers in make_dispatchers' order -/
def parseProc (s : String) : Option Proc :=
  match s.splitOn ":" with
  | [k, o, e] =>
    let mkOut := if k = "l" then Disp.listener else Disp.output
    if k = "p" || k = "l" then
      match parseChan (k = "l") mkOut o, parseChan false Disp.output e with
      | some a, some b => some (a ++ b ++ [.input])
      | _, _ => none
    else none
  | _ => none

def parseGroups (s : String) : Option (List Group) :=
  if s = "none" then some []
  else allM (fun g => allM parseProc (g.splitOn ",")) (s.splitOn "/")

def withExtra (extra : String) (hs : List Handler) : Option (List Handler) :=
  if extra = "none" then some hs
  else if extra = "front" then some (.bare 0 :: hs)
  else if extra = "back" then some (hs ++ [.bare 0])
  else none

def kvOptInt (cfg : List String) (k : String) : Option (Option Int) :=
  match kvGet cfg k with
  | none => some none                 -- key absent: not given
  | some v => if v = "-" then some none else v.toInt?.map some

/-- `via=attr`: the attributes were set directly (maxbytes / backups are integers); `via=conf`: a configuration
    file and a command line went through realize() (maxbytes / backups = what the file says or `-`,
    climb / clibk = what the command line says or `-`) -/
def caseCfg (cfg : List String) : Option (Option Cfg) :=
  match kvGet cfg "via" with
  | some "conf" =>
    match kvOptInt cfg "maxbytes", kvOptInt cfg "backups", kvOptInt cfg "climb", kvOptInt cfg "clibk" with
    | some fm, some fb, some cm, some cb => some (actCfg cm fm cb fb)
    | _, _, _, _ => none
  | some "attr" | none =>
    match kvInt cfg "maxbytes", kvInt cfg "backups" with
    | some m, some b => some (actCfgOfAttrs m b)
    | _, _ => none
  | _ => none

def runCase (cfg : List String) (ops : List String) : List String :=
  match kvBool cfg "nodaemon", kvBool cfg "silent", caseCfg cfg,
      kvGet cfg "extra", (kvGet cfg "fmtpre").bind bytesOfHex, kvNat cfg "show", (kvGet cfg "groups").bind parseGroups with
  | some nd, some sl, some oc, some extra, some pre, some top, some gs =>
    match oc.bind fun c => (mkLogger nd sl c).bind (withExtra extra) with
    | some hs => runWorld (fun msg => pre ++ bytesOfString msg ++ [10]) top "RUNNING" (some ⟨hs, gs⟩) ops
    | none => ops.map fun _ => "unmodelled"
  | _, _, _, _, _, _, _ => ops.map fun _ => "bad-config"

end Sv.LogFan
