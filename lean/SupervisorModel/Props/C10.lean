import SupervisorModel.Lemmas.Listener
/-
  C10 — event-listener protocol safety.  Property theorems only; helper lemmas are in
  Lemmas/Listener.lean.  The definitions unfolded there (`Sv.Gen.Listener.*`) are regenerated
  from /repo on every run.
-/
set_option linter.unusedSimpArgs false
set_option linter.unusedVariables false
namespace Sv.Props.C10
open Sv Sv.Listener Sv.Gen.Listener

/-- The parser's data invariant (`Listener.Wf`): while a result is being collected its announced length
    is not negative and the collected part is not longer than it.  It holds for a new dispatcher and is
    kept by everything the parser does (this is what the sign check of fix F6 buys). -/
theorem resultlen_never_negative (h : Bytes → HRes) (a : Bytes) (s : S) (he : s.err = none) (hw : Wf s.p) :
    (feed h a s).err = none ∧ Wf (feed h a s).p ∧
    (∀ n, (feed h a s).p.resultlen = some n → 0 ≤ n) := by
  have h1 : setP (fun p => { p with buf := p.buf ++ a }) s = sapp s a := by simp [setP, guard, he, sapp, app]
  unfold feed hlsc
  rw [h1]
  have hw' : Wf (sapp s a).p := (app_wf _ _).mpr hw
  have := runHL_ok h (mu (sapp s a).p + 1) (sapp s a) he hw' (by omega)
  refine ⟨this.1, this.2, ?_⟩
  intro n hn
  have h2 := this.2
  simp only [Wf, hn] at h2
  omega

example : Wf (fresh 7) := by simp [Wf, fresh, initialResult]

/-- The recursion of `handle_listener_state_change` always ends within the depth `2·|buffer| + 2`
    (the model's fuel): no RecursionError, for every state and every input.
    (Before fix F6 `RESULT -1\n…` recursed for ever.) -/
theorem terminates (h : Bytes → HRes) (a : Bytes) (s : S) (he : s.err = none) (hw : Wf s.p) :
    (feed h a s).err ≠ some .fuel := by
  rw [(resultlen_never_negative h a s he hw).1]; simp

/-- **Fragmentation invariance.**  Delivering `a` and then `b` leaves the listener — state, buffer,
    pending length, partial result, held event — and the concatenated outputs (state changes, handler
    calls, rejections) exactly as delivering `a ++ b` at once. -/
theorem fragmentation_invariant (h : Bytes → HRes) (a b : Bytes) (s : S) (he : s.err = none) (hw : Wf s.p) :
    feed h b (feed h a s) = feed h (a ++ b) s := by
  have h1 : ∀ (t : S) (x : Bytes), t.err = none → setP (fun p => { p with buf := p.buf ++ x }) t = sapp t x := by
    intro t x ht; simp [setP, guard, ht, sapp, app]
  have r1 := resultlen_never_negative h a s he hw
  have hw' : Wf (sapp s a).p := (app_wf _ _).mpr hw
  have hfa : feed h a s = runHL h (mu (sapp s a).p + 1) (sapp s a) := by unfold feed hlsc; rw [h1 s a he]
  have hassoc : sapp s (a ++ b) = sapp (sapp s a) b := by simp [sapp, app, List.append_assoc]
  unfold feed hlsc at *
  rw [h1 s (a ++ b) he, hassoc, h1 _ b r1.1, h1 s a he]
  exact (run_append h b (mu (sapp s a).p + 1) (sapp s a) _ _ he hw' (by omega) (by simp [sapp]) (by simp [sapp])).symm

/-- a BUSY listener holding event 3 (non-vacuity of the hypotheses, and a concrete instance) -/
def busy3 : S := { p := { fresh 7 with ls := .BUSY, event := some 3 } }
example : busy3.err = none ∧ Wf busy3.p := by simp [busy3, Wf, fresh, initialResult]
example : (feed defaultHandler [79, 75] (feed defaultHandler [82, 69, 83, 85, 76, 84, 32, 50, 10] busy3)).outs
    = [.handler (some 3) [79, 75], .lstate .BUSY .ACKNOWLEDGED] := by decide

/-! ### an event is written only to a RUNNING listener that announced READY -/

/-- `_dispatchEvent` leaves a listener that is not RUNNING or not READY completely alone:
    nothing is written, nothing changes (this covers UNKNOWN, ACKNOWLEDGED and BUSY: `unknown_is_silent`). -/
theorem not_ready_not_sent (ev : Nat) (env : Bytes) (s : S) (hn : s.p.running = false ∨ s.p.ls ≠ .READY) :
    trySend ev env s = (s, .skipped) := by
  unfold trySend
  rcases hn with hn | hn
  · simp [hn]
  · have : (s.p.ls == LS.READY) = false := by simpa using hn
    simp [this]

/-- when an event is handed over, the listener was RUNNING and READY -/
theorem sent_only_when_ready (ev : Nat) (env : Bytes) (s : S) (hs : (trySend ev env s).2 = .sent) :
    s.p.running = true ∧ s.p.ls = .READY := by
  by_cases hr : s.p.running = true
  · by_cases hl : s.p.ls = .READY
    · exact ⟨hr, hl⟩
    · rw [not_ready_not_sent ev env s (Or.inr hl)] at hs; cases hs
  · have hr' : s.p.running = false := by simpa using hr
    rw [not_ready_not_sent ev env s (Or.inl hr')] at hs; cases hs

example : (trySend 5 [1, 2, 3] { p := { fresh 7 with ls := .READY, running := true } }).2 = .sent := by decide

/-- in UNKNOWN every byte is swallowed: the state stays UNKNOWN and nothing is emitted -/
theorem unknown_absorbs (h : Bytes → HRes) (a : Bytes) (s : S) (he : s.err = none) (hu : s.p.ls = .UNKNOWN) :
    (feed h a s).p.ls = .UNKNOWN ∧ (feed h a s).outs = s.outs ∧ (feed h a s).p.buf = [] ∨
    (a = [] ∧ s.p.buf = [] ∧ feed h a s = s) := by
  have h1 : setP (fun p => { p with buf := p.buf ++ a }) s = sapp s a := by simp [setP, guard, he, sapp, app]
  unfold feed hlsc
  rw [h1, runHL_succ h _ (sapp s a) he]
  by_cases hb : (sapp s a).p.buf = []
  · right
    have hb' : s.p.buf = [] ∧ a = [] := by simpa [sapp, app] using hb
    refine ⟨hb'.2, hb'.1, ?_⟩
    rw [stepC_nil h _ hb]
    rcases hb' with ⟨h1, h2⟩
    subst h2
    rw [sapp_nil]
    cases s; simp_all
  · left
    rw [stepC_unknown h _ hb hu]
    simp [sapp, app, hu]

/-- the result-gathering part never leaves BUSY for UNKNOWN without rejecting the held event -/
theorem body_violation_returns_event (h : Bytes → HRes) (q : Lst) (n : Int) (hb : q.ls = .BUSY)
    (hn : (q.result.length : Int) ≤ n) (hu : (bodyC h q n).p.ls = .UNKNOWN) :
    Out.rejected q.event ∈ (bodyC h q n).outs ∧ (bodyC h q n).p.event = none := by
  have hn' : ¬ n - (q.result.length : Int) < 0 := by omega
  rw [bodyC_eq_K h q n hn'] at hu ⊢
  unfold bodyK at hu ⊢
  by_cases hc : n - ((takeBody q n).result.length : Int) = 0
  · simp only [hc, if_true] at hu ⊢
    unfold handled at hu ⊢
    have hev : (takeBody q n).event = q.event := rfl
    cases hh : h (takeBody q n).result <;> simp [hh, afterResult, hev] at hu ⊢
  · simp only [hc, if_false] at hu
    have : (takeBody q n).ls = q.ls := rfl
    rw [this, hb] at hu; cases hu

/-- `violation_returns_event`, per call body of the parser: whenever a BUSY listener is put into
    UNKNOWN (bad result line, result handler failure) an `EventRejectedEvent` for the event it held is
    emitted and the listener no longer holds it. -/
theorem violation_returns_event (h : Bytes → HRes) (p : Lst) (hb : p.ls = .BUSY) (hw : Wf p)
    (hu : (stepP h p).p.ls = .UNKNOWN) :
    Out.rejected p.event ∈ (stepP h p).outs ∧ (stepP h p).p.event = none := by
  rw [stepP_eq] at hu ⊢
  by_cases hbuf : p.buf = []
  · rw [stepC_nil h p hbuf] at hu; simp [hb] at hu
  · rcases Option.eq_none_or_eq_some p.resultlen with hr | ⟨n, hr⟩
    · rw [stepC_header h p hbuf hb hr] at hu ⊢
      unfold headerC at hu ⊢
      rcases Option.eq_none_or_eq_some (findNL p.buf) with hf | ⟨pos, hf⟩
      · simp [hf, hb] at hu
      · rcases Option.eq_none_or_eq_some (headerLenC (p.buf.take pos)) with hh | ⟨m, hh⟩
        · simp [hf, hh, toUnknown]
        · simp only [hf, hh] at hu ⊢
          have hres : p.result = [] := by simpa [Wf, hr] using hw
          exact body_violation_returns_event h (afterHeader p pos m) m (by simp [afterHeader, hb])
            (by simp [afterHeader, hres, headerLenC_nonneg _ _ hh]) hu
    · rw [stepC_body h p n hbuf hb hr] at hu ⊢
      exact body_violation_returns_event h p n hb (by simpa [Wf, hr] using hw) hu

/-- a complete zero-length result is acted on as soon as its header line is there (F25, fixed) -/
theorem zero_length_result_eager :
    (feed defaultHandler [82, 69, 83, 85, 76, 84, 32, 48, 10] busy3).p.ls = .ACKNOWLEDGED ∧
    (feed defaultHandler [82, 69, 83, 85, 76, 84, 32, 48, 10] busy3).outs =
      [.handler (some 3) [], .lstate .BUSY .ACKNOWLEDGED, .rejected (some 3)] := by decide

end Sv.Props.C10
