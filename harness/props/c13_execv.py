"""
C13, the clause "BAD_NAME, NO_FILE or NOT_EXECUTABLE when it cannot exist or be executed" -- L1 population.

The real ServerOptions.check_execv_args / ServerOptions.stat, the real Subprocess.get_execv_args / spawn / transition and the real
SupervisorNamespaceRPCInterface.startProcess, over a virtual file system at the place of `supervisor.options.os` (stat and access
only; everything else of `os` is the real module): every candidate file of the command lookup is missing, unreachable (stat fails
with EACCES / ENOTDIR / ELOOP), a directory, a regular or a special file with some permission bits, owner and group; access(X_OK) is
answered as the kernel would for the user supervisord runs as (root: any execute bit; otherwise the owner / group / other class
of that user), optionally overridden by a noexec mount (refused) or an ACL entry (granted).  fork / pipes / kill stay scripted
(harness/proc_l1.py), so a history reaches all eight process states before a start request arrives.

Monitors, in the property's words: no child is forked -- by startProcess or by spawn() on its own (autostart, BACKOFF retry) -- unless
the file the lookup arrives at exists, is not a directory, has an execute bit and may be executed by supervisord's user; startProcess
then answers NO_FILE (nothing there) or NOT_EXECUTABLE (there, but not executable; or no usable command at all), and never one of the
two for a command that can be executed.  Correspondence: the same operations through Model/Execv.lean (`execv` cases of drv_c13).
"""
import errno, os as _os, posixpath, shlex, stat as _stat, sys, types

import proc_l1

S_TYPES = {'file': _stat.S_IFREG, 'dir': _stat.S_IFDIR, 'fifo': _stat.S_IFIFO, 'chr': _stat.S_IFCHR, 'blk': _stat.S_IFBLK,
           'sock': _stat.S_IFSOCK}
PERMS = [0o000, 0o644, 0o755, 0o700, 0o100, 0o010, 0o001, 0o070, 0o007, 0o074, 0o654, 0o750, 0o711, 0o4755, 0o2755, 0o1777, 0o666,
         0o110, 0o011, 0o101, 0o444, 0o555, 0o111, 0o4644, 0o6000]
USERS = [(0, (0,)), (1000, (100,)), (2000, (200,)), (1000, (100, 200)), (3000, (300,))]
OWNERS = [(0, 0), (1000, 100), (2000, 200), (0, 100), (2000, 100)]
STAT_ERRNOS = [errno.EACCES, errno.ENOTDIR, errno.ELOOP, errno.ENAMETOOLONG]

FAULT_NO_FILE, FAULT_NOT_EXECUTABLE, FAULT_BAD_NAME, FAULT_SUCCESS, FAULT_ALREADY_STARTED = 20, 21, 10, 80, 60      # checked against supervisor.xmlrpc.Faults in run()
RUNNING_STATES = ('STARTING', 'RUNNING', 'BACKOFF')


# ------------------------------------------------------------------------------------------------ the virtual file system
def entry(kind, perm=0, uid=0, gid=0, noexec=False, acl=False, err=None):
    """kind: missing | staterr | file | dir | fifo | chr | blk | sock"""
    return dict(kind=kind, perm=perm, uid=uid, gid=gid, noexec=bool(noexec), acl=bool(acl), err=err)


def st_mode(e):
    """what stat() reports, None when it fails"""
    if e is None or e['kind'] in ('missing', 'staterr'):
        return None
    return S_TYPES[e['kind']] | e['perm']


def kernel_access(e, user):
    """access(file, X_OK) for the user supervisord runs as"""
    if st_mode(e) is None:
        return False
    if e['noexec'] and e['kind'] != 'dir':
        return False
    if e['acl']:
        return True
    uid, groups = user
    if uid == 0:
        return e['kind'] == 'dir' or bool(e['perm'] & 0o111)
    if uid == e['uid']:
        return bool(e['perm'] & 0o100)
    if e['gid'] in groups:
        return bool(e['perm'] & 0o010)
    return bool(e['perm'] & 0o001)


def executable(e, user):
    """the property's "can exist and be executed": there, not a directory, some execute bit, and supervisord's user may execute it"""
    m = st_mode(e)
    return m is not None and e['kind'] != 'dir' and bool(e['perm'] & 0o111) and kernel_access(e, user)


class FakeOs(object):
    """stands for the `os` module inside supervisor.options: stat and access answer from the virtual file system"""
    def __init__(self, real):
        self.real = real
        self.fs, self.user, self.log, self.environ = {}, (0, (0,)), [], dict(_os.environ)
        self.force_access = None
    def __getattr__(self, name):
        return getattr(_os, name)
    def stat(self, fn, *a, **kw):
        e = self.fs.get(fn)
        self.log.append(('stat', fn))
        m = st_mode(e)
        if m is None:
            code = e['err'] if e is not None and e['kind'] == 'staterr' else errno.ENOENT
            raise OSError(code, _os.strerror(code), fn)
        return _os.stat_result((m, 7, 1, 1, e['uid'], e['gid'], 4096, 0, 0, 0))
    def access(self, fn, mode, *a, **kw):
        self.log.append(('access', fn, mode))
        if self.force_access is not None:
            return self.force_access
        if mode != _os.X_OK:
            return st_mode(self.fs.get(fn)) is not None
        return kernel_access(self.fs.get(fn), self.user)


class Installed(object):
    """supervisor.options.os replaced for the duration of one operation"""
    def __init__(self, fake):
        self.fake = fake
    def __enter__(self):
        self.so = sys.modules['supervisor.options']
        self.saved = self.so.os
        self.so.os = self.fake
        return self.fake
    def __exit__(self, *a):
        self.so.os = self.saved


# ------------------------------------------------------------------------------------------------ one command lookup
COMMANDS = [
    # (kind, command line, program)
    ('explicit', '/opt/app/bin/run', '/opt/app/bin/run'),
    ('explicit', '/opt/app/bin/run --port 8080 "two words"', '/opt/app/bin/run'),
    ('explicit', '"/opt/my app/run" -v', '/opt/my app/run'),
    ('explicit', './run', './run'),
    ('explicit', 'bin/run.sh arg', 'bin/run.sh'),
    ('search', 'run', 'run'),
    ('search', 'run -c /etc/run.conf', 'run'),
    ('search', "python3 -u 'my script.py'", 'python3'),
    ('empty', '', None),
    ('empty', '   ', None),
    ('unparsable', 'run "unbalanced', None),
    ('unparsable', "/opt/app/bin/run 'x", None),
]
PATHS = [['/a'], ['/a', '/b'], ['/a', '/b', '/c'], ['/usr/local/bin', '/usr/bin', '/bin'], ['/b', '/a', '/b']]


def candidates(case):
    if case['kind'] == 'explicit':
        return [case['program']]
    if case['kind'] == 'search':
        return [posixpath.join(d, case['program']) for d in case['path']]
    return []


def chosen(case, fs):
    """(index, entry) of the file the lookup arrives at: the program itself, or the first directory of the path where it is found"""
    for i, c in enumerate(candidates(case)):
        if case['kind'] == 'explicit' or st_mode(fs.get(c)) is not None:
            return i, fs.get(c)
    return None, None


def files_token(case, fs, user):
    toks = []
    for c in candidates(case):
        e = fs.get(c)
        m = st_mode(e)
        toks.append('%s/%d' % ('none' if m is None else m, int(kernel_access(e, user))))
    return ','.join(toks) or '-'


def verdict(case, fs, user):
    """'ok' | 'no-command' | 'missing' | 'not-executable' -- the property's three ways of "cannot exist or be executed" """
    if case['kind'] in ('empty', 'unparsable'):
        return 'no-command'
    i, e = chosen(case, fs)
    if i is None or st_mode(e) is None:
        return 'missing'
    return 'ok' if executable(e, user) else 'not-executable'


# ------------------------------------------------------------------------------------------------ the rig
class Rig(object):
    """proc_l1.L1 (real Subprocess / ProcessGroup / rpcinterface over the scripted seam) with the command-file checks real again"""
    def __init__(self, case):
        from supervisor.options import ServerOptions
        import supervisor.process as sp, supervisor.rpcinterface as ri
        self.saved_time = (sp, sp.time, ri, ri.time)
        self.case = case
        self.l1 = proc_l1.L1(case['cfg'])
        o = self.l1.options
        o.stat = types.MethodType(ServerOptions.stat, o)
        o.check_execv_args = types.MethodType(ServerOptions.check_execv_args, o)
        o.get_path = types.MethodType(ServerOptions.get_path, o)
        self.forks = []
        real_fork = o.fork
        def fork():
            pid = real_fork()
            self.forks.append(pid)
            return pid
        o.fork = fork
        self.fake = FakeOs(sys.modules['supervisor.options'].os)
        self.fake.user = (case['user'][0], tuple(case['user'][1]))
        pc = self.l1.pconfig
        pc.command = case['command']
        if case['route'] == 'env':           # PATH from the program's configured environment
            pc.environment = {'PATH': ':'.join(case['path'])}
            self.fake.environ = {'PATH': '/nonexistent'}
        else:                                # PATH from supervisord's own environment
            pc.environment = {} if case['route'] == 'environ-empty-env' else None
            self.fake.environ = {'PATH': ':'.join(case['path'])}

    def close(self):
        self.l1.close()
        sp, t1, ri, t2 = self.saved_time
        sp.time, ri.time = t1, t2

    def state(self):
        return proc_l1.STATE_NAMES.get(self.l1.proc.get_state(), '?')

    def do(self, op):
        """returns (canonical line, facts for the monitors)"""
        from supervisor import xmlrpc
        l1, k = self.l1, op['op']
        fs = op.get('fs') or {}
        self.fake.fs, self.fake.log = fs, []
        del self.forks[:]
        facts = dict(pre=self.state(), prepid=l1.proc.pid)
        with Installed(self.fake):
            if k == 'getargs':
                try:
                    filename, argv = l1.proc.get_execv_args()
                    cs = candidates(self.case)
                    line = 'ok:%d' % cs.index(filename) if filename in cs else 'ok:?%s' % filename
                    facts.update(result='ok', filename=filename, argv=list(argv))
                except Exception as ex:
                    line = type(ex).__name__
                    facts.update(result=line)
                return line, facts
            if k in ('xstart', 'xtransition'):
                o = l1.options
                l1.outs = []
                o.calls = l1.outs
                l1.clock.t = op['now']
                o.mood = op['mood']
                o.spawn = tuple(op['spawn'])
                o.killres = op.get('kill', 'ok')
                l1._wrap_spawn()
                err = None
                try:
                    if k == 'xtransition':
                        l1.group.transition()
                    else:
                        try:
                            r = l1.rpc.startProcess('g:p', wait=bool(op['wait']))
                            if r is True:
                                l1.outs.append('answer:%d' % xmlrpc.Faults.SUCCESS)
                                facts['answer'] = 'true'
                            elif callable(r):
                                l1.outs.append('deferred')
                                facts['answer'] = 'deferred'
                            else:
                                l1.outs.append('answer:?%r' % (r,))
                                facts['answer'] = repr(r)
                        except xmlrpc.RPCError as e:
                            l1.outs.append('answer:%d' % e.code)
                            facts['answer'] = e.code
                except AssertionError:
                    err = 'AssertionError'
                except Exception as e:
                    err = type(e).__name__
                facts.update(forks=list(self.forks), err=err, post=self.state(), syscalls=list(self.fake.log))
                return l1.line(err), facts
        line = l1.do(op)
        facts.update(forks=list(self.forks), post=self.state())
        return line, facts


def op_line(case, op):
    k = op['op']
    user = (case['user'][0], tuple(case['user'][1]))
    def sp(s):
        return 'ok:%d' % s[1] if s[0] == 'ok' else s[0]
    if k == 'getargs':
        return 'getargs cmd=%s files=%s' % (case['kind'], files_token(case, op['fs'], user))
    if k == 'xstart':
        return 'xstart now=%d mood=%d wait=%d spawn=%s cmd=%s files=%s' % (op['now'], op['mood'], int(bool(op['wait'])), sp(op['spawn']),
                                                                          case['kind'], files_token(case, op['fs'], user))
    if k == 'xtransition':
        return 'xtransition now=%d mood=%d spawn=%s kill=%s cmd=%s files=%s' % (op['now'], op['mood'], sp(op['spawn']), op['kill'],
                                                                               case['kind'], files_token(case, op['fs'], user))
    return proc_l1.op_line(op)


def case_line(case):
    return proc_l1.cfg_line(case['cfg']).replace('case proc ', 'case execv ', 1)


# ------------------------------------------------------------------------------------------------ monitors
def monitor(ctx, case, op, facts, inp):
    k = op['op']
    if k not in ('getargs', 'xstart', 'xtransition'):
        return
    user = (case['user'][0], tuple(case['user'][1]))
    v = verdict(case, op['fs'], user)
    i, e = chosen(case, op['fs'])
    desc = 'command %r as uid %d groups %r, file %s' % (
        case['command'], user[0], list(user[1]),
        'none' if v == 'no-command' else ('nowhere' if i is None else '%s %s' % (candidates(case)[i], describe(e))))
    def bad(kind, what):
        ctx.violation(kind, what + ' (' + desc + ')', inp)
    if k == 'getargs':
        if facts['result'] == 'ok':
            if v != 'ok':
                bad('execv-lookup-accepts-unexecutable-command', 'get_execv_args returned %r although the command cannot be executed: %s' % (facts['filename'], v))
            elif facts['filename'] != candidates(case)[i]:
                bad('execv-lookup-wrong-file', 'get_execv_args chose %r' % facts['filename'])
            elif facts['argv'] != shlex.split(case['command']):
                bad('execv-lookup-wrong-argv', 'argv %r' % facts['argv'])
        elif v == 'ok':
            bad('execv-lookup-rejects-executable-command', 'get_execv_args raised %s for a command that can be executed' % facts['result'])
        return
    forks = facts['forks']
    if forks and v != 'ok':
        bad('start-forked-for-unexecutable-command' if k == 'xstart' else 'spawn-forked-for-unexecutable-command',
            '%s forked %r although the command cannot be executed: %s' % ('startProcess(wait=%s)' % bool(op['wait']) if k == 'xstart' else 'transition()', forks, v))
    if len(forks) > 1:
        bad('start-forked-twice', '%d forks in one operation' % len(forks))
    if k != 'xstart' or facts.get('err'):
        return
    ans = facts['answer']
    what = 'startProcess(wait=%s) on %s answered %s' % (bool(op['wait']), facts['pre'], ans)
    if op['mood'] < 1:
        return       # SHUTDOWN_STATE comes first; that no child is forked then is checked above and by the model
    if v == 'ok':
        if ans in (FAULT_NO_FILE, FAULT_NOT_EXECUTABLE, FAULT_BAD_NAME):
            bad('start-file-fault-for-executable-command', what)
    elif ans == FAULT_ALREADY_STARTED and facts['pre'] in RUNNING_STATES:
        pass         # the property names both answers for such a request without ranking them (the code tests the file first; the model pins that)
    elif v == 'missing':
        if ans != FAULT_NO_FILE:
            bad('start-missing-file-not-reported', what + ' instead of NO_FILE')
    else:
        if ans != FAULT_NOT_EXECUTABLE:
            bad('start-unexecutable-file-not-reported', what + ' instead of NOT_EXECUTABLE')
    # the rest of the first sentence of C13, cheap to restate here
    if ans in ('true', 'deferred') and len(forks) != 1:
        bad('start-true-without-fork', what + ' with forks %r' % forks)
    if forks and facts['pre'] in RUNNING_STATES + ('STOPPING', 'UNKNOWN'):
        bad('start-forked-when-not-eligible', what + ' and forked %r' % forks)


def describe(e):
    if e is None or e['kind'] == 'missing':
        return 'missing'
    if e['kind'] == 'staterr':
        return 'stat fails with %s' % errno.errorcode.get(e['err'], e['err'])
    return '%s mode %04o owner %d:%d%s%s' % (e['kind'], e['perm'], e['uid'], e['gid'], ' noexec' if e['noexec'] else '', ' acl' if e['acl'] else '')


# ------------------------------------------------------------------------------------------------ running one case
def run_case(ctx, case, origin):
    rig = Rig(case)
    lines, ops = [], []
    try:
        for n, op in enumerate(case['ops']):
            line, facts = rig.do(op)
            lines.append(line)
            ops.append(op_line(case, op))
            monitor(ctx, case, op, facts, dict(execv=dict(case, ops=case['ops'][:n + 1])))
            k = op['op']
            if k in ('getargs', 'xstart', 'xtransition'):
                user = (case['user'][0], tuple(case['user'][1]))
                v = verdict(case, op['fs'], user)
                ctx.count('execv:%s:%s' % (k, v))
                if k == 'xstart':
                    ctx.count('execv:xstart:from=%s' % facts['pre'])
                    ctx.count('execv:xstart:answer=%s' % facts.get('answer'))
                    ctx.count('execv:xstart:wait=%d' % int(bool(op['wait'])))
                if k != 'getargs':
                    ctx.count('execv:%s:forks=%d' % (k, len(facts['forks'])))
                i, e = chosen(case, op['fs'])
                if e is not None and st_mode(e) is not None:
                    xbit, acc = bool(e['perm'] & 0o111), kernel_access(e, user)
                    ctx.count('execv:file:%s:xbit=%d:access=%d' % (e['kind'] if e['kind'] in ('file', 'dir') else 'special', xbit, acc))
                    if e['kind'] == 'file' and xbit:
                        cls = 'root' if user[0] == 0 else ('owner' if user[0] == e['uid'] else ('group' if e['gid'] in user[1] else 'other'))
                        ctx.count('execv:user-class:%s:access=%d' % (cls, acc))
    finally:
        rig.close()
    ctx.count('execv:origin:' + origin)
    ctx.count('execv:cmd:' + case['kind'] + (':' + case['route'] if case['kind'] == 'search' else ''))
    cl = case_line(case)
    ctx.case_done(cl + ' || ' + ' ; '.join(ops), nontrivial=any(o['op'] in ('xstart', 'xtransition', 'getargs') for o in case['ops']))
    return cl, ops, lines


# ------------------------------------------------------------------------------------------------ check_execv_args alone
def check_cases(ctx, thorough):
    """the real ServerOptions.check_execv_args on every st_mode of interest x access answer"""
    from supervisor.options import ServerOptions
    o = proc_l1.ScriptedOptions()
    fake = FakeOs(None)
    modes = [None]
    perms = set(PERMS) | set(range(0o1000)) | (set(range(0o10000)) if thorough else set())
    for kind in ('file', 'dir'):
        modes += [S_TYPES[kind] | p for p in sorted(perms)]
    for kind in ('fifo', 'chr', 'blk', 'sock'):
        modes += [S_TYPES[kind] | p for p in PERMS]
    modes += [_stat.S_IFLNK | 0o777, 0o755, 0o644]          # a dangling link seen through lstat would look like this; no type bits at all
    ops, lines = [], []
    with Installed(fake):
        for m in modes:
            for acc in (True, False):
                st = None if m is None else _os.stat_result((m, 7, 1, 1, 0, 0, 4096, 0, 0, 0))
                fake.force_access, fake.log = acc, []
                try:
                    ServerOptions.check_execv_args(o, '/opt/app/bin/run', ['/opt/app/bin/run'], st)
                    r = 'ok'
                except Exception as ex:
                    r = type(ex).__name__
                ops.append('check st=%s acc=%d' % ('none' if m is None else m, int(acc)))
                lines.append(r)
                can = m is not None and not _stat.S_ISDIR(m) and bool(m & 0o111) and acc
                ctx.count('execv:check:%s' % r)
                inp = dict(execv_check=dict(st_mode=m, access=acc))
                if r == 'ok' and not can:
                    ctx.violation('execv-check-accepts-unexecutable-file',
                                  'check_execv_args accepts st_mode %s with access(X_OK) %s' % ('None' if m is None else oct(m), acc), inp)
                elif r != 'ok' and can:
                    ctx.violation('execv-check-rejects-executable-file',
                                  'check_execv_args raises %s for st_mode %s with access(X_OK) %s' % (r, oct(m), acc), inp)
                if any(c[0] == 'access' and (c[1] != '/opt/app/bin/run' or c[2] != _os.X_OK) for c in fake.log):
                    ctx.violation('execv-check-asks-about-another-file', 'access calls %r' % fake.log, inp)
    cfg = dict(startsecs=1, startretries=3, autostart=True, autorestart='unexpected', exitcodes=[0], stopsignal=15, stopwaitsecs=10,
               stopasgroup=False, killasgroup=False)
    cl = proc_l1.cfg_line(cfg).replace('case proc ', 'case execv ', 1)
    cases, impls = [], []
    for j in range(0, len(ops), 1024):
        cases.append((cl, ops[j:j + 1024])); impls.append(lines[j:j + 1024])
        ctx.case_done(cl + ' check-chunk %d' % j, nontrivial=True)
    return cases, impls


# ------------------------------------------------------------------------------------------------ generators
def base_cfg(**kw):
    d = dict(startsecs=1, startretries=3, autostart=True, autorestart='unexpected', exitcodes=[0], stopsignal=15, stopwaitsecs=10,
             stopasgroup=False, killasgroup=False)
    d.update(kw)
    return d


def mk_case(cmd, path, route, user, cfg, ops):
    kind, command, program = cmd
    return dict(kind=kind, command=command, program=program, path=list(path), route=route, user=[user[0], list(user[1])], cfg=cfg, ops=ops)


T0 = 1000 * proc_l1.TICK

CORPUS = [
    # seeded change C13-7: an execute bit that is not supervisord's user's -- mode 0o074 owned by that user; 0o750 owned by someone else
    mk_case(COMMANDS[0], ['/a'], 'env', (1000, (100,)), base_cfg(autostart=False), [
        dict(op='getargs', fs={'/opt/app/bin/run': entry('file', 0o074, 1000, 100)}),
        dict(op='xstart', now=T0, mood=1, wait=False, spawn=['ok', 101], fs={'/opt/app/bin/run': entry('file', 0o074, 1000, 100)}),
        dict(op='xstart', now=T0, mood=1, wait=True, spawn=['ok', 102], fs={'/opt/app/bin/run': entry('file', 0o750, 0, 0)}),
        dict(op='xtransition', now=T0 + 1024, mood=1, spawn=['ok', 103], kill='ok', fs={'/opt/app/bin/run': entry('file', 0o654, 1000, 100)})]),
    # autostart of the same file by spawn() alone
    mk_case(COMMANDS[0], ['/a'], 'env', (1000, (100,)), base_cfg(autostart=True), [
        dict(op='xtransition', now=T0, mood=1, spawn=['ok', 101], kill='ok', fs={'/opt/app/bin/run': entry('file', 0o750, 2000, 200)})]),
    # seeded change C13-8: started once, stopped, the file loses its execute bits / disappears / becomes a directory, started again
    mk_case(COMMANDS[0], ['/a'], 'env', (1000, (100,)), base_cfg(autostart=False, startsecs=0), [
        dict(op='xstart', now=T0, mood=1, wait=False, spawn=['ok', 101], fs={'/opt/app/bin/run': entry('file', 0o755, 0, 0)}),
        dict(op='reap', now=T0 + 2048, es=0, busy=False),
        dict(op='xstart', now=T0 + 4096, mood=1, wait=False, spawn=['ok', 102], fs={'/opt/app/bin/run': entry('file', 0o644, 0, 0)}),
        dict(op='xstart', now=T0 + 4096, mood=1, wait=True, spawn=['ok', 103], fs={}),
        dict(op='xstart', now=T0 + 4096, mood=1, wait=False, spawn=['ok', 104], fs={'/opt/app/bin/run': entry('dir', 0o755, 0, 0)}),
        dict(op='xtransition', now=T0 + 8192, mood=1, spawn=['ok', 105], kill='ok', fs={})]),
    # $PATH: the first directory that has the name wins, executable or not; a later executable one does not help
    mk_case(COMMANDS[5], ['/a', '/b', '/c'], 'env', (1000, (100,)), base_cfg(autostart=False), [
        dict(op='getargs', fs={'/b/run': entry('file', 0o644, 0, 0), '/c/run': entry('file', 0o755, 0, 0)}),
        dict(op='xstart', now=T0, mood=1, wait=False, spawn=['ok', 101], fs={'/b/run': entry('file', 0o644, 0, 0), '/c/run': entry('file', 0o755, 0, 0)}),
        dict(op='xstart', now=T0, mood=1, wait=False, spawn=['ok', 101], fs={'/a/run': entry('staterr', err=errno.EACCES), '/c/run': entry('file', 0o755, 0, 0)})]),
    # root may execute anything with an execute bit; nothing without one, whatever access() says
    mk_case(COMMANDS[1], ['/a'], 'environ', (0, (0,)), base_cfg(autostart=False), [
        dict(op='xstart', now=T0, mood=1, wait=False, spawn=['ok', 101], fs={'/opt/app/bin/run': entry('file', 0o644, 1000, 100, acl=True)}),
        dict(op='xstart', now=T0, mood=1, wait=False, spawn=['ok', 101], fs={'/opt/app/bin/run': entry('file', 0o001, 1000, 100)})]),
    # no usable command at all
    mk_case(COMMANDS[8], ['/a'], 'env', (0, (0,)), base_cfg(autostart=False), [
        dict(op='getargs', fs={}), dict(op='xstart', now=T0, mood=1, wait=False, spawn=['ok', 101], fs={})]),
    mk_case(COMMANDS[10], ['/a'], 'env', (0, (0,)), base_cfg(autostart=True), [
        dict(op='xstart', now=T0, mood=1, wait=True, spawn=['ok', 101], fs={}),
        dict(op='xtransition', now=T0, mood=1, spawn=['ok', 102], kill='ok', fs={})]),
]


def small_scope(thorough):
    """one fresh process per (user, owner, kind, mode, mount/ACL override): startProcess with wait false and true, autostart by spawn()"""
    perms = PERMS if not thorough else sorted(set(PERMS) | set(range(0o1000)))
    n = 0
    for user in USERS:
        for owner in OWNERS:
            for kind in ('file', 'dir'):
                for perm in perms:
                    for flags in ((False, False), (True, False), (False, True)):
                        if flags != (False, False) and (perm not in (0o755, 0o644, 0o700, 0o074) or not thorough and owner != OWNERS[1]):
                            continue
                        n += 1
                        e = entry(kind, perm, owner[0], owner[1], noexec=flags[0], acl=flags[1])
                        cmd = COMMANDS[0] if n % 3 else COMMANDS[5]
                        path = ['/a', '/b']
                        fs = {'/opt/app/bin/run': e} if cmd[0] == 'explicit' else {'/b/run': e}
                        mode = n % 4
                        if mode == 0:
                            ops = [dict(op='xtransition', now=T0, mood=1, spawn=['ok', 101], kill='ok', fs=fs)]
                        else:
                            ops = [dict(op='xstart', now=T0, mood=1, wait=(mode == 2), spawn=['ok', 101], fs=fs)]
                        if mode == 3:
                            ops.insert(0, dict(op='getargs', fs=fs))
                        yield mk_case(cmd, path, 'env' if n % 2 else 'environ', user, base_cfg(autostart=(mode == 0), startsecs=n % 2), ops)
    for kind, err in [('missing', None)] + [('staterr', c) for c in STAT_ERRNOS]:
        for cmd in (COMMANDS[0], COMMANDS[3], COMMANDS[5]):
            for wait in (False, True):
                fs = {}
                if kind == 'staterr':
                    fs = {c: entry('staterr', err=err) for c in ([cmd[2]] if cmd[0] == 'explicit' else ['/a/run', '/b/run'])}
                yield mk_case(cmd, ['/a', '/b'], 'env', USERS[1], base_cfg(autostart=False),
                              [dict(op='getargs', fs=fs), dict(op='xstart', now=T0, mood=1, wait=wait, spawn=['ok', 101], fs=fs),
                               dict(op='xtransition', now=T0 + 99 * 1024, mood=1, spawn=['ok', 102], kill='ok', fs=fs)])
    for kind in ('fifo', 'chr', 'blk', 'sock'):
        for perm in (0o644, 0o755, 0o700):
            fs = {'/opt/app/bin/run': entry(kind, perm, 1000, 100)}
            yield mk_case(COMMANDS[0], ['/a'], 'env', USERS[1], base_cfg(autostart=False),
                          [dict(op='xstart', now=T0, mood=1, wait=False, spawn=['ok', 101], fs=fs)])


def gen_entry(rng, user, good=0.0):
    r = rng.random()
    if r < good:
        # executable by this user
        if user[0] == 0:
            return entry('file', rng.choice([0o755, 0o700, 0o001, 0o010, 0o555]), *rng.choice(OWNERS))
        return rng.choice([entry('file', rng.choice([0o755, 0o700, 0o500, 0o100]), user[0], user[1][0]),
                           entry('file', rng.choice([0o755, 0o750, 0o010, 0o070]), 4000, user[1][-1]),
                           entry('file', rng.choice([0o755, 0o001, 0o005, 0o751]), 4000, 400)])
    kind = rng.choice(['file'] * 8 + ['dir'] * 2 + ['missing'] * 2 + ['staterr'] + ['fifo', 'sock'])
    if kind == 'missing':
        return entry('missing')
    if kind == 'staterr':
        return entry('staterr', err=rng.choice(STAT_ERRNOS))
    perm = rng.choice(PERMS) if rng.random() < 0.7 else rng.randrange(0o10000)
    uid, gid = rng.choice(OWNERS)
    return entry(kind, perm, uid, gid, noexec=rng.random() < 0.08, acl=rng.random() < 0.05)


def gen_case(rng):
    cmd = rng.choice(COMMANDS[:8] * 3 + COMMANDS[8:])
    path = rng.choice(PATHS)
    route = rng.choice(['env', 'env', 'environ', 'environ-empty-env'])
    user = rng.choice(USERS)
    cfg = proc_l1.gen_cfg(rng)
    case = mk_case(cmd, path, route, user, cfg, [])
    cands = candidates(case)
    fs = {}
    def mutate(good):
        if not cands:
            return
        if rng.random() < 0.15:
            fs.clear()
        for c in (cands if rng.random() < 0.3 else [rng.choice(cands)]):
            e = gen_entry(rng, user, good)
            if e['kind'] == 'missing' and rng.random() < 0.5:
                fs.pop(c, None)
            else:
                fs[c] = e
    mutate(0.7)
    gen = proc_l1.gen_ops(rng, 0)
    n = rng.choice([3, 6, 10, 16])
    rig = Rig(case)          # the generator looks at the real process to decide whether a reap makes sense
    try:
        ops = []
        nextpid = 100
        for _ in range(n):
            op = gen(rig.l1.proc)
            if rng.random() < 0.35:
                mutate(0.5)
            snap = {k: dict(v) for k, v in fs.items()}
            if op['op'] in ('transition', 'rpcstart'):
                s = op['spawn']
                if s[0] == 'badcmd':
                    nextpid += 1000
                    s = ('ok', nextpid)
                if op['op'] == 'transition':
                    op = dict(op='xtransition', now=op['now'], mood=op['mood'], spawn=list(s), kill=op['kill'], fs=snap)
                else:
                    op = dict(op='xstart', now=op['now'], mood=op['mood'], wait=rng.random() < 0.5, spawn=list(s), fs=snap)
            elif rng.random() < 0.1:
                op = dict(op='getargs', fs=snap)
            ops.append(op)
            rig.do(op)
    finally:
        rig.close()
    case['ops'] = ops
    return case


def population(ctx):
    for c in CORPUS:
        yield 'corpus', c
    if not ctx.searching:
        for c in small_scope(ctx.tier == 'thorough'):
            yield 'small', c
    for _ in range(ctx.n(1500, 25000)):
        yield 'random', gen_case(ctx.rng)


def run(ctx):
    from supervisor.xmlrpc import Faults
    assert (Faults.NO_FILE, Faults.NOT_EXECUTABLE, Faults.BAD_NAME, Faults.SUCCESS, Faults.ALREADY_STARTED) == (
        FAULT_NO_FILE, FAULT_NOT_EXECUTABLE, FAULT_BAD_NAME, FAULT_SUCCESS, FAULT_ALREADY_STARTED)
    cases, impls = check_cases(ctx, ctx.tier == 'thorough') if not ctx.searching else ([], [])
    for origin, case in population(ctx):
        cl, ops, lines = run_case(ctx, case, origin)
        cases.append((cl, ops)); impls.append(lines)
        if origin == 'corpus' and len(ctx.samples) < 6:
            ctx.sample({'execv_case': cl, 'ops': ops[:3], 'impl_lines': lines[:3]})
    ctx.correspond('execv', cases, impls)


def replay(ctx, data):
    inp = data['input']
    if 'execv_check' in inp:
        cases, impls = check_cases(ctx, True)
        ctx.correspond('execv', cases, impls)
        return
    case = inp['execv']
    cl, ops, lines = run_case(ctx, case, 'replay')
    ctx.correspond('execv', [(cl, ops)], [lines])
