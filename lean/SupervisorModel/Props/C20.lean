-- stub: replaced by the property author
namespace Sv.Props.C20
end Sv.Props.C20
