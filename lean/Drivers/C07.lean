import SupervisorModel.Basic.DriverKit
import SupervisorModel.Model.OutDisp
def main : IO Unit := Sv.driverMain [("outdisp", Sv.OutDisp.runCase), ("strip", Sv.Strip.runCase),
  ("boundio", Sv.OutDisp.runBound), ("fpae", Sv.OutDisp.runFpae), ("wiring", Sv.OutDisp.runWiring)]
