import SupervisorModel.Basic.Bytes
import SupervisorModel.Generated.Rpc
import SupervisorModel.Model.RpcText
/-
  XML-RPC dispatch (supervisor/xmlrpc.py, supervisor/rpcinterface.py).

  * `resolve`/`call`  = `traverse(ob, method, params)` over an ARBITRARY attribute table
    (namespace name ↦ attribute name ↦ kind), so the closure theorems hold for every object
    graph, not only for the interfaces registered today.  The four tests are the generated
    guards `traverse_g0..g3`, the fault names are `traverseRaises` (source order).
  * `runGated`        = a public method of SupervisorNamespaceRPCInterface seen as "its gate, then
    an arbitrary body"; the gate of every method is the generated `gateTable`, the test inside
    `_update` is the generated `update_g0`.
  * `multi`/`drive`   = SystemNamespaceRPCInterface.multicall with deferred callbacks as step
    functions and the main loop's ticks as an environment schedule; `seq` is the reference
    "the same calls made one after another".
-/
namespace Sv.Rpc
open Sv.Gen.Rpc

abbrev Name := List Char

/-- `str.split('.')` -/
def splitDot : Name → List Name
  | [] => [[]]
  | c :: r =>
    if c = '.' then [] :: splitDot r
    else match splitDot r with
      | h :: t => (c :: h) :: t
      | [] => [[c]]

def faultCode (name : String) : Option Int := faults.lookup name

/-! ## outcomes, deferred callbacks -/

mutual
  /-- a deferred answer: a closure polled once per main-loop tick -/
  inductive Cb (σ ν : Type) : Type
    | mk : (σ → PollR σ ν) → Cb σ ν
  inductive PollR (σ ν : Type) : Type
    | again : Cb σ ν → σ → PollR σ ν            -- NOT_DONE_YET
    | value : ν → σ → PollR σ ν
    | fault : Int → σ → PollR σ ν               -- RPCError(code)
    | raised : String → σ → PollR σ ν           -- any other exception
end

/-- what a call produces -/
inductive Outcome (σ ν : Type) : Type
  | value (v : ν)
  | fault (code : Int)
  | raised (what : String)
  | deferred (cb : Cb σ ν)

/-- `raise RPCError(Faults.<name>)`; a name missing from `Faults` is an AttributeError -/
def raiseFault {σ ν : Type} (name : String) : Outcome σ ν :=
  match faultCode name with
  | some c => .fault c
  | none => .raised "AttributeError"

/-! ## traverse -/

inductive Kind (μ : Type) : Type
  | boundMethod (m : μ)        -- isinstance(func, types.MethodType)
  | other                      -- any other attribute value
  | absent                     -- getattr(..., None) is None

/-- `getattr(ob, namespace, None)`: none, or an object given by the kinds of its attributes -/
abbrev Table (μ : Type) := Name → Option (Name → Kind μ)

def nthFault (i : Nat) : String := traverseRaises.getD i "?"

/-- name resolution of `traverse`: the method object, or the name of the fault raised -/
def resolve {μ : Type} (tbl : Table μ) (method : Name) : Except String μ :=
  let parts := splitDot method
  if traverse_g0 parts false none none false then .error (nthFault 0)
  else match parts with
    | [ns, m] =>
      if traverse_g1 parts (m.head? == some '_') none none false then .error (nthFault 1)
      else match tbl ns with
        | none => if traverse_g2 parts false none none false then .error (nthFault 2) else .error "?"
        | some attrs =>
          if traverse_g2 parts false (some ()) none false then .error (nthFault 2)
          else match attrs m with
            | .boundMethod f => if traverse_g3 parts false (some ()) (some ()) true then .error (nthFault 3) else .ok f
            | .other => if traverse_g3 parts false (some ()) (some ()) false then .error (nthFault 3) else .error "?"
            | .absent => if traverse_g3 parts false (some ()) none false then .error (nthFault 3) else .error "?"
    | _ => .error "?"

/-- a bound method: how many positional arguments it accepts, and its body -/
structure Method (σ ν : Type) where
  minArgs : Nat
  maxArgs : Nat
  run : List ν → σ → Outcome σ ν × σ

/-- `traverse`: resolve, then `func(*params)` with TypeError → INCORRECT_PARAMETERS (a wrong
    argument count raises before the body runs; a TypeError from inside the body is mapped too) -/
def call {σ ν : Type} (tbl : Table (Method σ ν)) (method : Name) (args : List ν) (s : σ) : Outcome σ ν × σ :=
  match resolve tbl method with
  | .error f => (raiseFault f, s)
  | .ok m =>
    if args.length < m.minArgs || m.maxArgs < args.length then (raiseFault (nthFault 4), s)
    else match m.run args s with
      | (.raised w, s') => if w = "TypeError" then (raiseFault (nthFault 4), s') else (.raised w, s')
      | r => r

/-! ## the `_update` gate -/

/-- what `self._update(...)` raises -/
def updateFault {σ ν : Type} : Outcome σ ν :=
  match updateRaises with
  | [n] => raiseFault n
  | _ => .raised "extraction"

def isGated : Option Gate → Bool
  | some .first => true
  | some .afterPure => true
  | _ => false

/-- a leaf method called by a wrapper: its own gate, then its body -/
def runLeaf {σ ν : Type} (g : Option Gate) (mood : Int) (body : σ → Outcome σ ν × σ) (s : σ) : Outcome σ ν × σ :=
  if isGated g && update_g0 true mood then (updateFault, s) else body s

def iterLeaf {σ ν : Type} (g : Option Gate) (mood : Int) (body : σ → Outcome σ ν × σ) : Nat → σ → σ
  | 0, s => s
  | n+1, s => iterLeaf g mood body n (runLeaf g mood body s).2

/-- a public method of SupervisorNamespaceRPCInterface with gate `g`: `body` is everything after
    the `_update` call, `leafBody`/`nLeaf` the leaf calls a `viaLeaf` wrapper makes before it
    (their RPCErrors end up in result structs) -/
def runGated {σ ν : Type} (g : Gate) (mood : Int) (nLeaf : Nat) (leafBody body : σ → Outcome σ ν × σ) (s : σ) :
    Outcome σ ν × σ :=
  match g with
  | .first => if update_g0 true mood then (updateFault, s) else body s
  | .afterPure => if update_g0 true mood then (updateFault, s) else body s
  | .viaLeaf l =>
    let s' := iterLeaf (gateTable.lookup l) mood leafBody nLeaf s
    if update_g0 true mood then (updateFault, s') else body s'
  | .none => body s

/-- the structural condition the gating theorem needs of a table row -/
def gateOk : Gate → Bool
  | .first => true
  | .afterPure => true
  | .viaLeaf l => isGated (gateTable.lookup l)
  | .none => false

/-! ## system.multicall -/

structure MCall (ν : Type) where
  name : Option Name           -- call.get('methodName', None)
  params : List ν              -- call.get('params', [])

inductive Elem (ν : Type) : Type
  | val (v : ν)
  | fstruct (code : Int)       -- {'faultCode': code, 'faultString': ...}
  | broken                     -- a fault constant missing from Faults (extraction guard)
deriving DecidableEq, Repr

def failedCode : Option Int := faultCode "FAILED"

/-- how a finished outcome is recorded in `results` -/
def elemOfFault {ν : Type} (c : Int) : Elem ν := .fstruct c
def elemOfRaised {ν : Type} : Elem ν := match failedCode with | some c => .fstruct c | none => .broken

/-- one element of `calls`: the refusals of multicall itself, then `traverse(root, name, params)` -/
def callOne {σ ν : Type} (tbl : Table (Method σ ν)) (c : MCall ν) (s : σ) : Outcome σ ν × σ :=
  match c.name with
  | none => (raiseFault "INCORRECT_PARAMETERS", s)
  | some n =>
    match multicallRefused.find? (fun p => p.1.toList == n) with
    | some p => ((match p.2 with | [f] => raiseFault f | _ => .raised "extraction"), s)
    | none => call tbl n c.params s

structure MC (σ ν : Type) where
  remaining : List (MCall ν)
  pending : Option (Cb σ ν)       -- `callbacks`: empty or one function
  results : List (Elem ν)

/-- `if callbacks: ...` -/
def pollPending {σ ν : Type} (m : MC σ ν) (s : σ) : MC σ ν × σ :=
  match m.pending with
  | none => (m, s)
  | some (.mk poll) =>
    match poll s with
    | .again cb s' => ({ m with pending := some cb }, s')
    | .value v s' => ({ m with pending := none, results := m.results ++ [.val v] }, s')
    | .fault c s' => ({ m with pending := none, results := m.results ++ [elemOfFault c] }, s')
    | .raised _ s' => ({ m with pending := none, results := m.results ++ [elemOfRaised] }, s')

/-- `while (not callbacks) and remaining_calls: ...` -/
def startCalls {σ ν : Type} (tbl : Table (Method σ ν)) : List (MCall ν) → List (Elem ν) → σ → MC σ ν × σ
  | [], res, s => ({ remaining := [], pending := none, results := res }, s)
  | c :: rest, res, s =>
    match callOne tbl c s with
    | (.deferred cb, s') => ({ remaining := rest, pending := some cb, results := res }, s')
    | (.value v, s') => startCalls tbl rest (res ++ [.val v]) s'
    | (.fault code, s') => startCalls tbl rest (res ++ [elemOfFault code]) s'
    | (.raised _, s') => startCalls tbl rest (res ++ [elemOfRaised]) s'

/-- one invocation of the closure `multi()` -/
def multi {σ ν : Type} (tbl : Table (Method σ ν)) (m : MC σ ν) (s : σ) : MC σ ν × σ :=
  let r := pollPending m s
  match r.1.pending with
  | some _ => r
  | none => startCalls tbl r.1.remaining r.1.results r.2

def finished {σ ν : Type} (m : MC σ ν) : Bool := m.pending.isNone && m.remaining.isEmpty

/-- `multi()` invoked once per tick until it answers; `env k` is what the rest of the daemon does
    between tick `k` and tick `k+1`; `f` bounds the number of invocations -/
def drive {σ ν : Type} (tbl : Table (Method σ ν)) (env : Nat → σ → σ) : Nat → Nat → MC σ ν → σ → Option (List (Elem ν) × σ)
  | 0, _, _, _ => none
  | f+1, k, m, s =>
    let r := multi tbl m s
    if finished r.1 then some (r.1.results, r.2) else drive tbl env f (k + 1) r.1 (env k r.2)

def multicall {σ ν : Type} (tbl : Table (Method σ ν)) (env : Nat → σ → σ) (f : Nat) (calls : List (MCall ν)) (s : σ) :=
  drive tbl env f 0 { remaining := calls, pending := none, results := [] } s

/-! ### reference: the calls made one after another -/

/-- a deferred answer polled at tick `k` in state `s`, `f` invocations allowed; answers the recorded
    element, the state, and how many further ticks it took -/
def waitCb {σ ν : Type} (env : Nat → σ → σ) : Nat → Nat → Cb σ ν → σ → Option (Elem ν × σ × Nat)
  | 0, _, _, _ => none
  | f+1, k, .mk poll, s =>
    match poll s with
    | .again cb s' => (waitCb env f (k + 1) cb (env k s')).map fun r => (r.1, r.2.1, r.2.2 + 1)
    | .value v s' => some (.val v, s', 0)
    | .fault c s' => some (elemOfFault c, s', 0)
    | .raised _ s' => some (elemOfRaised, s', 0)

/-- one call made on its own at tick `k` -/
def single {σ ν : Type} (tbl : Table (Method σ ν)) (env : Nat → σ → σ) (f k : Nat) (c : MCall ν) (s : σ) :
    Option (Elem ν × σ × Nat) :=
  match callOne tbl c s with
  | (.deferred cb, s') => (waitCb env (f - 1) (k + 1) cb (env k s')).map fun r => (r.1, r.2.1, r.2.2 + 1)
  | (.value v, s') => some (.val v, s', 0)
  | (.fault code, s') => some (elemOfFault code, s', 0)
  | (.raised _, s') => some (elemOfRaised, s', 0)

/-- the calls one after another: call i+1 is made at the tick at which call i answered -/
def seq {σ ν : Type} (tbl : Table (Method σ ν)) (env : Nat → σ → σ) : List (MCall ν) → Nat → Nat → σ → Option (List (Elem ν) × σ)
  | [], _, _, s => some ([], s)
  | c :: rest, f, k, s =>
    match single tbl env f k c s with
    | none => none
    | some r => (seq tbl env rest (f - r.2.2) (k + r.2.2) r.2.1).map fun q => (r.1 :: q.1, q.2)


/-! ## the HTTP framing of an answer

  `bodyText` is the marshalled methodResponse (`xmlrpc_marshal(value)`, a `str`).  What is put on
  the wire is bytes: `http_request.push` encodes a `str` it is given (`as_bytes`), a `bytes` object
  goes out as it is.  The Content-Length header is whatever `len(...)` the builder computes —
  the generated `contReq_a9` (immediate answers) and `defResp_a1 ∘ defMore_c0_0` (deferred
  answers: `more()` hands its body to `getresponse(body)`, which sets the header). -/

structure Framed where
  contentLength : Int
  wire : Bytes
deriving DecidableEq, Repr

/-- `supervisor_xmlrpc_handler.continue_request`, non-deferred branch -/
def immediateResponse (bodyText : List Char) : Framed :=
  { contentLength := contReq_a9 bodyText, wire := contReq_c0_0 bodyText }

/-- `DeferredXMLRPCResponse.more` → `getresponse`: the pushed body is text, encoded by `request.push`;
    the header is `len(as_bytes(body))` -/
def deferredResponse (bodyText : List Char) : Framed :=
  { contentLength := defResp_a1 (defMore_c0_0 bodyText), wire := utf8Of (defResp_c0_0 (defMore_c0_0 bodyText)) }

/-- what a client reads as the body: exactly Content-Length bytes -/
def clientBody (f : Framed) : Bytes := f.wire.take f.contentLength.toNat

/-! ## how the request reaches `continue_request`: the body collector and the header buffer

  The socket delivers the request in arbitrary pieces.  While a request is being received the channel
  passes every piece of the body to `collector.collect_incoming_data`, which keeps the generated
  `collKept piece`; when Content-Length bytes have arrived `collector.found_terminator` hands
  `continue_request` the generated `collHanded kept`.  An exception anywhere escapes
  `handle_read`: asyncore closes the channel and the client gets no answer at all — so the answer
  can only be independent of the segmentation if this composition is. -/

/-- `collector.collect_incoming_data`, once per piece, exceptions sticky -/
def collectPieces : List Bytes → List PyStr → Except String (List PyStr)
  | [], kept => .ok kept
  | p :: rest, kept =>
    match collKept (.bytes p) with
    | .ok x => collectPieces rest (kept ++ [x])
    | .error e => .error e

/-- the text handed to `continue_request` for a body that arrived as `pieces` -/
def requestBody (pieces : List Bytes) : Except String PyStr :=
  match collectPieces pieces [] with
  | .ok kept => collHanded kept
  | .error e => .error e

/-- `http_channel.collect_incoming_data` while no request is current: `self.in_buffer = <chanKept>` -/
def bufferPieces : List Bytes → PyStr → Except String PyStr
  | [], buf => .ok buf
  | p :: rest, buf =>
    match chanKept buf (.bytes p) with
    | .ok b => bufferPieces rest b
    | .error e => .error e

/-- the header text `deferring_http_channel.found_terminator` cracks, for a header that arrived as `pieces` -/
def requestHeader (pieces : List Bytes) : Except String PyStr :=
  match bufferPieces pieces (.bytes []) with
  | .ok buf => chanHeader buf
  | .error e => .error e

/-! ## addProcessGroup: a group whose construction fails

  `supervisord.add_process_group(config)` is the seam: it adds the group (`added`), finds it active
  already (`already`), or an exception of some class escapes it (`raised`: the socket of an
  fcgi-program cannot be bound → ValueError, the child log directory is gone → FileNotFoundError …).
  Which classes the method catches and which fault it answers then is the generated
  `addGroupCatches`; an exception no clause catches escapes the method — the HTTP 500 of the
  property statement. -/

inductive AddRes
  | added
  | already
  | raised (exc : String)
deriving DecidableEq, Repr

/-- does `except <types>` catch an exception of class `exc`? (a class outside the table only by its own name) -/
def catches (types : List String) (exc : String) : Bool :=
  match excMro.lookup exc with
  | some mro => types.any fun t => mro.contains t
  | none => types.contains exc

/-- `raise RPCError(Faults.<the one name>)` -/
def raiseOne {σ ν : Type} : List String → Outcome σ ν
  | [f] => raiseFault f
  | _ => .raised "extraction"

/-- the body of addProcessGroup after its gate; the state counts the groups added -/
def addGroupBody {ν : Type} (vTrue : ν) (found : Bool) (construct : AddRes) (s : Nat) : Outcome Nat ν × Nat :=
  if !found then (raiseOne addGroupUnknown, s)
  else match construct with
    | .added => (.value vTrue, s + 1)
    | .already => (raiseOne addGroupAlready, s)
    | .raised exc =>
      match addGroupCatches.find? (fun h => catches h.1 exc) with
      | some h => (raiseOne h.2, s)
      | none => (.raised exc, s)

/-- `SupervisorNamespaceRPCInterface.addProcessGroup(name)` in mood `mood`: `found` = a configured
    group has the name, `construct` = what `supervisord.add_process_group` does for it -/
def addProcessGroup {ν : Type} (vTrue : ν) (mood : Int) (found : Bool) (construct : AddRes) (s : Nat) : Outcome Nat ν × Nat :=
  match gateTable.lookup "addProcessGroup" with
  | some g => runGated g mood 0 (fun s => (.value vTrue, s)) (addGroupBody vTrue found construct) s
  | none => (.raised "extraction", s)

/-! ## deferred answers of startProcess / stopProcess (wait=True)

  The callback the method returns (`onwait`) is polled once per main-loop tick.  What it answers at one
  poll is the generated `startOnwait` / `stopOnwait` — the whole body of the callback as a function of
  what it reads of the process (`spawnerr`, `get_state()`).  Between two polls anything can happen to the
  process (another client stops or starts it, the child dies, a kill fails): the schedule of what the
  callback reads is arbitrary. -/

/-- what the callback reads of the process at one poll -/
structure PView where
  spawnerr : Bool
  state : Int
deriving DecidableEq, Repr

inductive WaitKind | start | stop
deriving DecidableEq, Repr

def onwait : WaitKind → PView → WaitAns
  | .start, p => startOnwait p.spawnerr p.state
  | .stop, p => stopOnwait p.spawnerr p.state

/-- does the method answer later (return the callback) when, after its own spawn()/stop(), reap() and transition(),
    the process looks like `p`? -/
def defers : WaitKind → Bool → PView → Bool
  | .start, wait, p => startDefers wait p.spawnerr p.state
  | .stop, wait, p => stopDefers wait p.spawnerr p.state

def stateCode (name : String) : Option Int := procStates.lookup name

/-- the states from which the process MUST move on, so that waiting for it is not waiting for ever:
    start — STARTING without a spawn error (startsecs elapse, or the child goes away, or it is stopped);
    stop  — any state that is not a stopped state (the kill has been sent; reap() or the SIGKILL escalation follows) -/
def mustMoveOn : WaitKind → PView → Bool
  | .start, p => !p.spawnerr && (some p.state == stateCode "STARTING")
  | .stop, p => !(procStoppedStates.contains p.state)

/-- is the code one of ProcessStates? -/
def validState (c : Int) : Bool := (procStates.map (·.2)).contains c

/-- one poll's answer as the model's outcome language: a fault name missing from Faults is an AttributeError -/
def waitAnsOk : WaitAns → Bool
  | .again => true
  | .done => true
  | .fault n => (faultCode n).isSome
  | .other _ => false

/-- the callback polled once per tick: `sched k` is what it reads at poll `k`; at most `f` polls.
    The first answer other than NOT_DONE_YET, and the poll at which it came. -/
def waitPolls (kind : WaitKind) (sched : Nat → PView) : Nat → Nat → Option (WaitAns × Nat)
  | 0, _ => none
  | f+1, k =>
    if onwait kind (sched k) = .again then waitPolls kind sched f (k + 1)
    else some (onwait kind (sched k), k)

/-- the same callback in the outcome language of `call` / `multicall` (`Cb`): it reads the process out of
    the state with `view`, and changes nothing.  `n` bounds how often it can be polled (a `Cb` is a finite object). -/
def ansPoll {σ ν : Type} (vTrue : ν) (self : Cb σ ν) (a : WaitAns) (s : σ) : PollR σ ν :=
  match a with
  | .again => .again self s
  | .done => .value vTrue s
  | .fault n => (match faultCode n with
                 | some c => .fault c s
                 | none => .raised "AttributeError" s)
  | .other w => .raised w s

def onwaitCb {σ ν : Type} (kind : WaitKind) (view : σ → PView) (vTrue : ν) : Nat → Cb σ ν
  | 0 => .mk fun s => .raised "poll bound" s
  | n+1 => .mk fun s => ansPoll vTrue (onwaitCb kind view vTrue n) (onwait kind (view s)) s

/-- the state the callback is polled in at its `j`-th poll, when it is first polled at tick `k` in state `s` and
    `env` acts between ticks (the callback itself changes nothing) -/
def stateAt {σ : Type} (env : Nat → σ → σ) : Nat → σ → Nat → σ
  | _, s, 0 => s
  | k, s, j+1 => stateAt env (k + 1) (env k s) j

/-! ## marshalling the answer: `xmlrpc_marshal`

  A value that is not a Fault is wrapped into a 1-tuple — unless it IS a tuple, which is taken for the
  already wrapped parameter tuple and handed to `xmlrpclib.dumps(..., methodresponse=True)` as it is:
  that asserts `len(params) == 1`.  So a method returning a tuple of another length is an HTTP 500, and
  a 1-tuple answers its element; inside `system.multicall` the same value is one element of the result
  list and is marshalled as an array. -/

inductive PyShape
  | scalar | list | dict
  | tuple (n : Nat)
deriving DecidableEq, Repr

inductive Marshalled
  | value            -- the response carries the value itself
  | element          -- the response carries the only element of the tuple
  | assertion        -- AssertionError ("response tuple must be a singleton") → the catch-all → HTTP 500
deriving DecidableEq, Repr

def PyShape.isTuple : PyShape → Bool
  | .tuple _ => true
  | _ => false

/-- `xmlrpc_marshal(value)` for a value that is not a Fault -/
def marshalValue (sh : PyShape) : Marshalled :=
  if marshal_g0 false sh.isTuple then
    if marshal_g1 false sh.isTuple then .value
    else match sh with
      | .tuple 1 => .element
      | _ => .assertion
  else .value

/-- the same value as one element of a multicall result: always marshalled as itself (a tuple as an array) -/
def marshalElement (_sh : PyShape) : Marshalled := .value

/-- may a method return something of this syntactic shape? (`via`: judged at the function named; `opaque`: not
    visible in the syntax) -/
def retNotTuple : RetShape → Bool
  | .tuple => false
  | _ => true

/-! ## one connection, several requests: whose request is it?

  `deferring_http_channel.found_terminator` hands whatever arrives to `channel.current_request` when that is set and
  cracks a new request header otherwise (generated `chanDispatchStale`); dispatching a request sets it (generated
  `dispatchSetsCurrent`); the two places that finish a response reset it: `deferring_http_request.done()` for an answer
  given at once (and for error responses), `DeferredXMLRPCResponse.getresponse()` for an answer given later — each under
  the condition the generated `doneClears` / `defRespClears` state in terms of the response's close flag.  A request
  whose header reaches the previous request instead of being cracked is answered `400 Bad Request` (the old collector
  appends it to the old body and parses the lot). -/

structure Req where
  deferred : Bool      -- the method answered with a callback (DeferredXMLRPCResponse) / at once (request.done())
  closeIt : Bool       -- the response says `Connection: close` (HTTP/1.0 without keep-alive, HTTP/1.1 with close)
deriving DecidableEq, Repr

structure Chan where
  current : Bool       -- `channel.current_request` is set
  isOpen : Bool        -- the server has not closed the connection
deriving DecidableEq, Repr

def Chan.fresh : Chan := { current := false, isOpen := true }

inductive Served
  | answered           -- cracked as a new request and dispatched to the handler
  | stale              -- handed to the request answered before: HTTP 400
deriving DecidableEq, Repr

/-- the channel with the two finishers abstracted: `cd`/`cr` = when done() / getresponse() reset `current_request` -/
def finishWith (cd cr : Bool → Bool) (r : Req) (c : Chan) : Chan :=
  let clears := if r.deferred then cr r.closeIt else cd r.closeIt
  { current := c.current && !clears, isOpen := c.isOpen && !r.closeIt }

def serveWith (cd cr : Bool → Bool) (r : Req) (c0 : Chan) : Served × Chan :=
  let c := if c0.isOpen then c0 else Chan.fresh          -- the server hung up: the client connects anew
  if chanDispatchStale c.current then
    -- the old request answers 400 through error() → done(), without a close flag
    (.stale, { c with current := c.current && !cd false })
  else
    (.answered, finishWith cd cr r { c with current := dispatchSetsCurrent })

def serveAllWith (cd cr : Bool → Bool) : List Req → Chan → List Served
  | [], _ => []
  | r :: rest, c => let x := serveWith cd cr r c; x.1 :: serveAllWith cd cr rest x.2

/-- the code as it is: the generated conditions -/
def serveAll (reqs : List Req) (c : Chan) : List Served := serveAllWith doneClears defRespClears reqs c

/-- what a raised `RPCError` becomes on the path of an answer given at once (`continue_request`) / later (`more`): a
    fault response iff the handler builds an `xmlrpclib.Fault` from the error's code and text (generated
    `rpcErrorAnswers`) and `xmlrpc_marshal` takes a Fault for a fault (generated `marshal_g0`) -/
def raisedBecomesFault (deferred : Bool) : Bool :=
  match rpcErrorAnswers.lookup (if deferred then "more" else "continue_request") with
  | some (ctor, args) => ctor == "xmlrpclib.Fault" && args == ["err.code", "err.text"] && !marshal_g0 true false
  | none => false

/-! ## line protocol
  case rpc <entry>*        entry = <hexns>  |  <hexns>:<hexattr>:o  |  <hexns>:<hexattr>:m<min>,<max>,<beh>
                           beh   = v<id> | f<code> | x | t | d<k>,<final>      final = v<id> | f<code> | x
  ops:  call <hexname> <nargs>              → value <v> | fault <c> | raised <w> | deferred    then  ` ran=<labels|->`
        multi <hexname|*>:<nargs>,...  | -  → results=<v..|f..;...|-> ticks=<n> ran=<labels|->
        gate <name> <mood> <nLeaf>          → fault <c> changed=<0|1> | passes | other
        frame <i|d> <code points,..|->      → cl=<Content-Length> wire=<hex of the body bytes>
        collect <hex piece|->,...           → text <code points,..|-> | bytes <hex> | raises <exception>    (the body collector)
        header <hex piece|->,...            → the same for the header buffer
        decode <hex>                        → text <code points,..|-> | raises UnicodeDecodeError
        addgroup <mood> <found 0|1> <ok1|ok0|raise:<class>|->   → value true | fault <c> | raised <class>
        onwait <start|stop> <spawnerr 0|1> <state>            → again | done | fault <c> | other
        defers <start|stop> <wait 0|1> <spawnerr 0|1> <state> → 0 | 1
        wait <start|stop> <fuel> <spawnerr:state,...>         → answer <done|fault c|other> poll=<k> | pending   (the last entry is held)
        marshal <scalar|list|dict|tuple<n>>                   → value | element | assert
-/
abbrev Log := List String

inductive Fin3 | v (id : Int) | f (code : Int) | x
inductive Beh | fin (r : Fin3) | t | d (k : Nat) (r : Fin3)

def finPoll (r : Fin3) (s : Log) : PollR Log Int :=
  match r with
  | .v i => .value i s
  | .f c => .fault c s
  | .x => .raised "ValueError" s

def mkCb (label : String) (r : Fin3) : Nat → Cb Log Int
  | 0 => .mk fun s => finPoll r (s ++ ["poll:" ++ label])
  | k+1 => .mk fun s => .again (mkCb label r k) (s ++ ["poll:" ++ label])

def behRun (label : String) (b : Beh) (args : List Int) (s : Log) : Outcome Log Int × Log :=
  let s' := s ++ [s!"{label}/{args.length}"]
  match b with
  | .fin (.v i) => (.value i, s')
  | .fin (.f c) => (.fault c, s')
  | .fin .x => (.raised "ValueError", s')
  | .t => (.raised "TypeError", s')
  | .d k r => (.deferred (mkCb label r k), s')

def parseFin (t : String) : Option Fin3 :=
  if t = "x" then some .x
  else if t.startsWith "v" then (t.drop 1).toString.toInt?.map .v
  else if t.startsWith "f" then (t.drop 1).toString.toInt?.map .f
  else none

def parseBeh (ts : List String) : Option Beh :=
  match ts with
  | ["t"] => some .t
  | [a] => if a.startsWith "d" then none else (parseFin a).map .fin
  | [a, b] => if a.startsWith "d" then
      match (a.drop 1).toString.toNat?, parseFin b with
      | some k, some r => some (.d k r)
      | _, _ => none
    else none
  | _ => none

def nameOfHex (h : String) : Option Name := (bytesOfHex h).map fun bs => bs.map fun b => Char.ofNat b.toNat

inductive Entry
  | ns (n : Name)
  | attr (n a : Name) (k : Option (Nat × Nat × Beh))     -- none = other

def parseEntry (t : String) : Option Entry :=
  match t.splitOn ":" with
  | [n] => (nameOfHex n).map .ns
  | [n, a, k] =>
    match nameOfHex n, nameOfHex a with
    | some n, some a =>
      if k = "o" then some (.attr n a none)
      else if k.startsWith "m" then
        match (k.drop 1).toString.splitOn "," with
        | mn :: mx :: beh =>
          match mn.toNat?, mx.toNat?, parseBeh beh with
          | some mn, some mx, some b => some (.attr n a (some (mn, mx, b)))
          | _, _, _ => none
        | _ => none
      else none
    | _, _ => none
  | _ => none

def labelOf (n a : Name) : String := String.ofList n ++ "." ++ String.ofList a

def tableOf (es : List Entry) : Table (Method Log Int) := fun ns =>
  if es.any (fun e => match e with | .ns n => n == ns | .attr n _ _ => n == ns) then
    some fun a =>
      match es.findSome? (fun e => match e with
          | .attr n a' k => if n == ns && a' == a then some k else none
          | _ => none) with
      | none => .absent
      | some none => .other
      | some (some (mn, mx, b)) => .boundMethod { minArgs := mn, maxArgs := mx, run := behRun (labelOf ns a) b }
  else none

def showOutcome : Outcome Log Int → String
  | .value v => s!"value {v}"
  | .fault c => s!"fault {c}"
  | .raised w => s!"raised {w}"
  | .deferred _ => "deferred"

def showRan (before after : Log) : String :=
  let new := after.drop before.length
  if new.isEmpty then "-" else ",".intercalate new

def showElem : Elem Int → String
  | .val v => s!"v{v}"
  | .fstruct c => s!"f{c}"
  | .broken => "broken"

def parseMCall (t : String) : Option (MCall Int) :=
  match t.splitOn ":" with
  | [n, k] =>
    match k.toNat? with
    | some k =>
      let params := (List.range k).map fun i => Int.ofNat i
      if n = "*" then some { name := none, params := params }
      else (nameOfHex n).map fun nm => { name := some nm, params := params }
    | none => none
  | _ => none

def showPyRes : Except String PyStr → String
  | .ok (.text t) => "text " ++ (if t.isEmpty then "-" else ",".intercalate (t.map fun c => toString c.toNat))
  | .ok (.bytes b) => "bytes " ++ hexOfBytes b
  | .error e => "raises " ++ e

def parsePieces (t : String) : Option (List Bytes) := (t.splitOn ",").mapM bytesOfHex

def parseKind (t : String) : Option WaitKind :=
  if t = "start" then some .start else if t = "stop" then some .stop else none

def parseBit (t : String) : Option Bool :=
  if t = "1" then some true else if t = "0" then some false else none

def parseView (t : String) : Option PView :=
  match t.splitOn ":" with
  | [se, st] => match parseBit se, st.toInt? with
    | some se, some st => some ⟨se, st⟩
    | _, _ => none
  | _ => none

def showWaitAns : WaitAns → String
  | .again => "again"
  | .done => "done"
  | .fault n => (match faultCode n with
                 | some c => s!"fault {c}"
                 | none => "other")
  | .other _ => "other"

def parseShape (t : String) : Option PyShape :=
  if t = "scalar" then some .scalar else if t = "list" then some .list else if t = "dict" then some .dict
  else if t.startsWith "tuple" then (t.drop 5).toString.toNat?.map .tuple else none

def countTicks {σ ν : Type} (tbl : Table (Method σ ν)) : Nat → Nat → MC σ ν → σ → Nat
  | 0, k, _, _ => k
  | f+1, k, m, s =>
    let r := multi tbl m s
    if finished r.1 then k + 1 else countTicks tbl f (k + 1) r.1 r.2

def rpcOps (tbl : Table (Method Log Int)) (s : Log) : List String → List String
  | [] => []
  | l :: rest =>
    match words l with
    | ["call", h, n] =>
      match nameOfHex h, n.toNat? with
      | some name, some n =>
        let r := call tbl name ((List.range n).map fun i => Int.ofNat i) s
        s!"{showOutcome r.1} ran={showRan s r.2}" :: rpcOps tbl r.2 rest
      | _, _ => "bad-op" :: rpcOps tbl s rest
    | ["multi", items] =>
      let cs : Option (List (MCall Int)) :=
        if items = "-" then some [] else (items.splitOn ",").mapM parseMCall
      match cs with
      | some cs =>
        let m0 : MC Log Int := { remaining := cs, pending := none, results := [] }
        match drive tbl (fun _ x => x) 10000 0 m0 s with
        | some r =>
          let res := if r.1.isEmpty then "-" else ";".intercalate (r.1.map showElem)
          s!"results={res} ticks={countTicks tbl 10000 0 m0 s} ran={showRan s r.2}" :: rpcOps tbl r.2 rest
        | none => "fuel" :: rpcOps tbl s rest
      | none => "bad-op" :: rpcOps tbl s rest
    | ["frame", kind, cps] =>
      let cs : Option (List Char) := if cps = "-" then some [] else (cps.splitOn ",").mapM fun t => t.toNat?.map Char.ofNat
      match cs with
      | some t =>
        let f := if kind = "d" then deferredResponse t else immediateResponse t
        s!"cl={f.contentLength} wire={hexOfBytes f.wire}" :: rpcOps tbl s rest
      | none => "bad-op" :: rpcOps tbl s rest
    | ["addgroup", mood, found, c] =>
      let cons : Option AddRes :=
        if c = "ok1" then some .added else if c = "ok0" then some .already
        else if c = "-" then some .already
        else if c.startsWith "raise:" then some (.raised (c.drop 6).toString) else none
      (match mood.toInt?, cons with
       | some mood, some cons =>
         if found = "0" || found = "1" then
           match (addProcessGroup (1 : Int) mood (found == "1") cons 0).1 with
           | .value _ => "value true"
           | .fault c => s!"fault {c}"
           | .raised w => s!"raised {w}"
           | .deferred _ => "deferred"
         else "bad-op"
       | _, _ => "bad-op") :: rpcOps tbl s rest
    | ["onwait", kind, se, st] =>
      (match parseKind kind, parseBit se, st.toInt? with
       | some kind, some se, some st => showWaitAns (onwait kind ⟨se, st⟩)
       | _, _, _ => "bad-op") :: rpcOps tbl s rest
    | ["defers", kind, w, se, st] =>
      (match parseKind kind, parseBit w, parseBit se, st.toInt? with
       | some kind, some w, some se, some st => if defers kind w ⟨se, st⟩ then "1" else "0"
       | _, _, _, _ => "bad-op") :: rpcOps tbl s rest
    | ["wait", kind, fuel, sched] =>
      (match parseKind kind, fuel.toNat?, (sched.splitOn ",").mapM parseView with
       | some kind, some fuel, some (v :: vs) =>
         let l := v :: vs
         match waitPolls kind (fun k => l.getD k (l.getLastD v)) fuel 0 with
         | some (a, k) => s!"answer {showWaitAns a} poll={k}"
         | none => "pending"
       | _, _, _ => "bad-op") :: rpcOps tbl s rest
    | ["marshal", sh] =>
      (match parseShape sh with
       | some sh => (match marshalValue sh with
                     | .value => "value"
                     | .element => "element"
                     | .assertion => "assert")
       | none => "bad-op") :: rpcOps tbl s rest
    | ["conn", items] =>
      let parse (t : String) : Option Req :=
        match t.toList with
        | [k, c] =>
          if (k = 'd' || k = 'i') && (c = '0' || c = '1') then some { deferred := k == 'd', closeIt := c == '1' } else none
        | _ => none
      (match (items.splitOn ",").mapM parse with
       | some reqs => ",".intercalate ((serveAll reqs Chan.fresh).map fun x => match x with | .answered => "a" | .stale => "s")
       | none => "bad-op") :: rpcOps tbl s rest
    | ["raised", d] =>
      (match parseBit d with
       | some d => if raisedBecomesFault d then "fault" else "value"
       | none => "bad-op") :: rpcOps tbl s rest
    | ["collect", ps] =>
      (match parsePieces ps with
       | some pieces => showPyRes (requestBody pieces)
       | none => "bad-op") :: rpcOps tbl s rest
    | ["header", ps] =>
      (match parsePieces ps with
       | some pieces => showPyRes (requestHeader pieces)
       | none => "bad-op") :: rpcOps tbl s rest
    | ["decode", h] =>
      (match bytesOfHex h with
       | some b => showPyRes (asString (.bytes b))
       | none => "bad-op") :: rpcOps tbl s rest
    | ["gate", name, mood, nl] =>
      match mood.toInt?, nl.toNat?, gateTable.lookup name with
      | some mood, some nl, some g =>
        let body : Log → Outcome Log Int × Log := fun s => (.value 0, s ++ ["body"])
        let r := runGated g mood nl body body s
        let ch := if r.2.length = s.length then 0 else 1
        (match r.1 with
         | .fault c => s!"fault {c} changed={ch}"
         | .value _ => "passes"
         | _ => "other") :: rpcOps tbl s rest
      | _, _, _ => "bad-op" :: rpcOps tbl s rest
    | _ => "bad-op" :: rpcOps tbl s rest

/-! ### introspection of a registered namespace's methods

`_listMethods` keeps one entry per published method; `system.methodHelp` answers the entry as it is and
`system.methodSignature` parses it as a text.  A method's `__doc__` is `none` when nobody documented it (every method of a
third-party namespace may be like that; `python -OO` makes all of them so).  XML-RPC has no value for Python's `None` and
`gettags` splits a text, so an entry that is not a text becomes an HTTP 500. -/
inductive Introspected where
  | text (s : String)        -- a string value (methodHelp) / a text that can be parsed for tags (methodSignature)
  | http500                  -- `cannot marshal None` / AttributeError in gettags: the outer guard answers 500
  deriving DecidableEq, Repr

def storedHelp (storesText : Bool) (doc : Option String) : Option String :=
  if storesText then some (doc.getD "None") else doc

def methodHelpAnswer (storesText : Bool) (doc : Option String) : Introspected :=
  match storedHelp storesText doc with
  | some s => .text s
  | none => .http500

def runCase (cfg : List String) (ops : List String) : List String :=
  match cfg.mapM parseEntry with
  | some es => rpcOps (tableOf es) [] ops
  | none => ops.map fun _ => "bad-config"

end Sv.Rpc
