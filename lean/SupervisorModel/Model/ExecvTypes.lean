import SupervisorModel.Basic.Bytes
/-
  What the definitions generated from ServerOptions.check_execv_args / Subprocess.get_execv_args are written over
  (harness/sites/execv.py -> Generated/Execv.lean).  A stat result is represented by its st_mode (file type bits and
  permission bits, an `Int` as everything else the extractor emits; never negative), `none` when stat() raised OSError.
-/
namespace Sv.Execv

/-- Python's `a & b` on non-negative integers -/
def band (a b : Int) : Int := Int.ofNat (a.toNat &&& b.toNat)

/-- `st[stat.ST_MODE]` -- read only in branches that come after the `st is None` test -/
def modeOf (st : Option Int) : Int :=
  match st with
  | some m => m
  | none => 0

/-- one candidate file of the command lookup as the system calls describe it: the st_mode stat() answers (`none`: stat
    raised OSError -- ENOENT, ENOTDIR, EACCES on a directory of the path ...) and what `os.access(file, X_OK)` answers for
    the user supervisord runs as -/
structure File where
  st : Option Int
  acc : Bool
deriving DecidableEq, Repr

end Sv.Execv
