import Lean
/- simp set for unfolding the generated definitions of Generated/Ctl.lean in proofs about Model/Ctl.lean -/
register_simp_attr ctl_gen
