"""EventListenerPool._acceptEvent / dispatch / transition, new_serial (supervisor/process.py)."""
from extract import Site

LEAN_MODULE = 'Pool'
IMPORTS = []
OPENS = []


def TABLES():
    from supervisor import process
    from supervisor.compat import maxint
    out = ['-- supervisor.compat.maxint', 'def maxint : Int := %d' % maxint]
    out.append('-- initial serial of a pool / of GlobalSerial')
    out.append('def initialSerial : Int := %d' % type(process.GlobalSerial)().serial)
    out.extend(accept_order())
    out.extend(owner_test())
    out.extend(subscription_tables())
    out.extend(group_steps())
    return out


def subscription_tables():
    """what a pool subscribes to and when: `EventListenerPool._subscribe` / `_unsubscribe` as lists of
    (which event type, which bound method), whether `__init__` subscribes and whether `before_remove` unsubscribes.
    Model/Pool.lean (`subscribePool`, `unsubscribePool`) interprets these."""
    import ast, os
    from extract import REPO, find_func, Untranslatable, lean_str
    tree = ast.parse(open(os.path.join(REPO, 'supervisor/process.py')).read())
    src = ast.unparse
    out = ['', '-- one registration made by EventListenerPool._subscribe / undone by _unsubscribe',
           'inductive SubEntry where',
           '  | eachPoolEvent (cb : String)   -- for event_type in self.config.pool_events: events.<f>(event_type, self.<cb>)',
           '  | rejectedEvent (cb : String)   -- events.<f>(events.EventRejectedEvent, self.<cb>)',
           'deriving DecidableEq, Repr']

    def entries(qual, fname):
        f = find_func(tree, qual)
        res = []
        for st in f.body:
            if isinstance(st, ast.Expr) and isinstance(st.value, ast.Constant):
                continue
            if isinstance(st, ast.For) and isinstance(st.target, ast.Name) and src(st.iter) == 'self.config.pool_events' and not st.orelse \
                    and len(st.body) == 1 and isinstance(st.body[0], ast.Expr) and isinstance(st.body[0].value, ast.Call):
                c = st.body[0].value
                a = [src(x) for x in c.args]
                if src(c.func) == 'events.' + fname and len(a) == 2 and a[0] == st.target.id and a[1].startswith('self.') and not c.keywords:
                    res.append('.eachPoolEvent %s' % lean_str(a[1][5:]))
                    continue
            if isinstance(st, ast.Expr) and isinstance(st.value, ast.Call):
                c = st.value
                a = [src(x) for x in c.args]
                if src(c.func) == 'events.' + fname and len(a) == 2 and a[0] == 'events.EventRejectedEvent' and a[1].startswith('self.') and not c.keywords:
                    res.append('.rejectedEvent %s' % lean_str(a[1][5:]))
                    continue
            raise Untranslatable('%s: statement not covered: %s' % (qual, src(st).replace('\n', ' ')))
        return f.lineno, res

    for ident, qual, fname in (('poolSubscribe', 'EventListenerPool._subscribe', 'subscribe'),
                               ('poolUnsubscribe', 'EventListenerPool._unsubscribe', 'unsubscribe')):
        try:
            ln, res = entries(qual, fname)
            out.append('-- %s:%d' % (qual, ln))
            out.append('def %s : List SubEntry := [%s]' % (ident, ', '.join(res)))
        except Untranslatable as ex:
            out.append('-- %s  UNTRANSLATED (%s)' % (ident, ex))

    def calls_self(qual, meth):
        f = find_func(tree, qual)
        return any(isinstance(n, ast.Call) and src(n.func) == 'self.' + meth for n in ast.walk(f))
    out.append('-- EventListenerPool.__init__ calls self._subscribe(); EventListenerPool.before_remove calls self._unsubscribe()')
    out.append('def initSubscribes : Bool := %s' % ('true' if calls_self('EventListenerPool.__init__', '_subscribe') else 'false'))
    out.append('def beforeRemoveUnsubscribes : Bool := %s' % ('true' if calls_self('EventListenerPool.before_remove', '_unsubscribe') else 'false'))
    return out


def group_steps():
    """Supervisor.add_process_group / remove_process_group as statement lists (the extraction of sites/notify.py, emitted here
    as well so that the pool model can execute a removal / an addition of a pool at run time the way the source does)"""
    import ast, os
    from extract import REPO, find_func
    from sites import notify as nt
    stree = ast.parse(open(os.path.join(REPO, 'supervisor/supervisord.py')).read())
    out = ['', '/-- one effect of add_process_group / remove_process_group, in source order (as Sv.Gen.Notify.Step) -/',
           'inductive GStep where',
           '  | call (f : String)          -- an opaque call on the config / the group (after_setuid, before_remove ...)',
           '  | insertMade (f : String)    -- self.process_groups[name] = config.<f>()',
           '  | delete                     -- del self.process_groups[name]',
           '  | notify (cls : String)      -- events.notify(events.<cls>(name))',
           '  | ret (b : Bool)',
           '  | retIfUnstopped (b : Bool)  -- if self.process_groups[name].get_unstopped_processes(): return <b>',
           'deriving DecidableEq, Repr']
    test, absent, present = nt._add_group(stree)
    out.append('-- Supervisor.add_process_group (membership test `%s`)' % test)
    out.append('def groupAddWhenAbsent : List GStep := [%s]' % ', '.join(absent))
    out.append('def groupAddWhenPresent : List GStep := [%s]' % ', '.join(present))
    rf = find_func(stree, 'Supervisor.remove_process_group')
    out.append('-- Supervisor.remove_process_group')
    out.append('def groupRemoveSteps : List GStep := [%s]' % ', '.join(nt._steps(rf.body, nt._name_var(rf))))
    return out


def owner_test():
    """how `handle_rejected` decides "this is one of our processes" before it re-buffers the event: by object identity,
    by `==` (Subprocess.__eq__ compares priorities) or by the process *name* (names are unique within a group only).
    The model's `owns` interprets this table; anything else is an extraction error."""
    import ast, os
    from extract import REPO, find_func
    func = find_func(ast.parse(open(os.path.join(REPO, 'supervisor/process.py')).read()), 'EventListenerPool.handle_rejected')
    out = ['inductive OwnerTest where', '  | identity', '  | equality', '  | name', 'deriving DecidableEq, Repr']
    # local aliases:  process = event.process ; procs = self.processes.values()
    alias = {}
    for st in func.body:
        if isinstance(st, ast.Assign) and len(st.targets) == 1 and isinstance(st.targets[0], ast.Name):
            alias[st.targets[0].id] = ast.unparse(st.value)

    def src(e):
        t = ast.unparse(e)
        return alias.get(t, t)

    def classify(test):
        if isinstance(test, ast.Compare) and len(test.ops) == 1 and isinstance(test.ops[0], ast.In):
            l, r = src(test.left), src(test.comparators[0])
            if l == 'event.process' and r in ('self.processes.values()', 'list(self.processes.values())'):
                return 'equality'
            if l in ('event.process.config.name', 'process.config.name') and r in ('self.processes', 'self.processes.keys()'):
                return 'name'
        if isinstance(test, ast.Call) and ast.unparse(test.func) == 'any' and len(test.args) == 1 and \
                isinstance(test.args[0], (ast.GeneratorExp, ast.ListComp)) and len(test.args[0].generators) == 1:
            g = test.args[0].generators[0]
            if not g.ifs and isinstance(g.target, ast.Name) and src(g.iter) in ('self.processes.values()', 'list(self.processes.values())'):
                v, e = g.target.id, test.args[0].elt
                if isinstance(e, ast.Compare) and len(e.ops) == 1:
                    pair = {src(e.left), src(e.comparators[0])}
                    if pair == {'event.process', v}:
                        if isinstance(e.ops[0], ast.Is):
                            return 'identity'
                        if isinstance(e.ops[0], ast.Eq):
                            return 'equality'
                    if isinstance(e.ops[0], ast.Eq) and pair == {'event.process.config.name', v + '.config.name'}:
                        return 'name'
        return None

    # the loop form:  for p in self.processes.values(): if p is process: self._acceptEvent(...)
    for st in func.body:
        if isinstance(st, ast.For) and isinstance(st.target, ast.Name) and not st.orelse and len(st.body) == 1 and \
                src(st.iter) in ('self.processes.values()', 'list(self.processes.values())') and isinstance(st.body[0], ast.If):
            inner = st.body[0]
            e = inner.test
            if isinstance(e, ast.Compare) and len(e.ops) == 1 and {src(e.left), src(e.comparators[0])} == {'event.process', st.target.id} and \
                    any(isinstance(n, ast.Call) and ast.unparse(n.func) == 'self._acceptEvent' for n in ast.walk(inner)):
                k = 'identity' if isinstance(e.ops[0], ast.Is) else 'equality' if isinstance(e.ops[0], ast.Eq) else None
                if k and sum(1 for n in ast.walk(func) if isinstance(n, ast.Call) and ast.unparse(n.func) == 'self._acceptEvent') == 1:
                    out.append('-- EventListenerPool.handle_rejected:%d  for %s in %s: if %s' % (st.lineno, st.target.id, ast.unparse(st.iter), ast.unparse(e)))
                    out.append('def rejectedOwnerTest : OwnerTest := .%s' % k)
                    return out
    guards = [st for st in func.body if isinstance(st, ast.If) and not st.orelse and
              any(isinstance(n, ast.Call) and ast.unparse(n.func) == 'self._acceptEvent' for n in ast.walk(st))]
    others = [n for st in func.body if st not in guards for n in ast.walk(st)
              if isinstance(n, ast.Call) and ast.unparse(n.func) == 'self._acceptEvent']
    kind = classify(guards[0].test) if len(guards) == 1 and not others else None
    out.append('-- EventListenerPool.handle_rejected:%s  %s' % (
        guards[0].lineno if guards else func.lineno, ast.unparse(guards[0].test) if guards else '(no guarded _acceptEvent)'))
    if kind:
        out.append('def rejectedOwnerTest : OwnerTest := .%s' % kind)
    else:
        # no definition: the model (Model/Pool.lean `owns`) no longer builds, which the check reports as a broken proof
        out.append('-- rejectedOwnerTest  UNTRANSLATED (handle_rejected: expected one `if <owner test>: self._acceptEvent(...)`)')
    return out


def accept_order():
    """where `_acceptEvent` draws its serials relative to the overflow pop and the buffer insertion (source order
    of the statements; every one of them is executed at most once per call)"""
    import ast, os
    from extract import REPO, find_func
    func = find_func(ast.parse(open(os.path.join(REPO, 'supervisor/process.py')).read()), 'EventListenerPool._acceptEvent')
    pos = {}
    for n in ast.walk(func):
        if isinstance(n, ast.Call):
            f = ast.unparse(n.func)
            if f == 'new_serial' and len(n.args) == 1:
                pos.setdefault('draw:' + ast.unparse(n.args[0]), []).append(n.lineno)
            elif f in ('self.event_buffer.insert', 'self.event_buffer.append'):
                pos.setdefault('insert', []).append(n.lineno)
            elif f == 'self.event_buffer.pop':
                pos.setdefault('pop', []).append(n.lineno)
    out = ['-- statement order inside EventListenerPool._acceptEvent: %s' % ', '.join('%s@%s' % (k, v) for k, v in sorted(pos.items()))]
    for ident, key in (('serialDrawBeforeInsert', 'draw:GlobalSerial'), ('poolSerialDrawBeforeInsert', 'draw:self')):
        if len(pos.get(key, [])) == 1 and pos.get('insert'):
            out.append('def %s : Bool := %s' % (ident, 'true' if pos[key][0] < min(pos['insert']) else 'false'))
        else:
            out.append('-- %s  UNTRANSLATED (expected exactly one new_serial(%s) call and an insertion)' % (ident, key[5:]))
    return out


SITES = [
    Site('supervisor/process.py', 'new_serial', 'newSerial', '(serial : Int)',
         {'inst.serial': ('serial', 'int')}, consts={'maxint': 'maxint'}),
    Site('supervisor/process.py', 'EventListenerPool._acceptEvent', 'accept',
         '(hasSerial hasPoolSerials inPoolSerials head : Bool) (buflen bufsize : Int) (bufNonEmpty : Bool)',
         {"not hasattr(event, 'serial')": ('(!hasSerial)', 'bool'),
          "not hasattr(event, 'pool_serials')": ('(!hasPoolSerials)', 'bool'),
          'self.config.name not in event.pool_serials': ('(!inPoolSerials)', 'bool'),
          'head': ('head', 'bool'),
          'len(self.event_buffer)': ('buflen', 'int'), 'self.config.buffer_size': ('bufsize', 'int'),
          'self.event_buffer': ('bufNonEmpty', 'truthy:bufNonEmpty')},
         want={'accept_g2', 'accept_g3', 'accept_g4', 'accept_g5', 'accept_g6'}),
    # which counter object `_acceptEvent` hands to new_serial(): first call -> event.serial, second call ->
    # event.pool_serials[name].  `GlobalSerial` / `self` are rendered as the *value* of that object's counter, so the
    # model draws from (and the theorems are about) whatever the source passes.
    Site('supervisor/process.py', 'EventListenerPool._acceptEvent', 'acceptSer', '(gserial pserial : Int)',
         {'GlobalSerial': ('gserial', 'int'), 'self': ('pserial', 'int')},
         calls={'new_serial'}, want={'acceptSer_c0_0', 'acceptSer_c1_0'}),
    Site('supervisor/process.py', 'EventListenerPool.transition', 'ptrans',
         '(running ready capable : Bool) (throttle now last : Int)',
         {'process.state == ProcessStates.RUNNING': ('running', 'bool'),
          'process.listener_state == EventListenerStates.READY': ('ready', 'bool'),
          'dispatch_capable': ('capable', 'bool'), 'self.dispatch_throttle': ('throttle', 'int'),
          'now': ('now', 'int'), 'self.last_dispatch': ('last', 'int')},
         want={'ptrans_g0', 'ptrans_g1', 'ptrans_g2', 'ptrans_g3'}),
]
