"""
supervisorctl (supervisor/supervisorctl.py): fault codes, LSB exit-status classes, DEAD_PROGRAM_FAULTS,
STOPPED_STATES, the wording chains of _startresult/_signalresult/_clearresult, the help texts, the fault codes
the server side can raise per RPC method (supervisor/rpcinterface.py), and -- per do_* action, upcheck, onecmd,
set_exitstatus_from_xmlrpc_fault, split_namespec, make_namespec -- every guard, every exit-status assignment and
the arguments of every set_exitstatus_from_xmlrpc_fault call (which fault each action tolerates).
"""
import ast, os
from extract import Site, REPO, lean_str

LEAN_MODULE = 'Ctl'
IMPORTS = []
OPENS = []

CTL = 'supervisor/supervisorctl.py'


def _src(rel):
    return ast.parse(open(os.path.join(REPO, rel)).read())


def _find(tree, qual):
    body = tree.body
    node = None
    for p in qual.split('.'):
        node = next((n for n in body if isinstance(n, (ast.ClassDef, ast.FunctionDef)) and n.name == p), None)
        if node is None:
            raise KeyError(qual)
        body = node.body
    return node


def _fault_names():
    """class Faults of supervisor/xmlrpc.py, parsed (not imported: the working tree is what counts)"""
    cls = _find(_src('supervisor/xmlrpc.py'), 'Faults')
    res = []
    for st in cls.body:
        if isinstance(st, ast.Assign) and isinstance(st.value, ast.Constant):
            res.append((st.targets[0].id, st.value.value))
    return res


def _class_consts(tree, name):
    cls = _find(tree, name)
    return [(st.targets[0].id, st.value.value) for st in cls.body
            if isinstance(st, ast.Assign) and isinstance(st.value, ast.Constant)]


def _fault_of(e):
    """xmlrpc.Faults.X / Faults.X -> 'X'"""
    if isinstance(e, ast.Attribute) and isinstance(e.value, (ast.Attribute, ast.Name)):
        v = e.value
        if (isinstance(v, ast.Attribute) and v.attr == 'Faults') or (isinstance(v, ast.Name) and v.id == 'Faults'):
            return e.attr
    return None


def _chain(func):
    """the `if code == Faults.X: return <wording>` chain of a _*result method ->
       [(fault name, kind, text)], raises_on_unknown"""
    rows = []
    tmpl = None
    for st in func.body:
        if isinstance(st, ast.Assign) and isinstance(st.targets[0], ast.Name) and st.targets[0].id == 'template' \
                and isinstance(st.value, ast.Constant):
            tmpl = st.value.value
    def word(ret):
        v = ret.value
        # template % (name, 'text')
        if isinstance(v, ast.BinOp) and isinstance(v.op, ast.Mod):
            l, r = v.left, v.right
            if isinstance(l, ast.Name) and l.id == 'template' and isinstance(r, ast.Tuple) and len(r.elts) == 2 \
                    and isinstance(r.elts[0], ast.Name) and r.elts[0].id == 'name' and isinstance(r.elts[1], ast.Constant):
                return ('err', r.elts[1].value)
            if isinstance(l, ast.Constant) and isinstance(r, ast.Name) and r.id == 'name' and l.value.startswith('%s: ') \
                    and l.value.count('%') == 1:
                return ('ok', l.value[4:])
            if isinstance(l, ast.Constant) and l.value == '%s: %s' and isinstance(r, ast.Tuple) and len(r.elts) == 2 \
                    and all(isinstance(x, ast.Name) for x in r.elts) and r.elts[0].id == 'name' and r.elts[1].id == 'success':
                return ('okparam', '')
        if isinstance(v, ast.Subscript) and ast.unparse(v) == "result['description']":
            return ('desc', '')
        if isinstance(v, ast.Name) and v.id == 'fault_string':
            return ('desc', '')
        raise ValueError('unrecognised wording ' + ast.unparse(ret))
    def walk(node):
        t = node.test
        if not (isinstance(t, ast.Compare) and len(t.ops) == 1 and isinstance(t.ops[0], ast.Eq)
                and isinstance(t.left, ast.Name) and t.left.id == 'code' and _fault_of(t.comparators[0])):
            raise ValueError('unrecognised test ' + ast.unparse(t))
        if len(node.body) != 1 or not isinstance(node.body[0], ast.Return):
            raise ValueError('unrecognised branch body')
        k, text = word(node.body[0])
        rows.append((_fault_of(t.comparators[0]), k, text))
        if len(node.orelse) == 1 and isinstance(node.orelse[0], ast.If):
            walk(node.orelse[0])
        elif node.orelse:
            raise ValueError('unrecognised else branch')
    ifs = [s for s in func.body if isinstance(s, ast.If)]
    if len(ifs) != 1:
        raise ValueError('expected one if-chain')
    walk(ifs[0])
    raises = isinstance(func.body[-1], ast.Raise) and 'ValueError' in ast.unparse(func.body[-1])
    return rows, raises, tmpl


def _server_codes(tree, meth, seen=None):
    """fault names raised (RPCError(Faults.X ...)) by SupervisorNamespaceRPCInterface.<meth>, following
    self.<helper>() calls inside the class (transitively; the *Group/All variants are not followed)"""
    seen = seen if seen is not None else set()
    if meth in seen:
        return set()
    seen.add(meth)
    try:
        f = _find(tree, 'SupervisorNamespaceRPCInterface.' + meth)
    except KeyError:
        return set()
    res = set()
    for n in ast.walk(f):
        if isinstance(n, ast.Call):
            fn = n.func
            if isinstance(fn, ast.Name) and fn.id == 'RPCError' and n.args and _fault_of(n.args[0]):
                res.add(_fault_of(n.args[0]))
            if isinstance(fn, ast.Attribute) and isinstance(fn.value, ast.Name) and fn.value.id == 'self' \
                    and (fn.attr.startswith('_') or fn.attr == 'clearProcessLog'):
                res |= _server_codes(tree, fn.attr, seen)
    return res


HELPS = ['start', 'stop', 'restart', 'signal', 'status', 'pid', 'clear', 'add', 'remove', 'update', 'reread',
         'avail', 'tail', 'maintail', 'shutdown', 'reload', 'version']


def _help_texts():
    """output() arguments of every help_<action>, obtained by running the method on a recording controller"""
    import importlib
    import supervisor.supervisorctl as sc
    importlib.reload(sc)
    class Rec:
        def __init__(self): self.lines = []
        def output(self, s): self.lines.append(s)
    res = {}
    for h in HELPS:
        rec = Rec()
        plugin = sc.DefaultControllerPlugin(rec)
        getattr(plugin, 'help_' + h)()
        res[h] = rec.lines
    return res


def TABLES():
    out = []
    faults = _fault_names()
    code = dict(faults)
    out.append('-- supervisor/xmlrpc.py class Faults')
    for k, v in faults:
        out.append('def Faults_%s : Int := %d' % (k, v))
    out.append('def faultsAll : List (String × Int) := [%s]' % ', '.join('("%s", %d)' % kv for kv in faults))
    ctl = _src(CTL)
    out.append('-- supervisorctl.py LSBInitExitStatuses / LSBStatusExitStatuses')
    init = _class_consts(ctl, 'LSBInitExitStatuses')
    stat = _class_consts(ctl, 'LSBStatusExitStatuses')
    for k, v in init:
        out.append('def LSBInit_%s : Int := %d' % (k, v))
    for k, v in stat:
        out.append('def LSBStatus_%s : Int := %d' % (k, v))
    out.append('def lsbInitAll : List (String × Int) := [%s]' % ', '.join('("%s", %d)' % kv for kv in init))
    out.append('def lsbStatusAll : List (String × Int) := [%s]' % ', '.join('("%s", %d)' % kv for kv in stat))
    # DEAD_PROGRAM_FAULTS
    dead = None
    for st in ctl.body:
        if isinstance(st, ast.Assign) and isinstance(st.targets[0], ast.Name) and st.targets[0].id == 'DEAD_PROGRAM_FAULTS':
            dead = [_fault_of(e) for e in st.value.elts]
    if dead is None or None in dead:
        raise ValueError('DEAD_PROGRAM_FAULTS not a tuple of Faults members')
    out.append('def DEAD_PROGRAM_FAULTS : List Int := [%s]' % ', '.join('Faults_' + d for d in dead))
    # STOPPED_STATES, API version, errno
    import importlib, errno
    import supervisor.states as st_; importlib.reload(st_)
    out.append('def STOPPED_STATES : List Int := [%s]' % ', '.join(str(int(x)) for x in st_.STOPPED_STATES))
    out.append('def processStateCodes : List (String × Int) := [%s]' % ', '.join(
        '("%s", %d)' % (k, v) for k, v in sorted(vars(st_.ProcessStates).items(), key=lambda kv: str(kv[1])) if not k.startswith('_')))
    rpc = _src('supervisor/rpcinterface.py')
    api = next(s.value.value for s in rpc.body if isinstance(s, ast.Assign) and isinstance(s.targets[0], ast.Name)
               and s.targets[0].id == 'API_VERSION')
    out.append('def API_VERSION : String := %s' % lean_str(api))
    out.append('def ECONNREFUSED : Int := %d' % errno.ECONNREFUSED)
    out.append('def ENOENT : Int := %d' % errno.ENOENT)
    # wording chains
    out.append('/-- wording of one result line: `<name>: ERROR (<text>)`, `<name>: <text>`, `<name>: <success parameter>`,')
    out.append('    or the server\'s fault string as it is -/')
    out.append('inductive Word where')
    out.append('  | err (text : String) | ok (text : String) | okparam | desc')
    out.append('deriving DecidableEq, Repr')
    for lean, meth in (('startWording', '_startresult'), ('signalWording', '_signalresult'), ('clearWording', '_clearresult')):
        rows, raises, tmpl = _chain(_find(ctl, 'DefaultControllerPlugin.' + meth))
        cells = []
        for f, k, text in rows:
            w = {'err': '.err %s' % lean_str(text), 'ok': '.ok %s' % lean_str(text), 'okparam': '.okparam', 'desc': '.desc'}[k]
            cells.append('(Faults_%s, %s)' % (f, w))
        out.append('-- DefaultControllerPlugin.%s: the if/elif chain on result[\'status\'], in source order' % meth)
        out.append('def %s : List (Int × Word) := [%s]' % (lean, ', '.join(cells)))
        out.append('def %s_raisesOnUnknown : Bool := %s' % (lean, 'true' if raises else 'false'))
        parts = (tmpl or '').split('%s')
        if len(parts) != 3:
            raise ValueError('%s: template is not a two-place format' % meth)
        out.append('def %s_template : String × String × String := (%s)' % (lean, ', '.join(lean_str(p) for p in parts)))
    # _stopresult = _signalresult(result, success='stopped'); default success of _signalresult
    sig = _find(ctl, 'DefaultControllerPlugin._signalresult')
    dflt = sig.args.defaults[0].value if sig.args.defaults else None
    stop = _find(ctl, 'DefaultControllerPlugin._stopresult')
    call = stop.body[0].value
    if not (isinstance(call, ast.Call) and ast.unparse(call.func) == 'self._signalresult' and call.keywords
            and call.keywords[0].arg == 'success'):
        raise ValueError('_stopresult is not _signalresult(result, success=...)')
    out.append('def signalSuccessWord : String := %s' % lean_str(dflt))
    out.append('def stopSuccessWord : String := %s' % lean_str(call.keywords[0].value.value))
    # fault codes the server side raises per per-process method (supervisor/rpcinterface.py)
    out.append('-- supervisor/rpcinterface.py: Faults raised by the per-process RPC methods (incl. _update, _getGroupAndProcess)')
    order = [k for k, _ in faults]
    for lean, meth in (('serverCodes_start', 'startProcess'), ('serverCodes_stop', 'stopProcess'),
                       ('serverCodes_signal', 'signalProcess'), ('serverCodes_clear', 'clearProcessLogs')):
        cs = sorted(_server_codes(rpc, meth), key=order.index)
        out.append('def %s : List Int := [%s]' % (lean, ', '.join('Faults_' + c for c in cs)))
    # ... and by the per-name methods of add / remove / pid
    out.append('-- supervisor/rpcinterface.py: Faults raised by addProcessGroup / removeProcessGroup / getProcessInfo (incl. _update)')
    for lean, meth in (('serverCodes_add', 'addProcessGroup'), ('serverCodes_remove', 'removeProcessGroup'),
                       ('serverCodes_getinfo', 'getProcessInfo')):
        cs = sorted(_server_codes(rpc, meth), key=order.index)
        out.append('def %s : List Int := [%s]' % (lean, ', '.join('Faults_' + c for c in cs)))
    # do_update.stop_failures: the statuses of a stopProcessGroup result that do not count as a failure
    sf = _find(ctl, 'DefaultControllerPlugin.do_update.stop_failures')
    comp = next((n for n in ast.walk(sf) if isinstance(n, ast.ListComp)), None)
    okc = None
    if comp is not None and len(comp.generators) == 1 and len(comp.generators[0].ifs) == 1:
        t = comp.generators[0].ifs[0]
        if isinstance(t, ast.Compare) and len(t.ops) == 1 and isinstance(t.ops[0], ast.NotIn) \
                and ast.unparse(t.left) == "res['status']" and isinstance(t.comparators[0], ast.Tuple):
            okc = [_fault_of(e) for e in t.comparators[0].elts]
    if not okc or None in okc:
        raise ValueError('do_update.stop_failures is not [res ... if res[status] not in (Faults...)]')
    out.append("-- do_update.stop_failures: res['status'] not in (...) marks a failed stop")
    out.append('def updateStopOk : List Int := [%s]' % ', '.join('Faults_' + c for c in okc))
    # help texts
    out.append('-- help_<action>: the strings passed to output(), in order')
    for h, lines in _help_texts().items():
        out.append('def help_%s : List String := [%s]' % (h, ', '.join(lean_str(l) for l in lines)))
    return out


# ---- sites ---------------------------------------------------------------------------------------
PARAMS = ('(code errno pid state : Int) (ign : Option Int) (arg api : String) (names args : List String) '
          '(igroup iname gname : String) (pname : Option String)')
_consts = {}
for _k, _ in [(k, v) for k, v in _fault_names()]:
    _consts['xmlrpc.Faults.' + _k] = 'Faults_' + _k
for _k, _ in _class_consts(_src(CTL), 'LSBInitExitStatuses'):
    _consts['LSBInitExitStatuses.' + _k] = 'LSBInit_' + _k
for _k, _ in _class_consts(_src(CTL), 'LSBStatusExitStatuses'):
    _consts['LSBStatusExitStatuses.' + _k] = 'LSBStatus_' + _k
_consts['errno.ECONNREFUSED'] = 'ECONNREFUSED'
_consts['errno.ENOENT'] = 'ENOENT'
_consts['rpcinterface.API_VERSION'] = 'API_VERSION'
_consts['states.STOPPED_STATES'] = 'STOPPED_STATES'
_ctypes = {'xmlrpc': 'int', 'LSBInitExitStatuses': 'int', 'LSBStatusExitStatuses': 'int', 'errno': 'int'}

_vars = {
    'e.faultCode': ('code', 'int'), 'e.errcode': ('code', 'int'), 'e.args[0]': ('errno', 'int'),
    "result['status']": ('code', 'int'), "error['status']": ('code', 'int'),
    'names': ('names', 'list'), 'args': ('args', 'list'),
    "'all' in names": ('(names.contains "all")', 'bool'),
    'arg': ('arg', 'truthy:(arg != "")'),
    'process_name': ('pname', 'opt'),
    'pid': ('pid', 'int'),
    "info['state']": ('state', 'int'),
    'api': ('api', 'other'),
    "info['group']": ('igroup', 'other'), 'group_name': ('gname', 'other'),
    "info['name']": ('(some iname)', 'other'),
}
_sx_vars = {
    'faultcode': ('(some code)', 'other'), 'ignored_faultcode': ('ign', 'other'),
    'xmlrpc.Faults.SUCCESS': ('(some Faults_SUCCESS)', 'other'),
    'DEAD_PROGRAM_FAULTS': ('(DEAD_PROGRAM_FAULTS.map some)', 'other'),
}
SX = 'self.ctl.set_exitstatus_from_xmlrpc_fault'


def _site(qual, name, vars=None, **kw):
    return Site(CTL, qual, name, PARAMS, vars or _vars, consts=_consts, const_types=_ctypes, **kw)


P = 'DefaultControllerPlugin.'
SITES = [
    _site('Controller.set_exitstatus_from_xmlrpc_fault', 'setexit', vars=_sx_vars),
    _site('TailListener.error', 'taillistener'),
    _site('Controller.onecmd', 'onecmd', want={'onecmd_g4', 'onecmd_a14', 'onecmd_a15', 'onecmd_a18'}),
    _site('Controller.default', 'dflt'),
    _site('Controller.upcheck', 'upcheck'),
    _site(P + 'do_start', 'do_start', calls=[SX]),
    _site(P + 'do_stop', 'do_stop', calls=[SX]),
    _site(P + 'do_signal', 'do_signal', calls=[SX]),
    _site(P + 'do_restart', 'do_restart'),
    _site(P + 'do_clear', 'do_clear', calls=[SX]),
    _site(P + 'do_status', 'do_status'),
    _site(P + 'do_pid', 'do_pid'),
    _site(P + 'do_add', 'do_add'),
    _site(P + 'do_remove', 'do_remove'),
    _site(P + 'do_shutdown', 'do_shutdown'),
    _site(P + 'do_reload', 'do_reload'),
    _site(P + 'do_version', 'do_version'),
    _site(P + 'do_reread', 'do_reread'),
    _site(P + 'do_avail', 'do_avail'),
    _site(P + 'do_update', 'do_update'),
    _site(P + 'do_tail', 'do_tail'),
    _site(P + 'do_maintail', 'do_maintail'),
]
