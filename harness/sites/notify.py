"""The *order of effects* in the methods that announce something (C11: notifications tell the truth).

extract.py's Site machinery regenerates tests and right-hand sides; what decides whether a notification lies about the
moment ("announced before it was done", "flushed after the pid was reset") is the order of statements.  This module
regenerates, as plain Lean lists, the statement sequences of
  * Supervisor.add_process_group / remove_process_group (supervisord.py): opaque calls that can raise, the store into /
    deletion from self.process_groups, the notify() calls, the returns;
  * Subprocess.finish (process.py): drain, the flush of held-back output, the state change, self.pid = 0, dropping the
    dispatchers;
  * Subprocess.change_state (process.py): state assignment, backoff increment, creation of the event, notify;
  * the pid argument of every PROCESS_LOG / PROCESS_COMMUNICATION event constructed in dispatchers.py and the constructor
    bindings of those event classes.
Model/Notify.lean interprets these lists; Props/C11.lean proves the truthfulness statements over them, so a reordering in
/repo changes the generated list and the proofs are re-checked against it.
Statements that neither raise-and-matter nor touch the table / the notifications (logging, comments, local assignments from
attributes) are kept as opaque `.call` / `.other` steps, so harmless additions do not disturb the proofs."""
import ast, os
import extract
from extract import find_func, Untranslatable, lean_str

LEAN_MODULE = 'Notify'
IMPORTS = []
OPENS = []

TABLE = 'self.process_groups'


def _src(n):
    return ast.unparse(n)


def _is_notify(call):
    return isinstance(call, ast.Call) and _src(call.func) in ('events.notify', 'notify')


def _contains(node, pred):
    return any(pred(n) for n in ast.walk(node))


def _table_aliases(stmts, namevar):
    """locals bound (once, at the top level) to `self.process_groups[name]`: `group = self.process_groups[name]`"""
    al = set()
    for st in stmts:
        if isinstance(st, ast.Assign) and len(st.targets) == 1 and isinstance(st.targets[0], ast.Name) and \
                _src(st.value) == '%s[%s]' % (TABLE, namevar):
            al.add(st.targets[0].id)
    return al


def _group_step(st, namevar, aliases=()):
    """one statement of add_/remove_process_group -> Lean `Step` term (or None for a statement without effect here)"""
    if isinstance(st, ast.Return):
        if isinstance(st.value, ast.Constant) and isinstance(st.value.value, bool):
            return '.ret %s' % ('true' if st.value.value else 'false')
        raise Untranslatable('return of a non-constant: ' + _src(st))
    if isinstance(st, ast.Expr) and isinstance(st.value, ast.Call):
        c = st.value
        if _is_notify(c):
            if len(c.args) != 1 or not isinstance(c.args[0], ast.Call):
                raise Untranslatable('notify(<Event>(...)) expected: ' + _src(st))
            ev = c.args[0]
            if [_src(a) for a in ev.args] != [namevar] or ev.keywords:
                raise Untranslatable('the notification does not name the group operated on: ' + _src(st))
            return '.notify %s' % lean_str(_src(ev.func).split('.')[-1])
        if _contains(c, _is_notify):
            raise Untranslatable('nested notify: ' + _src(st))
        return '.call %s' % lean_str(_src(c.func).split('.')[-1])
    if isinstance(st, ast.Assign) and len(st.targets) == 1:
        t = st.targets[0]
        if isinstance(t, ast.Subscript) and _src(t.value) == TABLE:
            if _src(t.slice) != namevar:
                raise Untranslatable('store under another key: ' + _src(st))
            if not (isinstance(st.value, ast.Call) and not st.value.args):
                raise Untranslatable('stored value is not a call without arguments: ' + _src(st))
            return '.insertMade %s' % lean_str(_src(st.value.func).split('.')[-1])
        if isinstance(t, ast.Name) and not _contains(st.value, lambda n: isinstance(n, ast.Call)):
            return None          # a local bound to an attribute / to the table entry of the group operated on: no effect
        if _contains(st, lambda n: _src(n) == TABLE) or _contains(st.value, _is_notify):
            raise Untranslatable('assignment involving the table or a notification: ' + _src(st))
        return '.call %s' % lean_str(_src(st.value.func).split('.')[-1] if isinstance(st.value, ast.Call) else 'assign')
    if isinstance(st, ast.Delete) and len(st.targets) == 1:
        t = st.targets[0]
        if isinstance(t, ast.Subscript) and _src(t.value) == TABLE and _src(t.slice) == namevar:
            return '.delete'
    unstopped_tests = ['%s[%s].get_unstopped_processes()' % (TABLE, namevar)] + ['%s.get_unstopped_processes()' % a for a in aliases]
    if isinstance(st, ast.If) and not st.orelse and _src(st.test) in unstopped_tests \
            and len(st.body) == 1 and isinstance(st.body[0], ast.Return) and isinstance(st.body[0].value, ast.Constant):
        return '.retIfUnstopped %s' % ('true' if st.body[0].value.value else 'false')
    if isinstance(st, ast.Expr) and isinstance(st.value, ast.Constant):
        return None              # docstring
    raise Untranslatable('statement shape not covered: ' + _src(st))


def _steps(stmts, namevar):
    al = _table_aliases(stmts, namevar)
    return [s for s in (_group_step(st, namevar, al) for st in stmts) if s is not None]


def _name_var(f, expect_param=None):
    """the variable holding the group's name: a parameter called name, or `name = config.name`"""
    params = [a.arg for a in f.args.args][1:]
    if 'name' in params:
        return 'name'
    for st in f.body:
        if isinstance(st, ast.Assign) and _src(st.targets[0]) == 'name' and _src(st.value) == 'config.name':
            return 'name'
    raise Untranslatable('%s: no variable holding the group name' % f.name)


def _add_group(tree):
    f = find_func(tree, 'Supervisor.add_process_group')
    nv = _name_var(f)
    body = [st for st in f.body if not (isinstance(st, ast.Assign) and _src(st.targets[0]) == nv)]
    ifs = [i for i, st in enumerate(body) if isinstance(st, ast.If)]
    if len(ifs) != 1:
        raise Untranslatable('add_process_group: exactly one if expected')
    i = ifs[0]
    st = body[i]
    test = _src(st.test)
    absent = '%s not in %s' % (nv, TABLE)
    present = '%s in %s' % (nv, TABLE)
    before = _steps(body[:i], nv)
    if before:
        raise Untranslatable('add_process_group: effects before the membership test: %r' % before)
    if test == absent and not st.orelse:
        when_absent, when_present = _steps(st.body, nv), []
        rest = _steps(body[i + 1:], nv)
    elif test == absent:
        when_absent, when_present = _steps(st.body, nv), _steps(st.orelse, nv)
        rest = _steps(body[i + 1:], nv)
    elif test == present:
        when_present, when_absent = _steps(st.body, nv), _steps(st.orelse, nv)
        rest = _steps(body[i + 1:], nv)
    else:
        raise Untranslatable('add_process_group: membership test expected, found ' + test)
    return test, when_absent + rest, when_present + rest


def _finish_steps(tree):
    f = find_func(tree, 'Subprocess.finish')
    out = []
    for st in f.body:
        s = _src(st)
        has_cs = _contains(st, lambda n: isinstance(n, ast.Call) and _src(n.func) == 'self.change_state')
        has_flush = _contains(st, lambda n: isinstance(n, ast.Call) and isinstance(n.func, ast.Attribute) and n.func.attr == 'record_output')
        has_drain = _contains(st, lambda n: isinstance(n, ast.Call) and _src(n.func) == 'self.drain')
        sets_pid = _contains(st, lambda n: isinstance(n, (ast.Assign, ast.AugAssign)) and any(
            _src(t) == 'self.pid' for t in (n.targets if isinstance(n, ast.Assign) else [n.target])))
        drops = _contains(st, lambda n: isinstance(n, ast.Assign) and any(_src(t) == 'self.dispatchers' for t in n.targets))
        closes = _contains(st, lambda n: isinstance(n, ast.Call) and _src(n.func).endswith('close_parent_pipes'))
        kinds = [k for k, v in (('stateChange', has_cs), ('flush', has_flush), ('drain', has_drain), ('pidReset', sets_pid),
                                ('dropDispatchers', drops), ('closePipes', closes)) if v]
        if len(kinds) > 1:
            raise Untranslatable('finish: one statement does several of %r: %s' % (kinds, s[:80]))
        if kinds:
            k = kinds[0]
            if k == 'pidReset' and not (isinstance(st, ast.Assign) and isinstance(st.value, ast.Constant) and st.value.value == 0):
                raise Untranslatable('finish: self.pid is set to something else than 0: ' + s)
            if k == 'flush':
                # for dispatcher in self.dispatchers.values(): if hasattr(...): dispatcher.record_output(eof=True)
                calls = [n for n in ast.walk(st) if isinstance(n, ast.Call) and isinstance(n.func, ast.Attribute) and n.func.attr == 'record_output']
                ok = isinstance(st, ast.For) and _src(st.iter) == 'self.dispatchers.values()' and len(calls) == 1 and \
                    [(kw.arg, _src(kw.value)) for kw in calls[0].keywords] + [_src(a) for a in calls[0].args] in ([('eof', 'True')], ['True'])
                if not ok:
                    raise Untranslatable('finish: flush loop shape: ' + s[:120])
            out.append('.' + k)
        elif _contains(st, _is_notify):
            out.append('.other "notify"')
    return out


def _change_state_steps(tree):
    f = find_func(tree, 'Subprocess.change_state')
    out = []
    def walk(stmts, cond):
        for st in stmts:
            s = _src(st)
            if isinstance(st, ast.Assign) and _src(st.targets[0]) == 'self.state':
                if _src(st.value) != 'new_state':
                    raise Untranslatable('change_state: self.state = ' + _src(st.value))
                out.append('.setState')
            elif isinstance(st, ast.AugAssign) and _src(st.target) == 'self.backoff':
                if not (isinstance(st.op, ast.Add) and _src(st.value) == '1') or cond != 'new_state == ProcessStates.BACKOFF':
                    raise Untranslatable('change_state: backoff update ' + s + ' under ' + str(cond))
                out.append('.bumpBackoffIfBackoff')
            elif isinstance(st, ast.Assign) and _src(st.targets[0]) == 'old_state':
                if _src(st.value) != 'self.state':
                    raise Untranslatable('change_state: old_state = ' + _src(st.value))
                out.append('.readOld')
            elif isinstance(st, ast.Assign) and _src(st.targets[0]) == 'event' and isinstance(st.value, ast.Call):
                if [_src(a) for a in st.value.args] != ['self', 'old_state', 'expected']:
                    raise Untranslatable('change_state: event constructed from ' + _src(st.value))
                out.append('.makeEvent')
            elif isinstance(st, ast.Expr) and _is_notify(st.value):
                if _src(st.value.args[0]) != 'event':
                    raise Untranslatable('change_state: notify of ' + _src(st.value.args[0]))
                out.append('.notify')
            elif isinstance(st, ast.If):
                t = _src(st.test)
                if t == 'new_state is old_state' or t == 'new_state == old_state':
                    if not (len(st.body) and isinstance(st.body[-1], ast.Return)):
                        raise Untranslatable('change_state: same-state branch does not return')
                    out.append('.retIfSame')
                else:
                    walk(st.body, t)
                    if st.orelse:
                        walk(st.orelse, 'not ' + t)
            elif _contains(st, _is_notify) or 'self.state' in [_src(t) for t in getattr(st, 'targets', [])]:
                raise Untranslatable('change_state: ' + s)
    walk(f.body, None)
    return out


def _output_event_sites(dtree, etree):
    """(class text, pid argument text) of every PROCESS_LOG / PROCESS_COMMUNICATION event constructed in dispatchers.py"""
    f = find_func(dtree, 'POutputDispatcher')
    rows = []
    for fn in [n for n in f.body if isinstance(n, ast.FunctionDef)]:
        local = {}
        for n in ast.walk(fn):
            if isinstance(n, ast.Assign) and isinstance(n.targets[0], ast.Name):
                local[n.targets[0].id] = n.value
        for n in ast.walk(fn):
            if _is_notify(n):
                ev = n.args[0]
                if isinstance(ev, ast.Name):
                    ev = local.get(ev.id)
                if not isinstance(ev, ast.Call) or len(ev.args) != 3 or ev.keywords:
                    raise Untranslatable('%s: notify(<cls>(process, pid, data)) expected: %s' % (fn.name, _src(n)))
                rows.append((fn.name, _src(ev.func), _src(ev.args[0]), _src(ev.args[1])))
    binds = []
    for cls in ('ProcessLogEvent', 'ProcessCommunicationEvent'):
        ci = find_func(etree, cls + '.__init__')
        params = [a.arg for a in ci.args.args][1:]
        b = []
        for n in ci.body:
            if not (isinstance(n, ast.Assign) and isinstance(n.targets[0], ast.Attribute) and _src(n.targets[0].value) == 'self'
                    and isinstance(n.value, ast.Name)):
                raise Untranslatable(cls + '.__init__: self.x = param expected')
            b.append((n.targets[0].attr, n.value.id))
        binds.append((cls, params, b))
    return rows, binds


def _rpc_wrapper(rtree, method, callee):
    """around the call of the Supervisor method in the RPC method: which exception classes are caught and which fault is raised
    for each, and the fault raised for a false result"""
    from supervisor.xmlrpc import Faults
    f = find_func(rtree, 'SupervisorNamespaceRPCInterface.' + method)
    def fault_of(node):
        rs = [n for n in ast.walk(node) if isinstance(n, ast.Raise)]
        if len(rs) != 1 or not (isinstance(rs[0].exc, ast.Call) and _src(rs[0].exc.func) == 'RPCError' and rs[0].exc.args
                                and _src(rs[0].exc.args[0]).startswith('Faults.')):
            raise Untranslatable('%s: raise RPCError(Faults.X, ...) expected in %s' % (method, _src(node)[:80]))
        nm = _src(rs[0].exc.args[0]).split('.')[1]
        return nm, int(getattr(Faults, nm))
    is_call = lambda n: isinstance(n, ast.Call) and _src(n.func) == callee
    calls = [n for n in ast.walk(f) if is_call(n)]
    if len(calls) != 1:
        raise Untranslatable('%s: exactly one call of %s expected' % (method, callee))
    caught = []
    for t in [n for n in ast.walk(f) if isinstance(n, ast.Try)]:
        if any(_contains(st, is_call) for st in t.body):
            if t.finalbody or t.orelse:
                raise Untranslatable(method + ': try with else/finally around the call')
            for h in t.handlers:
                if h.type is None:
                    classes = ['BaseException']
                elif isinstance(h.type, ast.Tuple):
                    classes = [_src(e) for e in h.type.elts]
                else:
                    classes = [_src(h.type)]
                if _contains(h, _is_notify):
                    raise Untranslatable(method + ': a handler notifies')
                nm, code = fault_of(h)
                caught += [(c, nm, code) for c in classes]
    falses = [n for n in ast.walk(f) if isinstance(n, ast.If) and _src(n.test) == 'not result']
    if len(falses) != 1:
        raise Untranslatable(method + ': `if not result: raise ...` expected')
    return caught, fault_of(falses[0])


def TABLES():
    stree = ast.parse(open(os.path.join(extract.REPO, 'supervisor/supervisord.py')).read())
    ptree = ast.parse(open(os.path.join(extract.REPO, 'supervisor/process.py')).read())
    dtree = ast.parse(open(os.path.join(extract.REPO, 'supervisor/dispatchers.py')).read())
    etree = ast.parse(open(os.path.join(extract.REPO, 'supervisor/events.py')).read())
    out = ['/-- one effect of add_process_group / remove_process_group, in source order -/',
           'inductive Step where',
           '  | call (f : String)          -- an opaque call (it can raise; nothing else is assumed of it)',
           '  | insertMade (f : String)    -- self.process_groups[name] = config.<f>()   (nothing is stored when <f> raises)',
           '  | delete                     -- del self.process_groups[name]',
           '  | notify (cls : String)      -- events.notify(events.<cls>(name))',
           '  | ret (b : Bool)',
           '  | retIfUnstopped (b : Bool)  -- if self.process_groups[name].get_unstopped_processes(): return <b>',
           'deriving DecidableEq, Repr', '']
    test, absent, present = _add_group(stree)
    out.append('-- Supervisor.add_process_group: membership test `%s`; the statements executed when the name is absent / present' % test)
    out.append('def addWhenAbsent : List Step := [%s]' % ', '.join(absent))
    out.append('def addWhenPresent : List Step := [%s]' % ', '.join(present))
    rf = find_func(stree, 'Supervisor.remove_process_group')
    nv = _name_var(rf)
    out.append('-- Supervisor.remove_process_group')
    out.append('def removeSteps : List Step := [%s]' % ', '.join(_steps(rf.body, nv)))
    out += ['', '/-- one top-level statement of Subprocess.finish that matters for what is announced, in source order -/',
            'inductive FStep where',
            '  | drain              -- self.drain()',
            '  | flush              -- for dispatcher in self.dispatchers.values(): dispatcher.record_output(eof=True)',
            '  | stateChange        -- the statement holding the self.change_state(...) calls',
            '  | pidReset           -- self.pid = 0',
            '  | closePipes | dropDispatchers',
            '  | other (what : String)',
            'deriving DecidableEq, Repr',
            'def finishSteps : List FStep := [%s]' % ', '.join(_finish_steps(ptree))]
    out += ['', '/-- Subprocess.change_state, in source order -/',
            'inductive CStep where',
            '  | readOld | retIfSame | setState | bumpBackoffIfBackoff | makeEvent | notify',
            'deriving DecidableEq, Repr',
            'def changeStateSteps : List CStep := [%s]' % ', '.join(_change_state_steps(ptree))]
    rtree = ast.parse(open(os.path.join(extract.REPO, 'supervisor/rpcinterface.py')).read())
    out.append('')
    for lean, method, callee in (('rpcAdd', 'addProcessGroup', 'self.supervisord.add_process_group'),
                                 ('rpcRemove', 'removeProcessGroup', 'self.supervisord.remove_process_group')):
        caught, (fn, fc) = _rpc_wrapper(rtree, method, callee)
        out.append('-- rpcinterface.py %s: exception classes caught around %s(...) and the fault answered for each: %s; a false result is answered %s' % (
            method, callee, ', '.join('%s -> Faults.%s' % (c, n) for c, n, _ in caught) or 'none', 'Faults.' + fn))
        out.append('def %sCaught : List (String × Int) := [%s]' % (lean, ', '.join('(%s, %d)' % (lean_str(c), code) for c, _, code in caught)))
        out.append('def %sFalse : Int := %d' % (lean, fc))
    rows, binds = _output_event_sites(dtree, etree)
    out += ['', '-- dispatchers.py POutputDispatcher: every output event constructed and notified: (method, class, process argument, pid argument)',
            'def outputEventSites : List (String × String × String × String) := [%s]' % ', '.join(
                '(%s, %s, %s, %s)' % tuple(lean_str(x) for x in r) for r in rows)]
    for cls, params, b in binds:
        out.append('-- events.py %s.__init__(self, %s): %s' % (cls, ', '.join(params), '; '.join('self.%s = %s' % x for x in b)))
        out.append('def %sCtorParams : List String := [%s]' % (cls[0].lower() + cls[1:], ', '.join(lean_str(x) for x in params)))
        out.append('def %sCtorBinds : List (String × String) := [%s]' % (cls[0].lower() + cls[1:], ', '.join('(%s, %s)' % (lean_str(a), lean_str(c)) for a, c in b)))
    return out
