import SupervisorModel.Model.ProcOps
import SupervisorModel.Lemmas.ProcDefs
/-
  The observer of C01 (`edge`, `intoUnknown`, `replay`), the relation `Chain` between two states
  of one process ("the outputs only grew, and the new notifications replay from the old state to
  the new one") and the proof that every method of the process model satisfies it.  The names live
  in `Sv.Props.C01` (Props/C01.lean states the property with them); they are here so that the
  daemon-level lift (Lemmas/SupChain.lean) can use them without an import cycle.
-/
set_option linter.unusedSimpArgs false
namespace Sv.Props.C01
open Sv Sv.Proc Sv.Gen.Proc

/-- the documented graph (edge list of the property statement / docs/subprocess.rst) -/
def edge : PS → PS → Bool
  | .stopped, .starting => true
  | .starting, .running => true | .starting, .backoff => true | .starting, .stopping => true
  | .running, .stopping => true | .running, .exited => true
  | .backoff, .starting => true | .backoff, .fatal => true | .backoff, .stopped => true
  | .stopping, .stopped => true
  | .exited, .starting => true
  | .fatal, .starting => true
  | _, _ => false

/-- the only way into UNKNOWN: from a state in which a signal can be delivered -/
def intoUnknown (frm to : PS) : Bool := to == .unknown && frm ∈ signallableStates

/-- An observer replaying the notifications: each PROCESS_STATE notification must name the
    observer's current state as the state left and be a documented edge (or the signalling-failure
    edge into UNKNOWN); other outputs do not change the state.  `none` = the observer was misled. -/
def replay : PS → List Out → Option PS
  | st, [] => some st
  | st, .ev to frm _ _ _ :: r =>
      if frm = st ∧ (edge st to = true ∨ intoUnknown st to = true) then replay to r else none
  | st, _ :: r => replay st r


theorem replay_append (st : PS) (a b : List Out) :
    replay st (a ++ b) = (replay st a).bind (fun st' => replay st' b) := by
  induction a generalizing st with
  | nil => simp [replay]
  | cons x xs ih =>
    cases x <;> simp [replay, ih]
    split <;> simp [ih]

/-- `s'` extends `s` by outputs whose notifications replay from `s`'s state to `s'`'s state -/
def Chain (s s' : S) : Prop :=
  s.outs <+: s'.outs ∧ replay s.p.state (s'.outs.drop s.outs.length) = some s'.p.state

theorem chain_refl (s : S) : Chain s s := by simp [Chain, replay]

theorem chain_trans {a b c : S} (h1 : Chain a b) (h2 : Chain b c) : Chain a c := by
  obtain ⟨⟨x, hx⟩, r1⟩ := h1
  obtain ⟨⟨y, hy⟩, r2⟩ := h2
  have e1 : b.outs.drop a.outs.length = x := by rw [← hx]; simp
  have e2 : c.outs.drop b.outs.length = y := by rw [← hy]; simp
  have e3 : c.outs.drop a.outs.length = x ++ y := by rw [← hy, ← hx, List.append_assoc]; simp
  rw [e1] at r1
  rw [e2] at r2
  refine ⟨⟨x ++ y, by rw [← hy, ← hx, List.append_assoc]⟩, ?_⟩
  rw [e3, replay_append, r1]
  simpa using r2

theorem kill_chain (cfg : Cfg) (now sig : Int) (kr : KillRes) (s : S) : Chain s (kill cfg now sig kr s) := by
  obtain ⟨p, os, err⟩ := s
  cases err with
  | some e => simp [kill, guard, Chain, replay]
  | none =>
  cases hs : p.state <;> cases kr <;> by_cases hp : p.pid = 0 <;>
    simp [Chain, kill, changeState, assertIn, emit, setP, guard, replay, edge, intoUnknown, hs, hp,
      kill_g0, kill_g1, kill_g2, kill_g4, kill_a7, kill_a8, kill_a11, kill_a12, kill_a13, kill_a14, kill_a19, kill_a20,
      kill_c0_0, kill_c1, kill_c2_0, kill_c3_0, kill_c3_1, kill_c4_0, change_state_g0, change_state_g1, change_state_a0,
      change_state_a2, change_state_a4, change_state_a5, signallableStates]

theorem rollback_state (cfg : Cfg) (now : Int) (p : Proc) : (rollback cfg now p).state = p.state := by
  simp only [rollback]
  repeat' split
  all_goals rfl

theorem spawn_chain (cfg : Cfg) (now : Int) (res : SpawnRes) (s : S) : Chain s (spawn cfg now res s) := by
  obtain ⟨p, os, err⟩ := s
  cases err with
  | some e => simp [spawn, guard, Chain, replay]
  | none =>
  cases hs : p.state <;> cases res <;> by_cases hp : p.pid = 0 <;>
    simp [Chain, spawn, spawnError, changeState, assertIn, emit, setP, guard, replay, edge, intoUnknown, hs, hp,
      spawn_g0, spawn_g3, spawn_a3, spawn_a6, spawn_a7, spawn_a8, spawn_c0, spawn_c1_0, spawn_c2, spawn_c3_0, spawn_c4,
      spawn_c5_0, spawn_c6, spawn_c7_0, spawn_as_parent_a0, spawn_as_parent_a3,
      change_state_g0, change_state_g1, change_state_a0, change_state_a2, change_state_a4, change_state_a5, signallableStates]
  all_goals (split <;> simp [replay, edge, intoUnknown])

theorem giveUp_chain (cfg : Cfg) (now : Int) (s : S) : Chain s (giveUp cfg now s) := by
  obtain ⟨p, os, err⟩ := s
  cases err with
  | some e => simp [giveUp, guard, Chain, replay]
  | none =>
  cases hs : p.state <;>
    simp [Chain, giveUp, changeState, assertIn, emit, setP, guard, replay, edge, intoUnknown, hs,
      give_up_a0, give_up_a1, give_up_a2, give_up_c0, give_up_c1_0,
      change_state_g0, change_state_g1, change_state_a0, change_state_a2, change_state_a4, change_state_a5, signallableStates]

theorem signal_chain (cfg : Cfg) (now sig : Int) (kr : KillRes) (s : S) : Chain s (signal cfg now sig kr s) := by
  obtain ⟨p, os, err⟩ := s
  cases err with
  | some e => simp [signal, guard, Chain, replay]
  | none =>
  cases hs : p.state <;> cases kr <;> by_cases hp : p.pid = 0 <;>
    simp [Chain, signal, changeState, assertIn, emit, setP, guard, replay, edge, intoUnknown, hs, hp,
      signal_g0, signal_c0, signal_c1_0, signal_c1_1, signal_c2_0,
      change_state_g0, change_state_g1, change_state_a0, change_state_a2, change_state_a4, change_state_a5, signallableStates]

/-- a state-preserving field update is invisible to the observer -/
theorem setP_chain (f : Proc → Proc) (hf : ∀ p, (f p).state = p.state) (s : S) : Chain s (setP f s) := by
  obtain ⟨p, os, err⟩ := s
  cases err <;> simp [Chain, setP, guard, replay, hf]

def isEv : Out → Bool
  | .ev .. => true
  | _ => false

theorem emit_chain (o : Out) (ho : isEv o = false) (s : S) : Chain s (emit o s) := by
  obtain ⟨p, os, err⟩ := s
  cases err with
  | some e => simp [Chain, emit, guard, replay]
  | none => cases o <;> simp_all [Chain, emit, guard, replay, isEv]

theorem stop_chain (cfg : Cfg) (now : Int) (kr : KillRes) (s : S) : Chain s (stop cfg now kr s) := by
  rw [stop, guard]
  split
  · exact chain_refl s
  · dsimp only
    refine chain_trans ?_ (kill_chain ..)
    apply setP_chain; intro _; rfl

theorem finishCore_chain (cfg : Cfg) (e : Env) (busy : Bool) (s : S) : Chain s (finishCore cfg e busy s) := by
  obtain ⟨p, os, err⟩ := s
  cases err with
  | some e => simp [finishCore, guard, Chain, replay]
  | none =>
  cases hs : p.state <;> cases busy <;> cases hk : p.killing <;> cases ht : e.tooQuickly <;> cases hx : e.exitExpected <;>
    simp [Chain, finishCore, changeState, assertIn, emit, setP, guard, replay, edge, intoUnknown, hs, hk, ht, hx,
      finish_g1, finish_g2, finish_a7, finish_a8, finish_a9, finish_g4, finish_g5, finish_g6, finish_a11, finish_a12,
      finish_a13, finish_a18, finish_a19, finish_a20, finish_a24, finish_c0, finish_c1_0, finish_c2, finish_c3_0, finish_c4_0,
      finish_c5, finish_c6_0, finish_c6_1, finish_c7_0, finish_c7_1,
      change_state_g0, change_state_g1, change_state_a0, change_state_a2, change_state_a4, change_state_a5, signallableStates]

theorem finish_chain (cfg : Cfg) (now es : Int) (busy : Bool) (s : S) : Chain s (finish cfg now es busy s) := by
  rw [finish, guard]
  split
  · exact chain_refl s
  · dsimp only
    refine chain_trans ?_ (finishCore_chain ..)
    refine chain_trans (b := setP (rollback cfg now) s) ?_ ?_
    · exact setP_chain _ (rollback_state cfg now) s
    · apply setP_chain; intro _; rfl

theorem autoStart_chain (cfg : Cfg) (e : Env) (res : SpawnRes) (s : S) : Chain s (autoStart cfg e res s) := by
  rw [autoStart, guard]
  repeat' split
  all_goals first | exact chain_refl s | exact spawn_chain ..

theorem toRunning_chain (cfg : Cfg) (e : Env) (s : S) : Chain s (toRunning cfg e s) := by
  obtain ⟨p, os, err⟩ := s
  cases err with
  | some e => simp [toRunning, guard, Chain, replay]
  | none =>
  cases hs : p.state <;> cases h10 : transition_g10 p cfg e <;> cases h11 : transition_g11 p cfg e <;>
    simp [Chain, toRunning, changeState, assertIn, emit, setP, guard, replay, edge, intoUnknown, hs, h10, h11,
      transition_a4, transition_a5, transition_c0, transition_c1_0,
      change_state_g0, change_state_g1, change_state_a0, change_state_a2, change_state_a4, change_state_a5, signallableStates]

theorem escalate_chain (cfg : Cfg) (e : Env) (kr : KillRes) (s : S) : Chain s (escalate cfg e kr s) := by
  rw [escalate, guard]
  repeat' split
  all_goals first | exact chain_refl s | exact giveUp_chain .. | exact kill_chain ..

theorem transition_chain (cfg : Cfg) (now mood : Int) (res : SpawnRes) (kr : KillRes) (s : S) :
    Chain s (transition cfg now mood res kr s) := by
  rw [transition, guard]
  split
  · exact chain_refl s
  · dsimp only
    refine chain_trans ?_ (escalate_chain ..)
    refine chain_trans ?_ (toRunning_chain ..)
    refine chain_trans ?_ (autoStart_chain ..)
    exact setP_chain _ (rollback_state cfg now) s

theorem answer_chain (c : Int) (s : S) : Chain s (answer c s) := emit_chain _ rfl s

theorem stopReport_chain (cfg : Cfg) (now : Int) (s : S) : Chain s (stopReport cfg now s) := by
  rw [stopReport, guard]
  split
  · exact chain_refl s
  · dsimp only
    split
    · refine chain_trans (b := setP (rollback cfg now) s) ?_ ?_
      · exact setP_chain _ (rollback_state cfg now) s
      · apply setP_chain; intro p; split <;> rfl
    · exact chain_refl s

theorem rpcStart_chain (cfg : Cfg) (now mood : Int) (res : SpawnRes) (s : S) : Chain s (rpcStart cfg now mood res s) := by
  rw [rpcStart, guard]
  dsimp only
  repeat' split
  all_goals first
    | exact chain_refl s
    | exact answer_chain ..
    | exact chain_trans (spawn_chain ..) (answer_chain ..)
    | (refine chain_trans ?_ (answer_chain ..); exact chain_trans (spawn_chain ..) (transition_chain ..))

theorem rpcStop_chain (cfg : Cfg) (now mood : Int) (kr : KillRes) (s : S) : Chain s (rpcStop cfg now mood kr s) := by
  rw [rpcStop, guard]
  repeat' split
  all_goals first
    | exact chain_refl s
    | exact answer_chain ..
    | exact chain_trans (stop_chain ..) (answer_chain ..)

theorem rpcSignal_chain (cfg : Cfg) (now mood sig : Int) (kr : KillRes) (s : S) : Chain s (rpcSignal cfg now mood sig kr s) := by
  rw [rpcSignal, guard]
  repeat' split
  all_goals first
    | exact chain_refl s
    | exact answer_chain ..
    | exact chain_trans (signal_chain ..) (answer_chain ..)

theorem groupStop_chain (cfg : Cfg) (now : Int) (kr : KillRes) (s : S) : Chain s (groupStop cfg now kr s) := by
  rw [groupStop, guard]
  repeat' split
  all_goals first
    | exact chain_refl s
    | exact stop_chain ..
    | exact giveUp_chain ..

end Sv.Props.C01
