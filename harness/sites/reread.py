"""
Config equality as coded (supervisor/options.py, supervisor/datatypes.py): the attribute names each __eq__ compares.
  pconfigEqAttrs : ProcessConfig.req_param_names + optional_param_names (the loop of ProcessConfig.__eq__)
  groupEqAttrs / poolEqAttrs / fcgiEqAttrs / socketEqAttrs : the `self.<attr>` operands of the comparisons in
      ProcessGroupConfig.__eq__, EventListenerPoolConfig.__eq__, FastCGIGroupConfig.__eq__, SocketConfig.__eq__
  eqBaseClass : the class named in each `isinstance(other, X)` guard
Dropping an attribute from a comparison changes a table and breaks Props/C15 `eq_characterised`.
"""
import ast, os
from extract import REPO, lean_str

LEAN_MODULE = 'Reread'
IMPORTS = []
OPENS = []


def _cls(tree, name):
    return next(n for n in tree.body if isinstance(n, ast.ClassDef) and n.name == name)


def _meth(cls, name):
    return next(n for n in cls.body if isinstance(n, ast.FunctionDef) and n.name == name)


def _self_attrs(fn):
    out = []
    for n in ast.walk(fn):
        if isinstance(n, ast.Compare):
            for e in [n.left] + n.comparators:
                if isinstance(e, ast.Attribute) and isinstance(e.value, ast.Name) and e.value.id == 'self' and e.attr not in out:
                    out.append(e.attr)
    return out


def _isinstance(fn):
    for n in ast.walk(fn):
        if isinstance(n, ast.Call) and isinstance(n.func, ast.Name) and n.func.id == 'isinstance':
            return ast.unparse(n.args[1])
    return ''


def _strlist(cls, name):
    for st in cls.body:
        if isinstance(st, ast.Assign) and st.targets[0].id == name:
            return [e.value for e in st.value.elts]
    raise KeyError(name)


def TABLES():
    opt = ast.parse(open(os.path.join(REPO, 'supervisor/options.py')).read())
    dt = ast.parse(open(os.path.join(REPO, 'supervisor/datatypes.py')).read())
    pc = _cls(opt, 'ProcessConfig')
    eq = _meth(pc, '__eq__')
    # the loop `for name in self.req_param_names + self.optional_param_names`
    loop = next(n for n in ast.walk(eq) if isinstance(n, ast.For))
    parts = [e.attr for e in ast.walk(loop.iter) if isinstance(e, ast.Attribute) and e.attr.endswith('_param_names')]
    names = []
    for p in parts:
        names += _strlist(pc, p)
    L = []
    def lst(n, xs):
        L.append('def %s : List String := [%s]' % (n, ', '.join(lean_str(x) for x in xs)))
    lst('pconfigEqAttrs', names)
    wild = any(isinstance(n, ast.Name) and n.id == 'Automatic' for n in ast.walk(loop))
    L.append('def pconfigEqAutomaticWildcard : Bool := %s' % ('true' if wild else 'false'))
    bases = []
    for cname, tname, tree in (('ProcessGroupConfig', 'groupEqAttrs', opt), ('EventListenerPoolConfig', 'poolEqAttrs', opt),
                               ('FastCGIGroupConfig', 'fcgiEqAttrs', opt), ('SocketConfig', 'socketEqAttrs', dt)):
        fn = _meth(_cls(tree, cname), '__eq__')
        lst(tname, _self_attrs(fn))
        bases.append((cname, _isinstance(fn)))
    bases.append(('ProcessConfig', _isinstance(eq)))
    L.append('def eqBaseClass : List (String × String) := [%s]' % ', '.join('(%s, %s)' % (lean_str(a), lean_str(b)) for a, b in bases))
    fc = _meth(_cls(opt, 'FastCGIGroupConfig'), '__eq__')
    delegates = any(isinstance(n, ast.Attribute) and n.attr == '__eq__' and isinstance(n.value, ast.Name) and n.value.id == 'ProcessGroupConfig'
                    for n in ast.walk(fc))
    L.append('def fcgiEqDelegatesToGroup : Bool := %s' % ('true' if delegates else 'false'))
    # class hierarchy facts used by isinstance
    def bases_of(c):
        return [ast.unparse(b) for b in _cls(opt, c).bases]
    L.append('def classBases : List (String × List String) := [%s]' % ', '.join(
        '(%s, [%s])' % (lean_str(c), ', '.join(lean_str(b) for b in bases_of(c)))
        for c in ('ProcessConfig', 'EventListenerConfig', 'FastCGIProcessConfig', 'ProcessGroupConfig', 'EventListenerPoolConfig', 'FastCGIGroupConfig')))
    # ServerOptions.process_config: is the freshly parsed list installed unconditionally?
    pc2 = _meth(_cls(opt, 'ServerOptions'), 'process_config')
    guards, found = [], [False]
    def walk(stmts, tests):
        for st in stmts:
            if isinstance(st, ast.Assign) and any(isinstance(t, ast.Attribute) and t.attr == 'process_group_configs'
                                                  and isinstance(t.value, ast.Name) and t.value.id == 'self' for t in st.targets):
                found[0] = True
                guards.extend(tests)
            for field, neg in (('body', False), ('orelse', True)):
                b = getattr(st, field, None)
                if isinstance(b, list) and b and isinstance(b[0], ast.stmt):
                    t = getattr(st, 'test', None)
                    extra = []
                    if isinstance(st, (ast.If, ast.While)) and t is not None:
                        extra = [('not (%s)' % ast.unparse(t)) if neg else ast.unparse(t)]
                    elif not isinstance(st, (ast.If, ast.While)):
                        extra = ['<%s>' % type(st).__name__]
                    walk(b, tests + extra)
            if isinstance(st, ast.Try):
                for h in st.handlers:
                    walk(h.body, tests + ['<except>'])
    walk(pc2.body, [])
    # local names are resolved one step (new = self.configroot.supervisord.process_group_configs)
    L.append('/-- ServerOptions.process_config: does it assign self.process_group_configs, and under which tests -/')
    L.append('def processConfigInstalls : Bool := %s' % ('true' if found[0] else 'false'))
    lst('processConfigInstallGuards', guards)
    return L


SITES = []
